(* Proofs/BulkProofs.v — invariants of the pool bulk program (Model/Bulk.v) for every worker
   count, shape, set of throwing indices, completing worker and schedule. *)
From Coq Require Import List NArith ZArith Bool Lia Arith.
From Pika Require Import Base.Conc Model.IndexQueue Proofs.IndexQueueProofs Model.Bulk Proofs.BulkArith.
Import ListNotations.
Local Open Scope N_scope.

(* ------------------------------------------------------------------ one pop step *)
Definition pc_ok (p : iq_pc) : Prop := match p with Idle => True | Loaded _ e => first e < last e end.

Lemma has_none_cons e lg : has_none lg -> has_none (e :: lg).
Proof. intros [x [Hi Hx]]. exists x. split; [now right|exact Hx]. Qed.

Lemma pop_step_spec f0 l0 o t qs s p qs' r :
  IQInv f0 l0 qs -> pc_ok p -> pop_step o t qs s p = (qs', r) ->
  IQInv f0 l0 qs' /\
  (has_none (iqlog qs) -> has_none (iqlog qs')) /\
  match r with
  | inl p' => pc_ok p' /\ popped (iqlog qs') = popped (iqlog qs)
  | inr (Some x) => popped (iqlog qs') = x :: popped (iqlog qs)
  | inr None => popped (iqlog qs') = popped (iqlog qs) /\ has_none (iqlog qs')
  end.
Proof.
  intros HI Hp E.
  assert (Hl : loc_ok {| todo := [s]; pc := p |}) by (unfold loc_ok; cbn [pc]; destruct p; auto).
  pose proof (iq_step_inv f0 l0 o t qs _ HI Hl) as [HI' Hl'].
  unfold pop_step in E. unfold loc_ok in Hl'. revert E HI' Hl'. unfold iq_tstep. cbn [pc todo tl].
  assert (Hnone : forall sd, has_none (iqlog (log_ev qs t sd None))).
  { intros sd. cbn [log_ev iqlog]. eexists. split; [left; reflexivity|reflexivity]. }
  destruct p as [|s0 e].
  - destruct (range_empty (cur qs)) eqn:He; cbn [todo pc iqlog log_ev fst snd]; intros E HI' Hl';
      inversion E; subst; clear E; cbn [log_ev iqlog ev_res] in *.
    + split; [exact HI'|]. split; [apply has_none_cons|]. rewrite popped_cons. split; [reflexivity|apply (Hnone s)].
    + split; [exact HI'|]. split; [auto|]. split; [exact Hl'|reflexivity].
  - destruct (range_eqb e (cur qs) && negb o) eqn:Hc.
    + destruct s0; cbn [todo pc iqlog log_ev fst snd ev_res]; intros E HI' Hl'; inversion E; subst; clear E;
        cbn [log_ev iqlog ev_res] in *;
        (split; [exact HI'|]); (split; [apply has_none_cons|]); rewrite popped_cons; reflexivity.
    + destruct (range_empty (cur qs)) eqn:He; cbn [todo pc iqlog log_ev fst snd ev_res]; intros E HI' Hl';
        inversion E; subst; clear E; cbn [log_ev iqlog ev_res] in *.
      * split; [exact HI'|]. split; [apply has_none_cons|]. rewrite popped_cons. split; [reflexivity|apply (Hnone s0)].
      * split; [exact HI'|]. split; [auto|]. split; [exact Hl'|reflexivity].
Qed.

(* a NoDup list of W naturals below W contains every natural below W *)
Lemma pigeon (l : list nat) (W : nat) :
  NoDup l -> (forall w, In w l -> (w < W)%nat) -> length l = W -> forall w, (w < W)%nat -> In w l.
Proof.
  intros Hn Hlt Hlen w Hw.
  assert (Hincl : incl l (seq 0 W)) by (intros x Hx; apply in_seq; specialize (Hlt x Hx); lia).
  assert (H : incl (seq 0 W) l).
  { apply NoDup_length_incl; [exact Hn| rewrite seq_length; lia | exact Hincl]. }
  apply H. apply in_seq. lia.
Qed.

Lemma mod_cover (W t q : nat) : (q < W)%nat -> exists off, (off < W)%nat /\ ((t + off) mod W = q)%nat.
Proof.
  intros Hq. exists ((q + W - t mod W) mod W)%nat. split; [apply Nat.mod_upper_bound; lia|].
  rewrite Nat.add_mod_idemp_r by lia.
  pose proof (Nat.mod_upper_bound t W ltac:(lia)) as Ht.
  rewrite (Nat.div_mod t W) at 1 by lia.
  replace (W * (t / W) + t mod W + (q + W - t mod W))%nat with (q + (t / W + 1) * W)%nat by lia.
  rewrite Nat.mod_add by lia. apply Nat.mod_small. exact Hq.
Qed.

(* ------------------------------------------------------------------ the running phase (n > 0) *)
Section Running.
  Variable cf : cfg.
  Local Notation W := (cW cf).
  Local Notation Wn := (N.of_nat (cW cf)).
  Local Notation n := (cn cf).
  Local Notation bits := (cbits cf).
  Local Notation loc := (clocal cf).
  Hypothesis HW : W_ok Wn.
  Hypothesis Hloc : (loc < W)%nat.
  Hypothesis Hbits : bits <= 64.
  Hypothesis Hn : n < 2 ^ bits.
  Hypothesis Hn0 : 0 < n.
  Variable c : N.
  Hypothesis Hc : get_chunk_size Wn n = Some c.
  Hypothesis Hck : chunk_ok Wn n c.
  Local Notation k := (cdiv n c).

  Definition pb (q : nat) : N := pbeg Wn k (N.of_nat q).
  Definition pe (q : nat) : N := pbeg Wn k (N.of_nat q + 1).
  Definition lo (idx : N) : N := idx * c.
  Definition hi (idx : N) : N := N.min ((idx + 1) * c) n.

  Lemma Hn64 : n < 2 ^ 64.
  Proof. pose proof (pow2_mono bits 64 Hbits). lia. Qed.
  Lemma Hcpos : 0 < c. Proof. apply (ck_pos _ _ _ Hck). Qed.
  Lemma Hk : get_num_chunks n c = k /\ 0 < k <= 8 * Wn.
  Proof. apply (get_num_chunks_eq Wn n c HW Hn0 Hn64 Hck). Qed.
  Lemma Hk32 : k < 2 ^ 32.
  Proof.
    destruct Hk as [_ H]. destruct HW as [_ H2].
    assert (E29 : 2 ^ 29 = 536870912) by reflexivity.
    assert (E32 : 2 ^ 32 = 4294967296) by reflexivity. lia.
  Qed.
  Lemma HWpos : (0 < W)%nat. Proof. destruct HW. lia. Qed.

  Lemma pb_le_pe q : pb q <= pe q.
  Proof. unfold pb, pe. apply pbeg_mono; destruct HW; lia. Qed.
  Lemma pe_le_k q : (q < W)%nat -> pe q <= k.
  Proof.
    intros Hq. unfold pe. rewrite <- (pbeg_W Wn k) at 2 by (destruct HW; lia).
    apply pbeg_mono; destruct HW; lia.
  Qed.

  Lemma lo_hi_unique idx idx' j : lo idx <= j < hi idx -> lo idx' <= j < hi idx' -> idx = idx'.
  Proof.
    unfold lo, hi. intros H1 H2.
    destruct (chunk_unique c n idx j Hcpos H1) as [E1 _].
    destruct (chunk_unique c n idx' j Hcpos H2) as [E2 _]. congruence.
  Qed.

  Definition owns (l : bpc) : option N :=
    match l with BRun _ idx _ _ | BCall _ idx _ _ => Some idx | _ => None end.
  Definition chunk_popped (g : bshared) (idx : N) : Prop :=
    exists q, (q < W)%nat /\ In idx (popped (iqlog (queues g q))).
  Definition seen_none (g : bshared) (t off : nat) : Prop :=
    forall off', (off' < off)%nat -> has_none (iqlog (queues g ((t + off') mod W)%nat)).
  Definition drained (g : bshared) : Prop := forall q, (q < W)%nat -> has_none (iqlog (queues g q)).
  Definition dr_or_thrown (g : bshared) (t : nat) : Prop := t = loc -> drained g \/ thrown g <> [].
  Definition frontier (l : bpc) : option nat :=
    match l with
    | BSpawn f | BDec (KSpawn f) => Some f
    | BSig (KSpawn f) => Some (S f)
    | _ => None end.
  Definition in_spawn (l : bpc) : bool :=
    match l with BEntry | BSpawn _ | BDec (KSpawn _) | BSig (KSpawn _) => true | _ => false end.

  Definition twf (g : bshared) (t : nat) (l : bpc) : Prop :=
    match l with
    | BEntry => False
    | BIdle => t <> loc
    | BSpawn w => t = loc /\ (w <= W)%nat
    | BPop off p => (t < W)%nat /\ (off < W)%nat /\ pc_ok p /\ seen_none g t off
    | BRun off idx i e =>
        (t < W)%nat /\ (off < W)%nat /\ seen_none g t off /\ chunk_popped g idx /\
        lo idx <= i <= e /\ e = hi idx /\
        (forall j, lo idx <= j < i -> called g j) /\ (forall j, i <= j < e -> ~ called g j)
    | BCall off idx i e =>
        (t < W)%nat /\ (off < W)%nat /\ seen_none g t off /\ chunk_popped g idx /\
        lo idx <= i < e /\ e = hi idx /\
        (forall j, lo idx <= j <= i -> called g j) /\ (forall j, i < j < e -> ~ called g j) /\
        ~ In i (exits g)
    | BExch x => (t < W)%nat /\ In x (thrown g)
    | BStore x => (t < W)%nat /\ In x (thrown g) /\ exc_flag g = true
    | BDec (KSpawn w) => t = loc /\ (w < W)%nat /\ w <> loc
    | BDec KEnd => (t < W)%nat /\ dr_or_thrown g t
    | BSig (KSpawn w) => t = loc /\ (w < W)%nat /\ remaining g = 0 /\ sigs g = []
    | BSig KEnd => (t < W)%nat /\ remaining g = 0 /\ sigs g = [] /\ dr_or_thrown g t
    | BDone => dr_or_thrown g t
    end.

  Definition is_call (j : N) (l : bpc) : Prop := match l with BCall _ _ j' _ => j' = j | _ => False end.
  Definition is_exch (l : bpc) : Prop := match l with BExch _ => True | _ => False end.
  Definition is_store (l : bpc) : Prop := match l with BStore _ => True | _ => False end.
  Definition is_sig (l : bpc) : Prop := match l with BSig _ => True | _ => False end.

  Definition quiet (g : bshared) (ls : nat -> bpc) (w : nat) : Prop :=
    ls w = BDone \/ ls w = BSig KEnd \/ (ls w = BIdle /\ spawned g w = false /\ w <> loc).

  Definition sig_good (g : bshared) (s : sig_ev) : Prop :=
    sg_calls s = length (calls g) /\ sg_exits s = length (exits g) /\ length (calls g) = length (exits g) /\
    match sg s with
    | SValue v => v = cvals cf /\ thrown g = [] /\ (forall j, j < n -> called g j)
    | SError (Some y) => In y (thrown g)
    | SError None => False
    | SBad => False
    end.

  Record Inv (g : bshared) (ls : nat -> bpc) : Prop := {
    i_csz : csz g = c;
    i_ts : ts g = Some (cvals cf);
    i_q : forall q, (q < W)%nat -> IQInv (pb q) (pe q) (queues g q);
    i_twf : forall t, twf g t (ls t);
    i_calls_nodup : NoDup (map fst (calls g));
    i_calls : forall j v, In (j, v) (calls g) -> j < n /\ v = Some (cvals cf) /\ chunk_popped g (j / c);
    i_own : forall t t' idx, t <> t' -> owns (ls t) = Some idx -> owns (ls t') <> Some idx;
    i_rem : remaining g + N.of_nat (length (fin g)) = Wn;
    i_fin_nodup : NoDup (fin g);
    i_fin_lt : forall w, In w (fin g) -> (w < W)%nat;
    i_fin_quiet : forall w, In w (fin g) -> quiet g ls w;
    i_front : forall f, frontier (ls loc) = Some f -> forall w, (f <= w)%nat -> ~ In w (fin g) /\ spawned g w = false;
    i_front_local : in_spawn (ls loc) = true -> ~ In loc (fin g);
    i_spawned : forall w, spawned g w = true -> (w < W)%nat /\ w <> loc;
    i_idle : forall t, t <> loc -> spawned g t = false -> ls t = BIdle;
    i_full : forall idx, chunk_popped g idx ->
      (exists t, owns (ls t) = Some idx) \/ (forall j, lo idx <= j < hi idx -> called g j) \/ thrown g <> [];
    i_exits_nodup : NoDup (exits g);
    i_exits : forall j, In j (exits g) -> called g j;
    i_inflight : forall j, called g j -> In j (exits g) \/ exists t, is_call j (ls t);
    i_thrown : forall x, In x (thrown g) -> called g x /\ cthrows cf x = true;
    i_latch1 : thrown g <> [] -> exc_flag g = true \/ exists t, is_exch (ls t);
    i_latch2 : exc_flag g = true -> (exists y, exc g = Some y /\ In y (thrown g)) \/ exists t, is_store (ls t);
    i_sig : sigs g = [] \/ exists s, sigs g = [s] /\ remaining g = 0 /\ sig_good g s;
    i_sig1 : forall t t', t <> t' -> is_sig (ls t) -> ~ is_sig (ls t')
  }.

  (* ---- consequences used in several cases ---- *)
  Lemma called_in g j : called g j <-> exists v, In (j, v) (calls g).
  Proof.
    unfold called. rewrite in_map_iff. split.
    - intros [[j' v] [E Hin]]. cbn in E. subst. now exists v.
    - intros [v Hin]. exists (j, v). split; [reflexivity|exact Hin].
  Qed.

  Lemma popped_range g q x : (q < W)%nat -> IQInv (pb q) (pe q) (queues g q) ->
    In x (popped (iqlog (queues g q))) -> pb q <= x < pe q.
  Proof.
    intros Hq HI Hin. destruct HI as [A B C D E F G H]. apply E in Hin. lia.
  Qed.

  Lemma popped_lt_k g ls idx : Inv g ls -> chunk_popped g idx -> idx < k.
  Proof.
    intros HI [q [Hq Hin]]. pose proof (popped_range g q idx Hq (i_q g ls HI q Hq) Hin).
    pose proof (pe_le_k q Hq). lia.
  Qed.

  Lemma chunk_facts idx : idx < k ->
    chunk_begin bits c idx = lo idx /\ chunk_end bits c n idx = hi idx /\ lo idx < hi idx /\ hi idx <= n.
  Proof.
    intros Hi. pose proof Hk32.
    destruct (chunk_range_eq bits n c idx Hcpos (ck_le _ _ _ Hck) Hn Hbits Hi ltac:(lia)) as [A [B C]].
    unfold lo, hi. repeat split; auto. lia.
  Qed.

  Lemma all_fin g ls : Inv g ls -> remaining g = 0 -> forall w, (w < W)%nat -> In w (fin g).
  Proof.
    intros HI Hr. apply pigeon; [apply (i_fin_nodup g ls HI)|apply (i_fin_lt g ls HI)|].
    pose proof (i_rem g ls HI). lia.
  Qed.

  Definition active (l : bpc) : Prop :=
    match l with
    | BPop _ _ | BRun _ _ _ _ | BCall _ _ _ _ | BExch _ | BStore _ | BDec _ | BSpawn _ | BEntry | BSig (KSpawn _) => True
    | _ => False end.

  Lemma active_lt g ls t : Inv g ls -> active (ls t) -> (t < W)%nat.
  Proof.
    intros HI Ha. pose proof (i_twf g ls HI t) as H. destruct (ls t) as [| |w|off p|off idx i e|off idx i e|x|x|[w|]|[w|]|];
      cbn in Ha, H; try contradiction; try tauto; destruct H as [-> _]; exact Hloc.
  Qed.

  Lemma active_not_fin g ls t : Inv g ls -> active (ls t) -> ~ In t (fin g).
  Proof.
    intros HI Ha Hin.
    destruct (i_fin_quiet g ls HI t Hin) as [E|[E|[E _]]]; rewrite E in Ha; try exact Ha.
  Qed.

  Lemma zero_no_active g ls t : Inv g ls -> remaining g = 0 -> active (ls t) -> False.
  Proof.
    intros HI Hr Ha. apply (active_not_fin g ls t HI Ha). apply (all_fin g ls HI Hr). apply (active_lt g ls t HI Ha).
  Qed.

  Lemma spawn_phase_not_zero g ls : Inv g ls -> in_spawn (ls loc) = true -> remaining g <> 0.
  Proof.
    intros HI Hs Hr. apply (i_front_local g ls HI Hs). apply (all_fin g ls HI Hr). exact Hloc.
  Qed.

  Lemma Inv_ext g ls ls' : (forall t, ls' t = ls t) -> Inv g ls -> Inv g ls'.
  Proof.
    intros E [A1 A2 A3 A4 A5 A6 A7 A8 A9 A10 A11 A12 A13 A14 A15 A16 A17 A18 A19 A20 A21 A22 A23 A24].
    constructor; auto.
    - intros t. rewrite E. apply A4.
    - intros t t' idx. rewrite !E. apply A7.
    - intros w Hw. specialize (A11 w Hw). unfold quiet in *. rewrite E. exact A11.
    - rewrite E. exact A12.
    - rewrite E. exact A13.
    - intros t. rewrite E. apply A15.
    - intros idx Hp. destruct (A16 idx Hp) as [[t Ht]|H]; [left; exists t; now rewrite E|now right].
    - intros j Hj. destruct (A19 j Hj) as [H|[t Ht]]; [now left|right]. exists t. now rewrite E.
    - intros Ht. destruct (A21 Ht) as [H|[t Hx]]; [now left|right]. exists t. now rewrite E.
    - intros Hf. destruct (A22 Hf) as [H|[t Hx]]; [now left|right]. exists t. now rewrite E.
    - intros t t'. rewrite !E. apply A24.
  Qed.

  Lemma ex_upd (P : bpc -> Prop) (ls : nat -> bpc) t l' :
    (exists t', P (ls t')) -> (P (ls t) -> P l') -> exists t', P (upd ls t l' t').
  Proof.
    intros [t' Ht'] Hi. destruct (Nat.eq_dec t' t) as [->|Hne].
    - exists t. rewrite upd_same. auto.
    - exists t'. rewrite upd_other by exact Hne. exact Ht'.
  Qed.

  Lemma thrown_mono_ne (g g' : bshared) : (forall x, In x (thrown g) -> In x (thrown g')) -> thrown g <> [] -> thrown g' <> [].
  Proof.
    intros H Hne E. destruct (thrown g) as [|x r]; [congruence|]. specialize (H x (or_introl eq_refl)). rewrite E in H. exact H.
  Qed.

  Lemma twf_mono g g' t l :
    twf g t l ->
    (forall q x, In x (popped (iqlog (queues g q))) -> In x (popped (iqlog (queues g' q)))) ->
    (forall q, has_none (iqlog (queues g q)) -> has_none (iqlog (queues g' q))) ->
    (forall j, called g j -> called g' j) ->
    (forall idx j, owns l = Some idx -> lo idx <= j < hi idx -> called g' j -> called g j) ->
    (forall idx j, owns l = Some idx -> lo idx <= j < hi idx -> In j (exits g') -> In j (exits g)) ->
    (forall x, In x (thrown g) -> In x (thrown g')) ->
    (exc_flag g = true -> exc_flag g' = true) ->
    (is_sig l -> remaining g' = remaining g /\ sigs g' = sigs g) ->
    twf g' t l.
  Proof.
    intros H Hp Hnn Hc1 Hc2 Hx Ht Hf Hs.
    assert (Hsn : forall off, seen_none g t off -> seen_none g' t off).
    { intros off Hsn off' Ho. apply Hnn. apply Hsn. exact Ho. }
    assert (Hcp : forall idx, chunk_popped g idx -> chunk_popped g' idx).
    { intros idx [q [Hq Hin]]. exists q. split; [exact Hq|apply Hp; exact Hin]. }
    assert (Hdt : dr_or_thrown g t -> dr_or_thrown g' t).
    { intros Hd E. destruct (Hd E) as [D|D]; [left|right].
      - intros q Hq. apply Hnn. apply D. exact Hq.
      - apply (thrown_mono_ne g g' Ht D). }
    destruct l as [| |w|off p|off idx i e|off idx i e|x|x|[w|]|[w|]|]; cbn [twf] in *; auto.
    - destruct H as [A [B [C D]]]. auto.
    - destruct H as [A [B [C [D [E [F [G I]]]]]]]. repeat split; auto; try lia.
      intros j Hj Hcj. apply (I j Hj). apply (Hc2 idx j eq_refl); [subst e; lia|exact Hcj].
    - destruct H as [A [B [C [D [E [F [G [I J]]]]]]]]. repeat split; auto; try lia.
      + intros j Hj Hcj. apply (I j Hj). apply (Hc2 idx j eq_refl); [subst e; lia|exact Hcj].
      + intros Hin. apply J. apply (Hx idx i eq_refl); [subst e; lia|exact Hin].
    - destruct H as [A B]. auto.
    - destruct H as [A [B C]]. auto.
    - destruct H as [A B]. auto.
    - destruct H as [A [B [C D]]]. destruct (Hs I) as [E1 E2]. rewrite E1, E2. auto.
    - destruct H as [A [B [C D]]]. destruct (Hs I) as [E1 E2]. rewrite E1, E2. auto.
  Qed.

  (* a step that changes only the program counter of thread t *)
  Lemma Inv_local g ls t l' : Inv g ls ->
    twf g t l' ->
    (forall idx, owns l' = Some idx -> owns (ls t) = Some idx) ->
    (In t (fin g) -> l' = BDone \/ l' = BSig KEnd \/ l' = ls t) ->
    (t = loc -> forall f, frontier l' = Some f -> forall w, (f <= w)%nat -> ~ In w (fin g) /\ spawned g w = false) ->
    (t = loc -> in_spawn l' = true -> ~ In loc (fin g)) ->
    (t <> loc -> spawned g t = false -> l' = BIdle) ->
    (forall idx, owns (ls t) = Some idx -> owns l' = Some idx \/ (forall j, lo idx <= j < hi idx -> called g j) \/ thrown g <> []) ->
    (forall j, is_call j (ls t) -> is_call j l' \/ In j (exits g)) ->
    (is_exch (ls t) -> is_exch l' \/ exc_flag g = true) ->
    (is_store (ls t) -> is_store l' \/ exists y, exc g = Some y /\ In y (thrown g)) ->
    (is_sig l' -> is_sig (ls t)) ->
    Inv g (upd ls t l').
  Proof.
    intros [A1 A2 A3 A4 A5 A6 A7 A8 A9 A10 A11 A12 A13 A14 A15 A16 A17 A18 A19 A20 A21 A22 A23 A24]
           Htwf Hown Hfin Hfr Hsp Hid Hfull Hcall Hex Hst Hsig.
    constructor; auto.
    - intros t'. unfold upd. destruct (Nat.eqb_spec t' t) as [->|Hne]; [exact Htwf|apply A4].
    - intros t1 t2 idx Hne. unfold upd.
      destruct (Nat.eqb_spec t1 t) as [->|H1]; destruct (Nat.eqb_spec t2 t) as [->|H2]; try congruence.
      + intros Ho. apply (A7 t t2 idx Hne). apply Hown. exact Ho.
      + intros Ho Ho2. apply (A7 t1 t idx Hne Ho). apply Hown. exact Ho2.
      + apply A7. exact Hne.
    - intros w Hw. specialize (A11 w Hw). unfold quiet in *. unfold upd. destruct (Nat.eqb_spec w t) as [->|Hne]; [|exact A11].
      destruct (Hfin Hw) as [E|[E|E]]; [now left|right; now left|rewrite E; exact A11].
    - intros f. unfold upd. destruct (Nat.eqb_spec loc t) as [E|Hne]; [apply Hfr; auto|apply A12].
    - unfold upd. destruct (Nat.eqb_spec loc t) as [E|Hne]; [apply Hsp; auto|apply A13].
    - intros t' Hne Hs. unfold upd. destruct (Nat.eqb_spec t' t) as [->|Hne']; [apply Hid; auto|apply A15; auto].
    - intros idx Hp. destruct (A16 idx Hp) as [[t' Ht']|H]; [|now right].
      destruct (Nat.eq_dec t' t) as [->|Hne].
      + destruct (Hfull idx Ht') as [H|H]; [left; exists t; now rewrite upd_same|right; exact H].
      + left. exists t'. now rewrite upd_other.
    - intros j Hj. destruct (A19 j Hj) as [H|[t' Ht']]; [now left|].
      destruct (Nat.eq_dec t' t) as [->|Hne].
      + destruct (Hcall j Ht') as [H|H]; [right; exists t; now rewrite upd_same|now left].
      + right. exists t'. now rewrite upd_other.
    - intros Ht. destruct (A21 Ht) as [H|[t' Ht']]; [now left|].
      destruct (Nat.eq_dec t' t) as [->|Hne].
      + destruct (Hex Ht') as [H|H]; [right; exists t; now rewrite upd_same|now left].
      + right. exists t'. now rewrite upd_other.
    - intros Hf. destruct (A22 Hf) as [H|[t' Ht']]; [now left|].
      destruct (Nat.eq_dec t' t) as [->|Hne].
      + destruct (Hst Ht') as [H|H]; [right; exists t; now rewrite upd_same|now left].
      + right. exists t'. now rewrite upd_other.
    - intros t1 t2 Hne. unfold upd.
      destruct (Nat.eqb_spec t1 t) as [->|H1]; destruct (Nat.eqb_spec t2 t) as [->|H2]; try congruence.
      + intros Hs. apply (A24 t t2 Hne). apply Hsig. exact Hs.
      + intros Hs Hs2. apply (A24 t1 t Hne Hs). apply Hsig. exact Hs2.
      + apply A24. exact Hne.
  Qed.

  Lemma upd_id (ls : nat -> bpc) t l : ls t = l -> forall t', upd ls t l t' = ls t'.
  Proof. intros E t'. unfold upd. destruct (Nat.eqb_spec t' t) as [->|]; congruence. Qed.

  Ltac side Hpc :=
    rewrite ?Hpc; cbn [owns frontier in_spawn is_call is_exch is_store is_sig];
    try (intros; discriminate); try tauto.

  Lemma step_idle g ls t o : Inv g ls -> ls t = BIdle ->
    Inv (fst (bstep cf o t g BIdle)) (upd ls t (snd (bstep cf o t g BIdle))).
  Proof.
    intros HI Hpc. cbn [bstep]. destruct (spawned g t) eqn:Hs; cbn [fst snd].
    - destruct (i_spawned g ls HI t Hs) as [HtW Htl].
      apply Inv_local; auto; side Hpc.
      + cbn [twf pc_ok]. repeat split; auto; try lia; try exact HWpos; try (intros off' Ho; lia).
      + intros Hin. destruct (i_fin_quiet g ls HI t Hin) as [E|[E|[E [E2 _]]]]; congruence.
      + intros _ E. congruence.
    - apply (Inv_ext g ls); [apply upd_id; exact Hpc|exact HI].
  Qed.

  Lemma step_done g ls t o : Inv g ls -> ls t = BDone ->
    Inv (fst (bstep cf o t g BDone)) (upd ls t (snd (bstep cf o t g BDone))).
  Proof.
    intros HI Hpc. cbn [bstep fst snd]. apply (Inv_ext g ls); [apply upd_id; exact Hpc|exact HI].
  Qed.

  Lemma step_spawn_local g ls t o w : Inv g ls -> ls t = BSpawn w ->
    ((W <=? w)%nat = true \/ Nat.eqb w loc = true \/ range_empty (cur (queues g w)) = true) ->
    Inv (fst (bstep cf o t g (BSpawn w))) (upd ls t (snd (bstep cf o t g (BSpawn w)))).
  Proof.
    intros HI Hpc Hcase. pose proof (i_twf g ls HI t) as Ht. rewrite Hpc in Ht. cbn [twf] in Ht. destruct Ht as [Et HwW].
    assert (Hsp : in_spawn (ls loc) = true) by (rewrite <- Et, Hpc; reflexivity).
    pose proof (i_front_local g ls HI Hsp) as Hnf.
    assert (Hfr : forall w', (w <= w')%nat -> ~ In w' (fin g) /\ spawned g w' = false).
    { apply (i_front g ls HI w). rewrite <- Et, Hpc. reflexivity. }
    cbn [bstep]. destruct (W <=? w)%nat eqn:E1; cbn [fst snd].
    - apply Inv_local; auto; side Hpc.
      + cbn [twf pc_ok]. repeat split; auto; try lia; try exact HWpos; try (intros off' Ho; lia).
      + intros Hin. subst t. contradiction.
    - apply Nat.leb_gt in E1. destruct (Nat.eqb w loc) eqn:E2; cbn [fst snd].
      + apply Nat.eqb_eq in E2. apply Inv_local; auto; side Hpc.
        * cbn [twf]. split; [exact Et|lia].
        * intros Hin. subst t. contradiction.
        * intros _ f Ef w' Hw'. inversion Ef; subst f. apply Hfr. lia.
      + apply Nat.eqb_neq in E2. destruct Hcase as [Hc1|[Hc1|Hc1]]; [discriminate|discriminate|].
        rewrite Hc1. cbn [fst snd]. apply Inv_local; auto; side Hpc.
        * cbn [twf]. repeat split; auto.
        * intros Hin. subst t. contradiction.
        * intros _ f Ef w' Hw'. inversion Ef; subst f. apply Hfr. lia.
  Qed.

  Lemma step_run_end g ls t o off idx i e : Inv g ls -> ls t = BRun off idx i e -> (i <? e) = false ->
    Inv (fst (bstep cf o t g (BRun off idx i e))) (upd ls t (snd (bstep cf o t g (BRun off idx i e)))).
  Proof.
    intros HI Hpc Hie. pose proof (i_twf g ls HI t) as Ht. rewrite Hpc in Ht. cbn [twf] in Ht.
    destruct Ht as [A [B [C [D [E [F [G H]]]]]]]. apply N.ltb_ge in Hie.
    assert (Hact : active (ls t)) by (rewrite Hpc; exact I).
    cbn [bstep]. rewrite (proj2 (N.ltb_ge i e) Hie). cbn [fst snd].
    apply Inv_local; auto; side Hpc.
    - cbn [twf pc_ok]. auto.
    - intros Hin. exfalso. apply (active_not_fin g ls t HI Hact Hin).
    - intros Hne Hs. pose proof (i_idle g ls HI t Hne Hs). congruence.
    - intros idx' Ei. inversion Ei; subst idx'. right. left. intros j Hj. apply G. subst e. lia.
  Qed.

  Lemma own_upd (ls : nat -> bpc) t l' :
    (forall t1 t2 idx, t1 <> t2 -> owns (ls t1) = Some idx -> owns (ls t2) <> Some idx) ->
    (forall idx, owns l' = Some idx -> owns (ls t) = Some idx \/ forall t', owns (ls t') <> Some idx) ->
    forall t1 t2 idx, t1 <> t2 -> owns (upd ls t l' t1) = Some idx -> owns (upd ls t l' t2) <> Some idx.
  Proof.
    intros A7 Hown t1 t2 idx Hne. unfold upd.
    destruct (Nat.eqb_spec t1 t) as [->|H1]; destruct (Nat.eqb_spec t2 t) as [->|H2]; try congruence.
    - intros Ho. destruct (Hown idx Ho) as [H|H]; [apply (A7 t t2 idx Hne H)|apply H].
    - intros Ho Ho2. destruct (Hown idx Ho2) as [H|H]; [apply (A7 t1 t idx Hne Ho H)|apply (H t1 Ho)].
    - apply A7. exact Hne.
  Qed.

  Lemma sig1_upd (ls : nat -> bpc) t l' :
    (forall t1 t2, t1 <> t2 -> is_sig (ls t1) -> ~ is_sig (ls t2)) ->
    (is_sig l' -> is_sig (ls t) \/ forall t', ~ is_sig (ls t')) ->
    forall t1 t2, t1 <> t2 -> is_sig (upd ls t l' t1) -> ~ is_sig (upd ls t l' t2).
  Proof.
    intros A Hs t1 t2 Hne. unfold upd.
    destruct (Nat.eqb_spec t1 t) as [->|H1]; destruct (Nat.eqb_spec t2 t) as [->|H2]; try congruence.
    - intros Ho. destruct (Hs Ho) as [H|H]; [apply (A t t2 Hne H)|apply H].
    - intros Ho Ho2. destruct (Hs Ho2) as [H|H]; [apply (A t1 t Hne Ho H)|apply (H t1 Ho)].
    - apply A. exact Hne.
  Qed.

  Ltac prj := unfold called in *; cbn [queues spawned remaining exc_flag exc ts csz calls exits thrown fin sigs set_queue] in *.

  (* BSpawn w, queue not empty: register the task for worker w *)
  Lemma step_spawn_set g ls t o w : Inv g ls -> ls t = BSpawn w ->
    (W <=? w)%nat = false -> Nat.eqb w loc = false -> range_empty (cur (queues g w)) = false ->
    Inv (fst (bstep cf o t g (BSpawn w))) (upd ls t (snd (bstep cf o t g (BSpawn w)))).
  Proof.
    intros HI Hpc E1 E2 E3. pose proof (i_twf g ls HI t) as Ht. rewrite Hpc in Ht. cbn [twf] in Ht. destruct Ht as [Et HwW].
    assert (Hsp : in_spawn (ls loc) = true) by (rewrite <- Et, Hpc; reflexivity).
    pose proof (i_front_local g ls HI Hsp) as Hnf.
    assert (Hfr : forall w', (w <= w')%nat -> ~ In w' (fin g) /\ spawned g w' = false).
    { apply (i_front g ls HI w). rewrite <- Et, Hpc. reflexivity. }
    cbn [bstep]. rewrite E1, E2, E3. cbn [fst snd]. apply Nat.leb_gt in E1. apply Nat.eqb_neq in E2.
    destruct HI as [A1 A2 A3 A4 A5 A6 A7 A8 A9 A10 A11 A12 A13 A14 A15 A16 A17 A18 A19 A20 A21 A22 A23 A24].
    constructor; prj; auto.
    - intros t'. unfold upd. destruct (Nat.eqb_spec t' t) as [->|Hne].
      + cbn [twf]. split; [exact Et|lia].
      + apply (twf_mono g); prj; auto.
    - apply own_upd; [exact A7|]. cbn [owns]. intros; discriminate.
    - intros w' Hw'. specialize (A11 w' Hw'). unfold quiet in *. prj. unfold upd.
      destruct (Nat.eqb_spec w' t) as [->|Hne]; [subst t; contradiction|].
      destruct (Nat.eqb_spec w' w) as [->|Hne2]; [exfalso; apply (proj1 (Hfr w (Nat.le_refl _))); exact Hw'|exact A11].
    - intros f. rewrite <- Et, upd_same. cbn [frontier]. intros Ef w' Hw'. inversion Ef; subst f.
      destruct (Hfr w' ltac:(lia)) as [H1 H2]. split; [exact H1|].
      destruct (Nat.eqb_spec w' w) as [->|_]; [lia|exact H2].
    - intros w'. destruct (Nat.eqb_spec w' w) as [->|_]; [intros _; split; [lia|exact E2]|apply A14].
    - intros t' Hne. destruct (Nat.eqb_spec t' w) as [->|Hne2]; [discriminate|].
      intros Hs. unfold upd. destruct (Nat.eqb_spec t' t) as [->|_]; [congruence|apply A15; auto].
    - intros idx Hp. destruct (A16 idx Hp) as [Ho|Ho]; [left|right; exact Ho].
      apply (ex_upd (fun l => owns l = Some idx)); [exact Ho|]. rewrite Hpc. cbn [owns]. discriminate.
    - intros j Hj. destruct (A19 j Hj) as [Ho|Ho]; [left; exact Ho|right].
      apply (ex_upd (is_call j)); [exact Ho|]. rewrite Hpc. cbn [is_call]. tauto.
    - intros Hj. destruct (A21 Hj) as [Ho|Ho]; [left; exact Ho|right].
      apply (ex_upd is_exch); [exact Ho|]. rewrite Hpc. cbn [is_exch]. tauto.
    - intros Hj. destruct (A22 Hj) as [Ho|Ho]; [left; exact Ho|right].
      apply (ex_upd is_store); [exact Ho|]. rewrite Hpc. cbn [is_store]. tauto.
    - apply sig1_upd; [exact A24|]. cbn [is_sig]. tauto.
  Qed.

  Lemma in_ne (x : N) l : In x l -> l <> [].
  Proof. intros H E. rewrite E in H. exact H. Qed.

  (* store_exception: exchange, then the store *)
  Lemma step_exch g ls t o x : Inv g ls -> ls t = BExch x ->
    Inv (fst (bstep cf o t g (BExch x))) (upd ls t (snd (bstep cf o t g (BExch x)))).
  Proof.
    intros HI Hpc. pose proof (i_twf g ls HI t) as Ht. rewrite Hpc in Ht. cbn [twf] in Ht. destruct Ht as [HtW Hx].
    assert (Hact : active (ls t)) by (rewrite Hpc; exact I).
    pose proof (active_not_fin g ls t HI Hact) as Hnf.
    cbn [bstep fst snd].
    destruct HI as [A1 A2 A3 A4 A5 A6 A7 A8 A9 A10 A11 A12 A13 A14 A15 A16 A17 A18 A19 A20 A21 A22 A23 A24].
    constructor; prj; auto.
    - intros t'. unfold upd. destruct (Nat.eqb_spec t' t) as [->|Hne].
      + destruct (exc_flag g); cbn [twf]; repeat split; auto. intros _. right. apply (in_ne x). exact Hx.
      + apply (twf_mono g); prj; auto.
    - apply own_upd; [exact A7|]. destruct (exc_flag g); cbn [owns]; intros; discriminate.
    - intros w' Hw'. specialize (A11 w' Hw'). unfold quiet in *. prj. unfold upd.
      destruct (Nat.eqb_spec w' t) as [->|Hne]; [contradiction|exact A11].
    - intros f. unfold upd. destruct (Nat.eqb_spec loc t) as [E|Hne]; [|apply A12].
      destruct (exc_flag g); cbn [frontier]; discriminate.
    - unfold upd. destruct (Nat.eqb_spec loc t) as [E|Hne]; [|apply A13].
      destruct (exc_flag g); cbn [in_spawn]; discriminate.
    - intros t' Hne Hs. unfold upd. destruct (Nat.eqb_spec t' t) as [->|_]; [|apply A15; auto].
      pose proof (A15 t Hne Hs). congruence.
    - intros idx Hp. destruct (A16 idx Hp) as [Ho|Ho]; [left|right; exact Ho].
      apply (ex_upd (fun l => owns l = Some idx)); [exact Ho|]. rewrite Hpc. cbn [owns]. discriminate.
    - intros j Hj. destruct (A19 j Hj) as [Ho|Ho]; [left; exact Ho|right].
      apply (ex_upd (is_call j)); [exact Ho|]. rewrite Hpc. cbn [is_call]. tauto.
    - intros _. destruct (exc_flag g) eqn:Ef.
      + destruct (A22 eq_refl) as [Ho|Ho]; [left; exact Ho|right].
        apply (ex_upd is_store); [exact Ho|]. rewrite Hpc. cbn [is_store]. tauto.
      + right. exists t. rewrite upd_same. exact I.
    - apply sig1_upd; [exact A24|]. destruct (exc_flag g); cbn [is_sig]; tauto.
  Qed.

  Lemma step_store g ls t o x : Inv g ls -> ls t = BStore x ->
    Inv (fst (bstep cf o t g (BStore x))) (upd ls t (snd (bstep cf o t g (BStore x)))).
  Proof.
    intros HI Hpc. pose proof (i_twf g ls HI t) as Ht. rewrite Hpc in Ht. cbn [twf] in Ht. destruct Ht as [HtW [Hx Hfl]].
    assert (Hact : active (ls t)) by (rewrite Hpc; exact I).
    pose proof (active_not_fin g ls t HI Hact) as Hnf.
    cbn [bstep fst snd].
    destruct HI as [A1 A2 A3 A4 A5 A6 A7 A8 A9 A10 A11 A12 A13 A14 A15 A16 A17 A18 A19 A20 A21 A22 A23 A24].
    constructor; prj; auto.
    - intros t'. unfold upd. destruct (Nat.eqb_spec t' t) as [->|Hne].
      + cbn [twf]; repeat split; auto. intros _. right. apply (in_ne x). exact Hx.
      + apply (twf_mono g); prj; auto.
    - apply own_upd; [exact A7|]. cbn [owns]; intros; discriminate.
    - intros w' Hw'. specialize (A11 w' Hw'). unfold quiet in *. prj. unfold upd.
      destruct (Nat.eqb_spec w' t) as [->|Hne]; [contradiction|exact A11].
    - intros f. unfold upd. destruct (Nat.eqb_spec loc t) as [E|Hne]; [|apply A12]. cbn [frontier]; discriminate.
    - unfold upd. destruct (Nat.eqb_spec loc t) as [E|Hne]; [|apply A13]. cbn [in_spawn]; discriminate.
    - intros t' Hne Hs. unfold upd. destruct (Nat.eqb_spec t' t) as [->|_]; [|apply A15; auto].
      pose proof (A15 t Hne Hs). congruence.
    - intros idx Hp. destruct (A16 idx Hp) as [Ho|Ho]; [left|right; exact Ho].
      apply (ex_upd (fun l => owns l = Some idx)); [exact Ho|]. rewrite Hpc. cbn [owns]. discriminate.
    - intros j Hj. destruct (A19 j Hj) as [Ho|Ho]; [left; exact Ho|right].
      apply (ex_upd (is_call j)); [exact Ho|]. rewrite Hpc. cbn [is_call]. tauto.
    - intros _. left. exists x. split; [reflexivity|exact Hx].
    - apply sig1_upd; [exact A24|]. cbn [is_sig]; tauto.
  Qed.

  Lemma sigs_nil_active g ls t : Inv g ls -> active (ls t) -> sigs g = [].
  Proof.
    intros HI Ha. destruct (i_sig g ls HI) as [E|[s [_ [Hr _]]]]; [exact E|].
    exfalso. apply (zero_no_active g ls t HI Hr Ha).
  Qed.

  (* do_work_chunk: enter f(i) *)
  Lemma step_enter g ls t o off idx i e : Inv g ls -> ls t = BRun off idx i e -> (i <? e) = true ->
    Inv (fst (bstep cf o t g (BRun off idx i e))) (upd ls t (snd (bstep cf o t g (BRun off idx i e)))).
  Proof.
    intros HI Hpc Hie. pose proof (i_twf g ls HI t) as Ht. rewrite Hpc in Ht. cbn [twf] in Ht.
    destruct Ht as [A [B [C [D [E [F [G H]]]]]]]. apply N.ltb_lt in Hie.
    assert (Hact : active (ls t)) by (rewrite Hpc; exact I).
    pose proof (active_not_fin g ls t HI Hact) as Hnf.
    pose proof (sigs_nil_active g ls t HI Hact) as Hsig.
    pose proof (popped_lt_k g ls idx HI D) as Hidx.
    destruct (chunk_facts idx Hidx) as [_ [_ [Hlh Hhn]]].
    assert (Hin_chunk : lo idx <= i < hi idx) by (subst e; lia).
    assert (Hown : owns (ls t) = Some idx) by (rewrite Hpc; reflexivity).
    cbn [bstep]. rewrite (proj2 (N.ltb_lt i e) Hie). cbn [fst snd].
    destruct HI as [A1 A2 A3 A4 A5 A6 A7 A8 A9 A10 A11 A12 A13 A14 A15 A16 A17 A18 A19 A20 A21 A22 A23 A24].
    constructor; prj; cbn [map fst]; auto.
    - intros t'. unfold upd. destruct (Nat.eqb_spec t' t) as [->|Hne].
      + cbn [twf]. prj. cbn [map fst]. repeat split; auto; try lia.
        * intros j Hj. destruct (N.eq_dec i j) as [->|Hn']; [left; reflexivity|right; apply G; lia].
        * intros j Hj [Ej|Hcj]; [lia|apply (H j); [lia|exact Hcj]].
        * intros Hx. apply (H i); [lia|apply A18; exact Hx].
      + apply (twf_mono g); prj; cbn [map fst]; auto.
        * intros j Hj. right. exact Hj.
        * intros idx' j Ho Hj [Ej|Hcj]; [|exact Hcj]. subst j. exfalso.
          pose proof (lo_hi_unique idx idx' i Hin_chunk Hj). subst idx'.
          apply (A7 t t' idx); auto.
    - constructor; [apply (H i); lia|exact A5].
    - intros j v [Ej|Hj]; [|apply A6; exact Hj]. inversion Ej; subst j v. repeat split; [lia|exact A2|].
      destruct (chunk_unique c n idx i Hcpos Hin_chunk) as [Ei _]. rewrite Ei. exact D.
    - apply own_upd; [exact A7|]. cbn [owns]. intros idx' Ei. inversion Ei; subst idx'. left. exact Hown.
    - intros w' Hw'. specialize (A11 w' Hw'). unfold quiet in *. prj. unfold upd.
      destruct (Nat.eqb_spec w' t) as [->|Hne]; [contradiction|exact A11].
    - intros f. unfold upd. destruct (Nat.eqb_spec loc t) as [E'|Hne]; [|apply A12]. cbn [frontier]; discriminate.
    - unfold upd. destruct (Nat.eqb_spec loc t) as [E'|Hne]; [|apply A13]. cbn [in_spawn]; discriminate.
    - intros t' Hne Hs. unfold upd. destruct (Nat.eqb_spec t' t) as [->|_]; [|apply A15; auto].
      pose proof (A15 t Hne Hs). congruence.
    - intros idx' Hp. destruct (A16 idx' Hp) as [Ho|[Ho|Ho]]; [left|right; left|right; right; exact Ho].
      + apply (ex_upd (fun l => owns l = Some idx')); [exact Ho|]. rewrite Hpc. cbn [owns]. auto.
      + intros j Hj. right. apply Ho. exact Hj.
    - intros j Hj. right. apply A18. exact Hj.
    - intros j [Ej|Hj].
      + right. exists t. rewrite upd_same. cbn [is_call]. exact Ej.
      + destruct (A19 j Hj) as [Ho|Ho]; [left; exact Ho|right].
        apply (ex_upd (is_call j)); [exact Ho|]. rewrite Hpc. cbn [is_call]. tauto.
    - intros x Hx. destruct (A20 x Hx) as [H1 H2]. split; [right; exact H1|exact H2].
    - intros Hj. destruct (A21 Hj) as [Ho|Ho]; [left; exact Ho|right].
      apply (ex_upd is_exch); [exact Ho|]. rewrite Hpc. cbn [is_exch]. tauto.
    - intros Hj. destruct (A22 Hj) as [Ho|Ho]; [left; exact Ho|right].
      apply (ex_upd is_store); [exact Ho|]. rewrite Hpc. cbn [is_store]. tauto.
    - apply sig1_upd; [exact A24|]. cbn [is_sig]; tauto.
  Qed.

  (* do_work_chunk: f(i) returns or throws *)
  Lemma step_exit g ls t o off idx i e : Inv g ls -> ls t = BCall off idx i e ->
    Inv (fst (bstep cf o t g (BCall off idx i e))) (upd ls t (snd (bstep cf o t g (BCall off idx i e)))).
  Proof.
    intros HI Hpc. pose proof (i_twf g ls HI t) as Ht. rewrite Hpc in Ht. cbn [twf] in Ht.
    destruct Ht as [A [B [C [D [E [F [G [H J]]]]]]]].
    assert (Hact : active (ls t)) by (rewrite Hpc; exact I).
    pose proof (active_not_fin g ls t HI Hact) as Hnf.
    pose proof (sigs_nil_active g ls t HI Hact) as Hsig.
    pose proof (popped_lt_k g ls idx HI D) as Hidx.
    destruct (chunk_facts idx Hidx) as [_ [_ [Hlh Hhn]]].
    assert (Hin_chunk : lo idx <= i < hi idx) by (subst e; lia).
    assert (Hown : owns (ls t) = Some idx) by (rewrite Hpc; reflexivity).
    assert (Hwrap : wrap bits (i + 1) = i + 1) by (apply wrap_small; lia).
    cbn [bstep fst snd]. rewrite Hwrap.
    destruct HI as [A1 A2 A3 A4 A5 A6 A7 A8 A9 A10 A11 A12 A13 A14 A15 A16 A17 A18 A19 A20 A21 A22 A23 A24].
    assert (Hothers : forall t', t' <> t -> forall g',
              queues g' = queues g -> calls g' = calls g -> exits g' = i :: exits g ->
              (forall x, In x (thrown g) -> In x (thrown g')) -> exc_flag g' = exc_flag g ->
              remaining g' = remaining g -> sigs g' = sigs g -> twf g' t' (ls t')).
    { intros t' Hne g' Eq Ec Ee Et Ef Er Es. apply (twf_mono g); unfold called; rewrite ?Eq, ?Ec, ?Ee, ?Ef, ?Er, ?Es; auto.
      intros idx' j Ho Hj [Ej|Hcj]; [|exact Hcj]. subst j. exfalso.
      pose proof (lo_hi_unique idx idx' i Hin_chunk Hj). subst idx'. apply (A7 t t' idx); auto. }
    destruct (cthrows cf i) eqn:Ethr.
    - (* throws *)
      constructor; prj; auto.
      + intros t'. unfold upd. destruct (Nat.eqb_spec t' t) as [->|Hne].
        * cbn [twf]. prj. split; [exact A|left; reflexivity].
        * apply Hothers; auto. intros x Hx. right. exact Hx.
      + apply own_upd; [exact A7|]. cbn [owns]. intros; discriminate.
      + intros w' Hw'. specialize (A11 w' Hw'). unfold quiet in *. prj. unfold upd.
        destruct (Nat.eqb_spec w' t) as [->|Hne]; [contradiction|exact A11].
      + intros f. unfold upd. destruct (Nat.eqb_spec loc t) as [E'|Hne]; [|apply A12]. cbn [frontier]; discriminate.
      + unfold upd. destruct (Nat.eqb_spec loc t) as [E'|Hne]; [|apply A13]. cbn [in_spawn]; discriminate.
      + intros t' Hne Hs. unfold upd. destruct (Nat.eqb_spec t' t) as [->|_]; [|apply A15; auto].
        pose proof (A15 t Hne Hs). congruence.
      + intros idx' Hp. right. right. discriminate.
      + constructor; [exact J|exact A17].
      + intros j [Ej|Hj]; [subst j; apply G; lia|apply A18; exact Hj].
      + intros j Hj. destruct (A19 j Hj) as [Ho|[t' Ht']]; [left; right; exact Ho|].
        destruct (Nat.eq_dec t' t) as [->|Hne].
        * rewrite Hpc in Ht'. cbn [is_call] in Ht'. left. left. exact Ht'.
        * right. exists t'. rewrite upd_other by exact Hne. exact Ht'.
      + intros x [Ex|Hx]; [subst x; split; [apply G; lia|exact Ethr]|apply A20; exact Hx].
      + intros _. right. exists t. rewrite upd_same. exact I.
      + intros Hj. destruct (A22 Hj) as [[y [Hy1 Hy2]]|Ho]; [left; exists y; split; [exact Hy1|right; exact Hy2]|right].
        apply (ex_upd is_store); [exact Ho|]. rewrite Hpc. cbn [is_store]. tauto.
      + apply sig1_upd; [exact A24|]. cbn [is_sig]; tauto.
    - (* returns *)
      constructor; prj; auto.
      + intros t'. unfold upd. destruct (Nat.eqb_spec t' t) as [->|Hne].
        * cbn [twf]. prj. repeat split; auto; try lia.
          -- intros j Hj. apply G. lia.
          -- intros j Hj. apply H. lia.
        * apply Hothers; auto.
      + apply own_upd; [exact A7|]. cbn [owns]. intros idx' Ei. inversion Ei; subst idx'. left. exact Hown.
      + intros w' Hw'. specialize (A11 w' Hw'). unfold quiet in *. prj. unfold upd.
        destruct (Nat.eqb_spec w' t) as [->|Hne]; [contradiction|exact A11].
      + intros f. unfold upd. destruct (Nat.eqb_spec loc t) as [E'|Hne]; [|apply A12]. cbn [frontier]; discriminate.
      + unfold upd. destruct (Nat.eqb_spec loc t) as [E'|Hne]; [|apply A13]. cbn [in_spawn]; discriminate.
      + intros t' Hne Hs. unfold upd. destruct (Nat.eqb_spec t' t) as [->|_]; [|apply A15; auto].
        pose proof (A15 t Hne Hs). congruence.
      + intros idx' Hp. destruct (A16 idx' Hp) as [Ho|Ho]; [left|right; exact Ho].
        apply (ex_upd (fun l => owns l = Some idx')); [exact Ho|]. rewrite Hpc. cbn [owns]. auto.
      + constructor; [exact J|exact A17].
      + intros j [Ej|Hj]; [subst j; apply G; lia|apply A18; exact Hj].
      + intros j Hj. destruct (A19 j Hj) as [Ho|[t' Ht']]; [left; right; exact Ho|].
        destruct (Nat.eq_dec t' t) as [->|Hne].
        * rewrite Hpc in Ht'. cbn [is_call] in Ht'. left. left. exact Ht'.
        * right. exists t'. rewrite upd_other by exact Hne. exact Ht'.
      + intros Hj. destruct (A21 Hj) as [Ho|Ho]; [left; exact Ho|right].
        apply (ex_upd is_exch); [exact Ho|]. rewrite Hpc. cbn [is_exch]. tauto.
      + intros Hj. destruct (A22 Hj) as [Ho|Ho]; [left; exact Ho|right].
        apply (ex_upd is_store); [exact Ho|]. rewrite Hpc. cbn [is_store]. tauto.
      + apply sig1_upd; [exact A24|]. cbn [is_sig]; tauto.
  Qed.

  Lemma owns_popped g ls t idx : Inv g ls -> owns (ls t) = Some idx -> chunk_popped g idx.
  Proof.
    intros HI Ho. pose proof (i_twf g ls HI t) as H.
    destruct (ls t) as [| |w|off p|off idx' i e|off idx' i e|x|x|[w|]|[w|]|]; cbn [owns] in Ho; try discriminate;
      inversion Ho; subst idx'; cbn [twf] in H; tauto.
  Qed.

  (* a step of the pop loop on queue (t+off) mod W *)
  Lemma step_pop_gen g ls t off p qs' l' (new : N -> Prop) :
    Inv g ls -> ls t = BPop off p ->
    IQInv (pb ((t + off) mod W)%nat) (pe ((t + off) mod W)%nat) qs' ->
    (forall x, In x (popped (iqlog (queues g ((t + off) mod W)%nat))) -> In x (popped (iqlog qs'))) ->
    (has_none (iqlog (queues g ((t + off) mod W)%nat)) -> has_none (iqlog qs')) ->
    (forall x, In x (popped (iqlog qs')) -> In x (popped (iqlog (queues g ((t + off) mod W)%nat))) \/ new x) ->
    twf (set_queue g ((t + off) mod W)%nat qs') t l' ->
    (forall idx, owns l' = Some idx -> ~ chunk_popped g idx) ->
    (forall idx, new idx -> owns l' = Some idx) ->
    frontier l' = None -> in_spawn l' = false -> ~ is_sig l' ->
    Inv (set_queue g ((t + off) mod W)%nat qs') (upd ls t l').
  Proof.
    intros HI Hpc HI' Hpm Hnm Hinv Htwf Hfresh Hnew Hfr Hsp Hns.
    set (q := ((t + off) mod W)%nat) in *.
    assert (Hact : active (ls t)) by (rewrite Hpc; exact I).
    pose proof (active_not_fin g ls t HI Hact) as Hnf.
    assert (Hqm : forall q' x, In x (popped (iqlog (queues g q'))) -> In x (popped (iqlog (queues (set_queue g q qs') q')))).
    { intros q' x Hx. cbn [set_queue queues]. destruct (Nat.eqb_spec q' q) as [->|_]; [apply Hpm; exact Hx|exact Hx]. }
    assert (Hqn : forall q', has_none (iqlog (queues g q')) -> has_none (iqlog (queues (set_queue g q qs') q'))).
    { intros q' Hx. cbn [set_queue queues]. destruct (Nat.eqb_spec q' q) as [->|_]; [apply Hnm; exact Hx|exact Hx]. }
    assert (Hcpm : forall idx, chunk_popped g idx -> chunk_popped (set_queue g q qs') idx).
    { intros idx [q' [Hq' Hin]]. exists q'. split; [exact Hq'|apply Hqm; exact Hin]. }
    assert (Hcpi : forall idx, chunk_popped (set_queue g q qs') idx -> chunk_popped g idx \/ new idx).
    { intros idx [q' [Hq' Hin]]. cbn [set_queue queues] in Hin. destruct (Nat.eqb_spec q' q) as [->|_].
      - destruct (Hinv idx Hin) as [H|H]; [left; exists q; auto|right; exact H].
      - left. exists q'. auto. }
    pose proof (owns_popped g ls) as Hop. specialize (Hop).
    pose proof HI as HI0.
    destruct HI as [A1 A2 A3 A4 A5 A6 A7 A8 A9 A10 A11 A12 A13 A14 A15 A16 A17 A18 A19 A20 A21 A22 A23 A24].
    constructor; auto.
    - intros q' Hq'. cbn [set_queue queues]. destruct (Nat.eqb_spec q' q) as [->|_]; [exact HI'|apply A3; exact Hq'].
    - intros t'. unfold upd. destruct (Nat.eqb_spec t' t) as [->|Hne]; [exact Htwf|].
      apply (twf_mono g); auto.
    - intros j v Hj. destruct (A6 j v Hj) as [H1 [H2 H3]]. repeat split; auto.
    - apply own_upd; [exact A7|]. intros idx Ho. right. intros t' Ho'. apply (Hfresh idx Ho). apply (Hop t' idx HI0 Ho').
    - intros w' Hw'. specialize (A11 w' Hw'). unfold quiet in *. cbn [set_queue spawned]. unfold upd.
      destruct (Nat.eqb_spec w' t) as [->|Hne]; [contradiction|exact A11].
    - intros f. unfold upd. destruct (Nat.eqb_spec loc t) as [E'|Hne]; [|apply A12]. rewrite Hfr. discriminate.
    - unfold upd. destruct (Nat.eqb_spec loc t) as [E'|Hne]; [|apply A13]. rewrite Hsp. discriminate.
    - intros t' Hne Hs. unfold upd. destruct (Nat.eqb_spec t' t) as [->|_]; [|apply A15; auto].
      pose proof (A15 t Hne Hs). congruence.
    - intros idx Hp. destruct (Hcpi idx Hp) as [Hold|Hn'].
      + destruct (A16 idx Hold) as [Ho|Ho]; [left|right; exact Ho].
        apply (ex_upd (fun l => owns l = Some idx)); [exact Ho|]. rewrite Hpc. cbn [owns]. discriminate.
      + left. exists t. rewrite upd_same. apply Hnew. exact Hn'.
    - intros j Hj. destruct (A19 j Hj) as [Ho|Ho]; [left; exact Ho|right].
      apply (ex_upd (is_call j)); [exact Ho|]. rewrite Hpc. cbn [is_call]. tauto.
    - intros Hj. destruct (A21 Hj) as [Ho|Ho]; [left; exact Ho|right].
      apply (ex_upd is_exch); [exact Ho|]. rewrite Hpc. cbn [is_exch]. tauto.
    - intros Hj. destruct (A22 Hj) as [Ho|Ho]; [left; exact Ho|right].
      apply (ex_upd is_store); [exact Ho|]. rewrite Hpc. cbn [is_store]. tauto.
    - apply sig1_upd; [exact A24|]. tauto.
  Qed.

  Lemma step_pop g ls t o off p : Inv g ls -> ls t = BPop off p ->
    Inv (fst (bstep cf o t g (BPop off p))) (upd ls t (snd (bstep cf o t g (BPop off p)))).
  Proof.
    intros HI Hpc. pose proof (i_twf g ls HI t) as Ht. rewrite Hpc in Ht. cbn [twf] in Ht.
    destruct Ht as [A [B [Cp Sn]]].
    cbn [bstep]. set (q := ((t + off) mod W)%nat).
    assert (Hq : (q < W)%nat) by (apply Nat.mod_upper_bound; lia).
    destruct (pop_step o t (queues g q) (side_of off) p) as [qs' r] eqn:Ep.
    destruct (pop_step_spec (pb q) (pe q) o t (queues g q) (side_of off) p qs' r (i_q g ls HI q Hq) Cp Ep) as [HI' [Hnm Hr]].
    assert (Hsn' : forall off2, seen_none g t off2 -> seen_none (set_queue g q qs') t off2).
    { intros off2 H off' Ho. cbn [set_queue queues]. specialize (H off' Ho).
      destruct (Nat.eqb_spec ((t + off') mod W)%nat q) as [Eq|_]; [apply Hnm; rewrite <- Eq; exact H|exact H]. }
    destruct r as [p'|[idx|]]; cbn [fst snd].
    - destruct Hr as [Hp' Epop].
      apply (step_pop_gen g ls t off p qs' (BPop off p') (fun _ => False)); auto.
      + rewrite Epop. auto.
      + rewrite Epop. auto.
      + cbn [twf]. auto.
      + cbn [owns]. intros; discriminate.
      + tauto.
    - (* a chunk was popped *)
      assert (Hin' : In idx (popped (iqlog qs'))) by (rewrite Hr; left; reflexivity).
      pose proof (popped_range (set_queue g q qs') q idx Hq) as Hrange. cbn [set_queue queues] in Hrange.
      rewrite Nat.eqb_refl in Hrange. specialize (Hrange HI' Hin').
      assert (Hidx : idx < k) by (pose proof (pe_le_k q Hq); lia).
      destruct (chunk_facts idx Hidx) as [Eb [Ee [Hlh Hhn]]].
      rewrite (i_csz g ls HI), Eb, Ee.
      assert (Hfresh : ~ chunk_popped g idx).
      { intros [q2 [Hq2 Hin2]]. pose proof (popped_range g q2 idx Hq2 (i_q g ls HI q2 Hq2) Hin2) as Hr2.
        assert (q2 = q).
        { apply Nat2N.inj. apply (pbeg_disjoint Wn k (N.of_nat q2) (N.of_nat q) idx); [destruct HW; lia|exact Hr2|exact Hrange]. }
        subst q2. destruct HI' as [_ _ _ Hnd _ _ _ _]. rewrite Hr in Hnd. inversion Hnd; subst. contradiction. }
      apply (step_pop_gen g ls t off p qs' (BRun off idx (lo idx) (hi idx)) (fun x => x = idx)); auto.
      + rewrite Hr. intros x Hx. right. exact Hx.
      + rewrite Hr. intros x [Ex|Hx]; [right; congruence|left; exact Hx].
      + cbn [twf]. repeat split; auto; try lia.
        * exists q. split; [exact Hq|]. cbn [set_queue queues]. rewrite Nat.eqb_refl. exact Hin'.
        * intros j Hj Hcj. unfold called in Hcj. cbn [set_queue calls] in Hcj.
          apply (called_in g j) in Hcj. destruct Hcj as [v Hv].
          destruct (i_calls g ls HI j v Hv) as [_ [_ Hcp]].
          destruct (chunk_unique c n idx j Hcpos Hj) as [Ej _]. rewrite Ej in Hcp. contradiction.
      + cbn [owns]. intros idx' Ei. inversion Ei; subst idx'. exact Hfresh.
      + cbn [owns]. intros idx' ->. reflexivity.
    - (* the queue was empty *)
      destruct Hr as [Epop Hnone].
      assert (Hsn2 : seen_none (set_queue g q qs') t (S off)).
      { intros off' Ho. destruct (Nat.eq_dec off' off) as [->|Hne].
        - cbn [set_queue queues]. fold q. rewrite Nat.eqb_refl. exact Hnone.
        - apply (Hsn' off Sn off'). lia. }
      destruct (S off <? W)%nat eqn:El.
      + apply Nat.ltb_lt in El.
        apply (step_pop_gen g ls t off p qs' (BPop (S off) Idle) (fun _ => False)); auto.
        * rewrite Epop. auto.
        * rewrite Epop. auto.
        * cbn [twf pc_ok]. auto.
        * cbn [owns]. intros; discriminate.
        * tauto.
      + apply Nat.ltb_ge in El.
        apply (step_pop_gen g ls t off p qs' (BDec KEnd) (fun _ => False)); auto.
        * rewrite Epop. auto.
        * rewrite Epop. auto.
        * cbn [twf]. split; [exact A|]. intros _. left. intros q2 Hq2.
          destruct (mod_cover W t q2 Hq2) as [off2 [Ho2 Eo2]]. rewrite <- Eo2. apply Hsn2. lia.
        * cbn [owns]. intros; discriminate.
        * tauto.
  Qed.

  Lemma dec_u64 x : 0 < x -> x < 2 ^ 64 -> u64 (x + 2 ^ 64 - 1) = x - 1.
  Proof.
    intros H0 H1. unfold u64, wrap. replace (x + 2 ^ 64 - 1) with ((x - 1) + 1 * 2 ^ 64) by lia.
    rewrite N.mod_add by (pose proof (pow2_pos 64); lia). apply N.mod_small. lia.
  Qed.

  Lemma rem_lt g ls : Inv g ls -> remaining g < 2 ^ 64.
  Proof.
    intros HI. pose proof (i_rem g ls HI). destruct HW as [_ H2].
    assert (2 ^ 29 < 2 ^ 64) by reflexivity. lia.
  Qed.

  Lemma no_sig_when_pos g ls : Inv g ls -> remaining g <> 0 -> forall t', ~ is_sig (ls t').
  Proof.
    intros HI Hr t' Hs. pose proof (i_twf g ls HI t') as H.
    destruct (ls t') as [| |w|off p|off idx i e|off idx i e|x|x|[w|]|[w|]|]; cbn [is_sig] in Hs; try contradiction;
      cbn [twf] in H; tauto.
  Qed.

  (* finish: the decrement *)
  Lemma step_dec g ls t o k0 : Inv g ls -> ls t = BDec k0 ->
    Inv (fst (bstep cf o t g (BDec k0))) (upd ls t (snd (bstep cf o t g (BDec k0)))).
  Proof.
    intros HI Hpc. pose proof (i_twf g ls HI t) as Ht. rewrite Hpc in Ht.
    set (subj := match k0 with KSpawn w => w | KEnd => t end).
    assert (Hact : active (ls t)) by (rewrite Hpc; exact I).
    assert (Hsubj : (subj < W)%nat /\ ~ In subj (fin g) /\
                    (forall w, k0 = KSpawn w -> t = loc /\ w <> loc /\ ls w = BIdle /\ spawned g w = false /\ ~ In loc (fin g) /\
                               forall w', (w <= w')%nat -> ~ In w' (fin g) /\ spawned g w' = false) /\
                    (k0 = KEnd -> (t < W)%nat /\ dr_or_thrown g t)).
    { destruct k0 as [w|]; cbn [twf] in Ht; subst subj.
      - destruct Ht as [Et [Hw Hwl]].
        assert (Hfr : forall w', (w <= w')%nat -> ~ In w' (fin g) /\ spawned g w' = false).
        { apply (i_front g ls HI w). rewrite <- Et, Hpc. reflexivity. }
        destruct (Hfr w (Nat.le_refl _)) as [H1 H2].
        split; [exact Hw|]. split; [exact H1|]. split; [|discriminate].
        intros w0 E. inversion E; subst w0. repeat split; auto.
        + apply (i_idle g ls HI w Hwl H2).
        + apply (i_front_local g ls HI). rewrite <- Et, Hpc. reflexivity.
        + apply Hfr; auto.
        + apply Hfr; auto.
      - destruct Ht as [HtW Hd]. split; [exact HtW|]. split; [apply (active_not_fin g ls t HI Hact)|].
        split; [discriminate|]. auto. }
    destruct Hsubj as [HsW [Hsnf [HKS HKE]]].
    assert (Hrpos : remaining g <> 0).
    { intros Hr. apply Hsnf. apply (all_fin g ls HI Hr). exact HsW. }
    pose proof (rem_lt g ls HI) as Hrlt.
    pose proof (no_sig_when_pos g ls HI Hrpos) as Hnosig.
    assert (Hsigs : sigs g = []).
    { destruct (i_sig g ls HI) as [E|[s [_ [Hr _]]]]; [exact E|contradiction]. }
    cbn [bstep]. fold subj. rewrite (dec_u64 (remaining g)) by lia. cbn [fst snd].
    set (l' := if remaining g - 1 =? 0 then BSig k0 else after k0).
    assert (Hl'own : owns l' = None).
    { unfold l'. destruct (remaining g - 1 =? 0); destruct k0; reflexivity. }
    destruct HI as [A1 A2 A3 A4 A5 A6 A7 A8 A9 A10 A11 A12 A13 A14 A15 A16 A17 A18 A19 A20 A21 A22 A23 A24].
    constructor; prj; auto.
    - intros t'. unfold upd. destruct (Nat.eqb_spec t' t) as [->|Hne].
      + unfold l'. destruct (remaining g - 1 =? 0) eqn:Er.
        * apply N.eqb_eq in Er. destruct k0 as [w|]; cbn [twf]; prj.
          -- destruct (HKS w eq_refl) as [Et _]. cbn [twf] in Ht. tauto.
          -- destruct (HKE eq_refl) as [H1 H2]. repeat split; auto.
        * destruct k0 as [w|]; cbn [after twf].
          -- destruct (HKS w eq_refl) as [Et _]. cbn [twf] in Ht. split; [exact Et|lia].
          -- destruct (HKE eq_refl) as [H1 H2]. exact H2.
      + apply (twf_mono g); prj; auto. intros Hs. exfalso. apply (Hnosig t' Hs).
    - apply own_upd; [exact A7|]. rewrite Hl'own. intros; discriminate.
    - cbn [length]. rewrite Nat2N.inj_succ. lia.
    - constructor; assumption.
    - intros w [<-|Hw]; [exact HsW|apply A10; exact Hw].
    - intros w' Hw'. unfold quiet. prj. destruct Hw' as [<-|Hw'].
      + destruct k0 as [w|]; subst subj.
        * destruct (HKS w eq_refl) as [Et [Hwl [Hidle [Hsp _]]]].
          rewrite upd_other by congruence. right. right. auto.
        * rewrite upd_same. unfold l'. destruct (remaining g - 1 =? 0); cbn [after]; auto.
      + assert (w' <> t).
        { intros ->. destruct k0 as [w|].
          - destruct (HKS w eq_refl) as [Et [_ [_ [_ [Hlf _]]]]]. subst t. contradiction.
          - contradiction. }
        rewrite upd_other by assumption. apply (A11 w' Hw').
    - intros f. unfold upd. destruct (Nat.eqb_spec loc t) as [E'|Hne].
      + destruct k0 as [w|].
        * destruct (HKS w eq_refl) as [_ [_ [_ [_ [_ Hfr]]]]].
          assert (Ef : frontier l' = Some (S w)) by (unfold l'; destruct (remaining g - 1 =? 0); reflexivity).
          rewrite Ef. intros Ei w' Hw'. inversion Ei; subst f. destruct (Hfr w' ltac:(lia)) as [H1 H2].
          split; [|exact H2]. intros [Hx|Hx]; [subst subj; lia|contradiction].
        * assert (Ef : frontier l' = None) by (unfold l'; destruct (remaining g - 1 =? 0); reflexivity).
          rewrite Ef. discriminate.
      + destruct k0 as [w|]; [destruct (HKS w eq_refl) as [Et _]; congruence|].
        intros Ef w' Hw'. destruct (A12 f Ef w' Hw') as [H1 H2]. split; [|exact H2].
        intros [Hx|Hx]; [|contradiction]. subst subj. subst w'.
        assert (t <> loc) by congruence. pose proof (A15 t H H2). congruence.
    - unfold upd. destruct (Nat.eqb_spec loc t) as [E'|Hne].
      + destruct k0 as [w|].
        * destruct (HKS w eq_refl) as [_ [Hwl [_ [_ [Hlf _]]]]]. intros _ [Hx|Hx]; [subst subj; congruence|contradiction].
        * assert (Ef : in_spawn l' = false) by (unfold l'; destruct (remaining g - 1 =? 0); reflexivity).
          rewrite Ef. discriminate.
      + destruct k0 as [w|]; [destruct (HKS w eq_refl) as [Et _]; congruence|].
        intros Hs [Hx|Hx]; [subst subj; congruence|apply (A13 Hs Hx)].
    - intros t' Hne Hs. unfold upd. destruct (Nat.eqb_spec t' t) as [->|_]; [|apply A15; auto].
      pose proof (A15 t Hne Hs). congruence.
    - intros idx Hp. destruct (A16 idx Hp) as [Ho|Ho]; [left|right; exact Ho].
      apply (ex_upd (fun l => owns l = Some idx)); [exact Ho|]. rewrite Hpc. cbn [owns]. discriminate.
    - intros j Hj. destruct (A19 j Hj) as [Ho|Ho]; [left; exact Ho|right].
      apply (ex_upd (is_call j)); [exact Ho|]. rewrite Hpc. cbn [is_call]. tauto.
    - intros Hj. destruct (A21 Hj) as [Ho|Ho]; [left; exact Ho|right].
      apply (ex_upd is_exch); [exact Ho|]. rewrite Hpc. cbn [is_exch]. tauto.
    - intros Hj. destruct (A22 Hj) as [Ho|Ho]; [left; exact Ho|right].
      apply (ex_upd is_store); [exact Ho|]. rewrite Hpc. cbn [is_store]. tauto.
    - apply sig1_upd; [exact A24|]. intros _. right. exact Hnosig.
  Qed.

  Lemma is_call_active j l : is_call j l -> active l.
  Proof. destruct l; cbn; tauto. Qed.
  Lemma owns_active idx l : owns l = Some idx -> active l.
  Proof. destruct l; cbn; try discriminate; tauto. Qed.
  Lemma is_exch_active l : is_exch l -> active l.
  Proof. destruct l; cbn; tauto. Qed.
  Lemma is_store_active l : is_store l -> active l.
  Proof. destruct l; cbn; tauto. Qed.

  (* what the receiver gets when the counter has reached zero *)
  Lemma sig_good_at_zero g ls : Inv g ls -> remaining g = 0 ->
    sig_good g {| sg := the_signal g; sg_calls := length (calls g); sg_exits := length (exits g) |}.
  Proof.
    intros HI Hr. pose proof (zero_no_active g ls) as Hna.
    assert (Hq : forall t', active (ls t') -> False) by (intros t'; apply (Hna t' HI Hr)).
    pose proof HI as [A1 A2 A3 A4 A5 A6 A7 A8 A9 A10 A11 A12 A13 A14 A15 A16 A17 A18 A19 A20 A21 A22 A23 A24].
    unfold sig_good. cbn [sg sg_calls sg_exits]. split; [reflexivity|]. split; [reflexivity|].
    assert (Hall : forall j, called g j -> In j (exits g)).
    { intros j Hj. destruct (A19 j Hj) as [H|[t' Ht']]; [exact H|]. exfalso. apply (Hq t'). apply (is_call_active j). exact Ht'. }
    split.
    - rewrite <- (map_length fst (calls g)). apply Nat.le_antisymm.
      + apply NoDup_incl_length; [exact A5|]. intros j Hj. apply Hall. exact Hj.
      + apply NoDup_incl_length; [exact A17|]. intros j Hj. apply A18. exact Hj.
    - unfold the_signal. destruct (exc_flag g) eqn:Ef.
      + destruct (A22 eq_refl) as [[y [Hy1 Hy2]]|[t' Ht']].
        * rewrite Hy1. exact Hy2.
        * exfalso. apply (Hq t'). apply is_store_active. exact Ht'.
      + assert (Hth : thrown g = []).
        { destruct (thrown g) as [|x r] eqn:Et; [reflexivity|]. exfalso.
          destruct (A21 ltac:(discriminate)) as [H|[t' Ht']]; [congruence|].
          apply (Hq t'). apply is_exch_active. exact Ht'. }
        rewrite A2. split; [reflexivity|]. split; [exact Hth|].
        (* the completing worker has seen every queue empty *)
        assert (Hd : drained g).
        { pose proof (all_fin g ls HI Hr loc Hloc) as Hlf.
          pose proof (A4 loc) as Htw.
          destruct (A11 loc Hlf) as [E|[E|[_ [_ E]]]]; [| |congruence]; rewrite E in Htw; cbn [twf] in Htw.
          - destruct (Htw eq_refl) as [D|D]; [exact D|congruence].
          - destruct Htw as [_ [_ [_ Htw]]]. destruct (Htw eq_refl) as [D|D]; [exact D|congruence]. }
        intros j Hj.
        destruct (chunk_partition n c j Hcpos Hj) as [Hidx Hjr].
        set (idx := j / c) in *.
        assert (HWn : 0 < Wn) by (destruct HW; lia).
        destruct (pbeg_cover Wn k HWn W ltac:(lia) idx) as [w [Hw Hwr]].
        { rewrite pbeg_W by exact HWn. exact Hidx. }
        pose proof (A3 w Hw) as [B1 B2 B3 B4 B5 B6 B7 B8].
        specialize (B8 (Hd w Hw)).
        assert (Hpop : chunk_popped g idx).
        { exists w. split; [exact Hw|]. apply B5. unfold pb, pe. lia. }
        destruct (A16 idx Hpop) as [[t' Ht']|[Hfull|Hne]].
        * exfalso. apply (Hq t'). apply (owns_active idx). exact Ht'.
        * apply Hfull. unfold lo, hi. exact Hjr.
        * congruence.
  Qed.

  (* finish: the signal *)
  Lemma step_sig g ls t o k0 : Inv g ls -> ls t = BSig k0 ->
    Inv (fst (bstep cf o t g (BSig k0))) (upd ls t (snd (bstep cf o t g (BSig k0)))).
  Proof.
    intros HI Hpc. pose proof (i_twf g ls HI t) as Ht. rewrite Hpc in Ht.
    destruct k0 as [w|].
    { exfalso. cbn [twf] in Ht. destruct Ht as [Et [_ [Hr _]]].
      apply (spawn_phase_not_zero g ls HI); [rewrite <- Et, Hpc; reflexivity|exact Hr]. }
    cbn [twf] in Ht. destruct Ht as [HtW [Hr [Hsigs Hd]]].
    pose proof (sig_good_at_zero g ls HI Hr) as Hgood.
    assert (Hsig_t : is_sig (ls t)) by (rewrite Hpc; exact I).
    cbn [bstep after fst snd].
    destruct HI as [A1 A2 A3 A4 A5 A6 A7 A8 A9 A10 A11 A12 A13 A14 A15 A16 A17 A18 A19 A20 A21 A22 A23 A24].
    constructor; prj; auto.
    - intros t'. unfold upd. destruct (Nat.eqb_spec t' t) as [->|Hne].
      + cbn [twf]. exact Hd.
      + apply (twf_mono g); prj; auto. intros Hs. exfalso. apply (A24 t t'); auto.
    - apply own_upd; [exact A7|]. cbn [owns]. intros; discriminate.
    - intros w' Hw'. specialize (A11 w' Hw'). unfold quiet in *. prj. unfold upd.
      destruct (Nat.eqb_spec w' t) as [->|Hne]; [left; reflexivity|exact A11].
    - intros f. unfold upd. destruct (Nat.eqb_spec loc t) as [E'|Hne]; [|apply A12]. cbn [frontier]; discriminate.
    - unfold upd. destruct (Nat.eqb_spec loc t) as [E'|Hne]; [|apply A13]. cbn [in_spawn]; discriminate.
    - intros t' Hne Hs. unfold upd. destruct (Nat.eqb_spec t' t) as [->|_]; [|apply A15; auto].
      pose proof (A15 t Hne Hs). congruence.
    - intros idx Hp. destruct (A16 idx Hp) as [Ho|Ho]; [left|right; exact Ho].
      apply (ex_upd (fun l => owns l = Some idx)); [exact Ho|]. rewrite Hpc. cbn [owns]. discriminate.
    - intros j Hj. destruct (A19 j Hj) as [Ho|Ho]; [left; exact Ho|right].
      apply (ex_upd (is_call j)); [exact Ho|]. rewrite Hpc. cbn [is_call]. tauto.
    - intros Hj. destruct (A21 Hj) as [Ho|Ho]; [left; exact Ho|right].
      apply (ex_upd is_exch); [exact Ho|]. rewrite Hpc. cbn [is_exch]. tauto.
    - intros Hj. destruct (A22 Hj) as [Ho|Ho]; [left; exact Ho|right].
      apply (ex_upd is_store); [exact Ho|]. rewrite Hpc. cbn [is_store]. tauto.
    - right. eexists. rewrite Hsigs. split; [reflexivity|]. split; [exact Hr|]. exact Hgood.
    - apply sig1_upd; [exact A24|]. cbn [is_sig]. tauto.
  Qed.

  (* ---- every step of the running phase preserves the invariant ---- *)
  Lemma bstep_inv o t g ls : Inv g ls ->
    Inv (fst (bstep cf o t g (ls t))) (upd ls t (snd (bstep cf o t g (ls t)))).
  Proof.
    intros HI. destruct (ls t) as [| |w|off p|off idx i e|off idx i e|x|x|k0|k0|] eqn:Hpc.
    - apply step_idle; assumption.
    - exfalso. pose proof (i_twf g ls HI t) as H. rewrite Hpc in H. exact H.
    - destruct (W <=? w)%nat eqn:E1; [apply step_spawn_local; auto|].
      destruct (Nat.eqb w loc) eqn:E2; [apply step_spawn_local; auto|].
      destruct (range_empty (cur (queues g w))) eqn:E3; [apply step_spawn_local; auto|].
      apply step_spawn_set; assumption.
    - apply step_pop; assumption.
    - destruct (i <? e) eqn:E; [apply step_enter|apply step_run_end]; assumption.
    - apply step_exit; assumption.
    - apply step_exch; assumption.
    - apply step_store; assumption.
    - apply step_dec; assumption.
    - apply step_sig; assumption.
    - apply step_done; assumption.
  Qed.

  (* ---- set_value's initialisation establishes the invariant ---- *)
  Definition Pre (g : bshared) (ls : nat -> bpc) : Prop :=
    g = binit_shared cf /\ forall t, ls t = binit_locals cf t.

  Lemma entry_inv g ls o : Pre g ls ->
    Inv (fst (bstep cf o loc g (ls loc))) (upd ls loc (snd (bstep cf o loc g (ls loc)))).
  Proof.
    intros [-> Hls]. rewrite (Hls loc). unfold binit_locals at 1 2. rewrite Nat.eqb_refl.
    cbn [bstep]. destruct (N.eqb_spec n 0) as [E|_]; [lia|]. rewrite Hc. destruct Hk as [-> Hkb].
    cbn [fst snd].
    assert (Hls' : forall t, t <> loc -> ls t = BIdle).
    { intros t Hne. rewrite Hls. unfold binit_locals. apply Nat.eqb_neq in Hne. now rewrite Hne. }
    assert (Hq : forall q, (q < W)%nat ->
              iq_init (part_begin Wn (N.of_nat q) k) (part_end Wn (N.of_nat q) k) = iq_init (pb q) (pe q)).
    { intros q Hq. destruct (part_eq Wn (N.of_nat q) k HW ltac:(lia) Hk32) as [E1 E2].
      rewrite E1, (E2 ltac:(lia)). reflexivity. }
    assert (Hnop : forall idx, ~ chunk_popped
               {| queues := fun q => if (q <? W)%nat then iq_init (part_begin Wn (N.of_nat q) k) (part_end Wn (N.of_nat q) k)
                                     else queues (binit_shared cf) q;
                  spawned := spawned (binit_shared cf); remaining := remaining (binit_shared cf);
                  exc_flag := exc_flag (binit_shared cf); exc := exc (binit_shared cf); ts := Some (cvals cf);
                  csz := c; calls := calls (binit_shared cf); exits := exits (binit_shared cf);
                  thrown := thrown (binit_shared cf); fin := fin (binit_shared cf); sigs := sigs (binit_shared cf) |} idx).
    { intros idx [q [Hq' Hin]]. cbn [queues] in Hin. apply Nat.ltb_lt in Hq'. rewrite Hq' in Hin. cbn in Hin. exact Hin. }
    assert (Hnoown : forall t idx, owns (upd ls loc (BSpawn 0) t) <> Some idx).
    { intros t idx. unfold upd. destruct (Nat.eqb_spec t loc) as [->|Hne]; [cbn; discriminate|].
      rewrite (Hls' t Hne). cbn. discriminate. }
    constructor; cbn [binit_shared queues spawned remaining exc_flag exc ts csz calls exits thrown fin sigs map]; unfold called;
      cbn [binit_shared calls map]; auto.
    - intros q Hq'. pose proof Hq' as Hq2. apply Nat.ltb_lt in Hq2. rewrite Hq2. rewrite (Hq q Hq').
      apply (iq_init_inv (pb q) (pe q) (fun _ => [])). apply pb_le_pe.
    - intros t. unfold upd. destruct (Nat.eqb_spec t loc) as [->|Hne].
      + cbn [twf]. split; [reflexivity|lia].
      + rewrite (Hls' t Hne). cbn [twf]. exact Hne.
    - constructor.
    - intros j v [].
    - cbn [length]. unfold u64. rewrite wrap_small; [lia|]. destruct HW as [_ H2].
      assert (2 ^ 29 < 2 ^ 64) by reflexivity. lia.
    - constructor.
    - intros w [].
    - intros w [].
    - discriminate.
    - intros t Hne _. rewrite upd_other by exact Hne. apply Hls'. exact Hne.
    - intros idx Hp. exfalso. apply (Hnop idx Hp).
    - constructor.
    - discriminate.
    - intros t t' _ Hs. exfalso. revert Hs. unfold upd. destruct (Nat.eqb_spec t loc) as [->|Hne]; [cbn; tauto|].
      rewrite (Hls' t Hne). cbn. tauto.
  Qed.
End Running.

(* ------------------------------------------------------------------ whole runs *)
Definition guard (cf : cfg) : Prop :=
  W_ok (N.of_nat (cW cf)) /\ (clocal cf < cW cf)%nat /\ cbits cf <= 64 /\ cn cf < 2 ^ cbits cf.

Definition zero_sig (cf : cfg) : sig_ev := {| sg := SValue (cvals cf); sg_calls := 0; sg_exits := 0 |}.

Definition Zero (cf : cfg) (g : bshared) (ls : nat -> bpc) : Prop :=
  cn cf = 0 /\ calls g = [] /\ exits g = [] /\ thrown g = [] /\ sigs g = [zero_sig cf] /\
  (forall t, spawned g t = false) /\ forall t, ls t = BIdle \/ ls t = BDone.

Definition Phase (cf : cfg) (g : bshared) (ls : nat -> bpc) : Prop :=
  Pre cf g ls \/ Zero cf g ls \/
  (0 < cn cf /\ exists c, get_chunk_size (N.of_nat (cW cf)) (cn cf) = Some c /\
                          chunk_ok (N.of_nat (cW cf)) (cn cf) c /\ Inv cf c g ls).

Lemma guard_n64 cf : guard cf -> cn cf < 2 ^ 64.
Proof. intros [_ [_ [Hb Hn]]]. pose proof (pow2_mono (cbits cf) 64 Hb). lia. Qed.

Lemma phase_step cf : guard cf -> forall o t g ls, Phase cf g ls ->
  Phase cf (fst (bstep cf o t g (ls t))) (upd ls t (snd (bstep cf o t g (ls t)))).
Proof.
  intros Hg o t g ls [HP|[HZ|[Hn0 [c [Hc [Hck HI]]]]]].
  - destruct (Nat.eq_dec t (clocal cf)) as [->|Hne].
    + destruct (N.eq_dec (cn cf) 0) as [E0|E0].
      * (* n == 0: forward the values at once *)
        right. left. destruct HP as [-> Hls]. rewrite (Hls (clocal cf)). unfold binit_locals at 1 2.
        rewrite Nat.eqb_refl. cbn [bstep]. rewrite E0. cbn [N.eqb fst snd].
        repeat split; cbn [binit_shared calls exits thrown sigs spawned length]; auto.
        intros t. unfold upd. destruct (Nat.eqb_spec t (clocal cf)) as [->|Hne]; [now right|].
        left. rewrite Hls. unfold binit_locals. apply Nat.eqb_neq in Hne. now rewrite Hne.
      * right. right. assert (Hn0 : 0 < cn cf) by lia. split; [exact Hn0|].
        destruct Hg as [HW [Hloc [Hb Hn]]].
        destruct (get_chunk_size_ok _ _ HW Hn0 (guard_n64 cf (conj HW (conj Hloc (conj Hb Hn))))) as [c [Hc Hck]].
        exists c. split; [exact Hc|]. split; [exact Hck|].
        apply entry_inv; assumption.
    + left. destruct HP as [-> Hls]. rewrite (Hls t). unfold binit_locals at 1 2.
      pose proof Hne as Hne'. apply Nat.eqb_neq in Hne'. rewrite Hne'. cbn [bstep binit_shared spawned fst snd].
      split; [reflexivity|]. intros t'. unfold upd. destruct (Nat.eqb_spec t' t) as [->|_]; [|apply Hls].
      unfold binit_locals. now rewrite Hne'.
  - right. left. destruct HZ as [E0 [Ec [Ee [Et [Es [Hsp Hls]]]]]].
    assert (Hsame : fst (bstep cf o t g (ls t)) = g /\ snd (bstep cf o t g (ls t)) = ls t).
    { destruct (Hls t) as [E|E]; rewrite E; cbn [bstep]; [rewrite (Hsp t)|]; split; reflexivity. }
    destruct Hsame as [E1 E2]. rewrite E1, E2. repeat split; auto.
    intros t'. unfold upd. destruct (Nat.eqb_spec t' t) as [->|_]; apply Hls.
  - right. right. split; [exact Hn0|]. exists c. split; [exact Hc|]. split; [exact Hck|].
    destruct Hg as [HW [Hloc [Hb Hn]]]. apply bstep_inv; assumption.
Qed.

Lemma phase_run cf sched : guard cf ->
  Phase cf (fst (brun cf sched)) (snd (brun cf sched)).
Proof.
  intros Hg. unfold brun. apply (run_inv _ _ _ (bstep cf) (Phase cf)).
  - intros o t g ls H. apply phase_step; assumption.
  - left. split; [reflexivity|]. intros t. reflexivity.
Qed.

Lemma phase_facts cf g ls : Phase cf g ls ->
  NoDup (map fst (calls g)) /\
  (forall j v, In (j, v) (calls g) -> j < cn cf /\ v = Some (cvals cf)) /\
  (forall x, In x (thrown g) -> called g x /\ cthrows cf x = true) /\
  (sigs g = [] \/ exists s, sigs g = [s] /\ sig_good cf g s).
Proof.
  intros [[-> _]|[HZ|[Hn0 [c [Hc [Hck HI]]]]]].
  - cbn. split; [constructor|]. split; [intros j v []|]. split; [intros x []|]. now left.
  - destruct HZ as [E0 [Ec [Ee [Et [Es _]]]]]. rewrite Ec, Et, Es. cbn [map].
    split; [constructor|]. split; [intros j v []|]. split; [intros x []|].
    right. exists (zero_sig cf). split; [reflexivity|]. unfold sig_good, zero_sig. cbn [sg sg_calls sg_exits].
    rewrite Ec, Ee, Et. cbn [length]. repeat split; auto. intros j Hj. lia.
  - split; [apply (i_calls_nodup cf c g ls HI)|]. split.
    + intros j v Hj. destruct (i_calls cf c g ls HI j v Hj) as [H1 [H2 _]]. auto.
    + split; [apply (i_thrown cf c g ls HI)|]. destruct (i_sig cf c g ls HI) as [E|[s [E [_ Hs]]]]; [now left|right].
      exists s. auto.
Qed.

(* ---- the statements of Props/Properties_C11.v ---- *)
Lemma bulk_each_index_once cf sched : guard cf ->
  let g := fst (brun cf sched) in
  NoDup (map fst (calls g)) /\
  forall j v, In (j, v) (calls g) -> j < cn cf /\ v = Some (cvals cf).
Proof. intros Hg g. destruct (phase_facts cf _ _ (phase_run cf sched Hg)) as [A [B _]]. split; assumption. Qed.

Lemma bulk_completes_at_most_once cf sched : guard cf ->
  (length (sigs (fst (brun cf sched))) <= 1)%nat.
Proof.
  intros Hg. destruct (phase_facts cf _ _ (phase_run cf sched Hg)) as [_ [_ [_ [E|[s [E _]]]]]]; rewrite E; cbn; lia.
Qed.

Lemma bulk_signal_after_last_call cf sched : guard cf ->
  let g := fst (brun cf sched) in
  forall s, In s (sigs g) ->
    sg_calls s = length (calls g) /\ sg_exits s = length (exits g) /\ length (calls g) = length (exits g).
Proof.
  intros Hg g s Hs. destruct (phase_facts cf _ _ (phase_run cf sched Hg)) as [_ [_ [_ [E|[s' [E Hgood]]]]]]; fold g in E.
  - rewrite E in Hs. destruct Hs.
  - fold g in Hgood. rewrite E in Hs. destruct Hs as [<-|[]]. destruct Hgood as [A [B [C _]]]. auto.
Qed.

Lemma bulk_value_means_all cf sched : guard cf ->
  let g := fst (brun cf sched) in
  forall s v, In s (sigs g) -> sg s = SValue v ->
    v = cvals cf /\ thrown g = [] /\ forall j, j < cn cf -> called g j.
Proof.
  intros Hg g s v Hs Ev. destruct (phase_facts cf _ _ (phase_run cf sched Hg)) as [_ [_ [_ [E|[s' [E Hgood]]]]]]; fold g in E.
  - rewrite E in Hs. destruct Hs.
  - fold g in Hgood. rewrite E in Hs. destruct Hs as [<-|[]]. destruct Hgood as [_ [_ [_ D]]]. rewrite Ev in D. exact D.
Qed.

Lemma bulk_error_iff_thrown cf sched : guard cf ->
  let g := fst (brun cf sched) in
  forall s, In s (sigs g) ->
    sg s <> SBad /\
    (thrown g <> [] -> exists y, sg s = SError (Some y)) /\
    (forall x, sg s = SError x -> exists y, x = Some y /\ In y (thrown g) /\ called g y /\ cthrows cf y = true).
Proof.
  intros Hg g s Hs. destruct (phase_facts cf _ _ (phase_run cf sched Hg)) as [_ [_ [Hth [E|[s' [E Hgood]]]]]]; fold g in E, Hth.
  - rewrite E in Hs. destruct Hs.
  - fold g in Hgood. rewrite E in Hs. destruct Hs as [<-|[]]. destruct Hgood as [_ [_ [_ D]]].
    destruct (sg s') as [v|[y|]|]; try contradiction.
    + destruct D as [_ [D _]]. repeat split; [discriminate|congruence|discriminate].
    + repeat split; [discriminate|intros _; now exists y|].
      intros x Ex. inversion Ex; subst x. exists y. destruct (Hth y D) as [H1 H2]. auto.
Qed.

Lemma bulk_zero_immediate cf o : cn cf = 0 ->
  let g := fst (brun cf [(clocal cf, o)]) in
  sigs g = [zero_sig cf] /\ calls g = [].
Proof.
  intros E0 g. subst g. unfold brun, run, binit. cbn [fold_left]. unfold step. cbn [fst snd].
  replace (binit_locals cf (clocal cf)) with BEntry by (unfold binit_locals; now rewrite Nat.eqb_refl).
  cbn [bstep]. rewrite E0. cbn. split; reflexivity.
Qed.

Lemma bulk_zero_no_calls cf sched : guard cf -> cn cf = 0 -> calls (fst (brun cf sched)) = [].
Proof.
  intros Hg E0. destruct (phase_run cf sched Hg) as [[-> _]|[HZ|[Hn0 _]]]; [reflexivity| |lia].
  destruct HZ as [_ [Ec _]]. exact Ec.
Qed.

(* ------------------------------------------------------------------ arithmetic statements *)
Lemma chunks_partition bits W n : W_ok W -> 0 < n -> n < 2 ^ bits -> bits <= 64 ->
  exists c, get_chunk_size W n = Some c /\ chunk_ok W n c /\
    let k := get_num_chunks n c in
    0 < k <= 8 * W /\
    (forall idx, idx < k -> chunk_begin bits c idx = idx * c /\
                            chunk_begin bits c idx < chunk_end bits c n idx <= n) /\
    (forall j, j < n -> exists idx, idx < k /\ chunk_begin bits c idx <= j < chunk_end bits c n idx /\
       forall idx', idx' < k -> chunk_begin bits c idx' <= j < chunk_end bits c n idx' -> idx' = idx).
Proof.
  intros HW Hn0 Hn Hb.
  assert (Hn64 : n < 2 ^ 64) by (pose proof (pow2_mono bits 64 Hb); lia).
  destruct (get_chunk_size_ok W n HW Hn0 Hn64) as [c [Hc Hck]].
  exists c. split; [exact Hc|]. split; [exact Hck|].
  destruct (get_num_chunks_eq W n c HW Hn0 Hn64 Hck) as [Ek Hk]. rewrite Ek. cbn zeta.
  assert (Hk32 : cdiv n c < 2 ^ 32).
  { destruct HW as [_ H2]. assert (E29 : 2 ^ 29 = 536870912) by reflexivity.
    assert (E32 : 2 ^ 32 = 4294967296) by reflexivity. lia. }
  pose proof (ck_pos _ _ _ Hck) as Hcpos. pose proof (ck_le _ _ _ Hck) as Hcle.
  assert (Hr : forall idx, idx < cdiv n c ->
            chunk_begin bits c idx = idx * c /\ chunk_end bits c n idx = N.min ((idx + 1) * c) n /\
            idx * c < N.min ((idx + 1) * c) n).
  { intros idx Hi. apply chunk_range_eq; auto. lia. }
  split; [exact Hk|]. split.
  - intros idx Hi. destruct (Hr idx Hi) as [A [B C]]. rewrite A, B. split; [reflexivity|lia].
  - intros j Hj. destruct (chunk_partition n c j Hcpos Hj) as [Hi Hjr]. exists (j / c). split; [exact Hi|].
    destruct (Hr (j / c) Hi) as [A [B C]]. rewrite A, B. split; [exact Hjr|].
    intros idx' Hi' Hj'. destruct (Hr idx' Hi') as [A' [B' C']]. rewrite A', B' in Hj'.
    destruct (chunk_unique c n idx' j Hcpos Hj') as [E _]. congruence.
Qed.

Lemma queues_partition W k : W_ok W -> k < 2 ^ 32 ->
  part_begin W 0 k = 0 /\ part_end W (W - 1) k = k /\
  (forall w, w < W -> part_begin W w k <= part_end W w k /\ part_end W w k = part_begin W (w + 1) k) /\
  (forall idx, idx < k -> exists w, w < W /\ part_begin W w k <= idx < part_end W w k /\
     forall w', w' < W -> part_begin W w' k <= idx < part_end W w' k -> w' = w).
Proof.
  intros HW Hk. pose proof HW as [HW1 HW2].
  assert (Hpb : forall w, w <= W -> part_begin W w k = pbeg W k w) by (intros w Hw; apply (part_eq W w k HW Hw Hk)).
  assert (Hpe : forall w, w < W -> part_end W w k = pbeg W k (w + 1)).
  { intros w Hw. apply (part_eq W w k HW ltac:(lia) Hk). exact Hw. }
  split; [rewrite Hpb by lia; apply pbeg_0|]. split.
  { rewrite Hpe by lia. replace (W - 1 + 1) with W by lia. apply pbeg_W. exact HW1. }
  split.
  - intros w Hw. rewrite (Hpb w) by lia. rewrite (Hpe w Hw). rewrite (Hpb (w + 1)) by lia.
    split; [apply pbeg_mono; lia|reflexivity].
  - intros idx Hi.
    destruct (pbeg_cover W k HW1 (N.to_nat W) ltac:(lia) idx) as [w [Hw Hr]].
    { rewrite N2Nat.id. rewrite pbeg_W by exact HW1. exact Hi. }
    exists (N.of_nat w). split; [lia|]. rewrite Hpb by lia. rewrite Hpe by lia. split; [exact Hr|].
    intros w' Hw' Hr'. rewrite Hpb in Hr' by lia. rewrite Hpe in Hr' by lia.
    apply (pbeg_disjoint W k w' (N.of_nat w) idx HW1 Hr' Hr).
Qed.

(* ------------------------------------------------------------------ the generic bulk loop *)
Lemma gen_loop_nothrow throws : forall fuel i acc,
  (forall j, i <= j < i + N.of_nat fuel -> throws j = false) ->
  gen_loop throws i fuel acc = (rev acc ++ Nrange i fuel, None).
Proof.
  induction fuel as [|fuel IH]; intros i acc H.
  - cbn. now rewrite app_nil_r.
  - cbn [gen_loop]. rewrite (H i) by lia. rewrite IH by (intros j Hj; apply H; lia).
    cbn [rev Nrange]. now rewrite <- app_assoc.
Qed.

Lemma gen_loop_throw throws x : throws x = true -> forall fuel i acc,
  i <= x < i + N.of_nat fuel -> (forall j, i <= j < x -> throws j = false) ->
  gen_loop throws i fuel acc = (rev acc ++ Nrange i (S (N.to_nat (x - i))), Some x).
Proof.
  intros Hx. induction fuel as [|fuel IH]; intros i acc Hi Hb; [lia|].
  cbn [gen_loop]. destruct (N.eq_dec i x) as [->|Hne].
  - rewrite Hx. rewrite N.sub_diag. cbn [rev N.to_nat Nrange]. reflexivity.
  - rewrite (Hb i) by lia. rewrite IH by (try (intros j Hj; apply Hb); lia).
    replace (N.to_nat (x - i)) with (S (N.to_nat (x - (i + 1)))) by lia.
    cbn [rev Nrange]. now rewrite <- app_assoc.
Qed.

Lemma gen_bulk_value throws n v : (forall j, j < n -> throws j = false) ->
  gen_bulk throws n v = (Nrange 0 (N.to_nat n), SValue v).
Proof.
  intros H. unfold gen_bulk. rewrite gen_loop_nothrow by (intros j Hj; apply H; lia). reflexivity.
Qed.

Lemma gen_bulk_error throws n v x : x < n -> throws x = true -> (forall j, j < x -> throws j = false) ->
  gen_bulk throws n v = (Nrange 0 (S (N.to_nat x)), SError (Some x)).
Proof.
  intros Hx Ht Hb. unfold gen_bulk.
  rewrite (gen_loop_throw throws x Ht) by (try (intros j Hj; apply Hb); lia).
  rewrite N.sub_0_r. reflexivity.
Qed.

Lemma Nrange_spec : forall k f x, In x (Nrange f k) <-> f <= x < f + N.of_nat k.
Proof.
  induction k as [|k IH]; intros f x.
  - cbn. lia.
  - cbn [Nrange In]. rewrite IH. lia.
Qed.

Lemma Nrange_nodup : forall k f, NoDup (Nrange f k).
Proof.
  induction k as [|k IH]; intros f; cbn [Nrange]; constructor; [|apply IH].
  rewrite Nrange_spec. lia.
Qed.

(* ------------------------------------------------------------------ progress: terminal states are signalled *)
Section Progress.
  Variable cf : cfg.
  Local Notation W := (cW cf).
  Local Notation Wn := (N.of_nat (cW cf)).
  Local Notation loc := (clocal cf).
  Hypothesis HW : W_ok Wn.
  Hypothesis Hloc : (loc < W)%nat.
  Hypothesis Hbits : cbits cf <= 64.
  Hypothesis Hn : cn cf < 2 ^ cbits cf.
  Hypothesis Hn0 : 0 < cn cf.
  Variable c : N.
  Hypothesis Hc : get_chunk_size Wn (cn cf) = Some c.
  Hypothesis Hck : chunk_ok Wn (cn cf) c.

  Record PInv (g : bshared) (ls : nat -> bpc) : Prop := {
    p_done : forall t, ls t = BDone \/ ls t = BSig KEnd -> In t (fin g);
    p_sp : forall w, (w < W)%nat -> w <> loc ->
           spawned g w = true \/ In w (fin g) \/ exists f, frontier (ls loc) = Some f /\ (f <= w)%nat;
    p_zero : remaining g = 0 -> sigs g <> [] \/ exists t, is_sig (ls t)
  }.

  Lemma pinv_frame g g' (ls : nat -> bpc) t l' :
    PInv g ls ->
    (forall w, In w (fin g) -> In w (fin g')) ->
    (forall w, spawned g w = true -> spawned g' w = true) ->
    (l' = BDone \/ l' = BSig KEnd -> In t (fin g')) ->
    (t = loc -> forall w, (w < W)%nat -> w <> loc -> (exists f, frontier (ls loc) = Some f /\ (f <= w)%nat) ->
        spawned g' w = true \/ In w (fin g') \/ exists f, frontier l' = Some f /\ (f <= w)%nat) ->
    (remaining g' = 0 -> sigs g' <> [] \/ is_sig l' \/ (remaining g = 0 /\ sigs g = sigs g' /\ ~ is_sig (ls t))) ->
    PInv g' (upd ls t l').
  Proof.
    intros [P1 P2 P3] Hfm Hsm Hd Hfr Hz. constructor.
    - intros t'. unfold upd. destruct (Nat.eqb_spec t' t) as [->|Hne]; [exact Hd|].
      intros H. apply Hfm. apply P1. exact H.
    - intros w Hw Hwl. destruct (P2 w Hw Hwl) as [H|[H|H]]; [left; auto|right; left; auto|].
      unfold upd. destruct (Nat.eqb_spec loc t) as [E|Hne]; [apply Hfr; auto|right; right; exact H].
    - intros Hr. destruct (Hz Hr) as [H|[H|[H1 [H2 H3]]]]; [left; exact H|right; exists t; now rewrite upd_same|].
      destruct (P3 H1) as [H|[t' Ht']]; [left; congruence|right].
      exists t'. rewrite upd_other; [exact Ht'|]. intros ->. contradiction.
  Qed.

  Ltac prj := unfold called in *; cbn [queues spawned remaining exc_flag exc ts csz calls exits thrown fin sigs set_queue] in *.

  Lemma pstep o t g ls : Inv cf c g ls -> PInv g ls ->
    PInv (fst (bstep cf o t g (ls t))) (upd ls t (snd (bstep cf o t g (ls t)))).
  Proof.
    intros HI HP. pose proof (i_twf cf c g ls HI t) as Ht.
    destruct (ls t) as [| |w|off p|off idx i e|off idx i e|x|x|k0|k0|] eqn:Hpc; cbn [bstep twf] in *.
    - (* BIdle *)
      destruct (spawned g t) eqn:Hs; cbn [fst snd]; apply (pinv_frame g); auto; try (intros [E|E]; discriminate);
        try (intros E; congruence); try (intros Hr0; right; right; rewrite Hpc; cbn; tauto).
    - contradiction.
    - (* BSpawn w *)
      destruct Ht as [Et HwW].
      destruct (W <=? w)%nat eqn:E1; cbn [fst snd].
      { apply Nat.leb_le in E1. apply (pinv_frame g); auto; try (intros [E|E]; discriminate).
        - intros _ w' Hw' _ [f [Ef Hf]]. rewrite <- Et, Hpc in Ef. cbn in Ef. inversion Ef; subst f. lia.
        - intros Hr0. right. right. rewrite Hpc. cbn. tauto. }
      apply Nat.leb_gt in E1. destruct (Nat.eqb w loc) eqn:E2; cbn [fst snd].
      { apply Nat.eqb_eq in E2. apply (pinv_frame g); auto; try (intros [E|E]; discriminate).
        - intros _ w' Hw' Hwl [f [Ef Hf]]. rewrite <- Et, Hpc in Ef. cbn in Ef. inversion Ef; subst f.
          right. right. exists (S w). split; [reflexivity|lia].
        - intros Hr0. right. right. rewrite Hpc. cbn. tauto. }
      destruct (range_empty (cur (queues g w))) eqn:E3; cbn [fst snd].
      { apply (pinv_frame g); auto; try (intros [E|E]; discriminate).
        - intros _ w' Hw' Hwl [f [Ef Hf]]. rewrite <- Et, Hpc in Ef. cbn in Ef. inversion Ef; subst f.
          right. right. exists w. split; [reflexivity|lia].
        - intros Hr0. right. right. rewrite Hpc. cbn. tauto. }
      apply (pinv_frame g); prj; auto; try (intros [E|E]; discriminate).
      + intros w' Hw'. destruct (Nat.eqb_spec w' w); auto.
      + intros _ w' Hw' Hwl [f [Ef Hf]]. rewrite <- Et, Hpc in Ef. cbn in Ef. inversion Ef; subst f.
        destruct (Nat.eqb_spec w' w) as [->|Hne]; [left; reflexivity|].
        right. right. exists (S w). split; [reflexivity|lia].
      + intros Hr0. right. right. rewrite Hpc. cbn. tauto.
    - (* BPop *)
      destruct (pop_step o t (queues g ((t + off) mod W)%nat) (side_of off) p) as [qs' r].
      assert (Hnf : forall f, frontier (ls loc) = Some f -> t <> loc).
      { intros f Ef E. subst t. rewrite Hpc in Ef. discriminate. }
      destruct r as [p'|[idx|]]; cbn [fst snd]; [| |destruct (S off <? W)%nat];
        (apply (pinv_frame g); prj; auto; try (intros [E|E]; discriminate);
         [intros E w' _ _ [f [Ef _]]; exfalso; apply (Hnf f Ef E)
         |intros Hr0; right; right; rewrite Hpc; cbn; tauto]).
    - (* BRun *)
      assert (Hnf : forall f, frontier (ls loc) = Some f -> t <> loc).
      { intros f Ef E. subst t. rewrite Hpc in Ef. discriminate. }
      destruct (i <? e); cbn [fst snd];
        (apply (pinv_frame g); prj; auto; try (intros [E|E]; discriminate);
         [intros E w' _ _ [f [Ef _]]; exfalso; apply (Hnf f Ef E)
         |intros Hr0; right; right; rewrite Hpc; cbn; tauto]).
    - (* BCall *)
      assert (Hnf : forall f, frontier (ls loc) = Some f -> t <> loc).
      { intros f Ef E. subst t. rewrite Hpc in Ef. discriminate. }
      cbn [fst snd]. destruct (cthrows cf i);
        (apply (pinv_frame g); prj; auto; try (intros [E|E]; discriminate);
         [intros E w' _ _ [f [Ef _]]; exfalso; apply (Hnf f Ef E)
         |intros Hr0; right; right; rewrite Hpc; cbn; tauto]).
    - (* BExch *)
      assert (Hnf : forall f, frontier (ls loc) = Some f -> t <> loc).
      { intros f Ef E. subst t. rewrite Hpc in Ef. discriminate. }
      cbn [fst snd]. destruct (exc_flag g);
        (apply (pinv_frame g); prj; auto; try (intros [E|E]; discriminate);
         [intros E w' _ _ [f [Ef _]]; exfalso; apply (Hnf f Ef E)
         |intros Hr0; right; right; rewrite Hpc; cbn; tauto]).
    - (* BStore *)
      assert (Hnf : forall f, frontier (ls loc) = Some f -> t <> loc).
      { intros f Ef E. subst t. rewrite Hpc in Ef. discriminate. }
      cbn [fst snd].
      apply (pinv_frame g); prj; auto; try (intros [E|E]; discriminate);
         [intros E w' _ _ [f [Ef _]]; exfalso; apply (Hnf f Ef E)
         |intros Hr0; right; right; rewrite Hpc; cbn; tauto].
    - (* BDec *)
      cbn [fst snd].
      destruct (u64 (remaining g + 2 ^ 64 - 1) =? 0) eqn:Er.
      + apply (pinv_frame g); prj; auto.
        * intros w' Hw'. right. exact Hw'.
        * intros [E|E]; [discriminate|]. inversion E; subst k0. left. reflexivity.
        * intros Et w' Hw' Hwl [f [Ef Hf]]. rewrite <- Et, Hpc in Ef. destruct k0 as [w|]; cbn in Ef; [|discriminate].
          inversion Ef; subst f. destruct (Nat.eq_dec w' w) as [->|Hne]; [right; left; left; reflexivity|].
          right. right. exists (S w). split; [reflexivity|lia].
        * intros _. right. left. exact I.
      + apply N.eqb_neq in Er. apply (pinv_frame g); prj; auto.
        * intros w' Hw'. right. exact Hw'.
        * intros [E|E]; destruct k0; try discriminate; left; reflexivity.
        * intros Et w' Hw' Hwl [f [Ef Hf]]. rewrite <- Et, Hpc in Ef. destruct k0 as [w|]; cbn in Ef; [|discriminate].
          inversion Ef; subst f. destruct (Nat.eq_dec w' w) as [->|Hne]; [right; left; left; reflexivity|].
          right. right. exists (S w). split; [reflexivity|lia].
    - (* BSig *)
      cbn [fst snd]. apply (pinv_frame g); prj; auto.
      + intros [E|E]; destruct k0; try discriminate. apply (p_done g ls HP t). right. exact Hpc.
      + intros Et w' Hw' Hwl [f [Ef Hf]]. rewrite <- Et, Hpc in Ef. destruct k0 as [w|]; cbn in Ef; [|discriminate].
        inversion Ef; subst f. right. right. exists (S w). split; [reflexivity|lia].
      + intros _. left. discriminate.
    - (* BDone *)
      cbn [fst snd]. apply (pinv_frame g); auto.
      + intros _. apply (p_done g ls HP t). left. exact Hpc.
      + intros Et w' _ _ [f [Ef _]]. rewrite <- Et, Hpc in Ef. discriminate.
      + intros Hr. right. right. rewrite Hpc. cbn. tauto.
  Qed.

  Lemma pinv_entry g ls o : Pre cf g ls ->
    PInv (fst (bstep cf o loc g (ls loc))) (upd ls loc (snd (bstep cf o loc g (ls loc)))).
  Proof.
    intros [-> Hls]. rewrite (Hls loc). unfold binit_locals at 1 2. rewrite Nat.eqb_refl.
    cbn [bstep]. destruct (N.eqb_spec (cn cf) 0) as [E|_]; [lia|]. rewrite Hc. cbn [fst snd].
    constructor; cbn [binit_shared queues spawned remaining fin sigs].
    - intros t. unfold upd. destruct (Nat.eqb_spec t loc) as [->|Hne]; [intros [E|E]; discriminate|].
      rewrite Hls. unfold binit_locals. apply Nat.eqb_neq in Hne. rewrite Hne. intros [E|E]; discriminate.
    - intros w Hw Hwl. right. right. exists O. rewrite upd_same. split; [reflexivity|lia].
    - intros Hr. exfalso. unfold u64 in Hr. rewrite wrap_small in Hr.
      + destruct HW. lia.
      + destruct HW as [_ H2]. assert (2 ^ 29 < 2 ^ 64) by reflexivity. lia.
  Qed.

  Lemma terminal_signalled g ls : Inv cf c g ls -> PInv g ls ->
    (forall t, terminal g t (ls t)) -> length (sigs g) = 1%nat.
  Proof.
    intros HI [P1 P2 P3] Hterm.
    assert (Hlocdone : ls loc = BDone).
    { pose proof (Hterm loc) as H. pose proof (i_twf cf c g ls HI loc) as Htw.
      destruct (ls loc); cbn [terminal twf] in *; try contradiction; try reflexivity; congruence. }
    assert (Hall : forall w, (w < W)%nat -> In w (fin g)).
    { intros w Hw. destruct (Nat.eq_dec w loc) as [->|Hne]; [apply P1; now left|].
      destruct (P2 w Hw Hne) as [H|[H|[f [Ef _]]]]; [|exact H|rewrite Hlocdone in Ef; discriminate].
      pose proof (Hterm w) as Ht. destruct (ls w) eqn:E; cbn [terminal] in Ht; try contradiction; [congruence|].
      apply P1. now left. }
    assert (Hr : remaining g = 0).
    { pose proof (i_rem cf c g ls HI) as Hrem. pose proof (i_fin_nodup cf c g ls HI) as Hnd.
      assert (Hlen : (W <= length (fin g))%nat).
      { rewrite <- (seq_length W 0). apply NoDup_incl_length; [apply seq_NoDup|].
        intros w Hw. apply in_seq in Hw. apply Hall. lia. }
      lia. }
    destruct (P3 Hr) as [H|[t Ht]].
    - destruct (i_sig cf c g ls HI) as [E|[s [E _]]]; [contradiction|]. rewrite E. reflexivity.
    - exfalso. pose proof (Hterm t) as H. destruct (ls t); cbn in H, Ht; contradiction.
  Qed.
End Progress.

Definition Phase2 (cf : cfg) (g : bshared) (ls : nat -> bpc) : Prop :=
  Pre cf g ls \/ Zero cf g ls \/
  (0 < cn cf /\ exists c, get_chunk_size (N.of_nat (cW cf)) (cn cf) = Some c /\
                          chunk_ok (N.of_nat (cW cf)) (cn cf) c /\ Inv cf c g ls /\ PInv cf g ls).

Lemma phase2_run cf sched : guard cf -> Phase2 cf (fst (brun cf sched)) (snd (brun cf sched)).
Proof.
  intros Hg. unfold brun. apply (run_inv _ _ _ (bstep cf) (Phase2 cf)).
  - intros o t g ls [HP|[HZ|[Hn0 [c [Hc [Hck [HI HP]]]]]]].
    + pose proof (phase_step cf Hg o t g ls (or_introl HP)) as Hnext.
      destruct (Nat.eq_dec t (clocal cf)) as [->|Hne].
      * destruct Hnext as [H|[H|[Hn0 [c [Hc [Hck HI]]]]]]; [left; exact H|right; left; exact H|].
        right. right. split; [exact Hn0|]. exists c. split; [exact Hc|]. split; [exact Hck|]. split; [exact HI|].
        destruct Hg as [HW [Hloc [Hb Hn]]]. eapply pinv_entry; eauto.
      * left. destruct HP as [-> Hls]. rewrite (Hls t). unfold binit_locals at 1 2.
        pose proof Hne as Hne'. apply Nat.eqb_neq in Hne'. rewrite Hne'. cbn [bstep binit_shared spawned fst snd].
        split; [reflexivity|]. intros t'. unfold upd. destruct (Nat.eqb_spec t' t) as [->|_]; [|apply Hls].
        unfold binit_locals. now rewrite Hne'.
    + pose proof (phase_step cf Hg o t g ls (or_intror (or_introl HZ))) as [H|[H|[Hn0 _]]];
        [left; exact H|right; left; exact H|]. destruct HZ as [E0 _]. lia.
    + right. right. split; [exact Hn0|]. exists c. destruct Hg as [HW [Hloc [Hb Hn]]].
      split; [exact Hc|]. split; [exact Hck|]. split.
      * apply bstep_inv; assumption.
      * eapply pstep; eauto.
  - left. split; [reflexivity|]. intros t. reflexivity.
Qed.

Lemma bulk_completes_when_done cf sched : guard cf ->
  let c := brun cf sched in
  (forall t, terminal (fst c) t (snd c t)) -> length (sigs (fst c)) = 1%nat.
Proof.
  intros Hg cc Hterm. pose proof (phase2_run cf sched Hg) as Hph. change (brun cf sched) with cc in Hph.
  clearbody cc. destruct Hph as [[_ Hls]|[HZ|[Hn0 [c [Hc [Hck [HI HP]]]]]]].
  - exfalso. pose proof (Hterm (clocal cf)) as H. rewrite (Hls (clocal cf)) in H.
    unfold binit_locals in H. rewrite Nat.eqb_refl in H. exact H.
  - destruct HZ as [_ [_ [_ [_ [Es _]]]]]. rewrite Es. reflexivity.
  - destruct Hg as [HW [Hloc [Hb Hn]]]. eapply terminal_signalled; eauto.
Qed.
