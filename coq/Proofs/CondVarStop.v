(* Proofs/CondVarStop.v — C07: the stop-token wait.  Invariants about the stop state of Model/CondVar.v and
   the theorem: when nothing can move and stop has been requested, no stop-token waiter is blocked. *)
From Coq Require Import List NArith Bool Arith Lia.
From Pika Require Import Base.Conc Base.Agent Model.CondVar
  Proofs.CondVarInvA Proofs.CondVarInvB Proofs.CondVarInvC.
Import ListNotations.

Definition is_stop (o : cv_op) : bool := match o with CWaitStop | CWaitStopFor => true | _ => false end.
(* inside wait(lock, stoken, pred) after the stop_callback has been constructed *)
Definition stop_zone (p : cv_pc) : bool :=
  match p with
  | CIdle | CStopReg => false
  | NLockI _ _ il | NPop _ _ il | NRes _ _ il => il
  | _ => true
  end.
(* past the stop_requested() test of the current round, up to the return of the detail wait *)
Definition past_chk (p : cv_pc) : bool :=
  match p with CUnlockU | CPush | CPreSusp | CSusp | CSleep | CRelockI | CCheck | CStopChk2 _ | CLockU _ => true | _ => false end.
(* a notify_all that has not yet swapped the queue *)
Definition pending_all (p : cv_pc) : bool :=
  match p with NLockI true (S _) _ | NPop true _ _ => true | _ => false end.
(* a stop-token waiter that has passed the test and is, or is about to be, in the queue *)
Definition exposed (g : cv_shared) (t : nat) (l : cv_local) : Prop :=
  is_stop (cur_op l) = true /\
  (cpc l = CUnlockU \/ cpc l = CPush \/ (in_wait (cpc l) = true /\ In t (cqueue g))).

Record cv_sinv (g : cv_shared) (ls : locals cv_local) : Prop := {
  s_a : forall t, is_stop (cur_op (ls t)) = true -> stop_zone (cpc (ls t)) = true ->
          reg (ls t) = true \/ stopreq g = true;
  s_b : forall t, is_stop (cur_op (ls t)) = true -> past_chk (cpc (ls t)) = true -> reg (ls t) = true;
  s_z : forall t, reg (ls t) = true -> is_stop (cur_op (ls t)) = true /\ stop_zone (cpc (ls t)) = true;
  s_o : forall t, cpc (ls t) = CStopReg -> is_stop (cur_op (ls t)) = true;
  s_c : forall t, reg (ls t) = true <-> In t (cbs g);
  s_r : stopreq g = true -> (exists t, exposed g t (ls t)) -> exists n, pending_all (cpc (ls n)) = true
}.

Lemma cv_sinv_init progs : cv_sinv cv_init (cv_locals progs).
Proof.
  constructor; cbn; try discriminate; try tauto.
  intros t. split; [discriminate|tauto].
Qed.

Ltac ssimp := cbn [cpc ctodo hu reg l_pc l_hu l_pop is_stop stop_zone past_chk pending_all cur_op in_wait] in *.

Lemma cv_sstep_abz isos o t g (ls : locals cv_local) : cv_sinv g ls -> forall t',
  let g' := fst (cv_tstep isos o t g (ls t)) in
  let l' := upd ls t (snd (cv_tstep isos o t g (ls t))) t' in
  (is_stop (cur_op l') = true -> stop_zone (cpc l') = true -> reg l' = true \/ stopreq g' = true) /\
  (is_stop (cur_op l') = true -> past_chk (cpc l') = true -> reg l' = true) /\
  (reg l' = true -> is_stop (cur_op l') = true /\ stop_zone (cpc l') = true) /\
  (cpc l' = CStopReg -> is_stop (cur_op l') = true).
Proof.
  intros S t'. pose proof (s_o _ _ S t') as Ho. pose proof (s_a _ _ S t') as Ha. pose proof (s_b _ _ S t') as Hb. pose proof (s_z _ _ S t') as Hz.
  cbv zeta.
  cv_cases isos t g ls E; upd_cases t' t; rewrite ?E in *; ssimp;
    cbn [stopreq g_stop g_log g_u g_i g_q g_ag g_flag];
    repeat split; intros; try discriminate; auto; try tauto; try (intuition congruence).
Qed.

Lemma cv_sstep_c isos o t g (ls : locals cv_local) : cv_sinv g ls -> forall t',
  reg (upd ls t (snd (cv_tstep isos o t g (ls t))) t') = true <->
  In t' (cbs (fst (cv_tstep isos o t g (ls t)))).
Proof.
  intros S t'. pose proof (s_c _ _ S) as Hc. pose proof (Hc t) as Hct. pose proof (Hc t') as Hct'.
  cv_cases isos t g ls E; upd_cases t' t; rewrite ?E in *; ssimp;
    cbn [cbs g_stop g_log g_u g_i g_q g_ag g_flag];
    rewrite ?in_cremove; cbn [In] in *; try tauto; try (intuition congruence).
Qed.

(* facts about one step, used to carry the pending-notify_all witness across it *)
Lemma step_stopreq isos o t g (l : cv_local) :
  stopreq (fst (cv_tstep isos o t g l)) = true ->
  stopreq g = true \/ (cpc l = CIdle /\ cur_op l = CRequestStop /\ ctodo l <> [] /\ stopreq g = false).
Proof.
  unfold cv_tstep, ret. destruct l as [td p h r]. cbn [cpc ctodo hu reg cur_op].
  destruct p; [destruct td as [|[] ?]|..]; unfold cur_op; cbn [ctodo];
  repeat match goal with
   | |- context [match ?td with [] => _ | _ :: _ => _ end] => is_var td; destruct td as [|[] ?]
   end; cbn [is_timed]; cv_split isos t g; cv_split isos t g; cbn [stopreq g_stop g_log g_u g_i g_q g_ag g_flag];
  intros H; try (left; assumption); try (left; congruence).
  all: right; repeat split; try discriminate; auto.
Qed.

Lemma step_queue_sub isos o t g (l : cv_local) x :
  In x (cqueue (fst (cv_tstep isos o t g l))) -> In x (cqueue g) \/ (x = t /\ cpc l = CPush).
Proof.
  unfold cv_tstep, ret. destruct l as [td p h r]. cbn [cpc ctodo hu reg cur_op].
  destruct p; [destruct td as [|[] ?]|..]; unfold cur_op; cbn [ctodo];
  repeat match goal with
   | |- context [match ?td with [] => _ | _ :: _ => _ end] => is_var td; destruct td as [|[] ?]
   end; cbn [is_timed]; cv_split isos t g; cv_split isos t g; cbn [cqueue g_stop g_log g_u g_i g_q g_ag g_flag];
  intros H; try (left; assumption); try (left; rewrite in_cremove in H; tauto); try (destruct H; fail).
  all: try (rewrite in_app_iff in H; cbn [In] in H; intuition).
  all: try (left; cbn [In]; tauto).
Qed.

Lemma step_own_exposed isos o t g (l : cv_local) :
  stopreq g = true ->
  exposed (fst (cv_tstep isos o t g l)) t (snd (cv_tstep isos o t g l)) ->
  exposed g t l \/ (cpc l = CPush /\ is_stop (cur_op l) = true).
Proof.
  intros Hs. unfold exposed, cv_tstep, ret. destruct l as [td p h r]. cbn [cpc ctodo hu reg cur_op].
  destruct p; [destruct td as [|[] ?]|..]; unfold cur_op; cbn [ctodo];
  repeat match goal with
   | |- context [match ?td with [] => _ | _ :: _ => _ end] => is_var td; destruct td as [|[] ?]
   end; cbn [is_timed]; cv_split isos t g; cv_split isos t g; ssimp; cbn [cqueue g_stop g_log g_u g_i g_q g_ag g_flag];
  try congruence;
  intros [Hop [Hp|[Hp|[Hw Hin]]]]; try discriminate; try (right; split; [reflexivity|assumption]);
  try (left; split; [assumption|]; auto; fail).
  all: try (left; split; [assumption|]; right; right; split; [reflexivity|];
            try assumption; try (rewrite in_cremove in Hin; tauto); try (destruct Hin; fail)).
  all: try (cbn [In] in *; tauto).
Qed.

Lemma step_pending isos o t g (l : cv_local) :
  pending_all (cpc l) = true ->
  pending_all (cpc (snd (cv_tstep isos o t g l))) = true \/
  (exists r i, cpc l = NPop true r i /\ cqueue (fst (cv_tstep isos o t g l)) = [] /\
               is_nres (cpc (snd (cv_tstep isos o t g l))) = true).
Proof.
  unfold cv_tstep. destruct l as [td p h r]. cbn [cpc]. destruct p; try discriminate.
  - destruct all; [|discriminate]. destruct reps; [discriminate|]. intros _. left.
    destruct (ilock g); reflexivity.
  - destruct all; [|discriminate]. intros _. right. exists reps, il. repeat split.
Qed.

Lemma exposed_past_chk g t l : exposed g t l -> is_stop (cur_op l) = true /\ past_chk (cpc l) = true.
Proof.
  intros [Ho [Hp|[Hp|[Hw _]]]]; split; auto; try (rewrite Hp; reflexivity).
  destruct (cpc l); try discriminate; reflexivity.
Qed.

Lemma cv_sstep_r isos o t g (ls : locals cv_local) : cv_inv isos g ls -> cv_sinv g ls ->
  let g' := fst (cv_tstep isos o t g (ls t)) in
  let ls' := upd ls t (snd (cv_tstep isos o t g (ls t))) in
  stopreq g' = true -> (exists t', exposed g' t' (ls' t')) -> exists n, pending_all (cpc (ls' n)) = true.
Proof.
  intros I S g' ls' Hs' [t' Hex'].
  (* exposure of t' before the step *)
  assert (Hex : stopreq g = true -> exists x, exposed g x (ls x)).
  { intros Hs. destruct (Nat.eq_dec t' t) as [->|Hne].
    - unfold ls' in Hex'. rewrite upd_same in Hex'.
      destruct (step_own_exposed isos o t g (ls t) Hs Hex') as [H|[Hp Ho]]; [exists t; exact H|].
      exists t. split; [exact Ho|]. right. left. exact Hp.
    - unfold ls' in Hex'. rewrite upd_other in Hex' by assumption. exists t'.
      destruct Hex' as [Ho [Hp|[Hp|[Hw Hin]]]]; split; auto.
      right. right. split; [exact Hw|].
      destruct (step_queue_sub isos o t g (ls t) t' Hin) as [H|[H _]]; [exact H|congruence]. }
  destruct (step_stopreq isos o t g (ls t) Hs') as [Hs|[Hp [Ho [Hnn Hs]]]].
  - (* stop had been requested before: carry the witness across the step *)
    destruct (s_r _ _ S Hs (Hex Hs)) as [n Hn].
    destruct (Nat.eq_dec n t) as [->|Hne]; [|exists n; unfold ls'; rewrite upd_other by assumption; exact Hn].
    destruct (step_pending isos o t g (ls t) Hn) as [H|[r [i [Hp [Hq Hnr]]]]].
    + exists t. unfold ls'. rewrite upd_same. exact H.
    + (* the notify_all swapped the queue: nobody is exposed any more *)
      exfalso. fold g' in Hq.
      assert (Ht : holds_i (cpc (ls t)) = true) by (rewrite Hp; reflexivity).
      apply (c_i _ _ _ I) in Ht.
      destruct (Nat.eq_dec t' t) as [->|Hne'].
      * unfold ls' in Hex'. rewrite upd_same in Hex'. destruct Hex' as [_ [H|[H|[Hw Hin]]]].
        -- rewrite H in Hnr. discriminate.
        -- rewrite H in Hnr. discriminate.
        -- rewrite Hq in Hin. exact Hin.
      * unfold ls' in Hex'. rewrite upd_other in Hex' by assumption. destruct Hex' as [_ [H|[H|[Hw Hin]]]].
        -- assert (Ht' : holds_i (cpc (ls t')) = true) by (rewrite H; reflexivity).
           apply (c_i _ _ _ I) in Ht'. congruence.
        -- assert (Ht' : holds_i (cpc (ls t')) = true) by (rewrite H; reflexivity).
           apply (c_i _ _ _ I) in Ht'. congruence.
        -- rewrite Hq in Hin. exact Hin.
  - (* this very step is the request_stop *)
    assert (Hne : t' <> t).
    { intros ->. unfold ls' in Hex'. rewrite upd_same in Hex'.
      destruct (exposed_past_chk _ _ _ Hex') as [_ Hpc].
      revert Hpc. unfold cv_tstep. rewrite Hp. destruct (ctodo (ls t)) as [|op rest] eqn:Etd; [congruence|].
      unfold cur_op in Ho. rewrite Etd in Ho. subst op. rewrite Hs.
      destruct (cbs g); cbn; discriminate. }
    unfold ls' in Hex'. rewrite upd_other in Hex' by assumption.
    assert (Hexb : exposed g t' (ls t')).
    { destruct Hex' as [Ho' [H|[H|[Hw Hin]]]]; split; auto. right. right. split; [exact Hw|].
      destruct (step_queue_sub isos o t g (ls t) t' Hin) as [H|[H _]]; [exact H|congruence]. }
    destruct (exposed_past_chk _ _ _ Hexb) as [Hop Hpc].
    pose proof (s_b _ _ S t' Hop Hpc) as Hreg. apply (s_c _ _ S) in Hreg.
    exists t. unfold ls'. rewrite upd_same. unfold cv_tstep. rewrite Hp.
    destruct (ctodo (ls t)) as [|op rest] eqn:Etd; [congruence|].
    unfold cur_op in Ho. rewrite Etd in Ho. subst op. rewrite Hs.
    destruct (cbs g) as [|c cs]; [destruct Hreg|]. reflexivity.
Qed.

Lemma cv_sinv_step isos : forall o t g (ls : locals cv_local), cv_inv isos g ls /\ cv_sinv g ls ->
  cv_inv isos (fst (cv_tstep isos o t g (ls t))) (upd ls t (snd (cv_tstep isos o t g (ls t)))) /\
  cv_sinv (fst (cv_tstep isos o t g (ls t))) (upd ls t (snd (cv_tstep isos o t g (ls t)))).
Proof.
  intros o t g ls [I S]. split; [now apply cv_inv_step|].
  constructor.
  - intros t'. apply (cv_sstep_abz isos o t g ls S t').
  - intros t'. apply (cv_sstep_abz isos o t g ls S t').
  - intros t'. apply (cv_sstep_abz isos o t g ls S t').
  - intros t'. apply (cv_sstep_abz isos o t g ls S t').
  - now apply cv_sstep_c.
  - exact (cv_sstep_r isos o t g ls I S).
Qed.

Lemma cv_reach_sinv isos progs sched :
  cv_inv isos (fst (cv_run isos sched progs)) (snd (cv_run isos sched progs)) /\
  cv_sinv (fst (cv_run isos sched progs)) (snd (cv_run isos sched progs)).
Proof.
  unfold cv_run.
  apply (run_inv _ _ _ (cv_tstep isos) (fun g ls => cv_inv isos g ls /\ cv_sinv g ls) (cv_sinv_step isos)).
  split; [apply cv_inv_init|apply cv_sinv_init].
Qed.

(* pika tasks: when nothing can move any more and stop has been requested, no stop-token waiter is blocked *)
Lemma stop_wait_returns : forall isos progs sched t,
  (forall w, isos w = false) ->
  let c := cv_run isos sched progs in
  cv_stuck isos (fst c) (snd c) -> stopreq (fst c) = true ->
  cur_op (snd c t) = CWaitStop -> blocked (cag (fst c) t) = false.
Proof.
  intros isos progs sched t Hos c Hst Hs Hop.
  destruct (cv_reach_sinv isos progs sched) as [I S]. fold c in I, S.
  destruct (blocked (cag (fst c) t)) eqn:Hb; [exfalso|reflexivity].
  destruct (c_b _ _ _ I t Hb) as [Hp Hin].
  assert (Hi : ilock (fst c) = None).
  { destruct (ilock (fst c)) as [n|] eqn:Ei; [|reflexivity]. exfalso.
    pose proof (proj2 (c_i _ _ _ I n) Ei) as Hh. specialize (Hst n). unfold cv_enabled in Hst.
    destruct (cpc (snd c n)); try discriminate.
    destruct (pend (fst c)) as [|w ?]; [discriminate|]. rewrite Hos in Hst. discriminate. }
  assert (Hpn : pend (fst c) = []).
  { destruct (pend (fst c)) eqn:Ep; [reflexivity|].
    destruct (c_p _ _ _ I) as [m [Hm _]]; [rewrite Ep; discriminate|congruence]. }
  rewrite Hpn, app_nil_r in Hin.
  destruct (s_r _ _ S Hs) as [n Hn].
  { exists t. split; [rewrite Hop; reflexivity|]. right. right. split; [rewrite Hp; reflexivity|exact Hin]. }
  specialize (Hst n). unfold cv_enabled in Hst. destruct (cpc (snd c n)); try discriminate.
  rewrite Hi in Hst. discriminate.
Qed.
