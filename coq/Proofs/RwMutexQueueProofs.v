(* Proofs/RwMutexQueueProofs.v — no push is lost: an operation state that was pushed (TQueued)
   is still in the list of its group, so the exchange in done() hands it its continuation; once
   the head is the sentinel no operation state of the group is waiting in the queue. *)
From Coq Require Import List Arith Bool Lia.
From Pika Require Import Base.Conc Model.RwMutex Proofs.RwMutexProofs.
Import ListNotations.

Definition GQc (gs : nat -> group) (tk : nat -> token) : Prop :=
  forall e, tst (tk e) = TQueued -> exists l, head (gs (tgrp (tk e))) = HList l /\ In e l.
Definition GQ (g : shared) : Prop := GQc (grp g) (tok g).

Lemma GQ_init : GQ rw_init.
Proof. intros e. cbn. discriminate. Qed.

Lemma GQ_tok gs tk e nk : GQc gs tk -> tst nk <> TQueued -> GQc gs (fset tk e nk).
Proof. intros HQ Hs e0. unfold fset. destruct (Nat.eqb_spec e0 e); subst; [contradiction|apply HQ]. Qed.

Lemma GQ_fsetg gs tk k gr : GQc gs tk -> head gr = head (gs k) -> GQc (fset gs k gr) tk.
Proof.
  intros HQ Hh e He. destruct (HQ e He) as [l [Hl Hin]]. exists l. split; [|exact Hin].
  unfold fset. destruct (Nat.eqb_spec (tgrp (tk e)) k) as [E|]; [rewrite Hh, <- E|]; exact Hl.
Qed.

Lemma GQ_newgrp gs tk k gr : GQc gs tk -> (forall e, tst (tk e) = TQueued -> tgrp (tk e) <> k) -> GQc (fset gs k gr) tk.
Proof.
  intros HQ Hn e He. destruct (HQ e He) as [l [Hl Hin]]. exists l. split; [|exact Hin].
  rewrite fset_other; [exact Hl|apply Hn; exact He].
Qed.

Lemma GQ_push gs tk e l : GQc gs tk -> head (gs (tgrp (tk e))) = HList l ->
  GQc (fset gs (tgrp (tk e)) (set_head (gs (tgrp (tk e))) (HList (e :: l)))) (fset tk e (set_st (tk e) TQueued)).
Proof.
  intros HQ Hh e0 He0. destruct (Nat.eq_dec e0 e) as [->|Hne].
  - exists (e :: l). rewrite (fset_same tk). cbn [tgrp set_st]. rewrite fset_same. cbn. auto.
  - rewrite (fset_other tk) in He0 |- * by assumption.
    destruct (HQ e0 He0) as [l0 [Hl Hin]]. unfold fset.
    destruct (Nat.eqb_spec (tgrp (tk e0)) (tgrp (tk e))) as [E|].
    + rewrite E, Hh in Hl. injection Hl as <-. exists (e :: l). cbn. auto.
    + exists l0. auto.
Qed.

Lemma take_all_spec t : forall l tk e,
  take_all tk l t e = if in_dec Nat.eq_dec e l then set_st (tk e) (TGranting t) else tk e.
Proof.
  induction l as [|x l IH]; intros tk e; [reflexivity|]. cbn [take_all fold_left].
  change (fold_left (fun tk0 e0 => fset tk0 e0 (set_st (tk0 e0) (TGranting t))) l (fset tk x (set_st (tk x) (TGranting t))) e)
    with (take_all (fset tk x (set_st (tk x) (TGranting t))) l t e).
  rewrite IH. destruct (in_dec Nat.eq_dec e l) as [Hi|Hi], (in_dec Nat.eq_dec e (x :: l)) as [Hj|Hj];
    unfold fset; destruct (Nat.eqb_spec e x); subst; cbn; try reflexivity;
    try (exfalso; apply Hj; cbn; auto; fail).
  destruct Hj as [Hj|Hj]; [congruence|contradiction].
Qed.

Lemma GQ_done gs tk k l t : GQc gs tk -> head (gs k) = HList l ->
  GQc (fset gs k (set_head (gs k) HSent)) (take_all tk l t).
Proof.
  intros HQ Hh e. rewrite take_all_spec. destruct (in_dec Nat.eq_dec e l) as [Hi|Hi]; cbn; [discriminate|].
  intros He. destruct (HQ e He) as [l0 [Hl Hin]]. unfold fset.
  destruct (Nat.eqb_spec (tgrp (tk e)) k) as [E|]; [|eauto].
  rewrite E, Hh in Hl. injection Hl as <-. contradiction.
Qed.

Lemma rel_head t gr : head (rel_grp t gr) = head gr. Proof. apply rel_grp_head. Qed.

Lemma GQ_do_rel t g e rest : GQ g -> GQ (fst (do_rel t g e rest)).
Proof.
  intros HQ. unfold do_rel. cbn [fst]. unfold GQ, upd_grp, set_tst.
  destruct (is_wrapper (tst (tok g e))); cbn;
    (apply GQ_fsetg; [apply GQ_tok; [exact HQ|cbn; discriminate]|apply rel_head]).
Qed.
Lemma GQ_vdec g : GQ g -> GQ (do_vdec g).
Proof. unfold do_vdec. destruct (Nat.eqb (pred (vrefs g)) 0 && negb (vfreed g)); exact (fun H => H). Qed.

Lemma GQ_work sp t g w rest : GI g -> GQ g -> GQ (fst (do_work sp t g w rest)).
Proof.
  intros H HQ. destruct w as [e|e nx|e|e|k|k|k tmp|]; cbn [do_work].
  - destruct (is_starting t (tst (tok g e))); cbn [negb]; [|exact HQ].
    destruct (head (grp g (tgrp (tok g e)))) as [|[|x l]]; cbn [hptr fst]; try exact HQ.
    unfold GQ, set_tst. cbn. apply GQ_tok; [exact HQ|cbn; discriminate].
  - destruct (is_starting t (tst (tok g e))); cbn [negb]; [|exact HQ].
    destruct (head (grp g (tgrp (tok g e)))) as [|l] eqn:Eh.
    + cbn [fst]. unfold GQ, set_tst. cbn. apply GQ_tok; [exact HQ|cbn; discriminate].
    + destruct (nxt_eqb nx (hptr (HList l)) && negb sp); [|exact HQ].
      cbn [fst]. unfold GQ, set_tst, upd_grp. cbn. apply GQ_push; assumption.
  - destruct (is_granting t (tst (tok g e))); cbn [negb]; [|exact HQ]. cbn [fst].
    assert (X : GQc (grp g) (fset (tok g) e (set_st (tok g e) (if tauto (tok g e) then TAuto t else TLive)))).
    { apply GQ_tok; [exact HQ|cbn; destruct (tauto (tok g e)); discriminate]. }
    destruct (tuse (tok g e)); exact X.
  - destruct (owned_by t (tst (tok g e))); cbn [negb]; [|exact HQ]. apply GQ_do_rel; exact HQ.
  - destruct (Nat.eqb (gphase (grp g k)) 1 && Nat.eqb (gown (grp g k)) t); cbn [negb]; [|exact HQ].
    cbn [fst]. apply GQ_vdec. unfold GQ, upd_grp. cbn. apply GQ_fsetg; [exact HQ|reflexivity].
  - destruct (Nat.eqb (gphase (grp g k)) 2 && Nat.eqb (gown (grp g k)) t); cbn [negb]; [|exact HQ].
    destruct (linked (grp g k)); cbn [fst]; unfold GQ, upd_grp, new_tok; cbn.
    + apply GQ_tok; [apply GQ_fsetg; [exact HQ|reflexivity]|cbn; discriminate].
    + apply GQ_fsetg; [exact HQ|reflexivity].
  - destruct (match tmp with None => Nat.eqb k 0 | Some e => is_done t (tst (tok g e)) && Nat.eqb (tgrp (tok g e)) k end);
      cbn [negb]; [|exact HQ].
    destruct (head (grp g k)) as [|l] eqn:Eh; [exact HQ|].
    cbn [fst]. unfold GQ, upd_grp. cbn. apply GQ_done; assumption.
  - destruct (malive g || negb (mvheld g)); cbn [fst]; [exact HQ|]. apply GQ_vdec. exact HQ.
Qed.

Lemma GQ_cmd t g c : GI g -> GQ g -> GQ (fst (do_cmd t g c)).
Proof.
  intros H HQ.
  assert (Hlt : forall e, tst (tok g e) = TQueued -> tgrp (tok g e) <> ngrp g).
  { intros e He. assert (tgrp (tok g e) < ngrp g); [|lia]. apply (a1 _ _ _ _ _ _ H). rewrite He. reflexivity. }
  destruct c as [sp|kd|e auto usev|e|e|e|e|]; cbn [do_cmd].
  - exact HQ.
  - destruct (malive g); cbn [negb]; [|exact HQ].
    destruct kd, (mprev g), (mstate g) as [p|]; cbn [fst]; unfold GQ, upd_grp, new_tok; cbn;
      repeat (apply GQ_tok; [|cbn; discriminate]);
      first [ solve [apply GQ_fsetg; [exact HQ|reflexivity]]
            | solve [apply GQ_newgrp; [exact HQ|exact Hlt]]
            | solve [apply GQ_newgrp; [apply GQ_fsetg; [exact HQ|reflexivity]|exact Hlt]] ].
  - destruct (Nat.ltb e (ntok g) && is_sender (tst (tok g e))); [|exact HQ].
    cbn [fst]. unfold GQ. cbn. apply GQ_tok; [exact HQ|cbn; discriminate].
  - destruct (Nat.ltb e (ntok g) && is_sender (tst (tok g e))); [|exact HQ].
    cbn [fst]. unfold GQ, set_tst. cbn. apply GQ_tok; [exact HQ|cbn; discriminate].
  - destruct (Nat.ltb e (ntok g) && kind_eqb (gkind (grp g (tgrp (tok g e)))) KR &&
              (is_sender (tst (tok g e)) || is_live (tst (tok g e)))) eqn:Eg; [|exact HQ].
    apply andb_true_iff in Eg. destruct Eg as [_ Es].
    cbn [fst]. unfold GQ, upd_grp, new_tok. cbn.
    apply GQ_tok; [apply GQ_fsetg; [exact HQ|reflexivity]|].
    cbn. intros Hq. rewrite Hq in Es. discriminate.
  - destruct (Nat.ltb e (ntok g) && is_live (tst (tok g e))); [|exact HQ]. apply GQ_do_rel. exact HQ.
  - destruct (Nat.ltb e (ntok g) && is_live (tst (tok g e))); exact HQ.
  - destruct (malive g); cbn [negb]; [|exact HQ]. destruct (mstate g); cbn [fst]; [|exact HQ].
    unfold GQ, new_tok. cbn. apply GQ_tok; [exact HQ|cbn; discriminate].
Qed.

Theorem GIQ_run sched : GI (fst (rw_run sched)) /\ GQ (fst (rw_run sched)).
Proof.
  unfold rw_run. apply (run_ginv _ _ _ rw_tstep (fun g => GI g /\ GQ g)).
  - intros o t g l [H HQ]. split; [apply GI_step; exact H|].
    destruct l as [|w rest]; cbn [rw_tstep]; [apply GQ_cmd|apply GQ_work]; assumption.
  - split; [apply GI_init|apply GQ_init].
Qed.

(* a pushed operation state is in the list the next exchange will take; after the exchange
   (sentinel) no operation state of the group is left in the queue, and a start that then
   loads the head sees the sentinel and is granted inline *)
Lemma rw_no_lost_push sched : let g := fst (rw_run sched) in
  (forall e, tst (tok g e) = TQueued -> exists l, head (grp g (tgrp (tok g e))) = HList l /\ In e l) /\
  (forall e, head (grp g (tgrp (tok g e))) = HSent -> tst (tok g e) <> TQueued).
Proof.
  intros g. destruct (GIQ_run sched) as [_ HQ]. fold g in HQ. split; [exact HQ|].
  intros e Hs Hq. destruct (HQ e Hq) as [l [Hl _]]. congruence.
Qed.
