(* Proofs/RecMutexGenProofs.v — C06, round p12b: the recursive layer of Model/RecMutexGen.v is correct over EVERY
   underlying lock that satisfies the exclusion interface below (Section RecGenProofs), and the spinlock model and the
   pika::mutex model of Model/Mutex.v satisfy it with their existing invariants sl_inv / mx_inv. *)
From Coq Require Import List NArith Bool Arith Lia.
From Pika Require Import Base.Conc Base.Agent Model.Mutex Proofs.MutexProofs Model.RecMutexGen.
Import ListNotations.

Section RecGenProofs.
  (* ---- the underlying lock: a step machine (same Variables as Section RecGen of the model) ---- *)
  Variables (X UG UL UO : Type).
  Variable ustep : UO -> nat -> UG -> UL -> UG * UL.
  Variable ucall : uop X -> UL -> UL.
  Variable uidle : UL -> bool.
  Variable holds : UL -> bool.
  Variable ug0 : UG.
  Variable ul0 : nat -> UL.
  (* ---- its exclusion interface ---- *)
  Variable uin : uop X -> UL -> Prop.            (* inside a call of op that has not returned yet *)
  Variable uinv : UG -> (nat -> UL) -> Prop.     (* an inductive invariant of the underlying machine *)

  (* a caller is disciplined: lock / try_lock only while not holding, unlock only while holding *)
  Definition ucall_ok (op : uop X) (h : bool) : Prop :=
    match op with ULock | UTry => h = false | UUnlock => h = true | UEnv _ => True end.

  Hypothesis U_init : uinv ug0 ul0 /\ forall t, uidle (ul0 t) = true /\ holds (ul0 t) = false.
  (* the invariant looks at the local states pointwise (no functional extensionality is assumed) *)
  Hypothesis U_ext : forall g uls uls', (forall t, uls t = uls' t) -> uinv g uls -> uinv g uls'.
  (* (a) at most one thread holds *)
  Hypothesis U_excl : forall g uls t1 t2, uinv g uls -> holds (uls t1) = true -> holds (uls t2) = true -> t1 = t2.
  (* starting a call is local: it enters the call, does not change who holds, keeps the invariant *)
  Hypothesis U_call : forall op l, uidle l = true -> uin op (ucall op l) /\ holds (ucall op l) = holds l.
  Hypothesis U_call_inv : forall op g uls t, uinv g uls -> uidle (uls t) = true ->
    uinv g (upd uls t (ucall op (uls t))).
  Hypothesis U_busy : forall op l, uin op l -> uidle l = false.
  (* steps inside the calls of DISCIPLINED callers preserve the invariant (nothing is assumed about misuse) *)
  Hypothesis U_step_inv : forall op o t g uls, uinv g uls -> uin op (uls t) -> ucall_ok op (holds (uls t)) ->
    uinv (fst (ustep o t g (uls t))) (upd uls t (snd (ustep o t g (uls t)))).
  (* (b) lock() returns only with the caller holding; until then the caller does not hold *)
  Hypothesis U_lock : forall o t g uls, uinv g uls -> uin ULock (uls t) -> holds (uls t) = false ->
    let r := ustep o t g (uls t) in
    (uin ULock (snd r) /\ holds (snd r) = false) \/ (uidle (snd r) = true /\ holds (snd r) = true).
  (* try_lock(): the caller does not hold until it returns; its result is "the caller holds now" *)
  Hypothesis U_try : forall o t g uls, uinv g uls -> uin UTry (uls t) -> holds (uls t) = false ->
    let r := ustep o t g (uls t) in
    (uin UTry (snd r) /\ holds (snd r) = false) \/ uidle (snd r) = true.
  (* unlock() by the holder: the caller holds until it returns, and then does not *)
  Hypothesis U_unlock : forall o t g uls, uinv g uls -> uin UUnlock (uls t) -> holds (uls t) = true ->
    let r := ustep o t g (uls t) in
    (uin UUnlock (snd r) /\ holds (snd r) = true) \/ (uidle (snd r) = true /\ holds (snd r) = false).
  (* environment operations do not change whether the caller holds *)
  Hypothesis U_env : forall x o t g uls, uinv g uls -> uin (UEnv x) (uls t) ->
    let r := ustep o t g (uls t) in
    holds (snd r) = holds (uls t) /\ (uin (UEnv x) (snd r) \/ uidle (snd r) = true).
  (* (c) "steps of t do not change whether another thread holds" is built in: [holds] observes the thread's OWN local
     state of the underlying model, which only that thread's steps change; U_excl ties it to the shared state. *)

  Notation L := (rg_local X UL).
  Notation G := (rg_shared UG).
  Notation stepf := (rg_tstep X UG UL UO ustep ucall uidle holds).
  Notation runf := (rg_run X UG UL UO ustep ucall uidle holds ug0 ul0).

  Definition uls_of (ls : locals L) : nat -> UL := fun t => gul (ls t).

  Definition own_or_not (g : G) (t : nat) (l : L) : Prop :=
    (gdepth l <> 0 -> holds (gul l) = true /\ gctx g = Some t /\ gcount g = N.of_nat (gdepth l)) /\
    (gdepth l = 0 -> holds (gul l) = false).

  Definition rg_tinv (g : G) (t : nat) (l : L) : Prop :=
    match g_pc l with
    | GIdle => uidle (gul l) = true /\ own_or_not g t l
    | GEnv => (exists x, uin (UEnv x) (gul l)) /\ own_or_not g t l
    | GInc => uidle (gul l) = true /\ gdepth l <> 0 /\ holds (gul l) = true /\ gctx g = Some t /\
              gcount g = N.of_nat (gdepth l)
    | GLock => uin ULock (gul l) /\ holds (gul l) = false /\ gdepth l = 0
    | GTry => uin UTry (gul l) /\ holds (gul l) = false /\ gdepth l = 0
    | GPub => uidle (gul l) = true /\ holds (gul l) = true /\ gctx g = None /\ gdepth l = 0
    | GStore => uidle (gul l) = true /\ holds (gul l) = true /\ gctx g = Some t /\ gdepth l = 0
    | GClr => uidle (gul l) = true /\ holds (gul l) = true /\ gctx g = Some t /\ gdepth l = 0 /\ gcount g = 0%N
    | GRel => uin UUnlock (gul l) /\ holds (gul l) = true /\ gctx g = None /\ gdepth l = 0
    end.

  Record rg_inv (g : G) (ls : locals L) : Prop := {
    ri_u : uinv (gu g) (uls_of ls);
    ri_ctx : forall x, gctx g = Some x -> holds (gul (ls x)) = true;
    ri_cnt : gcount g <> 0%N -> exists x, gdepth (ls x) <> 0;
    ri_t : forall t, rg_tinv g t (ls t) }.

  Lemma rg_inv_init progs : rg_inv (rg_init UG ug0) (rg_locals X UL ul0 progs).
  Proof.
    pose proof U_init as [U0 U1]. constructor.
    - cbn. eapply U_ext; [|exact U0]. intros t. reflexivity.
    - cbn. intros x H. discriminate H.
    - cbn. intros H. congruence.
    - intros t. unfold rg_tinv, own_or_not. cbn. destruct (U1 t) as [A B].
      split; [exact A|]. split; [intros HH; congruence | intros _; exact B].
  Qed.

  (* what a thread's invariant says about the shared words is said only while that thread holds *)
  Lemma tinv_frame g g' t (l : L) : rg_tinv g t l ->
    (holds (gul l) = true -> gctx g' = gctx g /\ gcount g' = gcount g) -> rg_tinv g' t l.
  Proof.
    unfold rg_tinv, own_or_not. intros H F.
    destruct (g_pc l); try exact H.
    - destruct H as (Hi & Hd1 & Hd0). repeat split; auto; destruct (Hd1 H) as (Hh & Hc & Hn);
        destruct (F Hh) as [F1 F2]; congruence.
    - destruct H as (Hi & Hd & Hh & Hc & Hn). destruct (F Hh) as [F1 F2]. repeat split; auto; congruence.
    - destruct H as (Hi & Hh & Hc & Hd). destruct (F Hh) as [F1 F2]. repeat split; auto; congruence.
    - destruct H as (Hi & Hh & Hc & Hd). destruct (F Hh) as [F1 F2]. repeat split; auto; congruence.
    - destruct H as (Hi & Hh & Hc & Hd & Hn). destruct (F Hh) as [F1 F2]. repeat split; auto; congruence.
    - destruct H as (Hi & Hh & Hc & Hd). destruct (F Hh) as [F1 F2]. repeat split; auto; congruence.
    - destruct H as (Hi & Hd1 & Hd0). repeat split; auto; destruct (Hd1 H) as (Hh & Hc & Hn);
        destruct (F Hh) as [F1 F2]; congruence.
  Qed.

  Lemma assemble g (ls : locals L) t g' l' :
    rg_inv g ls ->
    uinv (gu g') (upd (uls_of ls) t (gul l')) ->
    rg_tinv g' t l' ->
    ((gctx g' = gctx g /\ gcount g' = gcount g) \/ holds (gul l') = true) ->
    (gctx g' = gctx g \/ gctx g' = Some t \/ gctx g' = None) ->
    (gctx g' = Some t -> holds (gul l') = true) ->
    ((gcount g' <> 0%N -> gdepth l' <> 0) \/ (gcount g' = gcount g /\ (gdepth (ls t) <> 0 -> gdepth l' <> 0))) ->
    rg_inv g' (upd ls t l').
  Proof.
    intros I A1 A2 A3 A4 A5 A6.
    assert (U' : uinv (gu g') (uls_of (upd ls t l'))).
    { eapply U_ext; [|exact A1]. intros x. unfold uls_of. upd_cases x t; reflexivity. }
    constructor.
    - exact U'.
    - intros x Hx. upd_cases x t; [auto|]. destruct A4 as [A4|[A4|A4]]; try congruence.
      apply (ri_ctx _ _ I). congruence.
    - intros Hc. destruct A6 as [A6|[A6 A6']].
      + exists t. rewrite upd_same. auto.
      + rewrite A6 in Hc. destruct (ri_cnt _ _ I Hc) as [x Hx]. exists x. upd_cases x t; auto.
    - intros t'. upd_cases t' t; [exact A2|].
      apply tinv_frame with (g := g); [apply (ri_t _ _ I)|].
      intros Hh. destruct A3 as [A3|A3]; [exact A3|].
      exfalso. apply Hne. apply (U_excl _ _ t' t U'); unfold uls_of.
      + rewrite upd_other by assumption. exact Hh.
      + rewrite upd_same. exact A3.
  Qed.

  (* the three ways the underlying part of the state moves *)
  Lemma A1_same g (ls : locals L) t u' ul' : rg_inv g ls -> u' = gu g -> ul' = gul (ls t) ->
    uinv u' (upd (uls_of ls) t ul').
  Proof.
    intros I -> ->. eapply U_ext; [|exact (ri_u _ _ I)]. intros x. unfold uls_of. upd_cases x t; reflexivity.
  Qed.
  Lemma A1_call g (ls : locals L) t op u' ul' : rg_inv g ls -> uidle (gul (ls t)) = true ->
    u' = gu g -> ul' = ucall op (gul (ls t)) -> uinv u' (upd (uls_of ls) t ul').
  Proof.
    intros I Hi -> ->. apply (U_call_inv op _ _ t (ri_u _ _ I)). exact Hi.
  Qed.
  Lemma A1_step g (ls : locals L) t op o : rg_inv g ls -> uin op (gul (ls t)) ->
    ucall_ok op (holds (gul (ls t))) ->
    uinv (fst (ustep o t (gu g) (gul (ls t)))) (upd (uls_of ls) t (snd (ustep o t (gu g) (gul (ls t))))).
  Proof.
    intros I Hin Hok. exact (U_step_inv op o t _ _ (ri_u _ _ I) Hin Hok).
  Qed.

  Lemma rg_inv_step o t g (ls : locals L) : rg_inv g ls ->
    rg_inv (fst (stepf o t g (ls t))) (upd ls t (snd (stepf o t g (ls t)))).
  Proof.
    intros I. pose proof (ri_t _ _ I t) as Pt. pose proof (ri_u _ _ I) as Hu.
    assert (Hctx : gctx g = Some t -> holds (gul (ls t)) = true) by (apply (ri_ctx _ _ I)).
    pose proof (A1_same g ls t (gu g) (gul (ls t)) I eq_refl eq_refl) as S1.
    pose proof (fun op ul' => A1_call g ls t op (gu g) ul' I) as S2.
    pose proof (fun op => A1_step g ls t op o I) as S3.
    pose proof (U_lock o t (gu g) (uls_of ls) Hu) as HL.
    pose proof (U_try o t (gu g) (uls_of ls) Hu) as HT.
    pose proof (U_unlock o t (gu g) (uls_of ls) Hu) as HR.
    pose proof (fun x => U_env x o t (gu g) (uls_of ls) Hu) as HE.
    unfold uls_of in HL, HT, HR, HE. cbv zeta in HL, HT, HR, HE.
    unfold rg_tstep, rg_at, rg_call, rg_setu. unfold rg_tinv, own_or_not in Pt.
    destruct (ls t) as [td p d ul] eqn:E. cbn [g_pc g_todo gdepth gul] in *.
    assert (A6same : forall d', (d <> 0 -> d' <> 0) -> forall c, c = gcount g ->
              (c <> 0%N -> d' <> 0) \/ (c = gcount g /\ (gdepth (ls t) <> 0 -> d' <> 0))).
    { intros d' Hd' c ->. right. split; [reflexivity|]. rewrite E. exact Hd'. }
    destruct p.
    - (* GIdle *)
      destruct Pt as (Hi & Hd1 & Hd0).
      destruct td as [|[| | |x] rest].
      + (* nothing to do *)
        cbn [fst snd]. apply assemble with (g := g);
          [exact I | exact S1 | | left; split; reflexivity | left; reflexivity | exact Hctx | apply A6same; auto].
        unfold rg_tinv, own_or_not. cbn. auto.
      + (* lock: 620 *)
        destruct (onat_eqb (gctx g) t) eqn:Ec; [apply onat_eqb_true in Ec | apply onat_eqb_false in Ec];
          cbn [fst snd].
        * assert (Hd : d <> 0). { intros ->. rewrite Hd0 in Hctx by reflexivity. specialize (Hctx Ec). discriminate. }
          destruct (Hd1 Hd) as (Hh & _ & Hn).
          apply assemble with (g := g);
            [exact I | exact S1 | | left; split; reflexivity | left; reflexivity | exact Hctx | apply A6same; auto].
          unfold rg_tinv. cbn. auto.
        * assert (Hd : d = 0). { destruct (Nat.eq_dec d 0) as [|n]; [assumption|]. destruct (Hd1 n) as (_ & Hc & _). congruence. }
          destruct (U_call ULock ul Hi) as [Hin Hh].
          apply assemble with (g := g);
            [exact I | apply (S2 ULock); [exact Hi|reflexivity|reflexivity] | | left; split; reflexivity
            | left; reflexivity | intros Hc; congruence | apply A6same; auto].
          unfold rg_tinv. cbn. rewrite Hh. auto.
      + (* try_lock: 620 *)
        destruct (onat_eqb (gctx g) t) eqn:Ec; [apply onat_eqb_true in Ec | apply onat_eqb_false in Ec];
          cbn [fst snd].
        * assert (Hd : d <> 0). { intros ->. rewrite Hd0 in Hctx by reflexivity. specialize (Hctx Ec). discriminate. }
          destruct (Hd1 Hd) as (Hh & _ & Hn).
          apply assemble with (g := g);
            [exact I | exact S1 | | left; split; reflexivity | left; reflexivity | exact Hctx | apply A6same; auto].
          unfold rg_tinv. cbn. auto.
        * assert (Hd : d = 0). { destruct (Nat.eq_dec d 0) as [|n]; [assumption|]. destruct (Hd1 n) as (_ & Hc & _). congruence. }
          destruct (U_call UTry ul Hi) as [Hin Hh].
          apply assemble with (g := g);
            [exact I | apply (S2 UTry); [exact Hi|reflexivity|reflexivity] | | left; split; reflexivity
            | left; reflexivity | intros Hc; congruence | apply A6same; auto].
          unfold rg_tinv. cbn. rewrite Hh. auto.
      + (* unlock *)
        destruct (Nat.eqb_spec d 0) as [Hd|Hd].
        * cbn [fst snd]. apply assemble with (g := g);
            [exact I | exact S1 | | left; split; reflexivity | left; reflexivity | exact Hctx
            | apply A6same; [congruence|reflexivity]].
          unfold rg_tinv, own_or_not. cbn. split; [exact Hi|]. split; [intros HH; congruence|auto].
        * (* 624 *)
          destruct (Hd1 Hd) as (Hh & Hc & Hn).
          destruct (N.eqb_spec (N.pred (gcount g)) 0) as [Hz|Hz]; cbn [fst snd].
          -- assert (Hd' : Nat.pred d = 0) by lia.
             apply assemble with (g := g); cbn [gcount gctx gu gul gdepth];
               [exact I | exact S1 | | right; exact Hh | left; reflexivity | intros _; exact Hh | left; congruence].
             unfold rg_tinv. cbn. auto 10.
          -- assert (Hd' : Nat.pred d <> 0) by lia.
             apply assemble with (g := g); cbn [gcount gctx gu gul gdepth];
               [exact I | exact S1 | | right; exact Hh | left; reflexivity | intros _; exact Hh | left; auto].
             unfold rg_tinv, own_or_not. cbn. split; [exact Hi|]. split; [intros _|intros HH; congruence].
             repeat split; auto. lia.
      + (* environment operation *)
        cbn [fst snd]. destruct (U_call (UEnv x) ul Hi) as [Hin Hh].
        apply assemble with (g := g);
          [exact I | apply (S2 (UEnv x)); [exact Hi|reflexivity|reflexivity] | | left; split; reflexivity
          | left; reflexivity | cbn; rewrite Hh; exact Hctx | apply A6same; auto].
        unfold rg_tinv, own_or_not. cbn. rewrite Hh. split; [exists x; exact Hin|]. auto.
    - (* GInc: 621 *)
      destruct Pt as (Hi & Hd & Hh & Hc & Hn). cbn [fst snd].
      apply assemble with (g := g); cbn [gcount gctx gu gul gdepth];
        [exact I | exact S1 | | right; exact Hh | left; reflexivity | intros _; exact Hh | left; auto].
      unfold rg_tinv, own_or_not. cbn. split; [exact Hi|]. split; [intros _|intros HH; discriminate HH].
      repeat split; auto. lia.
    - (* GLock: one step inside the underlying lock() *)
      destruct Pt as (Hin & Hh & Hd). cbn [fst snd].
      specialize (HL Hin Hh). specialize (S3 ULock Hin Hh).
      assert (Hnc : gctx g <> Some t). { intros Hc. specialize (Hctx Hc). congruence. }
      set (r := ustep o t (gu g) ul) in *.
      destruct HL as [[Hin' Hh']|[Hi' Hh']].
      + rewrite (U_busy _ _ Hin'). apply assemble with (g := g); cbn [gcount gctx gu gul gdepth];
          [exact I | exact S3 | | left; split; reflexivity | left; reflexivity | intros Hc; congruence | apply A6same; auto].
        unfold rg_tinv. cbn. auto.
      + rewrite Hi'.
        assert (Hnone : gctx g = None).
        { destruct (gctx g) as [x|] eqn:Ex; [|reflexivity]. exfalso.
          assert (Hxt : x <> t) by congruence.
          assert (Hx : holds (gul (ls x)) = true) by (apply (ri_ctx _ _ I); exact Ex).
          apply Hxt. apply (U_excl _ _ x t S3).
          - rewrite upd_other by assumption. exact Hx.
          - rewrite upd_same. exact Hh'. }
        apply assemble with (g := g); cbn [gcount gctx gu gul gdepth];
          [exact I | exact S3 | | left; split; reflexivity | left; reflexivity | intros _; exact Hh' | apply A6same; auto].
        unfold rg_tinv. cbn. auto.
    - (* GTry: one step inside the underlying try_lock() *)
      destruct Pt as (Hin & Hh & Hd).
      specialize (HT Hin Hh). specialize (S3 UTry Hin Hh).
      assert (Hnc : gctx g <> Some t). { intros Hc. specialize (Hctx Hc). congruence. }
      set (r := ustep o t (gu g) ul) in *.
      destruct HT as [[Hin' Hh']|Hi'].
      + rewrite (U_busy _ _ Hin'). cbn [fst snd].
        apply assemble with (g := g); cbn [gcount gctx gu gul gdepth];
          [exact I | exact S3 | | left; split; reflexivity | left; reflexivity | intros Hc; congruence | apply A6same; auto].
        unfold rg_tinv. cbn. auto.
      + rewrite Hi'. destruct (holds (snd r)) eqn:Hh'; cbn [fst snd].
        * assert (Hnone : gctx g = None).
          { destruct (gctx g) as [x|] eqn:Ex; [|reflexivity]. exfalso.
            assert (Hxt : x <> t) by congruence.
            assert (Hx : holds (gul (ls x)) = true) by (apply (ri_ctx _ _ I); exact Ex).
            apply Hxt. apply (U_excl _ _ x t S3).
            - rewrite upd_other by assumption. exact Hx.
            - rewrite upd_same. exact Hh'. }
          apply assemble with (g := g); cbn [gcount gctx gu gul gdepth];
            [exact I | exact S3 | | left; split; reflexivity | left; reflexivity | intros _; exact Hh' | apply A6same; auto].
          unfold rg_tinv. cbn. auto.
        * apply assemble with (g := g); cbn [gcount gctx gu gul gdepth];
            [exact I | exact S3 | | left; split; reflexivity | left; reflexivity | intros Hc; congruence | apply A6same; auto].
          unfold rg_tinv, own_or_not. cbn. split; [exact Hi'|]. split; [intros HH; congruence|auto].
    - (* GPub: 622 *)
      destruct Pt as (Hi & Hh & Hc & Hd). cbn [fst snd].
      apply assemble with (g := g); cbn [gcount gctx gu gul gdepth];
        [exact I | exact S1 | | right; exact Hh | right; left; reflexivity | intros _; exact Hh | apply A6same; auto].
      unfold rg_tinv. cbn. auto.
    - (* GStore: 623 *)
      destruct Pt as (Hi & Hh & Hc & Hd). cbn [fst snd].
      apply assemble with (g := g); cbn [gcount gctx gu gul gdepth];
        [exact I | exact S1 | | right; exact Hh | left; reflexivity | intros _; exact Hh | left; auto].
      unfold rg_tinv, own_or_not. cbn. split; [exact Hi|]. split; [intros _; auto|intros HH; discriminate HH].
    - (* GClr: 625, then the call of unlock() *)
      destruct Pt as (Hi & Hh & Hc & Hd & Hn). cbn [fst snd].
      destruct (U_call UUnlock ul Hi) as [Hin Hh'].
      apply assemble with (g := g); cbn [gcount gctx gu gul gdepth];
        [exact I | apply (S2 UUnlock); [exact Hi|reflexivity|reflexivity] | | right; congruence | right; right; reflexivity
        | intros HH; discriminate HH | apply A6same; auto].
      unfold rg_tinv. cbn. rewrite Hh'. auto.
    - (* GRel: one step inside the underlying unlock() *)
      destruct Pt as (Hin & Hh & Hc & Hd).
      specialize (HR Hin Hh). specialize (S3 UUnlock Hin Hh).
      set (r := ustep o t (gu g) ul) in *.
      destruct HR as [[Hin' Hh']|[Hi' Hh']].
      + rewrite (U_busy _ _ Hin'). cbn [fst snd].
        apply assemble with (g := g); cbn [gcount gctx gu gul gdepth];
          [exact I | exact S3 | | left; split; reflexivity | left; reflexivity | intros HH; congruence | apply A6same; auto].
        unfold rg_tinv. cbn. auto.
      + rewrite Hi'. cbn [fst snd].
        apply assemble with (g := g); cbn [gcount gctx gu gul gdepth];
          [exact I | exact S3 | | left; split; reflexivity | left; reflexivity | intros HH; congruence | apply A6same; auto].
        unfold rg_tinv, own_or_not. cbn. split; [exact Hi'|]. split; [intros HH; congruence|auto].
    - (* GEnv: one step of an environment operation *)
      destruct Pt as ([x Hin] & Hd1 & Hd0). cbn [fst snd].
      specialize (HE x Hin). destruct HE as [Hh' HE]. specialize (S3 (UEnv x) Hin Logic.I).
      set (r := ustep o t (gu g) ul) in *.
      destruct HE as [Hin'|Hi'].
      + rewrite (U_busy _ _ Hin').
        apply assemble with (g := g); cbn [gcount gctx gu gul gdepth];
          [exact I | exact S3 | | left; split; reflexivity | left; reflexivity | rewrite Hh'; exact Hctx | apply A6same; auto].
        unfold rg_tinv, own_or_not. cbn. rewrite Hh'. split; [exists x; exact Hin'|]. auto.
      + rewrite Hi'.
        apply assemble with (g := g); cbn [gcount gctx gu gul gdepth];
          [exact I | exact S3 | | left; split; reflexivity | left; reflexivity | rewrite Hh'; exact Hctx | apply A6same; auto].
        unfold rg_tinv, own_or_not. cbn. rewrite Hh'. auto.
  Qed.

  Lemma rg_reach_inv progs sched : rg_inv (fst (runf sched progs)) (snd (runf sched progs)).
  Proof.
    unfold rg_run. apply (run_inv _ _ _ stepf rg_inv (fun o t g ls => rg_inv_step o t g ls)). apply rg_inv_init.
  Qed.

  (* whoever holds the underlying lock owns the recursive mutex and vice versa *)
  Lemma tinv_owns_holds g t (l : L) : rg_tinv g t l -> (rg_owns l <-> holds (gul l) = true).
  Proof using.
    clear U_init ul0 ug0.
    unfold rg_tinv, own_or_not, rg_owns. intros H.
    destruct (g_pc l) eqn:Ep.
    all: split; [intros [Hd|[Hp|[Hp|[Hp|Hp]]]]; try discriminate Hp | intros Hh].
    all: try tauto.
    all: try (destruct H as (_ & Hd1 & Hd0); destruct (Hd1 Hd); tauto).
    all: try (destruct H as (_ & Hd1 & Hd0); left; intros Hz; rewrite (Hd0 Hz) in Hh; discriminate Hh).
    all: try (destruct H as (_ & Hf & Hz); congruence).
  Qed.

  (* ---- the generic theorems ---- *)
  (* at most one thread is between an outermost acquisition and the return of its final release *)
  Theorem recursive_exclusion_gen : forall progs sched t1 t2,
    let c := runf sched progs in
    rg_owns (snd c t1) -> rg_owns (snd c t2) -> t1 = t2.
  Proof.
    intros progs sched t1 t2 c H1 H2. pose proof (rg_reach_inv progs sched) as I. fold c in I.
    apply (tinv_owns_holds _ _ _ (ri_t _ _ I t1)) in H1. apply (tinv_owns_holds _ _ _ (ri_t _ _ I t2)) in H2.
    exact (U_excl _ _ t1 t2 (ri_u _ _ I) H1 H2).
  Qed.

  (* between calls: recursion_count = nesting depth of the owner, locking_context = owner, the owner holds the underlying
     lock (and nobody else does); when nobody owns: count 0, no context, nobody holds the underlying lock *)
  Theorem recursive_count_is_depth_gen : forall progs sched,
    let c := runf sched progs in
    (forall t, g_pc (snd c t) = GIdle -> gdepth (snd c t) <> 0 ->
       gcount (fst c) = N.of_nat (gdepth (snd c t)) /\ gctx (fst c) = Some t /\
       holds (gul (snd c t)) = true /\ forall u, holds (gul (snd c u)) = true -> u = t) /\
    ((forall t, ~ rg_owns (snd c t)) ->
       gcount (fst c) = 0%N /\ gctx (fst c) = None /\ forall u, holds (gul (snd c u)) = false).
  Proof.
    intros progs sched c. pose proof (rg_reach_inv progs sched) as I. fold c in I. split.
    - intros t Hp Hd. pose proof (ri_t _ _ I t) as P. unfold rg_tinv in P. rewrite Hp in P.
      destruct P as (_ & P & _). destruct (P Hd) as (A & B & C). repeat split; auto.
      intros u Hu. exact (U_excl _ _ u t (ri_u _ _ I) Hu A).
    - intros Hno.
      assert (Hf : forall u, holds (gul (snd c u)) = false).
      { intros u. destruct (holds (gul (snd c u))) eqn:Hh; [|reflexivity].
        exfalso. apply (Hno u). apply (tinv_owns_holds _ _ _ (ri_t _ _ I u)). exact Hh. }
      repeat split.
      + destruct (N.eq_dec (gcount (fst c)) 0) as [Hz|Hz]; [exact Hz|].
        destruct (ri_cnt _ _ I Hz) as [x Hx]. exfalso. apply (Hno x). left. exact Hx.
      + destruct (gctx (fst c)) as [x|] eqn:Ex; [|reflexivity].
        apply (ri_ctx _ _ I) in Ex. rewrite Hf in Ex. discriminate Ex.
      + exact Hf.
  Qed.

  (* the layer is a disciplined caller: whenever a thread is inside an underlying call, it entered lock()/try_lock()
     not holding and unlock() holding (so an underlying lock that reports misuse is never given a reason to) *)
  Theorem recursive_layer_disciplined_gen : forall progs sched t,
    let c := runf sched progs in
    match g_pc (snd c t) with
    | GLock => uin ULock (gul (snd c t)) /\ ucall_ok ULock (holds (gul (snd c t)))
    | GTry => uin UTry (gul (snd c t)) /\ ucall_ok UTry (holds (gul (snd c t)))
    | GRel => uin UUnlock (gul (snd c t)) /\ ucall_ok UUnlock (holds (gul (snd c t)))
    | GEnv => exists x, uin (UEnv x) (gul (snd c t))
    | _ => uidle (gul (snd c t)) = true
    end.
  Proof.
    intros progs sched t c. pose proof (rg_reach_inv progs sched) as I. fold c in I.
    pose proof (ri_t _ _ I t) as P. unfold rg_tinv in P.
    destruct (g_pc (snd c t)); cbn [ucall_ok]; tauto.
  Qed.

  (* every change of the underlying shared state is a step of a disciplined caller inside one of its calls *)
  Lemma rg_step_gu o t g (l : L) : rg_tinv g t l ->
    gu (fst (stepf o t g l)) = gu g \/
    exists op, uin op (gul l) /\ ucall_ok op (holds (gul l)) /\
               gu (fst (stepf o t g l)) = fst (ustep o t (gu g) (gul l)).
  Proof.
    unfold rg_tinv, rg_tstep, rg_setu. intros P. destruct l as [td p d ul]. cbn [g_pc g_todo gdepth gul] in *.
    destruct p.
    - left. destruct td as [|[| | |x] rest]; try reflexivity.
      + destruct (onat_eqb (gctx g) t); reflexivity.
      + destruct (onat_eqb (gctx g) t); reflexivity.
      + destruct (Nat.eqb d 0); [reflexivity|]. destruct (N.eqb (N.pred (gcount g)) 0); reflexivity.
    - left. reflexivity.
    - right. exists ULock. cbn. tauto.
    - right. exists UTry. cbn. split; [tauto|]. split; [tauto|].
      destruct (uidle (snd (ustep o t (gu g) ul))); [destruct (holds (snd (ustep o t (gu g) ul)))|]; reflexivity.
    - left. reflexivity.
    - left. reflexivity.
    - left. reflexivity.
    - right. exists UUnlock. cbn. split; [tauto|]. split; [tauto|].
      destruct (uidle (snd (ustep o t (gu g) ul))); reflexivity.
    - right. destruct P as ([x Hx] & _). exists (UEnv x). cbn. auto.
  Qed.

  (* so every property of the underlying shared state that disciplined calls preserve holds under the layer *)
  Section Transfer.
    Variable P : UG -> Prop.
    Hypothesis P_init : P ug0.
    Hypothesis P_step : forall op o t g uls, uinv g uls -> uin op (uls t) -> ucall_ok op (holds (uls t)) ->
      P g -> P (fst (ustep o t g (uls t))).

    Theorem recursive_layer_transfers_gen : forall progs sched, P (gu (fst (runf sched progs))).
    Proof.
      intros progs sched.
      assert (H : (fun g ls => rg_inv g ls /\ P (gu g)) (fst (runf sched progs)) (snd (runf sched progs))).
      { unfold rg_run. apply (run_inv _ _ _ stepf (fun g ls => rg_inv g ls /\ P (gu g))).
        - intros o t g ls [I HP]. split; [apply rg_inv_step; exact I|].
          destruct (rg_step_gu o t g (ls t) (ri_t _ _ I t)) as [->|(op & Hin & Hok & ->)]; [exact HP|].
          exact (P_step op o t (gu g) (uls_of ls) (ri_u _ _ I) Hin Hok HP).
        - split; [apply rg_inv_init | exact P_init]. }
      exact (proj2 H).
    Qed.
  End Transfer.
End RecGenProofs.

(* ------------------------------------------------------------------------------------------ *)
(* the interface as one closed proposition, and the generic theorems stated against it *)
Record excl_lock {X UG UL UO : Type} (ustep : UO -> nat -> UG -> UL -> UG * UL) (ucall : uop X -> UL -> UL)
    (uidle holds : UL -> bool) (ug0 : UG) (ul0 : nat -> UL)
    (uin : uop X -> UL -> Prop) (uinv : UG -> (nat -> UL) -> Prop) : Prop := {
  el_init : uinv ug0 ul0 /\ forall t, uidle (ul0 t) = true /\ holds (ul0 t) = false;
  el_ext : forall g uls uls', (forall t, uls t = uls' t) -> uinv g uls -> uinv g uls';
  el_excl : forall g uls t1 t2, uinv g uls -> holds (uls t1) = true -> holds (uls t2) = true -> t1 = t2;
  el_call : forall op l, uidle l = true -> uin op (ucall op l) /\ holds (ucall op l) = holds l;
  el_call_inv : forall op g uls t, uinv g uls -> uidle (uls t) = true -> uinv g (upd uls t (ucall op (uls t)));
  el_busy : forall op l, uin op l -> uidle l = false;
  el_step_inv : forall op o t g uls, uinv g uls -> uin op (uls t) -> ucall_ok X op (holds (uls t)) ->
    uinv (fst (ustep o t g (uls t))) (upd uls t (snd (ustep o t g (uls t))));
  el_lock : forall o t g uls, uinv g uls -> uin ULock (uls t) -> holds (uls t) = false ->
    let r := ustep o t g (uls t) in
    (uin ULock (snd r) /\ holds (snd r) = false) \/ (uidle (snd r) = true /\ holds (snd r) = true);
  el_try : forall o t g uls, uinv g uls -> uin UTry (uls t) -> holds (uls t) = false ->
    let r := ustep o t g (uls t) in
    (uin UTry (snd r) /\ holds (snd r) = false) \/ uidle (snd r) = true;
  el_unlock : forall o t g uls, uinv g uls -> uin UUnlock (uls t) -> holds (uls t) = true ->
    let r := ustep o t g (uls t) in
    (uin UUnlock (snd r) /\ holds (snd r) = true) \/ (uidle (snd r) = true /\ holds (snd r) = false);
  el_env : forall x o t g uls, uinv g uls -> uin (UEnv x) (uls t) ->
    let r := ustep o t g (uls t) in
    holds (snd r) = holds (uls t) /\ (uin (UEnv x) (snd r) \/ uidle (snd r) = true)
}.

Lemma recursive_exclusion_any_lock : forall (X UG UL UO : Type) (ustep : UO -> nat -> UG -> UL -> UG * UL)
    (ucall : uop X -> UL -> UL) (uidle holds : UL -> bool) (ug0 : UG) (ul0 : nat -> UL)
    (uin : uop X -> UL -> Prop) (uinv : UG -> (nat -> UL) -> Prop),
  excl_lock ustep ucall uidle holds ug0 ul0 uin uinv ->
  forall progs sched t1 t2,
  let c := rg_run X UG UL UO ustep ucall uidle holds ug0 ul0 sched progs in
  rg_owns (snd c t1) -> rg_owns (snd c t2) -> t1 = t2.
Proof.
  intros X UG UL UO ustep ucall uidle holds ug0 ul0 uin uinv [].
  apply recursive_exclusion_gen with (uin := uin) (uinv := uinv); assumption.
Qed.

Lemma recursive_count_is_depth_any_lock : forall (X UG UL UO : Type) (ustep : UO -> nat -> UG -> UL -> UG * UL)
    (ucall : uop X -> UL -> UL) (uidle holds : UL -> bool) (ug0 : UG) (ul0 : nat -> UL)
    (uin : uop X -> UL -> Prop) (uinv : UG -> (nat -> UL) -> Prop),
  excl_lock ustep ucall uidle holds ug0 ul0 uin uinv ->
  forall progs sched,
  let c := rg_run X UG UL UO ustep ucall uidle holds ug0 ul0 sched progs in
  (forall t, g_pc (snd c t) = GIdle -> gdepth (snd c t) <> 0 ->
     gcount (fst c) = N.of_nat (gdepth (snd c t)) /\ gctx (fst c) = Some t /\
     holds (gul (snd c t)) = true /\ forall u, holds (gul (snd c u)) = true -> u = t) /\
  ((forall t, ~ rg_owns (snd c t)) ->
     gcount (fst c) = 0%N /\ gctx (fst c) = None /\ forall u, holds (gul (snd c u)) = false).
Proof.
  intros X UG UL UO ustep ucall uidle holds ug0 ul0 uin uinv [].
  apply recursive_count_is_depth_gen with (uin := uin) (uinv := uinv); assumption.
Qed.

Lemma recursive_layer_disciplined_any_lock : forall (X UG UL UO : Type) (ustep : UO -> nat -> UG -> UL -> UG * UL)
    (ucall : uop X -> UL -> UL) (uidle holds : UL -> bool) (ug0 : UG) (ul0 : nat -> UL)
    (uin : uop X -> UL -> Prop) (uinv : UG -> (nat -> UL) -> Prop),
  excl_lock ustep ucall uidle holds ug0 ul0 uin uinv ->
  forall progs sched t,
  let c := rg_run X UG UL UO ustep ucall uidle holds ug0 ul0 sched progs in
  match g_pc (snd c t) with
  | GLock => uin ULock (gul (snd c t)) /\ holds (gul (snd c t)) = false
  | GTry => uin UTry (gul (snd c t)) /\ holds (gul (snd c t)) = false
  | GRel => uin UUnlock (gul (snd c t)) /\ holds (gul (snd c t)) = true
  | GEnv => exists x, uin (UEnv x) (gul (snd c t))
  | _ => uidle (gul (snd c t)) = true
  end.
Proof.
  intros X UG UL UO ustep ucall uidle holds ug0 ul0 uin uinv [] progs sched t.
  apply (recursive_layer_disciplined_gen X UG UL UO ustep ucall uidle holds ug0 ul0 uin uinv); assumption.
Qed.

(* ------------------------------------------------------------------------------------------ *)
(* Instance 1: the spinlock model satisfies the interface with its existing invariant sl_inv *)
Definition sl_uin (op : uop Empty_set) (l : sl_local) : Prop :=
  match op with
  | ULock => sl_todo l = [SLock]
  | UTry => sl_todo l = [STry] /\ sl_pcv l = SIdle
  | UUnlock => sl_todo l = [SUnlock] /\ sl_pcv l = SIdle
  | UEnv x => False
  end.

Lemma slU_init : sl_inv sl_init sl_ul0 /\ forall t, sl_uidle (sl_ul0 t) = true /\ sl_held (sl_ul0 t) = false.
Proof. split; [exact (sl_inv_init (fun _ => []))|]. intros t. split; reflexivity. Qed.

Lemma slU_ext : forall g (uls uls' : nat -> sl_local), (forall t, uls t = uls' t) -> sl_inv g uls -> sl_inv g uls'.
Proof. intros g uls uls' H [A B]. split; [exact A|]. intros t. rewrite <- H. apply B. Qed.

Lemma slU_excl : forall g (uls : nat -> sl_local) t1 t2, sl_inv g uls ->
  sl_held (uls t1) = true -> sl_held (uls t2) = true -> t1 = t2.
Proof. intros g uls t1 t2 [_ I] H1 H2. pose proof (I _ H1). pose proof (I _ H2). congruence. Qed.

Lemma sl_uidle_true l : sl_uidle l = true -> sl_pcv l = SIdle /\ sl_todo l = [].
Proof. unfold sl_uidle. destruct (sl_pcv l), (sl_todo l); try discriminate; auto. Qed.

Lemma slU_call : forall op l, sl_uidle l = true -> sl_uin op (sl_ucall op l) /\ sl_held (sl_ucall op l) = sl_held l.
Proof.
  intros op l H. apply sl_uidle_true in H. destruct H as [Hp _]. split; [|reflexivity].
  destruct op as [| | |[]]; cbn; auto.
Qed.

Lemma slU_call_inv : forall op g (uls : nat -> sl_local) t, sl_inv g uls -> sl_uidle (uls t) = true ->
  sl_inv g (upd uls t (sl_ucall op (uls t))).
Proof.
  intros op g uls t [A B] _. split; [exact A|]. intros x. upd_cases x t; [cbn|]; apply B.
Qed.

Lemma slU_busy : forall op l, sl_uin op l -> sl_uidle l = false.
Proof.
  intros op l. unfold sl_uidle. destruct op as [| | |[]]; cbn.
  - intros ->. destruct (sl_pcv l); reflexivity.
  - intros [-> ->]. reflexivity.
  - intros [-> ->]. reflexivity.
Qed.

Lemma slU_step_inv : forall op o t g (uls : nat -> sl_local), sl_inv g uls -> sl_uin op (uls t) ->
  ucall_ok Empty_set op (sl_held (uls t)) ->
  sl_inv (fst (sl_tstep o t g (uls t))) (upd uls t (snd (sl_tstep o t g (uls t)))).
Proof. intros op o t g uls I _ _. apply sl_inv_step. exact I. Qed.

Lemma slU_lock : forall o t g (uls : nat -> sl_local), sl_inv g uls -> sl_uin ULock (uls t) ->
  sl_held (uls t) = false ->
  let r := sl_tstep o t g (uls t) in
  (sl_uin ULock (snd r) /\ sl_held (snd r) = false) \/ (sl_uidle (snd r) = true /\ sl_held (snd r) = true).
Proof.
  intros o t g uls _. destruct (uls t) as [td p h]. cbn. intros -> ->. unfold sl_tstep. cbn.
  destruct p; destruct (slv g); cbn; auto.
Qed.

Lemma slU_try : forall o t g (uls : nat -> sl_local), sl_inv g uls -> sl_uin UTry (uls t) ->
  sl_held (uls t) = false ->
  let r := sl_tstep o t g (uls t) in
  (sl_uin UTry (snd r) /\ sl_held (snd r) = false) \/ sl_uidle (snd r) = true.
Proof.
  intros o t g uls _. destruct (uls t) as [td p h]. cbn. intros [-> ->] ->. unfold sl_tstep. cbn.
  destruct (slv g); cbn; auto.
Qed.

Lemma slU_unlock : forall o t g (uls : nat -> sl_local), sl_inv g uls -> sl_uin UUnlock (uls t) ->
  sl_held (uls t) = true ->
  let r := sl_tstep o t g (uls t) in
  (sl_uin UUnlock (snd r) /\ sl_held (snd r) = true) \/ (sl_uidle (snd r) = true /\ sl_held (snd r) = false).
Proof.
  intros o t g uls _. destruct (uls t) as [td p h]. cbn. intros [-> ->] ->. unfold sl_tstep. cbn. auto.
Qed.

Lemma slU_env : forall (x : Empty_set) o t g (uls : nat -> sl_local), sl_inv g uls -> sl_uin (UEnv x) (uls t) ->
  let r := sl_tstep o t g (uls t) in
  sl_held (snd r) = sl_held (uls t) /\ (sl_uin (UEnv x) (snd r) \/ sl_uidle (snd r) = true).
Proof. intros []. Qed.

Lemma sl_is_excl_lock : excl_lock sl_tstep sl_ucall sl_uidle sl_held sl_init sl_ul0 sl_uin sl_inv.
Proof.
  constructor; [exact slU_init | exact slU_ext | exact slU_excl | exact slU_call | exact slU_call_inv | exact slU_busy
               | exact slU_step_inv | exact slU_lock | exact slU_try | exact slU_unlock | exact slU_env].
Qed.

Definition rsl_reach_inv :=
  rg_reach_inv Empty_set sl_shared sl_local unit sl_tstep sl_ucall sl_uidle sl_held sl_init sl_ul0 sl_uin sl_inv
    slU_init slU_ext slU_excl slU_call slU_call_inv slU_busy slU_step_inv slU_lock slU_try slU_unlock slU_env.

Lemma rsl_exclusion : forall progs sched t1 t2,
  let c := rsl_run sched progs in
  rg_owns (snd c t1) -> rg_owns (snd c t2) -> t1 = t2.
Proof.
  exact (recursive_exclusion_gen Empty_set sl_shared sl_local unit sl_tstep sl_ucall sl_uidle sl_held sl_init sl_ul0
           sl_uin sl_inv slU_init slU_ext slU_excl slU_call slU_call_inv slU_busy slU_step_inv slU_lock slU_try
           slU_unlock slU_env).
Qed.

(* restated on the spinlock's flag: the flag is set while somebody owns the recursive mutex *)
Lemma rsl_depth : forall progs sched,
  let c := rsl_run sched progs in
  (forall t, g_pc (snd c t) = GIdle -> gdepth (snd c t) <> 0 ->
     gcount (fst c) = N.of_nat (gdepth (snd c t)) /\ gctx (fst c) = Some t /\
     slv (gu (fst c)) = true /\ slholder (gu (fst c)) = Some t) /\
  ((forall t, ~ rg_owns (snd c t)) ->
     gcount (fst c) = 0%N /\ gctx (fst c) = None /\ forall u, sl_held (gul (snd c u)) = false).
Proof.
  intros progs sched c.
  pose proof (recursive_count_is_depth_gen Empty_set sl_shared sl_local unit sl_tstep sl_ucall sl_uidle sl_held sl_init
           sl_ul0 sl_uin sl_inv slU_init slU_ext slU_excl slU_call slU_call_inv slU_busy slU_step_inv slU_lock slU_try
           slU_unlock slU_env progs sched) as [A B].
  pose proof (rsl_reach_inv progs sched) as I. apply ri_u in I. fold (rsl_run sched progs) in A, B, I. fold c in A, B, I.
  split; [|exact B].
  intros t Hp Hd. destruct (A t Hp Hd) as (A1 & A2 & A3 & _). repeat split; auto.
  - destruct I as [I1 I2]. specialize (I2 t A3). destruct (slv (gu (fst c))); [reflexivity|].
    rewrite I1 in I2 by reflexivity. discriminate.
  - destruct I as [_ I2]. exact (I2 t A3).
Qed.

(* the spinlock instance IS rm_tstep (the model the lock-step harness replays on the real recursive_mutex_impl<spinlock>):
   the abstraction commutes with every step taken from a state satisfying the thread's invariant *)
Lemma rsl_sim_step o t g (l : rg_local Empty_set sl_local) :
  rg_tinv Empty_set sl_shared sl_local sl_uidle sl_held sl_uin g t l ->
  rm_tstep o t (rsl_abs_g g) (rsl_abs_l l) =
  (rsl_abs_g (fst (rsl_tstep o t g l)), rsl_abs_l (snd (rsl_tstep o t g l))).
Proof.
  unfold rg_tinv, own_or_not. destruct l as [td p d [utd up uh]]. cbn [g_pc g_todo gdepth gul].
  destruct p; intros P.
  - destruct P as [Hi _]. apply sl_uidle_true in Hi. cbn in Hi. destruct Hi as [-> ->].
    destruct td as [|[| | |[]] rest]; cbn; try reflexivity.
    + destruct (onat_eqb (gctx g) t); reflexivity.
    + destruct (onat_eqb (gctx g) t); reflexivity.
    + destruct (Nat.eqb d 0); [reflexivity|]. destruct (N.eqb (N.pred (gcount g)) 0); reflexivity.
  - destruct td as [|[| | |[]] rest]; reflexivity.
  - destruct P as (Hin & Hh & _). cbn in Hin, Hh. subst utd uh.
    destruct up; cbn; destruct (slv (gu g)); reflexivity.
  - destruct P as ([Hin Hp] & Hh & _). cbn in Hin, Hp, Hh. subst utd uh up.
    cbn. destruct (slv (gu g)); destruct td as [|[| | |[]] rest]; reflexivity.
  - reflexivity.
  - destruct td as [|[| | |[]] rest]; reflexivity.
  - destruct P as [Hi _]. apply sl_uidle_true in Hi. cbn in Hi. destruct Hi as [-> ->]. reflexivity.
  - destruct P as ([Hin Hp] & Hh & _). cbn in Hin, Hp, Hh. subst utd uh up.
    destruct td as [|[| | |[]] rest]; reflexivity.
  - destruct P as ([[] _] & _).
Qed.

Lemma rsl_is_rm_gen : forall sched c c',
  rg_inv Empty_set sl_shared sl_local sl_uidle sl_held sl_uin sl_inv (fst c) (snd c) ->
  fst c' = rsl_abs_g (fst c) -> (forall t, snd c' t = rsl_abs_l (snd c t)) ->
  let d := run rsl_tstep sched c in let d' := run rm_tstep sched c' in
  fst d' = rsl_abs_g (fst d) /\ forall t, snd d' t = rsl_abs_l (snd d t).
Proof.
  induction sched as [|[t o] s IH]; intros c c' I Hg Hl; [cbn; auto|].
  cbv zeta. rewrite !run_cons. apply IH.
  - destruct c as [g ls]. cbn [step fst snd] in *.
    pose proof (rg_inv_step Empty_set sl_shared sl_local unit sl_tstep sl_ucall sl_uidle sl_held sl_uin sl_inv
           slU_ext slU_excl slU_call slU_call_inv slU_busy slU_step_inv slU_lock slU_try slU_unlock slU_env
           o t g ls I) as I'.
    fold rsl_tstep in I'. destruct (rsl_tstep o t g (ls t)) as [g1 l1]. exact I'.
  - destruct c as [g ls], c' as [g' ls']. cbn [step fst snd] in *. subst g'. rewrite (Hl t).
    rewrite (rsl_sim_step o t g (ls t) (ri_t _ _ _ _ _ _ _ _ _ I t)).
    destruct (rsl_tstep o t g (ls t)) as [g1 l1]. reflexivity.
  - destruct c as [g ls], c' as [g' ls']. cbn [step fst snd] in *. subst g'. rewrite (Hl t).
    rewrite (rsl_sim_step o t g (ls t) (ri_t _ _ _ _ _ _ _ _ _ I t)).
    destruct (rsl_tstep o t g (ls t)) as [g1 l1]. cbn [fst snd]. intros x. upd_cases x t; [reflexivity|apply Hl].
Qed.

(* every run of the model of Model/Mutex.v is the image of the run of the instance on the same schedule *)
Lemma rsl_is_rm : forall progs sched,
  let c := rsl_run sched (fun t => map rg_of_rm (progs t)) in
  let c' := rm_run sched progs in
  fst c' = rsl_abs_g (fst c) /\ forall t, snd c' t = rsl_abs_l (snd c t).
Proof.
  intros progs sched. unfold rsl_run, rm_run, rg_run.
  apply (rsl_is_rm_gen sched).
  - apply (rg_inv_init Empty_set sl_shared sl_local sl_uidle sl_held sl_init sl_ul0 sl_uin sl_inv slU_init slU_ext).
  - reflexivity.
  - intros t. unfold rm_locals, rsl_abs_l, rg_locals. cbn. rewrite map_map.
    f_equal. rewrite <- (map_id (progs t)) at 1. apply map_ext. intros []; reflexivity.
Qed.

(* ------------------------------------------------------------------------------------------ *)
(* Instance 2: the pika::mutex model satisfies the interface with its existing invariant mx_inv *)
Definition mx_uin (op : uop mx_env) (l : mx_local) : Prop :=
  match op with
  | ULock => todo l = [OLock] /\ (pc l = PIdle \/ pc l = PPre \/ pc l = PSusp)
  | UTry => todo l = [OTry] /\ pc l = PIdle
  | UUnlock => todo l = [OUnlock] /\ pc l = PIdle
  | UEnv x => todo l = [mx_envop x] /\ pc l = PIdle
  end.

Lemma mxU_init : mx_inv mx_init mx_ul0 /\ forall t, mx_uidle (mx_ul0 t) = true /\ held (mx_ul0 t) = false.
Proof. split; [exact (mx_inv_init (fun _ => []))|]. intros t. split; reflexivity. Qed.

Lemma mxU_ext : forall g (uls uls' : nat -> mx_local), (forall t, uls t = uls' t) -> mx_inv g uls -> mx_inv g uls'.
Proof.
  intros g uls uls' H I. constructor.
  - apply (i_nodup _ _ I).
  - intros t. rewrite <- H. apply (i_q _ _ I).
  - intros t. rewrite <- H. apply (i_h _ _ I).
  - intros t. rewrite <- H. apply (i_b _ _ I).
  - intros t. rewrite <- H. apply (i_t _ _ I).
  - apply (i_v _ _ I).
  - apply (i_lok _ _ I).
  - apply (i_ls _ _ I).
  - intros Ho. destruct (i_k _ _ I Ho) as [Hq|[w [Hw1 Hw2]]]; [left; exact Hq|].
    right. exists w. rewrite <- H. auto.
Qed.

Lemma mxU_excl : forall g (uls : nat -> mx_local) t1 t2, mx_inv g uls ->
  held (uls t1) = true -> held (uls t2) = true -> t1 = t2.
Proof. intros g uls t1 t2 I H1 H2. apply (i_h _ _ I) in H1. apply (i_h _ _ I) in H2. congruence. Qed.

Lemma mx_uidle_true l : mx_uidle l = true -> pc l = PIdle /\ todo l = [].
Proof. unfold mx_uidle. destruct (pc l), (todo l); try discriminate; auto. Qed.

Lemma mxU_call : forall op l, mx_uidle l = true -> mx_uin op (mx_ucall op l) /\ held (mx_ucall op l) = held l.
Proof.
  intros op l H. apply mx_uidle_true in H. destruct H as [Hp _]. split; [|reflexivity].
  destruct op; cbn; auto.
Qed.

Lemma mxU_call_inv : forall op g (uls : nat -> mx_local) t, mx_inv g uls -> mx_uidle (uls t) = true ->
  mx_inv g (upd uls t (mx_ucall op (uls t))).
Proof.
  intros op g uls t I _. constructor.
  - apply (i_nodup _ _ I).
  - intros x. upd_cases x t; [cbn [mx_ucall pc]|]; apply (i_q _ _ I).
  - intros x. upd_cases x t; [cbn [mx_ucall held]|]; apply (i_h _ _ I).
  - intros x. upd_cases x t; [cbn [mx_ucall pc]|]; apply (i_b _ _ I).
  - intros x. upd_cases x t; [cbn [mx_ucall pc]|]; apply (i_t _ _ I).
  - apply (i_v _ _ I).
  - apply (i_lok _ _ I).
  - apply (i_ls _ _ I).
  - intros Ho. destruct (i_k _ _ I Ho) as [Hq|[w [Hw1 Hw2]]]; [left; exact Hq|].
    right. exists w. split; [exact Hw1|]. upd_cases w t; [cbn [mx_ucall pc]|]; exact Hw2.
Qed.

Lemma mxU_busy : forall op l, mx_uin op l -> mx_uidle l = false.
Proof.
  intros op l. unfold mx_uidle. destruct op; cbn; intros [-> H]; destruct (pc l); reflexivity.
Qed.

Lemma mxU_step_inv : forall op o t g (uls : nat -> mx_local), mx_inv g uls -> mx_uin op (uls t) ->
  ucall_ok mx_env op (held (uls t)) ->
  mx_inv (fst (mx_tstep o t g (uls t))) (upd uls t (snd (mx_tstep o t g (uls t)))).
Proof. intros op o t g uls I _ _. apply mx_inv_step. exact I. Qed.

(* a caller that does not hold is not the owner (so lock() takes the waiting path, never the deadlock error) *)
Lemma mx_not_held_not_owner g (uls : nat -> mx_local) t : mx_inv g uls -> held (uls t) = false ->
  onat_eqb (owner g) t = false.
Proof.
  intros I Hh. apply onat_eqb_false. intros Ho. apply (i_h _ _ I) in Ho. congruence.
Qed.
Lemma mx_held_owner g (uls : nat -> mx_local) t : mx_inv g uls -> held (uls t) = true ->
  onat_eqb (owner g) t = true.
Proof. intros I Hh. apply onat_eqb_true. apply (i_h _ _ I). exact Hh. Qed.

Lemma mxU_lock : forall o t g (uls : nat -> mx_local), mx_inv g uls -> mx_uin ULock (uls t) ->
  held (uls t) = false ->
  let r := mx_tstep o t g (uls t) in
  (mx_uin ULock (snd r) /\ held (snd r) = false) \/ (mx_uidle (snd r) = true /\ held (snd r) = true).
Proof.
  intros o t g uls I Hin Hh. pose proof (mx_not_held_not_owner g uls t I Hh) as Hno.
  destruct (uls t) as [td p h]. cbn in Hin, Hh. destruct Hin as [-> Hp]. subst h.
  unfold mx_tstep, lock_loop. cbn [pc todo held].
  destruct Hp as [->|[->| ->]].
  - rewrite Hno. destruct (owner g); cbn; auto 6.
  - cbn. auto 6.
  - destruct (blocked (ag g t)); [cbn; auto 6|]. destruct (owner g); cbn; auto 6.
Qed.

Lemma mxU_try : forall o t g (uls : nat -> mx_local), mx_inv g uls -> mx_uin UTry (uls t) ->
  held (uls t) = false ->
  let r := mx_tstep o t g (uls t) in
  (mx_uin UTry (snd r) /\ held (snd r) = false) \/ mx_uidle (snd r) = true.
Proof.
  intros o t g uls _. destruct (uls t) as [td p h]. cbn. intros [-> ->] ->. unfold mx_tstep. cbn.
  destruct (owner g); cbn; auto.
Qed.

Lemma mxU_unlock : forall o t g (uls : nat -> mx_local), mx_inv g uls -> mx_uin UUnlock (uls t) ->
  held (uls t) = true ->
  let r := mx_tstep o t g (uls t) in
  (mx_uin UUnlock (snd r) /\ held (snd r) = true) \/ (mx_uidle (snd r) = true /\ held (snd r) = false).
Proof.
  intros o t g uls I Hin Hh. pose proof (mx_held_owner g uls t I Hh) as Hown.
  destruct (uls t) as [td p h]. cbn in Hin, Hh. destruct Hin as [-> ->]. subst h.
  unfold mx_tstep. cbn [pc todo held]. rewrite Hown. cbn. auto.
Qed.

Lemma mxU_env : forall (x : mx_env) o t g (uls : nat -> mx_local), mx_inv g uls -> mx_uin (UEnv x) (uls t) ->
  let r := mx_tstep o t g (uls t) in
  held (snd r) = held (uls t) /\ (mx_uin (UEnv x) (snd r) \/ mx_uidle (snd r) = true).
Proof.
  intros x o t g uls _. destruct (uls t) as [td p h]. cbn. intros [-> ->]. unfold mx_tstep.
  destruct x; cbn; [destruct h; cbn|..]; auto.
Qed.

Lemma mx_is_excl_lock : excl_lock mx_tstep mx_ucall mx_uidle held mx_init mx_ul0 mx_uin mx_inv.
Proof.
  constructor; [exact mxU_init | exact mxU_ext | exact mxU_excl | exact mxU_call | exact mxU_call_inv | exact mxU_busy
               | exact mxU_step_inv | exact mxU_lock | exact mxU_try | exact mxU_unlock | exact mxU_env].
Qed.

Definition rmx_reach_inv :=
  rg_reach_inv mx_env mx_shared mx_local bool mx_tstep mx_ucall mx_uidle held mx_init mx_ul0 mx_uin mx_inv
    mxU_init mxU_ext mxU_excl mxU_call mxU_call_inv mxU_busy mxU_step_inv mxU_lock mxU_try mxU_unlock mxU_env.

Lemma rmx_exclusion : forall progs sched t1 t2,
  let c := rmx_run sched progs in
  rg_owns (snd c t1) -> rg_owns (snd c t2) -> t1 = t2.
Proof.
  exact (recursive_exclusion_gen mx_env mx_shared mx_local bool mx_tstep mx_ucall mx_uidle held mx_init mx_ul0
           mx_uin mx_inv mxU_init mxU_ext mxU_excl mxU_call mxU_call_inv mxU_busy mxU_step_inv mxU_lock mxU_try
           mxU_unlock mxU_env).
Qed.

(* restated on pika::mutex's owner_id_ *)
Lemma rmx_depth : forall progs sched,
  let c := rmx_run sched progs in
  (forall t, g_pc (snd c t) = GIdle -> gdepth (snd c t) <> 0 ->
     gcount (fst c) = N.of_nat (gdepth (snd c t)) /\ gctx (fst c) = Some t /\ owner (gu (fst c)) = Some t) /\
  ((forall t, ~ rg_owns (snd c t)) ->
     gcount (fst c) = 0%N /\ gctx (fst c) = None /\ owner (gu (fst c)) = None).
Proof.
  intros progs sched c.
  pose proof (recursive_count_is_depth_gen mx_env mx_shared mx_local bool mx_tstep mx_ucall mx_uidle held mx_init
           mx_ul0 mx_uin mx_inv mxU_init mxU_ext mxU_excl mxU_call mxU_call_inv mxU_busy mxU_step_inv mxU_lock mxU_try
           mxU_unlock mxU_env progs sched) as [A B].
  pose proof (rmx_reach_inv progs sched) as I. apply ri_u in I. fold (rmx_run sched progs) in A, B, I. fold c in A, B, I.
  split.
  - intros t Hp Hd. destruct (A t Hp Hd) as (A1 & A2 & A3 & _). repeat split; auto.
    apply (i_h _ _ I t). exact A3.
  - intros Hno. destruct (B Hno) as (B1 & B2 & B3). repeat split; auto.
    destruct (owner (gu (fst c))) as [x|] eqn:Ex; [|reflexivity].
    apply (i_h _ _ I x) in Ex. unfold uls_of in Ex. rewrite B3 in Ex. discriminate Ex.
Qed.

(* the owner of the underlying pika::mutex is exactly the task that owns the recursive mutex, in every state *)
Lemma rmx_owner_iff_owns : forall progs sched t,
  let c := rmx_run sched progs in owner (gu (fst c)) = Some t <-> rg_owns (snd c t).
Proof.
  intros progs sched t c. pose proof (rmx_reach_inv progs sched) as I. fold (rmx_run sched progs) in I. fold c in I.
  destruct I as [Iu _ _ It]. pose proof (It t) as Pt. apply tinv_owns_holds in Pt. rewrite Pt.
  symmetry. apply (i_h _ _ Iu t).
Qed.

(* the recursive layer never provokes the errors pika::mutex reports for misuse (lock by the owner: deadlock;
   unlock by a non-owner: lock_error): no such event is ever logged *)
Lemma mx_disciplined_step_no_error : forall op o t g (uls : nat -> mx_local), mx_inv g uls -> mx_uin op (uls t) ->
  ucall_ok mx_env op (held (uls t)) ->
  (forall e, In e (mxlog g) -> mx_is_error e = false) ->
  forall e, In e (mxlog (fst (mx_tstep o t g (uls t)))) -> mx_is_error e = false.
Proof.
  intros op o t g uls I Hin Hok HP.
  pose proof (mx_not_held_not_owner g uls t I) as Hno. pose proof (mx_held_owner g uls t I) as Hown.
  destruct (uls t) as [td p h]. cbn [held] in *. unfold mx_tstep, lock_loop, notify_one. cbn [pc todo held].
  destruct op as [| | |x]; cbn in Hin, Hok.
  - destruct Hin as [-> Hp]. subst h. rewrite (Hno eq_refl).
    destruct Hp as [->|[->| ->]]; [| |destruct (blocked (ag g t))]; try destruct (owner g); cbn;
      intros e He; try (destruct He as [<-|He]); auto.
  - destruct Hin as [-> ->]. destruct (owner g); cbn; intros e He; try (destruct He as [<-|He]); auto.
  - destruct Hin as [-> ->]. subst h. rewrite (Hown eq_refl). cbn. destruct (queue g); cbn;
      intros e He; try (destruct He as [<-|He]); auto.
  - destruct Hin as [-> ->]. destruct x; cbn; [destruct h; cbn|..]; auto.
Qed.

Lemma rmx_no_misuse_error : forall progs sched e,
  In e (mxlog (gu (fst (rmx_run sched progs)))) -> mx_is_error e = false.
Proof.
  intros progs sched.
  apply (recursive_layer_transfers_gen mx_env mx_shared mx_local bool mx_tstep mx_ucall mx_uidle held mx_init mx_ul0
           mx_uin mx_inv mxU_init mxU_ext mxU_excl mxU_call mxU_call_inv mxU_busy mxU_step_inv mxU_lock mxU_try
           mxU_unlock mxU_env (fun u => forall e, In e (mxlog u) -> mx_is_error e = false)).
  - intros e [].
  - exact mx_disciplined_step_no_error.
Qed.

(* no unlock of the recursive mutex is lost: stuck with the underlying mutex free => nobody is blocked in lock() *)
Lemma rmx_no_lost_unlock : forall progs sched,
  let c := rmx_run sched progs in
  rmx_stuck (fst c) (snd c) -> owner (gu (fst c)) = None ->
  forall t, ~ rmx_blocked_in_lock (fst c) (snd c t) t.
Proof.
  intros progs sched c Hst Ho t [_ [Hp Hb]].
  pose proof (rmx_reach_inv progs sched) as I. fold (rmx_run sched progs) in I. fold c in I.
  destruct I as [Iu _ _ It].
  destruct (i_b _ _ Iu t Hb) as [_ Hin].
  destruct (i_k _ _ Iu Ho) as [Hq | [w [Hw1 Hw2]]]; [rewrite Hq in Hin; exact Hin|].
  unfold uls_of in Hw2.
  destruct (Hst w) as [[Hc Htd] | [_ [Hc Hbw]]].
  - pose proof (It w) as Pw. unfold rg_tinv in Pw. rewrite Hc in Pw. destruct Pw as [Hi _].
    apply mx_uidle_true in Hi. destruct Hi as [Hi _]. contradiction.
  - destruct (i_b _ _ Iu w Hbw) as [_ Hinw]. contradiction.
Qed.

(* with balanced programs (whoever finished has released every level) a stuck state is a finished state: no task is
   left blocked in lock() of the recursive mutex *)
Lemma rmx_stuck_balanced_all_done : forall progs sched,
  let c := rmx_run sched progs in
  rmx_stuck (fst c) (snd c) -> (forall t, rmx_finished (snd c t) -> gdepth (snd c t) = 0) ->
  forall t, rmx_finished (snd c t).
Proof.
  intros progs sched c Hst Hbal t.
  pose proof (rmx_reach_inv progs sched) as I. fold (rmx_run sched progs) in I. fold c in I.
  assert (Ho : owner (gu (fst c)) = None).
  { destruct (owner (gu (fst c))) as [x|] eqn:Ex; [|reflexivity]. exfalso.
    apply (i_h _ _ (ri_u _ _ _ _ _ _ _ _ _ I) x) in Ex. unfold uls_of in Ex.
    pose proof (ri_t _ _ _ _ _ _ _ _ _ I x) as Px. unfold rg_tinv, own_or_not in Px.
    destruct (Hst x) as [[Hc Htd] | [Hc _]]; rewrite Hc in Px.
    - destruct Px as (_ & _ & Hd0). rewrite Hd0 in Ex; [discriminate|]. apply Hbal. split; assumption.
    - destruct Px as (_ & Hf & _). congruence. }
  destruct (Hst t) as [H|H]; [exact H|].
  exfalso. exact (rmx_no_lost_unlock progs sched Hst Ho t H).
Qed.

(* [rmx_stuck] is exactly "no task can move": a task that has neither finished nor is blocked in lock()'s suspend
   changes the state with its next step, whatever the oracle says *)
Definition rmx_meas (c : rg_shared mx_shared * rg_local mx_env mx_local) :=
  (length (mxlog (gu (fst c))), length (g_todo (snd c)), g_pc (snd c), pc (gul (snd c)), length (todo (gul (snd c)))).

Lemma rmx_enabled_unless_stuck : forall o t g (l : rg_local mx_env mx_local),
  rg_tinv mx_env mx_shared mx_local mx_uidle held mx_uin g t l ->
  ~ rmx_finished l -> ~ rmx_blocked_in_lock g l t -> rmx_tstep o t g l <> (g, l).
Proof.
  intros o t g l P Hnf Hnb H. apply (f_equal rmx_meas) in H. revert H.
  unfold rmx_finished, rmx_blocked_in_lock, blocked_in_lock in *.
  unfold rg_tinv, own_or_not in P. unfold rmx_meas, rmx_tstep, rg_tstep, rg_at, rg_call, rg_setu.
  destruct l as [td p d [utd up uh]]. cbn [g_pc g_todo gdepth gul fst snd pc todo held] in *.
  destruct p.
  - destruct P as [Hi _]. apply mx_uidle_true in Hi. cbn in Hi. destruct Hi as [-> ->].
    destruct td as [|[| | |x] rest]; [exfalso; apply Hnf; auto|..]; cbn [fst snd].
    + destruct (onat_eqb (gctx g) t); cbn; intros H; inversion H.
    + destruct (onat_eqb (gctx g) t); cbn; intros H; inversion H.
    + destruct (Nat.eqb d 0); [|destruct (N.eqb (N.pred (gcount g)) 0)]; cbn; intros H; inversion H; lia.
    + cbn. intros H; inversion H.
  - cbn. intros H; inversion H.
  - cbn in P. destruct P as ([-> Hp] & -> & _). cbn [mx_tstep pc todo held] in *. unfold mx_tstep, lock_loop. cbn [pc todo held].
    destruct Hp as [->|[->| ->]].
    + destruct (onat_eqb (owner (gu g)) t); [|destruct (owner (gu g))]; cbn; intros H; inversion H; lia.
    + cbn. intros H; inversion H.
    + destruct (blocked (ag (gu g) t)) eqn:Hb; [exfalso; apply Hnb; auto|].
      destruct (owner (gu g)); cbn; intros H; inversion H; lia.
  - cbn in P. destruct P as ([-> ->] & -> & _). unfold mx_tstep. cbn [pc todo held].
    destruct (owner (gu g)); cbn; intros H; inversion H; lia.
  - cbn. intros H; inversion H.
  - cbn. intros H; inversion H.
  - cbn. intros H; inversion H.
  - cbn in P. destruct P as ([-> ->] & -> & _). unfold mx_tstep, notify_one. cbn [pc todo held].
    destruct (onat_eqb (owner (gu g)) t); cbn; [destruct (queue (gu g)); cbn|]; intros H; inversion H; lia.
  - cbn in P. destruct P as ([x [-> ->]] & _). unfold mx_tstep. cbn [pc todo held].
    destruct x; cbn; [destruct uh; cbn|..]; intros H; inversion H.
Qed.

Lemma rmx_enabled_unless_stuck_run : forall progs sched o t,
  let c := rmx_run sched progs in
  ~ rmx_finished (snd c t) -> ~ rmx_blocked_in_lock (fst c) (snd c t) t ->
  rmx_tstep o t (fst c) (snd c t) <> (fst c, snd c t).
Proof.
  intros progs sched o t c. pose proof (rmx_reach_inv progs sched) as I. fold (rmx_run sched progs) in I. fold c in I.
  apply rmx_enabled_unless_stuck. exact (ri_t _ _ _ _ _ _ _ _ _ I t).
Qed.
