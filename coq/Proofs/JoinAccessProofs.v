(* Proofs/JoinAccessProofs.v — C03: the slots of the when_all operation state are read for the
   final completion only after every child has decremented, and nothing of the operation state
   is accessed afterwards; all child counts, completions, schedules. *)
From Coq Require Import List NArith ZArith Bool Arith Lia.
From Pika Require Import Base.Conc Model.Sender Model.Handoff Model.JoinAccess Proofs.HandoffProofs.
Import ListNotations.

Section JoinAccess.
  Variable n : nat.
  Variable cs : nat -> completion.

  Lemma wa_erase_gen : forall sched (c1 : (ws * list (nat * wacc)) * locals wpc) (c2 : ws * locals wpc),
    fst (fst c1) = fst c2 -> (forall t, snd c1 t = snd c2 t) ->
    fst (fst (run (wa_tstep n cs) sched c1)) = fst (run (w_tstep n cs) sched c2) /\
    (forall t, snd (run (wa_tstep n cs) sched c1) t = snd (run (w_tstep n cs) sched c2) t).
  Proof.
    induction sched as [|[t o] s IH]; intros c1 c2 Hg Hl; [split; assumption|].
    rewrite !run_cons. apply IH.
    - destruct c1 as [[g lg] ls], c2 as [g2 ls2]. cbn [fst snd] in *. subst g2.
      cbn [step fst snd]. unfold wa_tstep. cbn [fst snd]. rewrite Hl.
      destruct (w_tstep n cs o t g (ls2 t)) as [g' l']. reflexivity.
    - destruct c1 as [[g lg] ls], c2 as [g2 ls2]. cbn [fst snd] in *. subst g2.
      cbn [step fst snd]. unfold wa_tstep. cbn [fst snd]. rewrite Hl.
      destruct (w_tstep n cs o t g (ls2 t)) as [g' l']. cbn [fst snd].
      intros u. unfold upd. destruct (Nat.eqb u t); [reflexivity|apply Hl].
  Qed.

  Theorem wa_erase sched :
    fst (fst (wa_run n cs sched)) = fst (w_run n cs sched) /\
    (forall t, snd (wa_run n cs sched) t = snd (w_run n cs sched) t).
  Proof. unfold wa_run, w_run. apply wa_erase_gen; reflexivity. Qed.

  Definition nofin (log : list (nat * wacc)) : Prop := forall u, ~ In (u, AFinish) log.

  Record AInv (gl : ws * list (nat * wacc)) (ls : locals wpc) : Prop := {
    a_w : WInv n cs (fst gl) ls;
    a_dec : forall u, In u (w_fin (fst gl)) -> In (u, ADec) (snd gl);
    a_none : w_out (fst gl) = [] -> nofin (snd gl);
    a_some : w_out (fst gl) <> [] ->
               exists t rest, snd gl = (t, AFinish) :: rest /\ nofin rest /\
                              (forall u, u < n -> In (u, ADec) rest) /\ (forall u, u < n -> ls u = WEnd)
  }.

  Lemma nofin_cons x log : snd x <> AFinish -> nofin log -> nofin (x :: log).
  Proof. intros Hx H u [E|Hin]; [subst x; cbn in Hx; congruence|exact (H u Hin)]. Qed.

  Lemma wa_step_inv : forall (o : unit) t gl (ls : locals wpc), AInv gl ls ->
    AInv (fst (wa_tstep n cs o t gl (ls t))) (upd ls t (snd (wa_tstep n cs o t gl (ls t)))).
  Proof.
    intros o t [g log] ls [HW Hdec Hnone Hsome]. cbn [fst snd] in *.
    pose proof (wstep_inv n cs o t g ls HW) as HW'.
    unfold wa_tstep. cbn [fst snd].
    destruct (w_out g) as [|x xs] eqn:Eout.
    - (* nothing signalled yet *)
      specialize (Hnone eq_refl). clear Hsome.
      unfold wa_ghost. unfold w_tstep in *. destruct (Nat.ltb t n) eqn:Elt; cbn [fst snd] in *.
      2: { constructor; cbn [fst snd]; [exact HW'|exact Hdec|intros _; exact Hnone|rewrite Eout; congruence]. }
      apply Nat.ltb_lt in Elt.
      destruct (ls t) eqn:Et; cbn [fst snd] in *.
      + constructor; cbn [fst snd]; [exact HW'|exact Hdec|intros _; exact Hnone|rewrite Eout; congruence].
      + (* W1 *)
        assert (Eo : w_out (w_flag_step t (cs t) g) = []).
        { unfold w_flag_step. destruct (cs t); try destruct (w_flag g); cbn [w_out]; exact Eout. }
        assert (Ef : w_fin (w_flag_step t (cs t) g) = w_fin g).
        { unfold w_flag_step. destruct (cs t); try destruct (w_flag g); reflexivity. }
        constructor; cbn [fst snd]; [exact HW'| | |].
        * intros u Hu. rewrite Ef in Hu. right. auto.
        * intros _. apply nofin_cons; [discriminate|exact Hnone].
        * rewrite Eo. congruence.
      + (* W2 *)
        unfold w_dec_step in *. cbn [w_rem w_flag w_err w_slots w_out w_first w_fin] in *.
        destruct ((w_rem g - 1 =? 0)%Z) eqn:Ez; cbn [w_rem w_flag w_err w_slots w_out w_first w_fin] in *.
        * assert (Hall : forall u, u < n -> In u (t :: w_fin g)).
          { apply Z.eqb_eq in Ez. pose proof (wi_rem _ _ _ _ HW') as R. cbn [w_rem w_fin length] in R.
            apply (fin_full n); [exact (wi_nodup _ _ _ _ HW')| |cbn [length]; lia].
            intros u Hu. apply (wi_fin _ _ _ _ HW') in Hu. tauto. }
          constructor; cbn [fst snd w_out w_fin]; [exact HW'| | |].
          -- intros u [<-|Hu]; [right; now left|right; right; auto].
          -- discriminate.
          -- intros _. exists t, ((t, ADec) :: log). split; [reflexivity|split; [|split]].
             ++ apply nofin_cons; [discriminate|exact Hnone].
             ++ intros u Hu. destruct (Hall u Hu) as [<-|Hin]; [now left|right; auto].
             ++ intros u Hu. apply (wi_fin _ _ _ _ HW'). cbn [w_fin]. exact (Hall u Hu).
        * constructor; cbn [fst snd w_out w_fin]; [exact HW'| | |].
          -- intros u [<-|Hu]; [now left|right; auto].
          -- intros _. apply nofin_cons; [discriminate|exact Hnone].
          -- rewrite Eout. congruence.
      + constructor; cbn [fst snd]; [exact HW'|exact Hdec|intros _; exact Hnone|rewrite Eout; congruence].
    - (* already signalled: every child is at WEnd, every step stutters *)
      destruct Hsome as (t0 & rest & El & Hnf & Hd & Hend); [discriminate|].
      assert (Hst : w_tstep n cs o t g (ls t) = (g, ls t)).
      { unfold w_tstep. destruct (Nat.ltb t n) eqn:Elt; [|reflexivity]. apply Nat.ltb_lt in Elt. rewrite (Hend t Elt). reflexivity. }
      assert (Hgh : wa_ghost n t g (ls t) log = log).
      { unfold wa_ghost. destruct (Nat.ltb t n) eqn:Elt; [|reflexivity]. apply Nat.ltb_lt in Elt. rewrite (Hend t Elt). reflexivity. }
      rewrite Hst in *. rewrite Hgh. cbn [fst snd] in *.
      constructor; cbn [fst snd]; [exact HW'|exact Hdec|rewrite Eout; discriminate|].
      intros _. exists t0, rest. split; [exact El|split; [exact Hnf|split; [exact Hd|]]].
      intros u Hu. unfold upd. destruct (Nat.eqb u t) eqn:E; [apply Nat.eqb_eq in E; subst u|]; auto.
  Qed.

  Lemma wa_init_inv : AInv (w_init n, []) w_locals.
  Proof.
    constructor; cbn [fst snd].
    - apply winit_inv.
    - intros u [].
    - intros _ u [].
    - cbn. congruence.
  Qed.

  Theorem wa_run_inv sched : AInv (fst (wa_run n cs sched)) (snd (wa_run n cs sched)).
  Proof. unfold wa_run. apply (run_inv _ _ _ (wa_tstep n cs) AInv wa_step_inv). exact wa_init_inv. Qed.

  (* wherever finish()'s read of the flag / error slot / value slots occurs in the access log,
     it is the LAST access to the operation state (nothing is newer), it happens once, every
     child has decremented before it, and from then on every child's thread is finished *)
  Theorem when_all_slots_outlive sched :
    let log := snd (fst (wa_run n cs sched)) in
    let ls := snd (wa_run n cs sched) in
    forall newer t older, log = newer ++ (t, AFinish) :: older ->
      newer = [] /\ (forall u, ~ In (u, AFinish) older) /\ (forall u, u < n -> In (u, ADec) older) /\
      (forall u, u < n -> ls u = WEnd) /\ w_out (fst (fst (wa_run n cs sched))) <> [].
  Proof.
    cbn zeta. intros newer t older E. pose proof (wa_run_inv sched) as [HW Hdec Hnone Hsome].
    destruct (w_out (fst (fst (wa_run n cs sched)))) as [|x xs] eqn:Eout.
    - exfalso. apply (Hnone eq_refl t). rewrite E. apply in_or_app. right. now left.
    - destruct Hsome as (t0 & rest & El & Hnf & Hd & Hend); [discriminate|].
      rewrite El in E. destruct newer as [|y newer]; cbn [app] in E.
      + injection E as <- <-. repeat split; auto. discriminate.
      + injection E as _ E. exfalso. apply (Hnf t). rewrite E. apply in_or_app. right. now left.
  Qed.
End JoinAccess.

Example join_access_example :
  let u := fun t => (t, tt) in
  let cs := fun t => match t with 0 => CVal [1%N] | 1 => CErr 5%N | _ => CStopped end in
  snd (fst (wa_run 3 cs (map u [0; 1; 2; 2; 1; 0; 0; 1; 2; 2; 0]))) =
    [(2, AFinish); (2, ADec); (1, ADec); (0, ADec); (0, AFlag); (1, AFlag); (2, AFlag)].
Proof. vm_compute. reflexivity. Qed.
