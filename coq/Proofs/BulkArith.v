(* Proofs/BulkArith.v — the chunk arithmetic of thread_pool_scheduler_bulk.hpp (fixed code):
   no conversion in it loses a bit, the chunk-size loop terminates, the chunks partition
   [0,n) and the per-worker queue ranges partition the chunk indices. *)
From Coq Require Import List NArith ZArith Bool Lia Arith.
From Pika Require Import Base.Conc Model.IndexQueue Model.Bulk.
Import ListNotations.
Local Open Scope N_scope.
Ltac Zify.zify_post_hook ::= Z.div_mod_to_equations.

Lemma wrap_small bits x : x < 2 ^ bits -> wrap bits x = x.
Proof. intros H. unfold wrap. now apply N.mod_small. Qed.

Lemma pow2_pos b : 0 < 2 ^ b.
Proof. apply N.neq_0_lt_0. now apply N.pow_nonzero. Qed.

Lemma pow2_mono a b : a <= b -> 2 ^ a <= 2 ^ b.
Proof. intros H. apply N.pow_le_mono_r; lia. Qed.

Lemma pow2_S j : 2 ^ N.of_nat (S j) = 2 * 2 ^ N.of_nat j.
Proof. rewrite Nat2N.inj_succ, N.pow_succ_r'; reflexivity. Qed.

Definition cdiv (n d : N) : N := n / d + (if n mod d =? 0 then 0 else 1).

Lemma cdiv_spec n d : 0 < d -> forall c, cdiv n d <= c <-> n <= c * d.
Proof.
  intros Hd c. unfold cdiv.
  pose proof (N.div_mod' n d) as E. pose proof (N.mod_lt n d ltac:(lia)) as Hr.
  set (q := n / d) in *. set (r := n mod d) in *. clearbody q r.
  destruct (r =? 0) eqn:E0.
  - apply N.eqb_eq in E0. subst r. split; intros H.
    + assert (d * q <= d * c) by (apply N.mul_le_mono_l; lia). lia.
    + assert (q <= c); [|lia]. apply (N.mul_le_mono_pos_l q c d Hd). lia.
  - apply N.eqb_neq in E0. split; intros H.
    + assert (d * (q + 1) <= d * c) by (apply N.mul_le_mono_l; lia). lia.
    + assert (q < c); [|lia]. apply (N.mul_lt_mono_pos_l d q c Hd). lia.
Qed.

Lemma cdiv_le n d : 0 < d -> cdiv n d <= n.
Proof. intros Hd. apply cdiv_spec; [exact Hd|]. nia. Qed.

Lemma cdiv_pos n d : 0 < d -> 0 < n -> 0 < cdiv n d.
Proof.
  intros Hd Hn. destruct (N.eq_dec (cdiv n d) 0) as [E|E]; [|lia].
  assert (H : cdiv n d <= 0) by lia. apply (cdiv_spec n d Hd) in H. lia.
Qed.

Lemma cdiv_tight n d : 0 < d -> 0 < n -> (cdiv n d - 1) * d < n.
Proof.
  intros Hd Hn. pose proof (cdiv_pos n d Hd Hn) as Hp.
  destruct (N.lt_ge_cases ((cdiv n d - 1) * d) n) as [H|H]; [exact H|].
  apply (cdiv_spec n d Hd) in H. lia.
Qed.

Definition W_ok (W : N) : Prop := 0 < W /\ W < 2 ^ 29.

Lemma min_chunk_size_eq W n : W_ok W -> n < 2 ^ 64 -> min_chunk_size W n = cdiv n (8 * W).
Proof.
  intros [HW1 HW2] Hn. unfold min_chunk_size, u64, u32.
  assert (E29 : 2 ^ 29 = 536870912) by reflexivity.
  assert (E32 : 2 ^ 32 = 4294967296) by reflexivity.
  assert (E64 : 2 ^ 64 = 18446744073709551616) by reflexivity.
  rewrite (wrap_small 32 W) by lia. rewrite (wrap_small 64 n) by exact Hn.
  rewrite (wrap_small 64 (W * 8)) by lia.
  replace (W * 8) with (8 * W) by lia. fold (cdiv n (8 * W)).
  apply wrap_small. pose proof (cdiv_le n (8 * W)). lia.
Qed.

Lemma min_chunk_size_bound W n : W_ok W -> n < 2 ^ 64 -> min_chunk_size W n <= 2 ^ 61.
Proof.
  intros HW Hn. rewrite min_chunk_size_eq by assumption. destruct HW as [HW1 HW2].
  apply cdiv_spec; [lia|].
  assert (E61 : 2 ^ 61 = 2305843009213693952) by reflexivity.
  assert (E64 : 2 ^ 64 = 18446744073709551616) by reflexivity. nia.
Qed.

Lemma chunk_loop_spec target : target <= 2 ^ 61 -> forall fuel j,
  (j <= 61)%nat -> (63 <= fuel + j)%nat ->
  (j = O \/ 2 ^ N.of_nat (j - 1) < target) ->
  exists j', chunk_loop fuel (2 ^ N.of_nat j) target = Some (2 ^ N.of_nat j') /\ (j' <= 61)%nat /\
             target <= 2 ^ N.of_nat j' /\ (j' = O \/ 2 ^ N.of_nat (j' - 1) < target).
Proof.
  intros Ht. induction fuel as [|fuel IH]; intros j Hj Hf Hm; [lia|].
  cbn [chunk_loop]. destruct (2 ^ N.of_nat j <? target) eqn:E.
  - apply N.ltb_lt in E.
    assert (Hj' : (j < 61)%nat).
    { destruct (Nat.lt_ge_cases j 61) as [H|H]; [exact H|].
      assert (2 ^ 61 <= 2 ^ N.of_nat j) by (apply pow2_mono; lia). lia. }
    assert (Eu : u64 (2 ^ N.of_nat j * 2) = 2 ^ N.of_nat (S j)).
    { rewrite pow2_S. unfold u64. rewrite wrap_small; [lia|].
      assert (2 ^ N.of_nat j <= 2 ^ 61) by (apply pow2_mono; lia).
      assert (E64 : 2 ^ 64 = 8 * 2 ^ 61) by reflexivity. lia. }
    rewrite Eu. apply IH; [lia|lia|].
    right. replace (S j - 1)%nat with j by lia. exact E.
  - apply N.ltb_ge in E. exists j. repeat split; auto.
Qed.

Record chunk_ok (W n c : N) : Prop := {
  ck_pow : exists j, (j <= 61)%nat /\ c = 2 ^ N.of_nat j;
  ck_pos : 0 < c;
  ck_cover : n <= c * (8 * W);                       (* at most 8 chunks per worker *)
  ck_min : c = 1 \/ (c / 2) * (8 * W) < n;           (* the smallest such power of two *)
  ck_le : c <= n
}.

Lemma get_chunk_size_ok W n : W_ok W -> 0 < n -> n < 2 ^ 64 ->
  exists c, get_chunk_size W n = Some c /\ chunk_ok W n c.
Proof.
  intros HW Hn0 Hn. pose proof HW as [HW1 HW2].
  pose proof (min_chunk_size_bound W n HW Hn) as Hb.
  destruct (chunk_loop_spec _ Hb 65 0) as [j [E [Hj [Hc Hm]]]]; [lia|lia|now left|].
  exists (2 ^ N.of_nat j). split; [exact E|].
  rewrite min_chunk_size_eq in Hc, Hm by assumption.
  assert (Hd : 0 < 8 * W) by lia.
  constructor.
  - now exists j.
  - apply pow2_pos.
  - now apply (cdiv_spec n (8 * W) Hd).
  - destruct Hm as [->|Hm]; [now left|right].
    destruct j as [|j]; [cbn in Hm; pose proof (cdiv_pos n _ Hd Hn0); lia|].
    rewrite pow2_S. replace (S j - 1)%nat with j in Hm by lia.
    replace (2 * 2 ^ N.of_nat j / 2) with (2 ^ N.of_nat j) by (rewrite N.mul_comm, N.div_mul; lia).
    destruct (N.lt_ge_cases (2 ^ N.of_nat j * (8 * W)) n) as [H|H]; [exact H|].
    apply (cdiv_spec n (8 * W) Hd) in H. lia.
  - destruct Hm as [->|Hm]; [cbn; lia|].
    destruct j as [|j]; [cbn; lia|]. rewrite pow2_S. replace (S j - 1)%nat with j in Hm by lia.
    (* 2^j < ceil(n/8W) <= ceil(n/8), so 2*2^j <= n *)
    assert (H8 : cdiv n (8 * W) <= cdiv n 8).
    { apply cdiv_spec; [lia|]. pose proof (proj1 (cdiv_spec n 8 ltac:(lia) (cdiv n 8)) (N.le_refl _)). nia. }
    pose proof (cdiv_tight n 8 ltac:(lia) Hn0). lia.
Qed.

Lemma get_num_chunks_eq W n c : W_ok W -> 0 < n -> n < 2 ^ 64 -> chunk_ok W n c ->
  get_num_chunks n c = cdiv n c /\ 0 < cdiv n c <= 8 * W.
Proof.
  intros [HW1 HW2] Hn0 Hn [_ Hp Hc _ _].
  assert (Hk : cdiv n c <= 8 * W) by (apply cdiv_spec; lia).
  assert (Hk0 : 0 < cdiv n c) by (apply cdiv_pos; lia).
  split; [|lia]. unfold get_num_chunks, u64, u32. rewrite (wrap_small 64 n) by exact Hn.
  fold (cdiv n c).
  assert (E29 : 2 ^ 29 = 536870912) by reflexivity.
  assert (E32 : 2 ^ 32 = 4294967296) by reflexivity.
  assert (E64 : 2 ^ 64 = 18446744073709551616) by reflexivity.
  rewrite (wrap_small 64) by lia. apply wrap_small. lia.
Qed.

(* chunk idx of the shape with n items, chunk size c: [idx*c, min((idx+1)*c, n)) *)
Lemma chunk_range_eq bits n c idx : 0 < c -> c <= n -> n < 2 ^ bits -> bits <= 64 ->
  idx < cdiv n c -> idx < 2 ^ 32 ->
  chunk_begin bits c idx = idx * c /\ chunk_end bits c n idx = N.min ((idx + 1) * c) n /\
  idx * c < N.min ((idx + 1) * c) n.
Proof.
  intros Hc Hcn Hn Hb Hi H32.
  assert (Hn0 : 0 < n) by lia.
  pose proof (cdiv_tight n c Hc Hn0) as Ht.
  assert (Hlt : idx * c < n) by nia.
  assert (H64 : 2 ^ bits <= 2 ^ 64) by (apply pow2_mono; exact Hb).
  assert (Eb : chunk_begin bits c idx = idx * c).
  { unfold chunk_begin, u64, u32.
    rewrite (wrap_small 32 idx) by exact H32. rewrite (wrap_small 64) by lia. apply wrap_small. lia. }
  split; [exact Eb|]. split; [|lia].
  unfold chunk_end. rewrite Eb.
  rewrite (wrap_small bits c) by lia.
  assert (Es : wrap bits (n + 2 ^ bits - idx * c) = n - idx * c).
  { unfold wrap. replace (n + 2 ^ bits - idx * c) with ((n - idx * c) + 1 * 2 ^ bits) by lia.
    rewrite N.mod_add by (pose proof (pow2_pos bits); lia). apply N.mod_small. lia. }
  rewrite Es. rewrite wrap_small by lia. lia.
Qed.

Lemma chunk_partition n c j : 0 < c -> j < n ->
  j / c < cdiv n c /\ (j / c) * c <= j < N.min ((j / c + 1) * c) n.
Proof.
  intros Hc Hj. split.
  - destruct (N.lt_ge_cases (j / c) (cdiv n c)) as [H|H]; [exact H|].
    pose proof (proj1 (cdiv_spec n c Hc (cdiv n c)) (N.le_refl _)). nia.
  - nia.
Qed.

Lemma chunk_unique c n idx j : 0 < c -> idx * c <= j < N.min ((idx + 1) * c) n -> j / c = idx /\ j < n.
Proof.
  intros Hc H. split; [|lia]. symmetry. apply (N.div_unique j c idx (j - idx * c)); lia.
Qed.

(* ---- per-worker queue ranges ---- *)
Definition pbeg (W k : N) (w : N) : N := w * k / W.

Lemma part_eq W w k : W_ok W -> w <= W -> k < 2 ^ 32 ->
  part_begin W w k = pbeg W k w /\ (w < W -> part_end W w k = pbeg W k (w + 1)).
Proof.
  intros [HW1 HW2] Hw Hk.
  assert (E29 : 2 ^ 29 = 536870912) by reflexivity.
  assert (E32 : 2 ^ 32 = 4294967296) by reflexivity.
  assert (E64 : 2 ^ 64 = 18446744073709551616) by reflexivity.
  assert (Hdiv : forall x, x <= W -> x * k / W <= k).
  { intros x Hx. apply N.div_le_upper_bound; [lia|]. nia. }
  unfold part_begin, part_end, pbeg, u64, u32.
  rewrite (wrap_small 32 w) by lia. rewrite (wrap_small 32 k) by lia. rewrite (wrap_small 64 w) by lia.
  split.
  - rewrite (wrap_small 64) by nia. apply wrap_small. pose proof (Hdiv w Hw). lia.
  - intros Hw'. rewrite (wrap_small 64) by nia. apply wrap_small. pose proof (Hdiv (w + 1) ltac:(lia)). lia.
Qed.

Lemma pbeg_0 W k : pbeg W k 0 = 0.
Proof. unfold pbeg. rewrite N.mul_0_l. destruct W; reflexivity. Qed.
Lemma pbeg_W W k : 0 < W -> pbeg W k W = k.
Proof. intros H. unfold pbeg. rewrite N.mul_comm. apply N.div_mul. lia. Qed.
Lemma pbeg_mono W k a b : 0 < W -> a <= b -> pbeg W k a <= pbeg W k b.
Proof. intros H Hab. unfold pbeg. apply N.div_le_mono; [lia|]. nia. Qed.

Lemma pbeg_cover W k : 0 < W -> forall (Wn : nat), N.of_nat Wn <= W -> forall idx,
  idx < pbeg W k (N.of_nat Wn) ->
  exists w, (w < Wn)%nat /\ pbeg W k (N.of_nat w) <= idx < pbeg W k (N.of_nat w + 1).
Proof.
  intros HW. induction Wn as [|Wn IH]; intros Hle idx Hi.
  - change (N.of_nat 0) with 0 in Hi. rewrite pbeg_0 in Hi. lia.
  - destruct (N.lt_ge_cases idx (pbeg W k (N.of_nat Wn))) as [H|H].
    + destruct (IH ltac:(lia) idx H) as [w [Hw Hr]]. exists w. split; [lia|exact Hr].
    + exists Wn. split; [lia|]. replace (N.of_nat Wn + 1) with (N.of_nat (S Wn)) by lia. lia.
Qed.

Lemma pbeg_disjoint W k a b idx : 0 < W ->
  pbeg W k a <= idx < pbeg W k (a + 1) -> pbeg W k b <= idx < pbeg W k (b + 1) -> a = b.
Proof.
  intros HW Ha Hb.
  destruct (N.lt_trichotomy a b) as [H|[H|H]]; [|exact H|].
  - pose proof (pbeg_mono W k (a + 1) b HW ltac:(lia)). lia.
  - pose proof (pbeg_mono W k (b + 1) a HW ltac:(lia)). lia.
Qed.
