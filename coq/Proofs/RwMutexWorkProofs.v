(* Proofs/RwMutexWorkProofs.v — the work-list invariant of Model/RwMutex.v.

   Layer 0 (all schedules): GP — the queue of a shared state has no duplicates; a shared state whose
   count is 0 has started its destructor; a shared state that has a successor is linked to it until
   its destructor body has finished.

   Layer 1 (schedules that respect the client contract [contract_from]): every item of a thread's
   work list is backed by the ownership state it will test ([wl]), so no ownership guard ever
   fails: [bad = false] (rw_no_bad_guarded).

   The contract (async_rw_mutex.hpp: "Retrieving senders from the mutex is not thread-safe"): a
   request (read()/readwrite()) or the destruction of the mutex is not issued while another thread
   is still inside the first request (its done() on the first shared state, WDx 0 None, is pending).
   This is the only place where sequential use of the mutex object is needed; every other source of
   [bad] is excluded by ownership. *)
From Coq Require Import List Arith Bool Lia.
From Pika Require Import Base.Conc Model.RwMutex Proofs.RwMutexProofs Proofs.RwMutexLogProofs
  Proofs.RwMutexQueueProofs Proofs.RwMutexDoneProofs.
Import ListNotations.

(* ================= layer 0: shared-state clauses ================= *)
Record GPc (gs : nat -> group) (ng : nat) : Prop := {
  p1 : forall k l, head (gs k) = HList l -> NoDup l;
  p2 : forall k, k < ng -> refs (gs k) = 0 -> 1 <= gphase (gs k);
  p3 : forall p, S p < ng -> linked (gs p) = true \/ gphase (gs p) = 3;
  p4 : forall k, gphase (gs k) = 3 -> linked (gs k) = false
}.
Definition GP (g : shared) : Prop := GPc (grp g) (ngrp g).

Lemma GP_init : GP rw_init.
Proof. constructor; cbn; intros; try lia; try reflexivity. injection H as <-. constructor. Qed.

Lemma GP_fsetg gs ng k gr : GPc gs ng ->
  (forall l, head gr = HList l -> NoDup l) ->
  (k < ng -> refs gr = 0 -> 1 <= gphase gr) ->
  (S k < ng -> linked gr = true \/ gphase gr = 3) ->
  (gphase gr = 3 -> linked gr = false) ->
  GPc (fset gs k gr) ng.
Proof.
  intros [P1 P2 P3 P4] H1 H2 H3 H4. constructor.
  - intros j l. unfold fset. destruct (Nat.eqb_spec j k); subst; eauto.
  - intros j. unfold fset. destruct (Nat.eqb_spec j k); subst; eauto.
  - intros j. unfold fset. destruct (Nat.eqb_spec j k); subst; eauto.
  - intros j. unfold fset. destruct (Nat.eqb_spec j k); subst; eauto.
Qed.

Lemma GP_new gs gs' ng : GPc gs ng ->
  (forall p, S p = ng -> linked (gs' p) = true) ->
  (forall j, j <> ng -> head (gs' j) = head (gs j) /\ refs (gs' j) = refs (gs j) /\ gphase (gs' j) = gphase (gs j) /\
                        (linked (gs j) = true -> linked (gs' j) = true)) ->
  head (gs' ng) = HList [] -> refs (gs' ng) <> 0 ->
  (forall j, gphase (gs' j) = 3 -> linked (gs' j) = false) -> GPc gs' (S ng).
Proof.
  intros [P1 P2 P3 P4] Hl Ho Hh Hr H4. constructor; [| | |exact H4].
  - intros k l E. destruct (Nat.eq_dec k ng) as [->|Hne].
    + rewrite Hh in E. injection E as <-. constructor.
    + destruct (Ho k Hne) as [E1 _]. rewrite E1 in E. eauto.
  - intros k Hk E. destruct (Nat.eq_dec k ng) as [->|Hne]; [contradiction|].
    destruct (Ho k Hne) as [_ [E2 [E3 _]]]. rewrite E2 in E. rewrite E3. apply P2; [lia|exact E].
  - intros p Hp. destruct (Nat.eq_dec (S p) ng) as [E|Hne]; [left; apply Hl; exact E|].
    assert (Hpn : p <> ng) by lia. destruct (Ho p Hpn) as [_ [_ [E3 E4]]].
    destruct (P3 p ltac:(lia)) as [X|X]; [left; auto|right; congruence].
Qed.

Lemma GP_rel t g e : GI g -> GP g -> alive (tst (tok g e)) = true ->
  GPc (fset (grp g) (tgrp (tok g e)) (rel_grp t (grp g (tgrp (tok g e))))) (ngrp g).
Proof.
  intros HI HP Ha. pose proof (alive_refs _ _ _ _ _ _ e HI Ha) as Hr. pose proof (a1 _ _ _ _ _ _ HI e Ha) as Hk.
  set (k := tgrp (tok g e)) in *.
  assert (Hp0 : gphase (grp g k) = 0).
  { destruct (gphase (grp g k)) eqn:E; [reflexivity|]. pose proof (a8 _ _ _ _ _ _ HI k Hk ltac:(lia)). lia. }
  apply GP_fsetg; [exact HP| | | |].
  - intros l. rewrite rel_grp_head. apply (p1 _ _ HP).
  - intros _. rewrite rel_grp_refs. unfold rel_grp. destruct (Nat.eqb_spec (pred (refs (grp g k))) 0); cbn; [lia|intros; lia].
  - intros Hs. rewrite rel_grp_linked. destruct (p3 _ _ HP k Hs) as [E|E]; [left; exact E|lia].
  - unfold rel_grp. destruct (Nat.eqb (pred (refs (grp g k))) 0); cbn; [discriminate|lia].
Qed.

Lemma GP_do_rel t g e rest : GI g -> GP g -> alive (tst (tok g e)) = true -> GP (fst (do_rel t g e rest)).
Proof.
  intros HI H Ha. unfold do_rel. cbn [fst]. pose proof (GP_rel t g e HI H Ha) as H1.
  destruct (is_wrapper (tst (tok g e))); exact H1.
Qed.

Lemma GP_vdec g : GP g -> GP (do_vdec g).
Proof. unfold do_vdec. destruct (Nat.eqb (pred (vrefs g)) 0 && negb (vfreed g)); exact (fun H => H). Qed.

Lemma GP_work sp t g w rest : GI g -> GP g -> GP (fst (do_work sp t g w rest)).
Proof.
  intros HI H. destruct w as [e|e nx|e|e|k|k|k tmp|]; cbn [do_work].
  - destruct (is_starting t (tst (tok g e))); cbn [negb]; [|exact H].
    destruct (hptr (head (grp g (tgrp (tok g e))))); exact H.
  - destruct (is_starting t (tst (tok g e))) eqn:Es; cbn [negb]; [|exact H].
    apply is_starting_spec in Es.
    destruct (head (grp g (tgrp (tok g e)))) as [|l] eqn:Eh; [exact H|].
    destruct (nxt_eqb nx (hptr (HList l)) && negb sp); [|exact H].
    cbn [fst]. unfold GP, set_tst, upd_grp. cbn. apply GP_fsetg; [exact H| | | |]; cbn.
    + intros l0 E. injection E as <-. constructor; [|eapply (p1 _ _ H); eauto].
      intros Hin. destruct (a10 _ _ _ _ _ _ HI _ _ _ Eh Hin) as [Hq _]. congruence.
    + apply (p2 _ _ H).
    + apply (p3 _ _ H).
    + apply (p4 _ _ H).
  - destruct (is_granting t (tst (tok g e))); cbn [negb]; [|exact H]. cbn [fst].
    destruct (tuse (tok g e)); exact H.
  - destruct (owned_by t (tst (tok g e))) eqn:Eo; cbn [negb]; [|exact H].
    destruct (owned_alive _ _ Eo). apply GP_do_rel; auto.
  - destruct (Nat.eqb (gphase (grp g k)) 1 && Nat.eqb (gown (grp g k)) t) eqn:Eg; cbn [negb]; [|exact H].
    apply andb_true_iff in Eg. destruct Eg as [Eg _]. apply Nat.eqb_eq in Eg.
    cbn [fst]. apply GP_vdec. unfold GP, upd_grp. cbn. apply GP_fsetg; [exact H| | | |]; cbn.
    + apply (p1 _ _ H).
    + intros; lia.
    + intros Hs. destruct (p3 _ _ H k Hs) as [E|E]; [left; exact E|lia].
    + discriminate.
  - destruct (Nat.eqb (gphase (grp g k)) 2 && Nat.eqb (gown (grp g k)) t) eqn:Eg; cbn [negb]; [|exact H].
    destruct (linked (grp g k)) eqn:El; cbn [fst]; unfold GP, upd_grp, new_tok; cbn;
      (apply GP_fsetg; [exact H| | | |]; cbn; [apply (p1 _ _ H)|intros; lia|intros; right; reflexivity|intros _; try reflexivity; exact El]).
  - destruct (match tmp with None => Nat.eqb k 0 | Some e => is_done t (tst (tok g e)) && Nat.eqb (tgrp (tok g e)) k end);
      cbn [negb]; [|exact H].
    destruct (head (grp g k)) as [|l] eqn:Eh; [exact H|].
    cbn [fst]. unfold GP, upd_grp. cbn. apply GP_fsetg; [exact H| | | |]; cbn;
      [discriminate|apply (p2 _ _ H)|apply (p3 _ _ H)|apply (p4 _ _ H)].
  - destruct (malive g || negb (mvheld g)); cbn [fst]; [exact H|]. apply GP_vdec. exact H.
Qed.

Lemma GP_cmd t g c : GI g -> GP g -> GP (fst (do_cmd t g c)).
Proof.
  intros HI H. destruct c as [sp|kd|e auto usev|e|e|e|e|]; cbn [do_cmd].
  - exact H.
  - destruct (malive g) eqn:Eal; cbn [negb]; [|exact H].
    assert (Hjoin : forall k, GPc (fset (grp g) k (set_refs (grp g k) (S (refs (grp g k))))) (ngrp g)).
    { intros k. apply GP_fsetg; [exact H| | | |]; cbn; [apply (p1 _ _ H)|intros _ E; discriminate|apply (p3 _ _ H)|apply (p4 _ _ H)]. }
    assert (Hlink : forall p r, mstate g = Some p -> r <> 0 ->
              GPc (fset (fset (grp g) p (set_linked (grp g p) true)) (ngrp g) (newg kd r)) (S (ngrp g))).
    { intros p r Ems Hr. pose proof (a6 _ _ _ _ _ _ HI p Ems) as Hp.
      assert (Hp0 : gphase (grp g p) = 0).
      { assert (Hr1 : 1 <= refs (grp g p)).
        { rewrite (a2 _ _ _ _ _ _ HI p) by lia. rewrite Ems. cbn. rewrite Nat.eqb_refl. cbn. lia. }
        destruct (gphase (grp g p)) eqn:E; [reflexivity|]. pose proof (a8 _ _ _ _ _ _ HI p ltac:(lia) ltac:(lia)). lia. }
      apply GP_new with (gs := grp g); [exact H| | | | |].
      - intros q Hq. assert (q = p) by lia. subst q. rewrite fset_other by lia. rewrite fset_same. reflexivity.
      - intros j Hj. rewrite fset_other by exact Hj. unfold fset. destruct (Nat.eqb_spec j p); subst; cbn; auto.
      - rewrite fset_same. reflexivity.
      - rewrite fset_same. exact Hr.
      - intros j. unfold fset. destruct (Nat.eqb_spec j (ngrp g)); [cbn; discriminate|].
        destruct (Nat.eqb_spec j p); subst; cbn; [lia|apply (p4 _ _ H)]. }
    assert (Hfirst : forall r, mstate g = None -> r <> 0 -> GPc (fset (grp g) (ngrp g) (newg kd r)) (S (ngrp g))).
    { intros r Ems Hr. pose proof (a6' _ _ _ _ _ _ HI Ems Eal) as Hn.
      apply GP_new with (gs := grp g); [exact H| | | | |].
      - intros q Hq. lia.
      - intros j Hj. rewrite fset_other by exact Hj. auto.
      - rewrite fset_same. reflexivity.
      - rewrite fset_same. exact Hr.
      - intros j. unfold fset. destruct (Nat.eqb_spec j (ngrp g)); [cbn; discriminate|apply (p4 _ _ H)]. }
    destruct kd, (mprev g), (mstate g) as [p|] eqn:Ems; cbn [fst]; unfold GP, upd_grp, new_tok; cbn;
      first [ apply Hjoin | apply Hlink; [reflexivity|discriminate] | apply Hfirst; [reflexivity|discriminate] ].
  - destruct (Nat.ltb e (ntok g) && is_sender (tst (tok g e))); exact H.
  - destruct (Nat.ltb e (ntok g) && is_sender (tst (tok g e))); exact H.
  - destruct (Nat.ltb e (ntok g) && kind_eqb (gkind (grp g (tgrp (tok g e)))) KR &&
              (is_sender (tst (tok g e)) || is_live (tst (tok g e)))); [|exact H].
    cbn [fst]. unfold GP, upd_grp, new_tok. cbn.
    apply GP_fsetg; [exact H| | | |]; cbn; [apply (p1 _ _ H)|intros _ E; discriminate|apply (p3 _ _ H)|apply (p4 _ _ H)].
  - destruct (Nat.ltb e (ntok g) && is_live (tst (tok g e))) eqn:Eg; [|exact H].
    apply andb_true_iff in Eg. destruct Eg as [_ Es]. apply is_live_spec in Es.
    apply GP_do_rel; auto. rewrite Es. reflexivity.
  - destruct (Nat.ltb e (ntok g) && is_live (tst (tok g e))); exact H.
  - destruct (malive g); cbn [negb]; [|exact H]. destruct (mstate g); exact H.
Qed.

Lemma GP_step c t g l : GI g -> GP g -> GP (fst (rw_tstep c t g l)).
Proof. intros HI H. destruct l as [|w rest]; [apply GP_cmd|apply GP_work]; assumption. Qed.

Theorem GP_run sched : GP (fst (rw_run sched)).
Proof.
  assert (H : GI (fst (rw_run sched)) /\ GP (fst (rw_run sched))); [|tauto].
  unfold rw_run. apply (run_ginv _ _ _ rw_tstep (fun g => GI g /\ GP g)).
  - intros o t g l [HI HP]. split; [apply GI_step; exact HI|apply GP_step; assumption].
  - split; [apply GI_init|apply GP_init].
Qed.

(* ================= layer 1: the per-thread work-list predicate ================= *)
(* tokens named by an item (for freshness), tokens an item may modify, groups whose destructor phase it advances,
   the group whose head it exchanges *)
Definition wnames (w : work) : list nat :=
  match w with WLoad e | WCas e _ | WGrant e | WRel e | WDx _ (Some e) => [e] | _ => [] end.
Definition wtoks (w : work) : list nat :=
  match w with WLoad e | WCas e _ | WGrant e | WRel e => [e] | _ => [] end.
Definition wgrps (w : work) : list nat := match w with WDv k | WDn k => [k] | _ => [] end.
Definition wdx (w : work) : option nat := match w with WDx k _ => Some k | _ => None end.
Definition is_mv (w : work) : bool := match w with WMv => true | _ => false end.
Definition names (l : list work) : list nat := flat_map wnames l.
Definition gnames (l : list work) : list nat := flat_map wgrps l.

Definition owner (s : tstate) : option nat :=
  match s with TStarting t | TGranting t | TAuto t | TTemp t | TDone t => Some t | _ => None end.
Definition hlist (gs : nat -> group) (k : nat) : Prop := exists l, head (gs k) = HList l.

Lemma names_cons w r e : In e (names (w :: r)) <-> In e (wnames w) \/ In e (names r).
Proof. unfold names. cbn [flat_map]. apply in_app_iff. Qed.
Lemma gnames_cons w r k : In k (gnames (w :: r)) <-> In k (wgrps w) \/ In k (gnames r).
Proof. unfold gnames. cbn [flat_map]. apply in_app_iff. Qed.
Lemma wtoks_names w e : In e (wtoks w) -> In e (wnames w).
Proof. destruct w as [| | | | | |k [x|]|]; cbn; tauto. Qed.

Section WL.
  Variables (tk : nat -> token) (gs : nat -> group) (ms : option nat) (al mv : bool) (t : nat).
  (* WDv k is always directly followed by WDn k (pushed together by the release that brought the count to 0);
     WDx k (Some e) is always directly followed by WRel e (pushed together by WDn of the predecessor) *)
  Inductive wlc : list work -> Prop :=
  | wl_nil : wlc []
  | wl_load e r : tst (tk e) = TStarting t -> ~ In e (names r) -> wlc r -> wlc (WLoad e :: r)
  | wl_cas e nx r : tst (tk e) = TStarting t -> ~ In e (names r) -> wlc r -> wlc (WCas e nx :: r)
  | wl_grant e r : tst (tk e) = TGranting t -> ~ In e (names r) -> wlc r -> wlc (WGrant e :: r)
  | wl_rel e r : owned_by t (tst (tk e)) = true -> ~ In e (names r) -> wlc r -> wlc (WRel e :: r)
  | wl_dv k r : gphase (gs k) = 1 -> gown (gs k) = t -> ~ In k (gnames r) -> wlc r -> wlc (WDv k :: WDn k :: r)
  | wl_dn k r : gphase (gs k) = 2 -> gown (gs k) = t -> ~ In k (gnames r) -> wlc r -> wlc (WDn k :: r)
  | wl_dx k e r : tst (tk e) = TDone t -> tgrp (tk e) = k -> hlist gs k -> ~ In e (names r) ->
                  (forall tmp, ~ In (WDx k tmp) r) -> wlc r -> wlc (WDx k (Some e) :: WRel e :: r)
  | wl_dx0 r : ms = Some 0 -> hlist gs 0 -> (forall tmp, ~ In (WDx 0 tmp) r) -> wlc r -> wlc (WDx 0 None :: r)
  | wl_mv r : al = false -> mv = true -> ~ In WMv r -> wlc r -> wlc (WMv :: r).

  Lemma owned_owner s : owned_by t s = true -> owner s = Some t.
  Proof. destruct s; cbn; try discriminate; intros H; apply Nat.eqb_eq in H; subst; reflexivity. Qed.

  Lemma wl_names l : wlc l -> forall e, In e (names l) -> owner (tst (tk e)) = Some t.
  Proof.
    induction 1; intros x Hx.
    - destruct Hx.
    - apply names_cons in Hx; destruct Hx as [Hx|Hx]; [destruct Hx as [<-|[]]; rewrite H; reflexivity|auto].
    - apply names_cons in Hx; destruct Hx as [Hx|Hx]; [destruct Hx as [<-|[]]; rewrite H; reflexivity|auto].
    - apply names_cons in Hx; destruct Hx as [Hx|Hx]; [destruct Hx as [<-|[]]; rewrite H; reflexivity|auto].
    - apply names_cons in Hx; destruct Hx as [Hx|Hx]; [destruct Hx as [<-|[]]; apply owned_owner; exact H|auto].
    - apply names_cons in Hx; destruct Hx as [Hx|Hx]; [destruct Hx|].
      apply names_cons in Hx; destruct Hx as [Hx|Hx]; [destruct Hx|auto].
    - apply names_cons in Hx; destruct Hx as [Hx|Hx]; [destruct Hx|auto].
    - apply names_cons in Hx; destruct Hx as [Hx|Hx]; [destruct Hx as [<-|[]]; rewrite H; reflexivity|].
      apply names_cons in Hx; destruct Hx as [Hx|Hx]; [destruct Hx as [<-|[]]; rewrite H; reflexivity|auto].
    - apply names_cons in Hx; destruct Hx as [Hx|Hx]; [destruct Hx|auto].
    - apply names_cons in Hx; destruct Hx as [Hx|Hx]; [destruct Hx|auto].
  Qed.

  Lemma wl_gnames l : wlc l -> forall k, In k (gnames l) ->
    (gphase (gs k) = 1 \/ gphase (gs k) = 2) /\ gown (gs k) = t.
  Proof.
    induction 1; intros x Hx.
    - destruct Hx.
    - apply gnames_cons in Hx; destruct Hx as [Hx|Hx]; [destruct Hx|auto].
    - apply gnames_cons in Hx; destruct Hx as [Hx|Hx]; [destruct Hx|auto].
    - apply gnames_cons in Hx; destruct Hx as [Hx|Hx]; [destruct Hx|auto].
    - apply gnames_cons in Hx; destruct Hx as [Hx|Hx]; [destruct Hx|auto].
    - apply gnames_cons in Hx; destruct Hx as [Hx|Hx]; [destruct Hx as [<-|[]]; auto|].
      apply gnames_cons in Hx; destruct Hx as [Hx|Hx]; [destruct Hx as [<-|[]]; auto|auto].
    - apply gnames_cons in Hx; destruct Hx as [Hx|Hx]; [destruct Hx as [<-|[]]; auto|auto].
    - apply gnames_cons in Hx; destruct Hx as [Hx|Hx]; [destruct Hx|].
      apply gnames_cons in Hx; destruct Hx as [Hx|Hx]; [destruct Hx|auto].
    - apply gnames_cons in Hx; destruct Hx as [Hx|Hx]; [destruct Hx|auto].
    - apply gnames_cons in Hx; destruct Hx as [Hx|Hx]; [destruct Hx|auto].
  Qed.

  Lemma wl_in_dx l : wlc l -> forall k tmp, In (WDx k tmp) l ->
    hlist gs k /\ match tmp with None => k = 0 /\ ms = Some 0 | Some e => tst (tk e) = TDone t /\ tgrp (tk e) = k end.
  Proof.
    induction 1; intros k0 tmp0 Hx; try (destruct Hx as [Hx|Hx]; [discriminate|auto]; fail).
    - destruct Hx.
    - destruct Hx as [Hx|[Hx|Hx]]; [discriminate|discriminate|auto].
    - destruct Hx as [Hx|[Hx|Hx]]; [|discriminate|auto]. injection Hx as <- <-. auto.
    - destruct Hx as [Hx|Hx]; [|auto]. injection Hx as <- <-. auto.
  Qed.

  Lemma wl_in_mv l : wlc l -> In WMv l -> al = false /\ mv = true.
  Proof.
    induction 1; intros Hx; try (destruct Hx as [Hx|Hx]; [discriminate|auto]; fail).
    - destruct Hx.
    - destruct Hx as [Hx|[Hx|Hx]]; [discriminate|discriminate|auto].
    - destruct Hx as [Hx|[Hx|Hx]]; [discriminate|discriminate|auto].
    - auto.
  Qed.

  Lemma names_grants l r : names (map WGrant l ++ r) = l ++ names r.
  Proof. induction l as [|x l IH]; [reflexivity|]. cbn. unfold names in IH. rewrite IH. reflexivity. Qed.

  Lemma wl_grants r : wlc r -> forall l, NoDup l -> (forall e, In e l -> tst (tk e) = TGranting t /\ ~ In e (names r)) ->
    wlc (map WGrant l ++ r).
  Proof.
    intros Hr. induction l as [|x l IH]; intros Hnd Hl; [exact Hr|].
    apply NoDup_cons_iff in Hnd. destruct Hnd as [Hx Hnd]. cbn [map app].
    destruct (Hl x (or_introl eq_refl)) as [H1 H2]. apply wl_grant; [exact H1| |].
    - rewrite names_grants. intros Hin. apply in_app_or in Hin. tauto.
    - apply IH; [exact Hnd|]. intros e He. apply Hl. now right.
  Qed.
End WL.

(* what the predicate reads is unchanged => the predicate is unchanged *)
Lemma wlc_frame tk gs ms al mv tk' gs' ms' al' mv' t l :
  wlc tk gs ms al mv t l ->
  (forall e, In e (names l) -> tst (tk' e) = tst (tk e) /\ tgrp (tk' e) = tgrp (tk e)) ->
  (forall k, In k (gnames l) -> gphase (gs' k) = gphase (gs k) /\ gown (gs' k) = gown (gs k)) ->
  (forall k tmp, In (WDx k tmp) l -> hlist gs k -> hlist gs' k) ->
  (In (WDx 0 None) l -> ms = Some 0 -> ms' = Some 0) ->
  (In WMv l -> al' = al /\ mv' = mv) ->
  wlc tk' gs' ms' al' mv' t l.
Proof.
  induction 1; intros Ht Hg Hh Hm Hv.
  - constructor.
  - assert (X := Ht e ltac:(apply names_cons; left; cbn; auto)). destruct X as [X1 X2].
    apply wl_load; [congruence|assumption|]. apply IHwlc.
    + intros; apply Ht; apply names_cons; auto.
    + intros; apply Hg; apply gnames_cons; auto.
    + intros k tmp Hin; apply (Hh k tmp); now right.
    + intros Hin; apply Hm; now right.
    + intros Hin; apply Hv; now right.
  - assert (X := Ht e ltac:(apply names_cons; left; cbn; auto)). destruct X as [X1 X2].
    apply wl_cas; [congruence|assumption|]. apply IHwlc.
    + intros; apply Ht; apply names_cons; auto.
    + intros; apply Hg; apply gnames_cons; auto.
    + intros k tmp Hin; apply (Hh k tmp); now right.
    + intros Hin; apply Hm; now right.
    + intros Hin; apply Hv; now right.
  - assert (X := Ht e ltac:(apply names_cons; left; cbn; auto)). destruct X as [X1 X2].
    apply wl_grant; [congruence|assumption|]. apply IHwlc.
    + intros; apply Ht; apply names_cons; auto.
    + intros; apply Hg; apply gnames_cons; auto.
    + intros k tmp Hin; apply (Hh k tmp); now right.
    + intros Hin; apply Hm; now right.
    + intros Hin; apply Hv; now right.
  - assert (X := Ht e ltac:(apply names_cons; left; cbn; auto)). destruct X as [X1 X2].
    apply wl_rel; [congruence|assumption|]. apply IHwlc.
    + intros; apply Ht; apply names_cons; auto.
    + intros; apply Hg; apply gnames_cons; auto.
    + intros k tmp Hin; apply (Hh k tmp); now right.
    + intros Hin; apply Hm; now right.
    + intros Hin; apply Hv; now right.
  - assert (X := Hg k ltac:(apply gnames_cons; left; cbn; auto)). destruct X as [X1 X2].
    apply wl_dv; [congruence|congruence|assumption|]. apply IHwlc.
    + intros; apply Ht; apply names_cons; right; apply names_cons; auto.
    + intros; apply Hg; apply gnames_cons; right; apply gnames_cons; auto.
    + intros k0 tmp Hin; apply (Hh k0 tmp); right; now right.
    + intros Hin; apply Hm; right; now right.
    + intros Hin; apply Hv; right; now right.
  - assert (X := Hg k ltac:(apply gnames_cons; left; cbn; auto)). destruct X as [X1 X2].
    apply wl_dn; [congruence|congruence|assumption|]. apply IHwlc.
    + intros; apply Ht; apply names_cons; auto.
    + intros; apply Hg; apply gnames_cons; auto.
    + intros k0 tmp Hin; apply (Hh k0 tmp); now right.
    + intros Hin; apply Hm; now right.
    + intros Hin; apply Hv; now right.
  - assert (X := Ht e ltac:(apply names_cons; left; cbn; auto)). destruct X as [X1 X2].
    apply wl_dx; [congruence|congruence| |assumption|assumption|].
    + apply (Hh k (Some e)); [now left|assumption].
    + apply IHwlc.
      * intros; apply Ht; apply names_cons; right; apply names_cons; auto.
      * intros; apply Hg; apply gnames_cons; right; apply gnames_cons; auto.
      * intros k0 tmp Hin; apply (Hh k0 tmp); right; now right.
      * intros Hin; apply Hm; right; now right.
      * intros Hin; apply Hv; right; now right.
  - apply wl_dx0; [apply Hm; [now left|assumption]| |assumption|].
    + apply (Hh 0 None); [now left|assumption].
    + apply IHwlc.
      * intros; apply Ht; apply names_cons; auto.
      * intros; apply Hg; apply gnames_cons; auto.
      * intros k0 tmp Hin; apply (Hh k0 tmp); now right.
      * intros Hin; apply Hm; now right.
      * intros Hin; apply Hv; now right.
  - destruct (Hv (or_introl eq_refl)) as [X1 X2].
    apply wl_mv; [congruence|congruence|assumption|]. apply IHwlc.
    + intros; apply Ht; apply names_cons; auto.
    + intros; apply Hg; apply gnames_cons; auto.
    + intros k0 tmp Hin; apply (Hh k0 tmp); now right.
    + intros Hin; apply Hm; now right.
    + intros Hin; apply Hv; now right.
Qed.

Definition wl (g : shared) (t : nat) (l : list work) : Prop :=
  wlc (tok g) (grp g) (mstate g) (malive g) (mvheld g) t l.

(* ---- frame: what one step can change, relative to a footprint (tokens ft, destructor groups fg, exchanged
   head fx, mutex members fm, the mutex's value reference fv) *)
Definition tok_same (g g' : shared) (e : nat) : Prop :=
  tst (tok g' e) = tst (tok g e) /\ tgrp (tok g' e) = tgrp (tok g e).
Definition ph_same (g g' : shared) (k : nat) : Prop :=
  gphase (grp g' k) = gphase (grp g k) /\ gown (grp g' k) = gown (grp g k).

Record frame (g g' : shared) (ft fg : list nat) (fx : option nat) (fm fv : bool) : Prop := {
  f_tok : forall e, tok_same g g' e \/ In e ft \/ owner (tst (tok g e)) = None;
  f_ph : forall k, ph_same g g' k \/ In k fg \/ gphase (grp g k) = 0 \/ ngrp g <= k;
  f_hd : forall k, hlist (grp g) k -> hlist (grp g') k \/ fx = Some k;
  f_mu : (mstate g' = mstate g /\ malive g' = malive g) \/ (fm = true /\ malive g = true);
  f_mv : mvheld g' = mvheld g \/ fv = true
}.

Lemma wl_frame g g' ft fg fx fm fv t l : frame g g' ft fg fx fm fv -> GE g -> wl g t l ->
  (forall e, In e ft -> ~ In e (names l)) -> (forall k, In k fg -> ~ In k (gnames l)) ->
  (forall k, fx = Some k -> forall tmp, ~ In (WDx k tmp) l) ->
  (fm = true -> ~ In (WDx 0 None) l) -> (fv = true -> ~ In WMv l) -> wl g' t l.
Proof.
  intros F HE H D1 D2 D3 D4 D5. unfold wl in *. eapply wlc_frame; [exact H| | | | |].
  - intros e He. destruct (f_tok _ _ _ _ _ _ _ F e) as [X|[X|X]]; [exact X|exfalso; eapply D1; eauto|].
    rewrite (wl_names _ _ _ _ _ _ _ H e He) in X. discriminate.
  - intros k Hk. destruct (wl_gnames _ _ _ _ _ _ _ H k Hk) as [Hp Ho].
    destruct (f_ph _ _ _ _ _ _ _ F k) as [X|[X|[X|X]]]; [exact X|exfalso; eapply D2; eauto|lia|].
    pose proof (e5 _ _ _ _ _ _ HE k X). lia.
  - intros k tmp Hin Hh. destruct (f_hd _ _ _ _ _ _ _ F k Hh) as [X|X]; [exact X|exfalso; eapply D3; eauto].
  - intros Hin Hms. destruct (f_mu _ _ _ _ _ _ _ F) as [[X _]|[X Y]]; [rewrite X; exact Hms|exfalso; apply (D4 X); exact Hin].
  - intros Hin. destruct (wl_in_mv _ _ _ _ _ _ _ H Hin) as [Ha Hm]. split.
    + destruct (f_mu _ _ _ _ _ _ _ F) as [[_ X]|[_ Y]]; [exact X|congruence].
    + destruct (f_mv _ _ _ _ _ _ _ F) as [X|X]; [exact X|exfalso; apply (D5 X Hin)].
Qed.

Lemma frame_eq g g' ft fg fx fm fv : tok g' = tok g -> grp g' = grp g -> mstate g' = mstate g ->
  malive g' = malive g -> mvheld g' = mvheld g -> frame g g' ft fg fx fm fv.
Proof.
  intros E1 E2 E3 E4 E5. constructor; unfold tok_same, ph_same, hlist; rewrite ?E1, ?E2; auto.
Qed.

Lemma frame_vdec g g' ft fg fx fm fv : frame g g' ft fg fx fm fv -> frame g (do_vdec g') ft fg fx fm fv.
Proof. unfold do_vdec. destruct (Nat.eqb (pred (vrefs g')) 0 && negb (vfreed g')); intros [A B C D E]; constructor; auto. Qed.

Ltac fse_goal := unfold fset;
  repeat match goal with |- context[Nat.eqb ?a ?b] => destruct (Nat.eqb_spec a b); subst end.

Lemma alive_phase0 g e : GI g -> alive (tst (tok g e)) = true -> gphase (grp g (tgrp (tok g e))) = 0.
Proof.
  intros HI Ha. pose proof (alive_refs _ _ _ _ _ _ e HI Ha) as Hr. pose proof (a1 _ _ _ _ _ _ HI e Ha) as Hk.
  destruct (gphase (grp g (tgrp (tok g e)))) eqn:E; [reflexivity|].
  pose proof (a8 _ _ _ _ _ _ HI _ Hk ltac:(lia)). lia.
Qed.

Lemma frame_do_rel t g e rest ft fg fx fm fv : GI g -> alive (tst (tok g e)) = true ->
  In e ft \/ owner (tst (tok g e)) = None -> frame g (fst (do_rel t g e rest)) ft fg fx fm fv.
Proof.
  intros HI Ha Hft. pose proof (alive_phase0 g e HI Ha) as Hp0.
  unfold do_rel. cbn [fst].
  assert (X : forall g0, tok g0 = tok g -> grp g0 = grp g -> mstate g0 = mstate g -> malive g0 = malive g -> mvheld g0 = mvheld g ->
    frame g (upd_grp (with_bad (set_tst g0 e TDead) (Nat.eqb (refs (grp g (tgrp (tok g e)))) 0)) (tgrp (tok g e))
               (if Nat.eqb (pred (refs (grp g (tgrp (tok g e))))) 0
                then set_phase (set_refs (grp g (tgrp (tok g e))) (pred (refs (grp g (tgrp (tok g e)))))) 1 t
                else set_refs (grp g (tgrp (tok g e))) (pred (refs (grp g (tgrp (tok g e))))))) ft fg fx fm fv).
  { intros g0 E1 E2 E3 E4 E5. constructor; cbn; rewrite ?E1, ?E2, ?E3, ?E4, ?E5; auto.
    - intros e0. unfold tok_same. cbn. rewrite E1. fse_goal; cbn; auto.
    - intros k0. unfold ph_same. cbn. rewrite ?E2. unfold fset. destruct (Nat.eqb_spec k0 (tgrp (tok g e))); subst; auto.
    - intros k0 [l Hl]. left. unfold hlist. cbn. rewrite ?E2. unfold fset.
      destruct (Nat.eqb_spec k0 (tgrp (tok g e))); subst; [|eauto].
      exists l. destruct (Nat.eqb (pred (refs (grp g (tgrp (tok g e))))) 0); cbn; exact Hl. }
  destruct (is_wrapper (tst (tok g e))); apply X; reflexivity.
Qed.

Lemma frame_work sp u g w rest : GI g ->
  frame g (fst (do_work sp u g w rest)) (wtoks w) (wgrps w) (wdx w) false (is_mv w).
Proof.
  intros HI. destruct w as [e|e nx|e|e|k|k|k tmp|]; cbn [do_work wtoks wgrps wdx is_mv].
  - destruct (is_starting u (tst (tok g e))); cbn [negb]; [|apply frame_eq; reflexivity].
    destruct (hptr (head (grp g (tgrp (tok g e))))); cbn [fst]; try (apply frame_eq; reflexivity).
    constructor; cbn; auto.
    + intros e0. unfold tok_same. cbn. fse_goal; cbn; auto.
    + intros k0. left. split; reflexivity.
  - destruct (is_starting u (tst (tok g e))); cbn [negb]; [|apply frame_eq; reflexivity].
    destruct (head (grp g (tgrp (tok g e)))) as [|l] eqn:Eh; cbn [fst].
    + constructor; cbn; auto.
      * intros e0. unfold tok_same. cbn. fse_goal; cbn; auto.
      * intros k0. left. split; reflexivity.
    + destruct (nxt_eqb nx (hptr (HList l)) && negb sp); cbn [fst]; [|apply frame_eq; reflexivity].
      constructor; cbn; auto.
      * intros e0. unfold tok_same. cbn. fse_goal; cbn; auto.
      * intros k0. left. unfold ph_same. cbn. fse_goal; cbn; auto.
      * intros k0 [l0 Hl]. left. unfold hlist. cbn. fse_goal; cbn; eauto.
  - destruct (is_granting u (tst (tok g e))); cbn [negb]; [|apply frame_eq; reflexivity]. cbn [fst].
    assert (X : frame g (with_ev (set_tst g e (if tauto (tok g e) then TAuto u else TLive))
                  (EGrant e (tgrp (tok g e)) (treq (tok g e)) :: elog g)) [e] [] None false false).
    { constructor; cbn; auto.
      - intros e0. unfold tok_same. cbn. fse_goal; cbn; auto.
      - intros k0. left. split; reflexivity. }
    destruct (tuse (tok g e)); [|exact X]. destruct X as [A B C D E]. constructor; auto.
  - destruct (owned_by u (tst (tok g e))) eqn:Eo; cbn [negb]; [|apply frame_eq; reflexivity].
    destruct (owned_alive _ _ Eo). apply frame_do_rel; auto. left. now left.
  - destruct (Nat.eqb (gphase (grp g k)) 1 && Nat.eqb (gown (grp g k)) u); cbn [negb]; [|apply frame_eq; reflexivity].
    cbn [fst]. apply frame_vdec. constructor; cbn; auto.
    + intros e0. left. split; reflexivity.
    + intros k0. unfold ph_same. cbn. fse_goal; cbn; auto.
    + intros k0 [l0 Hl]. left. unfold hlist. cbn. fse_goal; cbn; eauto.
  - destruct (Nat.eqb (gphase (grp g k)) 2 && Nat.eqb (gown (grp g k)) u); cbn [negb]; [|apply frame_eq; reflexivity].
    destruct (linked (grp g k)); cbn [fst]; constructor; cbn; auto.
    + intros e0. unfold tok_same. cbn. fse_goal; cbn; auto.
      right. right. rewrite (a0 _ _ _ _ _ _ HI (ntok g)) by lia. reflexivity.
    + intros k0. unfold ph_same. cbn. fse_goal; cbn; auto.
    + intros k0 [l0 Hl]. left. unfold hlist. cbn. fse_goal; cbn; eauto.
    + intros e0. left. split; reflexivity.
    + intros k0. unfold ph_same. cbn. fse_goal; cbn; auto.
    + intros k0 [l0 Hl]. left. unfold hlist. cbn. fse_goal; cbn; eauto.
  - destruct (match tmp with None => Nat.eqb k 0 | Some e => is_done u (tst (tok g e)) && Nat.eqb (tgrp (tok g e)) k end);
      cbn [negb]; [|apply frame_eq; reflexivity].
    destruct (head (grp g k)) as [|l] eqn:Eh; cbn [fst]; [apply frame_eq; reflexivity|].
    constructor; cbn; auto.
    + intros e0. unfold tok_same. cbn. rewrite take_all_spec.
      destruct (in_dec Nat.eq_dec e0 l) as [Hin|Hin]; [|left; split; reflexivity].
      right. right. destruct (a10 _ _ _ _ _ _ HI _ _ _ Eh Hin) as [Hq _]. rewrite Hq. reflexivity.
    + intros k0. left. unfold ph_same. cbn. fse_goal; cbn; auto.
    + intros k0 [l0 Hl]. unfold hlist. cbn. fse_goal; cbn; eauto.
  - destruct (malive g || negb (mvheld g)); cbn [fst]; [apply frame_eq; reflexivity|].
    apply frame_vdec. constructor; cbn; auto.
    + intros e0. left. split; reflexivity.
    + intros k0. left. split; reflexivity.
Qed.

Definition is_reqdes (c : cmd) : bool := match c with CReq _ | CDestroy => true | _ => false end.

Lemma frame_cmd u g c : GI g -> frame g (fst (do_cmd u g c)) [] [] None (is_reqdes c) false.
Proof.
  intros HI.
  assert (Hfresh : forall n, ntok g <= n -> owner (tst (tok g n)) = None).
  { intros n Hn. rewrite (a0 _ _ _ _ _ _ HI n Hn). reflexivity. }
  destruct c as [sp|kd|e auto usev|e|e|e|e|]; cbn [do_cmd is_reqdes].
  - apply frame_eq; reflexivity.
  - destruct (malive g) eqn:Eal; cbn [negb]; [|apply frame_eq; reflexivity].
    destruct kd, (mprev g), (mstate g) as [p|] eqn:Ems; cbn [fst]; constructor; cbn; auto;
      try (intros e0; unfold tok_same; cbn; fse_goal; cbn; auto; right; right; apply Hfresh; lia);
      try (intros k0; unfold ph_same; cbn; fse_goal; cbn; auto; right; right; right; lia);
      try (intros k0 [l0 Hl]; left; unfold hlist; cbn; fse_goal; cbn; eauto).
  - destruct (Nat.ltb e (ntok g) && is_sender (tst (tok g e))) eqn:Eg; [|apply frame_eq; reflexivity].
    apply andb_true_iff in Eg. destruct Eg as [_ Es]. apply is_sender_spec in Es.
    cbn [fst]. constructor; cbn; auto.
    + intros e0. unfold tok_same. cbn. fse_goal; cbn; auto. right. right. rewrite Es. reflexivity.
    + intros k0. left. split; reflexivity.
  - destruct (Nat.ltb e (ntok g) && is_sender (tst (tok g e))) eqn:Eg; [|apply frame_eq; reflexivity].
    apply andb_true_iff in Eg. destruct Eg as [_ Es]. apply is_sender_spec in Es.
    cbn [fst]. constructor; cbn; auto.
    + intros e0. unfold tok_same. cbn. fse_goal; cbn; auto. right. right. rewrite Es. reflexivity.
    + intros k0. left. split; reflexivity.
  - destruct (Nat.ltb e (ntok g) && kind_eqb (gkind (grp g (tgrp (tok g e)))) KR &&
              (is_sender (tst (tok g e)) || is_live (tst (tok g e)))); [|apply frame_eq; reflexivity].
    cbn [fst]. constructor; cbn; auto.
    + intros e0. unfold tok_same. cbn. fse_goal; cbn; auto; try (right; right; apply Hfresh; lia).
    + intros k0. unfold ph_same. cbn. fse_goal; cbn; auto.
    + intros k0 [l0 Hl]. left. unfold hlist. cbn. fse_goal; cbn; eauto.
  - destruct (Nat.ltb e (ntok g) && is_live (tst (tok g e))) eqn:Eg; [|apply frame_eq; reflexivity].
    apply andb_true_iff in Eg. destruct Eg as [_ Es]. apply is_live_spec in Es.
    apply frame_do_rel; auto; rewrite Es; auto.
  - destruct (Nat.ltb e (ntok g) && is_live (tst (tok g e))); [|apply frame_eq; reflexivity].
    cbn [fst]. apply frame_eq; reflexivity.
  - destruct (malive g) eqn:Eal; cbn [negb]; [|apply frame_eq; reflexivity].
    destruct (mstate g); cbn [fst]; constructor; cbn; auto;
      try (intros e0; unfold tok_same; cbn; fse_goal; cbn; auto; right; right; apply Hfresh; lia);
      try (intros k0; left; split; reflexivity).
Qed.

(* ---- the stepping thread: its new work list is backed by the new shared state, and no guard fails *)
Lemma wl_vdec_iff g t l : wl (do_vdec g) t l <-> wl g t l.
Proof. unfold do_vdec. destruct (Nat.eqb (pred (vrefs g)) 0 && negb (vfreed g)); split; exact (fun H => H). Qed.
Lemma do_vdec_bad g : bad (do_vdec g) = bad g || Nat.eqb (vrefs g) 0.
Proof. unfold do_vdec. destruct (Nat.eqb (pred (vrefs g)) 0 && negb (vfreed g)); reflexivity. Qed.

Lemma own_rest sp u g w rest r : GI g -> GE g -> wl g u r ->
  (forall e, In e (wtoks w) -> ~ In e (names r)) -> (forall k, In k (wgrps w) -> ~ In k (gnames r)) ->
  (forall k, wdx w = Some k -> forall tmp, ~ In (WDx k tmp) r) -> (is_mv w = true -> ~ In WMv r) ->
  wl (fst (do_work sp u g w rest)) u r.
Proof.
  intros HI HE H D1 D2 D3 D5. eapply wl_frame; [apply frame_work; exact HI|exact HE|exact H|exact D1|exact D2|exact D3|discriminate|exact D5].
Qed.

Lemma do_rel_facts t g e rest :
  bad (fst (do_rel t g e rest)) = bad g || Nat.eqb (refs (grp g (tgrp (tok g e)))) 0 /\
  snd (do_rel t g e rest) = (if Nat.eqb (pred (refs (grp g (tgrp (tok g e))))) 0
                            then WDv (tgrp (tok g e)) :: WDn (tgrp (tok g e)) :: rest else rest) /\
  (Nat.eqb (pred (refs (grp g (tgrp (tok g e))))) 0 = true ->
   gphase (grp (fst (do_rel t g e rest)) (tgrp (tok g e))) = 1 /\ gown (grp (fst (do_rel t g e rest)) (tgrp (tok g e))) = t).
Proof.
  unfold do_rel. cbn [fst snd]. destruct (is_wrapper (tst (tok g e))); cbn; rewrite fset_same;
    (split; [reflexivity|split; [reflexivity|]]); intros ->; cbn; auto.
Qed.

Lemma rel_own t g e rest : GI g -> bad g = false -> alive (tst (tok g e)) = true -> wl g t rest ->
  wl (fst (do_rel t g e rest)) t rest ->
  bad (fst (do_rel t g e rest)) = false /\ wl (fst (do_rel t g e rest)) t (snd (do_rel t g e rest)).
Proof.
  intros HI Hb Ha H Hrest. destruct (do_rel_facts t g e rest) as [F1 [F2 F3]].
  pose proof (alive_refs _ _ _ _ _ _ e HI Ha) as Hr.
  split.
  - rewrite F1, Hb. cbn. apply Nat.eqb_neq. lia.
  - rewrite F2. destruct (Nat.eqb (pred (refs (grp g (tgrp (tok g e))))) 0) eqn:Ez; [|exact Hrest].
    destruct (F3 eq_refl) as [X1 X2]. apply wl_dv; [exact X1|exact X2| |exact Hrest].
    intros Hin. destruct (wl_gnames _ _ _ _ _ _ _ H _ Hin) as [Hp _].
    pose proof (alive_phase0 g e HI Ha). lia.
Qed.

Lemma vrefs_pos_grp g k : GE g -> gphase (grp g k) = 1 -> Nat.eqb (vrefs g) 0 = false.
Proof.
  intros HE Hp. apply Nat.eqb_neq.
  assert (Hk : k < ngrp g).
  { destruct (le_lt_dec (ngrp g) k) as [Hle|]; [|assumption]. rewrite (e5 _ _ _ _ _ _ HE k Hle) in Hp. discriminate. }
  assert (Hv : vheld (grp g k) = true) by (rewrite (e2 _ _ _ _ _ _ HE k Hk), Hp; reflexivity).
  pose proof (cnt_pos (ngrp g) (fun j => vheld (grp g j)) k Hk Hv). pose proof (e1 _ _ _ _ _ _ HE). lia.
Qed.

Ltac djn := solve [ intros ? [] | discriminate | intros ? ?; discriminate ].

Lemma work_own sp u g w rest : GL g -> GS g -> GP g -> bad g = false -> wl g u (w :: rest) ->
  bad (fst (do_work sp u g w rest)) = false /\ wl (fst (do_work sp u g w rest)) u (snd (do_work sp u g w rest)).
Proof.
  intros [HI [_ [_ [_ HE]]]] HS HP Hb H.
  assert (Hrest : forall r, wl g u r ->
    (forall e, In e (wtoks w) -> ~ In e (names r)) -> (forall k, In k (wgrps w) -> ~ In k (gnames r)) ->
    (forall k, wdx w = Some k -> forall tmp, ~ In (WDx k tmp) r) -> (is_mv w = true -> ~ In WMv r) ->
    wl (fst (do_work sp u g w rest)) u r) by (intros; eapply own_rest; eauto).
  revert Hrest. unfold wl in H. inversion H; subst; cbn [do_work wtoks wgrps wdx is_mv].
  - (* WLoad *)
    assert (Ha : alive (tst (tok g e)) = true) by (rewrite H2; reflexivity).
    pose proof (alive_refs _ _ _ _ _ _ e HI Ha) as Hr.
    assert (Hr0 : Nat.eqb (refs (grp g (tgrp (tok g e)))) 0 = false) by (apply Nat.eqb_neq; lia).
    rewrite H2. cbn [is_starting]. rewrite Nat.eqb_refl. cbn [negb]. rewrite Hr0.
    assert (D1 : forall e0, In e0 [e] -> ~ In e0 (names rest)) by (intros e0 [<-|[]]; assumption).
    destruct (hptr (head (grp g (tgrp (tok g e))))) eqn:Ep; cbn [fst snd]; intros Hrest;
      (split; [cbn; rewrite Hb; reflexivity|]).
    + apply wl_grant; [cbn; rewrite fset_same; reflexivity|assumption|]. apply Hrest; [assumption|exact D1|djn|djn|djn].
    + apply wl_cas; [exact H2|assumption|]. apply Hrest; [assumption|exact D1|djn|djn|djn].
    + apply wl_cas; [exact H2|assumption|]. apply Hrest; [assumption|exact D1|djn|djn|djn].
  - (* WCas *)
    assert (Ha : alive (tst (tok g e)) = true) by (rewrite H2; reflexivity).
    pose proof (alive_refs _ _ _ _ _ _ e HI Ha) as Hr.
    assert (Hr0 : Nat.eqb (refs (grp g (tgrp (tok g e)))) 0 = false) by (apply Nat.eqb_neq; lia).
    rewrite H2. cbn [is_starting]. rewrite Nat.eqb_refl. cbn [negb]. rewrite Hr0.
    assert (D1 : forall e0, In e0 [e] -> ~ In e0 (names rest)) by (intros e0 [<-|[]]; assumption).
    destruct (head (grp g (tgrp (tok g e)))) as [|l] eqn:Eh; cbn [fst snd].
    + intros Hrest. split; [cbn; rewrite Hb; reflexivity|].
      apply wl_grant; [cbn; rewrite fset_same; reflexivity|assumption|]. apply Hrest; [assumption|exact D1|djn|djn|djn].
    + destruct (nxt_eqb nx (hptr (HList l)) && negb sp); cbn [fst snd]; intros Hrest;
        (split; [cbn; rewrite Hb; reflexivity|]).
      * apply Hrest; [assumption|exact D1|djn|djn|djn].
      * apply wl_cas; [exact H2|assumption|]. apply Hrest; [assumption|exact D1|djn|djn|djn].
  - (* WGrant *)
    rewrite H2. cbn [is_granting]. rewrite Nat.eqb_refl. cbn [negb fst snd].
    assert (D1 : forall e0, In e0 [e] -> ~ In e0 (names rest)) by (intros e0 [<-|[]]; assumption).
    intros Hrest. split; [destruct (tuse (tok g e)); cbn; exact Hb|].
    assert (X : wlc (fset (tok g) e (set_st (tok g e) (if tauto (tok g e) then TAuto u else TLive))) (grp g) (mstate g)
                  (malive g) (mvheld g) u rest).
    { specialize (Hrest rest H4 D1 ltac:(djn) ltac:(djn) ltac:(djn)). destruct (tuse (tok g e)); exact Hrest. }
    assert (Y : wlc (fset (tok g) e (set_st (tok g e) (if tauto (tok g e) then TAuto u else TLive))) (grp g) (mstate g)
                  (malive g) (mvheld g) u (if tauto (tok g e) then WRel e :: rest else rest)).
    { destruct (tauto (tok g e)); [|exact X]. apply wl_rel; [rewrite fset_same; cbn; apply Nat.eqb_refl|assumption|exact X]. }
    destruct (tuse (tok g e)); exact Y.
  - (* WRel *)
    rewrite H2. cbn [negb]. intros Hrest. destruct (owned_alive _ _ H2) as [Ha _].
    apply rel_own; auto. apply Hrest; [assumption|intros e0 [<-|[]]; assumption|djn|djn|djn].
  - (* WDv *)
    rewrite H2. cbn [Nat.eqb]. rewrite Nat.eqb_refl. cbn [andb negb fst snd]. intros Hrest.
    split.
    + rewrite do_vdec_bad. cbn. rewrite Hb. cbn. eapply vrefs_pos_grp; eauto.
    + apply wl_vdec_iff. apply wl_dn; [cbn; rewrite fset_same; reflexivity|cbn; rewrite fset_same; reflexivity|assumption|].
      apply wl_vdec_iff. apply Hrest; [assumption|djn|intros k0 [<-|[]]; assumption|djn|djn].
  - (* WDn *)
    rewrite H2. cbn [Nat.eqb]. rewrite Nat.eqb_refl. cbn [andb negb].
    assert (D2 : forall k0, In k0 [k] -> ~ In k0 (gnames rest)) by (intros k0 [<-|[]]; assumption).
    destruct (linked (grp g k)) eqn:El; cbn [fst snd]; intros Hrest; (split; [cbn; exact Hb|]).
    + pose proof (a7' _ _ _ _ _ _ HI k El) as Hk.
      assert (Hfresh : tst (tok g (ntok g)) = TDead) by (apply (a0 _ _ _ _ _ _ HI); lia).
      apply wl_dx.
      * cbn. rewrite fset_same. reflexivity.
      * cbn. rewrite fset_same. reflexivity.
      * unfold hlist. cbn. rewrite fset_other by lia.
        destruct (head (grp g (S k))) as [|l] eqn:Eh; [|eauto].
        pose proof (s3 _ _ _ HS k Hk Eh). lia.
      * intros Hin. pose proof (wl_names _ _ _ _ _ _ _ H5 _ Hin) as Ho. cbn in Ho. rewrite Hfresh in Ho. discriminate.
      * intros tmp Hin. destruct (wl_in_dx _ _ _ _ _ _ _ H5 _ _ Hin) as [_ X]. destruct tmp as [e'|].
        -- destruct X as [X1 X2]. destruct (s1 _ _ _ HS _ _ X1) as [p [A B]]. rewrite X2 in A. injection A as <-. lia.
        -- destruct X. discriminate.
      * apply Hrest; [assumption|djn|exact D2|djn|djn].
    + apply Hrest; [assumption|djn|exact D2|djn|djn].
  - (* WDx k (Some e) *)
    rewrite H2. cbn [is_done]. rewrite !Nat.eqb_refl. cbn [andb negb].
    assert (Ha : alive (tst (tok g e)) = true) by (rewrite H2; reflexivity).
    pose proof (alive_refs _ _ _ _ _ _ e HI Ha) as Hr.
    assert (Hr0 : Nat.eqb (refs (grp g (tgrp (tok g e)))) 0 = false) by (apply Nat.eqb_neq; lia).
    rewrite Hr0. destruct H4 as [l Hl]. rewrite Hl. cbn [fst snd]. intros Hrest.
    split; [cbn; rewrite Hb; reflexivity|].
    assert (Hw : wl g u (WRel e :: r)) by (apply wl_rel; [rewrite H2; cbn; apply Nat.eqb_refl|assumption|assumption]).
    apply wl_grants.
    + apply Hrest; [exact Hw|djn|djn| |djn].
      intros k0 Ek tmp [X|X]; [discriminate|]. injection Ek as <-. eapply H6; eauto.
    + apply (p1 _ _ HP _ _ Hl).
    + intros x Hx. split.
      * cbn. rewrite take_all_spec. destruct (in_dec Nat.eq_dec x l); [reflexivity|contradiction].
      * intros Hin. pose proof (wl_names _ _ _ _ _ _ _ Hw _ Hin) as Ho.
        destruct (a10 _ _ _ _ _ _ HI _ _ _ Hl Hx) as [Hq _]. rewrite Hq in Ho. discriminate.
  - (* WDx 0 None *)
    cbn [Nat.eqb negb].
    assert (Hr0 : Nat.eqb (refs (grp g 0)) 0 = false).
    { apply Nat.eqb_neq. pose proof (a6 _ _ _ _ _ _ HI 0 H2) as Hn.
      rewrite (a2 _ _ _ _ _ _ HI 0) by lia. rewrite H2. cbn. lia. }
    rewrite Hr0. destruct H3 as [l Hl]. rewrite Hl. cbn [fst snd]. intros Hrest.
    split; [cbn; rewrite Hb; reflexivity|].
    apply wl_grants.
    + apply Hrest; [assumption|djn|djn| |djn].
      intros k0 Ek tmp. injection Ek as <-. apply H4.
    + apply (p1 _ _ HP _ _ Hl).
    + intros x Hx. split.
      * cbn. rewrite take_all_spec. destruct (in_dec Nat.eq_dec x l); [reflexivity|contradiction].
      * intros Hin. pose proof (wl_names _ _ _ _ _ _ _ H5 _ Hin) as Ho.
        destruct (a10 _ _ _ _ _ _ HI _ _ _ Hl Hx) as [Hq _]. rewrite Hq in Ho. discriminate.
  - (* WMv *)
    rewrite H2, H3. cbn [orb negb fst snd]. intros Hrest. split.
    + rewrite do_vdec_bad. cbn. rewrite Hb. cbn. apply Nat.eqb_neq.
      pose proof (e1 _ _ _ _ _ _ HE) as E1. rewrite H3 in E1. cbn in E1. lia.
    + apply Hrest; [assumption|djn|djn|djn|]. intros _. assumption.
Qed.

Lemma cmd_own u g c : GL g -> bad g = false ->
  bad (fst (do_cmd u g c)) = false /\ wl (fst (do_cmd u g c)) u (snd (do_cmd u g c)).
Proof.
  intros [HI [_ [_ [_ HE]]]] Hb.
  assert (Hnil : forall g', bad g' = bad g -> bad g' = false /\ wl g' u []).
  { intros g' E. split; [congruence|apply wl_nil]. }
  destruct c as [sp|kd|e auto usev|e|e|e|e|]; cbn [do_cmd].
  - apply Hnil. reflexivity.
  - destruct (malive g) eqn:Eal; cbn [negb]; [|apply Hnil; reflexivity].
    destruct kd, (mprev g), (mstate g) as [p|] eqn:Ems; cbn [fst snd].
    all: try (apply Hnil; reflexivity).
    all: split; [exact Hb|].
    all: try (apply wl_rel; [cbn; rewrite fset_same; cbn; apply Nat.eqb_refl|intros []|apply wl_nil]).
    all: pose proof (a6' _ _ _ _ _ _ HI Ems Eal) as Hn.
    all: rewrite Hn; apply wl_dx0; [reflexivity|unfold hlist; cbn; eauto|intros tmp []|apply wl_nil].
  - destruct (Nat.ltb e (ntok g) && is_sender (tst (tok g e))); [|apply Hnil; reflexivity].
    cbn [fst snd]. split; [exact Hb|]. apply wl_load; [cbn; rewrite fset_same; reflexivity|intros []|apply wl_nil].
  - destruct (Nat.ltb e (ntok g) && is_sender (tst (tok g e))); [|apply Hnil; reflexivity].
    cbn [fst snd]. split; [exact Hb|].
    apply wl_rel; [cbn; rewrite fset_same; cbn; apply Nat.eqb_refl|intros []|apply wl_nil].
  - destruct (Nat.ltb e (ntok g) && kind_eqb (gkind (grp g (tgrp (tok g e)))) KR &&
              (is_sender (tst (tok g e)) || is_live (tst (tok g e)))); apply Hnil; reflexivity.
  - destruct (Nat.ltb e (ntok g) && is_live (tst (tok g e))) eqn:Eg; [|apply Hnil; reflexivity].
    apply andb_true_iff in Eg. destruct Eg as [_ Es]. apply is_live_spec in Es.
    apply rel_own; auto; try apply wl_nil. rewrite Es. reflexivity.
  - destruct (Nat.ltb e (ntok g) && is_live (tst (tok g e))); apply Hnil; reflexivity.
  - destruct (malive g) eqn:Eal; cbn [negb]; [|apply Hnil; reflexivity].
    pose proof (e4 _ _ _ _ _ _ HE Eal) as Hmv.
    destruct (mstate g); cbn [fst snd]; (split; [exact Hb|]).
    + apply wl_rel; [cbn; rewrite fset_same; cbn; apply Nat.eqb_refl|cbn; tauto|].
      apply wl_mv; [reflexivity|exact Hmv|intros []|apply wl_nil].
    + apply wl_mv; [reflexivity|exact Hmv|intros []|apply wl_nil].
Qed.

(* ---- the other threads: ownership separates them from the stepping thread *)
Lemma dx_cross g t u l l' k tmp tmp' : GI g -> GS g -> wl g t l -> wl g u l' ->
  In (WDx k tmp) l -> In (WDx k tmp') l' -> t = u \/ (tmp = None /\ tmp' = None).
Proof.
  intros HI HS H H' Hin Hin'.
  destruct (wl_in_dx _ _ _ _ _ _ _ H _ _ Hin) as [_ X]. destruct (wl_in_dx _ _ _ _ _ _ _ H' _ _ Hin') as [_ X'].
  destruct tmp as [e|], tmp' as [e'|].
  - destruct X as [X1 X2], X' as [X1' X2']. left.
    assert (e = e') by (eapply (s2 _ _ _ HS); eauto; congruence). subst e'. congruence.
  - exfalso. destruct X as [X1 X2], X' as [-> _]. destruct (a9 _ _ _ _ _ _ HI _ _ X1) as [p [A _]]. congruence.
  - exfalso. destruct X' as [X1 X2], X as [-> _]. destruct (a9 _ _ _ _ _ _ HI _ _ X1) as [p [A _]]. congruence.
  - right. auto.
Qed.

Definition U1 (ls : nat -> list work) : Prop := forall t u, In (WDx 0 None) (ls t) -> In (WDx 0 None) (ls u) -> t = u.
Definition U2 (ls : nat -> list work) : Prop := forall t u, In WMv (ls t) -> In WMv (ls u) -> t = u.

Lemma in_names_head w rest e : In e (wtoks w) -> In e (names (w :: rest)).
Proof. intros H. apply names_cons. left. apply wtoks_names. exact H. Qed.

Lemma others_work sp u g (ls : nat -> list work) w rest t : GI g -> GE g -> GS g -> U1 ls -> U2 ls ->
  ls u = w :: rest -> wl g u (w :: rest) -> t <> u -> wl g t (ls t) ->
  wl (fst (do_work sp u g w rest)) t (ls t).
Proof.
  intros HI HE HS H1 H2 El Hu Hne Ht.
  eapply wl_frame; [apply frame_work; exact HI|exact HE|exact Ht| | | |discriminate|].
  - intros e He Hin. pose proof (wl_names _ _ _ _ _ _ _ Hu e (in_names_head _ _ _ He)) as A.
    pose proof (wl_names _ _ _ _ _ _ _ Ht e Hin) as B. congruence.
  - intros k Hk Hin. destruct (wl_gnames _ _ _ _ _ _ _ Hu k ltac:(apply gnames_cons; left; exact Hk)) as [_ A].
    destruct (wl_gnames _ _ _ _ _ _ _ Ht k Hin) as [_ B]. congruence.
  - intros k Ek tmp Hin. destruct w; try discriminate. cbn in Ek. injection Ek as ->.
    destruct (dx_cross g t u _ _ k tmp tmp0 HI HS Ht Hu Hin (or_introl eq_refl)) as [X|[-> ->]]; [contradiction|].
    destruct (wl_in_dx _ _ _ _ _ _ _ Ht _ _ Hin) as [_ [-> _]].
    apply Hne. apply H1; [exact Hin|rewrite El; now left].
  - intros Ev Hin. destruct w; try discriminate. apply Hne. apply H2; [exact Hin|rewrite El; now left].
Qed.

Lemma others_cmd u g (ls : nat -> list work) c t : GI g -> GE g ->
  (is_reqdes c = true -> ~ In (WDx 0 None) (ls t)) -> wl g t (ls t) ->
  wl (fst (do_cmd u g c)) t (ls t).
Proof.
  intros HI HE Hc Ht.
  eapply wl_frame; [apply frame_cmd; exact HI|exact HE|exact Ht| | | |exact Hc|discriminate].
  - intros e [].
  - intros k [].
  - discriminate.
Qed.

(* the two items that exist at most once are never duplicated by a work step, and are pushed only by the
   first request / the destruction of the mutex *)
Lemma work_sub sp u g w rest x : (x = WDx 0 None \/ x = WMv) ->
  In x (snd (do_work sp u g w rest)) -> In x (w :: rest).
Proof.
  intros Hx.
  assert (Hrel : forall e r, In x (snd (do_rel u g e r)) -> In x r).
  { intros e r. unfold do_rel. cbn [snd]. destruct (Nat.eqb (pred (refs (grp g (tgrp (tok g e))))) 0); [|auto].
    intros [X|[X|X]]; [destruct Hx; congruence|destruct Hx; congruence|exact X]. }
  assert (Hgr : forall l r, In x (map WGrant l ++ r) -> In x r).
  { intros l r Hin. apply in_app_or in Hin. destruct Hin as [Hin|Hin]; [|exact Hin].
    apply in_map_iff in Hin. destruct Hin as [y [Ey _]]. destruct Hx; congruence. }
  destruct w as [e|e nx|e|e|k|k|k tmp|]; cbn [do_work].
  - destruct (negb (is_starting u (tst (tok g e)))); cbn [snd]; [now right|].
    destruct (hptr (head (grp g (tgrp (tok g e))))); cbn [snd]; (intros [X|X]; [destruct Hx; congruence|now right]).
  - destruct (negb (is_starting u (tst (tok g e)))); cbn [snd]; [now right|].
    destruct (head (grp g (tgrp (tok g e)))); cbn [snd]; [intros [X|X]; [destruct Hx; congruence|now right]|].
    destruct (nxt_eqb nx (hptr (HList l)) && negb sp); cbn [snd]; [now right|].
    intros [X|X]; [destruct Hx; congruence|now right].
  - destruct (negb (is_granting u (tst (tok g e)))); cbn [snd]; [now right|].
    destruct (tauto (tok g e)); [|now right]. intros [X|X]; [destruct Hx; congruence|now right].
  - destruct (negb (owned_by u (tst (tok g e)))); cbn [snd]; [now right|]. intros X. right. eapply Hrel; eauto.
  - destruct (negb (Nat.eqb (gphase (grp g k)) 1 && Nat.eqb (gown (grp g k)) u)); cbn [snd]; now right.
  - destruct (negb (Nat.eqb (gphase (grp g k)) 2 && Nat.eqb (gown (grp g k)) u)); cbn [snd]; [now right|].
    destruct (linked (grp g k)); cbn [snd]; [|now right].
    intros [X|[X|X]]; [destruct Hx; congruence|destruct Hx; congruence|now right].
  - destruct (negb (match tmp with None => Nat.eqb k 0 | Some e => is_done u (tst (tok g e)) && Nat.eqb (tgrp (tok g e)) k end));
      cbn [snd]; [now right|].
    destruct (head (grp g k)); cbn [snd]; [now right|]. intros X. right. eapply Hgr; eauto.
  - destruct (malive g || negb (mvheld g)); cbn [snd]; now right.
Qed.

Lemma cmd_sub u g c x : In x (snd (do_cmd u g c)) ->
  (x = WDx 0 None -> mstate g = None /\ malive g = true) /\ (x = WMv -> malive g = true).
Proof.
  destruct c as [sp|kd|e auto usev|e|e|e|e|]; cbn [do_cmd].
  - intros [].
  - destruct (malive g) eqn:Eal; cbn [negb snd]; [|intros []].
    destruct kd, (mprev g), (mstate g) as [p|] eqn:Ems; cbn [snd].
    all: try solve [intros []].
    all: intros [<-|[]]; split; try discriminate; auto.
  - destruct (Nat.ltb e (ntok g) && is_sender (tst (tok g e))); cbn [snd]; [|intros []].
    intros [<-|[]]. split; discriminate.
  - destruct (Nat.ltb e (ntok g) && is_sender (tst (tok g e))); cbn [snd]; [|intros []].
    intros [<-|[]]. split; discriminate.
  - destruct (Nat.ltb e (ntok g) && kind_eqb (gkind (grp g (tgrp (tok g e)))) KR &&
              (is_sender (tst (tok g e)) || is_live (tst (tok g e)))); intros [].
  - destruct (Nat.ltb e (ntok g) && is_live (tst (tok g e))); [|intros []].
    unfold do_rel. cbn [snd]. destruct (Nat.eqb (pred (refs (grp g (tgrp (tok g e))))) 0); [|intros []].
    intros [<-|[<-|[]]]; split; discriminate.
  - destruct (Nat.ltb e (ntok g) && is_live (tst (tok g e))); intros [].
  - destruct (malive g) eqn:Eal; cbn [negb snd]; [|intros []].
    destruct (mstate g); cbn [snd].
    + intros [<-|[<-|[]]]; split; try discriminate; auto.
    + intros [<-|[]]; split; try discriminate; auto.
Qed.

(* ================= the invariant and the client contract ================= *)
Record Inv (g : shared) (ls : nat -> list work) : Prop := {
  i_gl : GL g; i_gs : GS g; i_gp : GP g;
  i_bad : bad g = false;
  i_wl : forall t, wl g t (ls t);
  i_u1 : U1 ls; i_u2 : U2 ls
}.

(* The client contract, evaluated along the run: a thread that is idle (not inside a call) issues a request
   or destroys the mutex only when no thread is still inside the first request (pending done() of the
   first shared state).  Threads that are inside a call ignore the command (they execute their next item). *)
Definition contract_ok (c : shared * (nat -> list work)) (so : nat * cmd) : Prop :=
  snd c (fst so) = [] -> is_reqdes (snd so) = true -> forall u, ~ In (WDx 0 None) (snd c u).
Fixpoint contract_from (c : shared * (nat -> list work)) (sched : list (nat * cmd)) : Prop :=
  match sched with
  | [] => True
  | so :: s => contract_ok c so /\ contract_from (step rw_tstep c so) s
  end.

Lemma Inv_init : Inv rw_init rw_locals.
Proof.
  constructor.
  - exact (GL_run []).
  - exact (GS_run []).
  - exact (GP_run []).
  - reflexivity.
  - intros t. apply wl_nil.
  - intros t u [].
  - intros t u [].
Qed.

Lemma Inv_step g ls u c : Inv g ls -> contract_ok (g, ls) (u, c) ->
  Inv (fst (rw_tstep c u g (ls u))) (upd ls u (snd (rw_tstep c u g (ls u)))).
Proof.
  intros [HL HS HP Hb Hw H1 H2] Hc. pose proof HL as [HI [_ [_ [_ HE]]]].
  pose proof (Hw u) as Hwu.
  destruct (ls u) as [|w rest] eqn:El; cbn [rw_tstep].
  - destruct (cmd_own u g c HL Hb) as [B W]. constructor.
    + exact (GL_step c u g [] HL).
    + exact (GS_step c u g [] HI HS).
    + exact (GP_step c u g [] HI HP).
    + exact B.
    + intros t. unfold upd. destruct (Nat.eqb_spec t u); [subst; exact W|].
      apply others_cmd; [exact HI|exact HE| |apply Hw]. intros Hr. apply Hc; [exact El|exact Hr].
    + intros t t' Hin Hin'. unfold upd in Hin, Hin'.
      destruct (Nat.eqb_spec t u), (Nat.eqb_spec t' u); subst; auto; exfalso.
      * destruct (cmd_sub u g c _ Hin) as [X _]. destruct (X eq_refl) as [Ems _].
        destruct (wl_in_dx _ _ _ _ _ _ _ (Hw t') _ _ Hin') as [_ [_ Y]]. congruence.
      * destruct (cmd_sub u g c _ Hin') as [X _]. destruct (X eq_refl) as [Ems _].
        destruct (wl_in_dx _ _ _ _ _ _ _ (Hw t) _ _ Hin) as [_ [_ Y]]. congruence.
    + intros t t' Hin Hin'. unfold upd in Hin, Hin'.
      destruct (Nat.eqb_spec t u), (Nat.eqb_spec t' u); subst; auto; exfalso.
      * destruct (cmd_sub u g c _ Hin) as [_ X]. specialize (X eq_refl).
        destruct (wl_in_mv _ _ _ _ _ _ _ (Hw t') Hin') as [Y _]. congruence.
      * destruct (cmd_sub u g c _ Hin') as [_ X]. specialize (X eq_refl).
        destruct (wl_in_mv _ _ _ _ _ _ _ (Hw t) Hin) as [Y _]. congruence.
  - set (sp := match c with CStep sp => sp | _ => false end).
    destruct (work_own sp u g w rest HL HS HP Hb Hwu) as [B W].
    assert (Hsub : forall t x, x = WDx 0 None \/ x = WMv ->
              In x (upd ls u (snd (do_work sp u g w rest)) t) -> In x (ls t)).
    { intros t x Hx. unfold upd. destruct (Nat.eqb_spec t u); [subst|auto].
      intros Hin. rewrite El. eapply work_sub; eauto. }
    constructor.
    + exact (GL_step c u g (w :: rest) HL).
    + exact (GS_step c u g (w :: rest) HI HS).
    + exact (GP_step c u g (w :: rest) HI HP).
    + exact B.
    + intros t. unfold upd. destruct (Nat.eqb_spec t u); [subst; exact W|].
      eapply others_work; eauto.
    + intros t t' Hin Hin'. apply H1; eapply Hsub; eauto.
    + intros t t' Hin Hin'. apply H2; eapply Hsub; eauto.
Qed.

Theorem Inv_run sched : forall c, Inv (fst c) (snd c) -> contract_from c sched ->
  Inv (fst (run rw_tstep sched c)) (snd (run rw_tstep sched c)).
Proof.
  induction sched as [|[u o] s IH]; intros [g ls] H Hc; [exact H|].
  destruct Hc as [Hc1 Hc2]. rewrite run_cons. apply IH; [|exact Hc2].
  pose proof (Inv_step g ls u o H Hc1) as X. cbn [step fst snd].
  destruct (rw_tstep o u g (ls u)) as [g' l']. exact X.
Qed.

Theorem Inv_rw_run sched : contract_from (rw_init, rw_locals) sched -> Inv (fst (rw_run sched)) (snd (rw_run sched)).
Proof. intros Hc. unfold rw_run. apply Inv_run; [exact Inv_init|exact Hc]. Qed.

(* the ownership guards of the model never fire on contract-respecting clients *)
Theorem rw_no_bad_guarded sched : contract_from (rw_init, rw_locals) sched -> bad (fst (rw_run sched)) = false.
Proof. intros Hc. exact (i_bad _ _ (Inv_rw_run sched Hc)). Qed.

(* ---- the discipline of the lock-step harness (harness/c04_rw.cpp: `rq`): a request / destroy command is
   handed to an idle worker only when the worker that got the previous request / destroy command is idle
   again.  It implies the contract. *)
Definition idleb (l : list work) : bool := match l with [] => true | _ => false end.
Fixpoint harness_from (rq : option nat) (c : shared * (nat -> list work)) (sched : list (nat * cmd)) : bool :=
  match sched with
  | [] => true
  | (t, o) :: s =>
      let rq' := match rq with Some r => if idleb (snd c r) then None else rq | None => None end in
      if idleb (snd c t) && is_reqdes o
      then match rq' with None => harness_from (Some t) (step rw_tstep c (t, o)) s | Some _ => false end
      else harness_from rq' (step rw_tstep c (t, o)) s
  end.

Lemma cmd_sub_req u g c : In (WDx 0 None) (snd (do_cmd u g c)) -> is_reqdes c = true.
Proof.
  destruct c as [sp|kd|e auto usev|e|e|e|e|]; cbn [do_cmd is_reqdes]; auto.
  - destruct (Nat.ltb e (ntok g) && is_sender (tst (tok g e))); cbn [snd]; [|intros []]. intros [X|[]]. discriminate.
  - destruct (Nat.ltb e (ntok g) && is_sender (tst (tok g e))); cbn [snd]; [|intros []]. intros [X|[]]. discriminate.
  - destruct (Nat.ltb e (ntok g) && kind_eqb (gkind (grp g (tgrp (tok g e)))) KR &&
              (is_sender (tst (tok g e)) || is_live (tst (tok g e)))); intros [].
  - destruct (Nat.ltb e (ntok g) && is_live (tst (tok g e))); [|intros []].
    unfold do_rel. cbn [snd]. destruct (Nat.eqb (pred (refs (grp g (tgrp (tok g e))))) 0); [|intros []].
    intros [X|[X|[]]]; discriminate.
  - destruct (Nat.ltb e (ntok g) && is_live (tst (tok g e))); intros [].
Qed.

Lemma harness_contract sched : forall rq c, (forall u, In (WDx 0 None) (snd c u) -> rq = Some u) ->
  harness_from rq c sched = true -> contract_from c sched.
Proof.
  induction sched as [|[t o] s IH]; intros rq [g ls] Hrq Hh; [exact I|].
  cbn [harness_from snd] in Hh.
  set (rq' := match rq with Some r => if idleb (ls r) then None else rq | None => None end) in Hh.
  assert (Hrq' : forall u, In (WDx 0 None) (ls u) -> rq' = Some u).
  { intros u Hin. pose proof (Hrq u Hin) as E. cbn [snd] in E. unfold rq'. rewrite E.
    destruct (ls u); [destruct Hin|reflexivity]. }
  split.
  - intros Hidle Hreq u Hin. cbn [fst snd] in *. rewrite Hidle, Hreq in Hh. cbn [idleb andb] in Hh.
    rewrite (Hrq' u Hin) in Hh. discriminate.
  - destruct (idleb (ls t) && is_reqdes o) eqn:Eb.
    + destruct rq' eqn:Er; [discriminate|]. eapply IH; [|exact Hh].
      intros u. cbn [step fst snd]. destruct (rw_tstep o t g (ls t)) as [g' l'] eqn:Es. cbn [snd].
      unfold upd. destruct (Nat.eqb_spec u t); [subst; reflexivity|].
      intros Hin. specialize (Hrq' u Hin). discriminate.
    + eapply IH; [|exact Hh].
      intros u. cbn [step fst snd]. destruct (rw_tstep o t g (ls t)) as [g' l'] eqn:Es. cbn [snd].
      unfold upd. destruct (Nat.eqb_spec u t); [subst|apply Hrq'].
      intros Hin. destruct (ls t) as [|w rest] eqn:El; cbn [rw_tstep] in Es.
      * assert (X : In (WDx 0 None) (snd (do_cmd t g o))) by (rewrite Es; exact Hin).
        apply cmd_sub_req in X. rewrite X in Eb. discriminate.
      * apply Hrq'. rewrite El.
        apply (work_sub (match o with CStep sp => sp | _ => false end) t g w rest); [now left|]. rewrite Es. exact Hin.
Qed.

Theorem rw_harness_contract sched : harness_from None (rw_init, rw_locals) sched = true ->
  contract_from (rw_init, rw_locals) sched.
Proof. apply harness_contract. intros u []. Qed.

(* ---- lock-step schedules: one controller release = the command (or the parked step) followed by every step of
   the same thread up to its next hook (Model/RwMutex.v [seg], ocaml/drv_c04.ml); [flat_of] is the flat
   schedule the driver executes for a list of controller entries *)
Fixpoint seg_tail (fuel t : nat) (c : shared * (nat -> list work)) : list (nat * cmd) :=
  match fuel with
  | O => []
  | S f =>
      match snd c t with
      | [] => []
      | w :: _ => if is_point w then [] else (t, CStep false) :: seg_tail f t (step rw_tstep c (t, CStep false))
      end
  end.
Fixpoint flat_of (fuel : nat) (c : shared * (nat -> list work)) (entries : list (nat * cmd)) : list (nat * cmd) :=
  match entries with
  | [] => []
  | so :: s =>
      let c1 := step rw_tstep c so in
      let tl := seg_tail fuel (fst so) c1 in
      so :: tl ++ flat_of fuel (run rw_tstep tl c1) s
  end.

(* the schedule of C04_rw_example (W,R,R; spurious CAS failure; LIFO hand-over; mutex destroyed while readers hold
   wrappers) follows the harness discipline *)
Definition example_sched : list (nat * cmd) :=
  [(0, CReq KW); (0, CStep false); (0, CReq KR); (0, CStep false); (0, CReq KR);
   (0, CStart 0 false false); (0, CStep false); (0, CStep false);
   (1, CStart 1 false false); (2, CStart 3 false false);
   (1, CStep false); (2, CStep false); (1, CStep true); (1, CStep false); (2, CStep false);
   (2, CStep false);
   (1, CUse 0); (1, CRelease 0); (1, CStep false); (1, CStep false); (1, CStep false);
   (1, CStep false); (1, CStep false); (1, CStep false); (0, CDestroy); (0, CStep false);
   (0, CStep false); (2, CUse 1)].

Lemma example_sched_contract :
  harness_from None (rw_init, rw_locals) example_sched = true /\
  contract_from (rw_init, rw_locals) example_sched /\ bad (fst (rw_run example_sched)) = false.
Proof.
  assert (H : harness_from None (rw_init, rw_locals) example_sched = true) by (vm_compute; reflexivity).
  split; [exact H|]. pose proof (rw_harness_contract _ H) as Hc. split; [exact Hc|]. apply rw_no_bad_guarded. exact Hc.
Qed.

(* the refutation witness of the unconditional statement violates the contract (thread 1 destroys the mutex while
   thread 0 is still inside readwrite()) *)
Lemma bad_witness_breaks_contract : ~ contract_from (rw_init, rw_locals) bad_witness.
Proof.
  intros Hc. pose proof (rw_no_bad_guarded _ Hc) as Hb.
  assert (X : bad (fst (rw_run bad_witness)) = true) by (vm_compute; reflexivity). congruence.
Qed.

(* ================= layer 2: converse clauses (every owner state has its item) ================= *)
Lemma head_fset gs k gr j : head gr = head (gs k) -> head (fset gs k gr j) = head (gs j).
Proof. intros H. unfold fset. destruct (Nat.eqb_spec j k); subst; auto. Qed.

(* the sentinel is final *)
Lemma sent_work sp u g w rest k : head (grp g k) = HSent -> head (grp (fst (do_work sp u g w rest)) k) = HSent.
Proof.
  intros H.
  assert (Hrel : forall e r, head (grp (fst (do_rel u g e r)) k) = HSent).
  { intros e r. unfold do_rel. cbn [fst]. destruct (is_wrapper (tst (tok g e))); cbn;
      (rewrite head_fset; [exact H|]); destruct (Nat.eqb (pred (refs (grp g (tgrp (tok g e))))) 0); reflexivity. }
  destruct w as [e|e nx|e|e|k0|k0|k0 tmp|]; cbn [do_work].
  - destruct (negb (is_starting u (tst (tok g e)))); [exact H|].
    destruct (hptr (head (grp g (tgrp (tok g e))))); exact H.
  - destruct (negb (is_starting u (tst (tok g e)))); [exact H|].
    destruct (head (grp g (tgrp (tok g e)))) as [|l] eqn:Eh; [exact H|].
    destruct (nxt_eqb nx (hptr (HList l)) && negb sp); [|exact H].
    cbn. unfold fset. destruct (Nat.eqb_spec k (tgrp (tok g e))); subst; [congruence|exact H].
  - destruct (negb (is_granting u (tst (tok g e)))); [exact H|]. cbn [fst]. destruct (tuse (tok g e)); exact H.
  - destruct (negb (owned_by u (tst (tok g e)))); [exact H|]. apply Hrel.
  - destruct (negb (Nat.eqb (gphase (grp g k0)) 1 && Nat.eqb (gown (grp g k0)) u)); [exact H|].
    cbn [fst]. unfold do_vdec. match goal with |- context[if ?b then _ else _] => destruct b end; cbn;
      (rewrite head_fset; [exact H|reflexivity]).
  - destruct (negb (Nat.eqb (gphase (grp g k0)) 2 && Nat.eqb (gown (grp g k0)) u)); [exact H|].
    destruct (linked (grp g k0)); cbn; (rewrite head_fset; [exact H|reflexivity]).
  - destruct (negb (match tmp with None => Nat.eqb k0 0 | Some e => is_done u (tst (tok g e)) && Nat.eqb (tgrp (tok g e)) k0 end));
      [exact H|].
    destruct (head (grp g k0)) as [|l] eqn:Eh; [exact H|].
    cbn. unfold fset. destruct (Nat.eqb_spec k k0); subst; [reflexivity|exact H].
  - destruct (malive g || negb (mvheld g)); [exact H|]. cbn [fst]. unfold do_vdec.
    match goal with |- context[if ?b then _ else _] => destruct b end; exact H.
Qed.

Lemma sent_cmd u g c k : k < ngrp g -> head (grp g k) = HSent -> head (grp (fst (do_cmd u g c)) k) = HSent.
Proof.
  intros Hk H. destruct c as [sp|kd|e auto usev|e|e|e|e|]; cbn [do_cmd].
  - exact H.
  - destruct (negb (malive g)); [exact H|].
    destruct kd, (mprev g), (mstate g) as [p|]; cbn; unfold fset;
      repeat match goal with |- context[Nat.eqb ?a ?b] => destruct (Nat.eqb_spec a b); subst end; cbn; try exact H; lia.
  - destruct (Nat.ltb e (ntok g) && is_sender (tst (tok g e))); exact H.
  - destruct (Nat.ltb e (ntok g) && is_sender (tst (tok g e))); exact H.
  - destruct (Nat.ltb e (ntok g) && kind_eqb (gkind (grp g (tgrp (tok g e)))) KR &&
              (is_sender (tst (tok g e)) || is_live (tst (tok g e)))); [|exact H].
    cbn. rewrite head_fset; [exact H|reflexivity].
  - destruct (Nat.ltb e (ntok g) && is_live (tst (tok g e))); [|exact H].
    unfold do_rel. cbn [fst]. destruct (is_wrapper (tst (tok g e))); cbn;
      (rewrite head_fset; [exact H|]); destruct (Nat.eqb (pred (refs (grp g (tgrp (tok g e))))) 0); reflexivity.
  - destruct (Nat.ltb e (ntok g) && is_live (tst (tok g e))); exact H.
  - destruct (negb (malive g)); [exact H|]. destruct (mstate g); exact H.
Qed.

(* what a step establishes for the tokens / groups it touches: the new owner state is backed by an item of
   the stepping thread's new list *)
Definition backed_t (g' : shared) (l' : list work) (u e : nat) : Prop :=
  match tst (tok g' e) with
  | TStarting t => t = u /\ (In (WLoad e) l' \/ exists nx, In (WCas e nx) l')
  | TGranting t => t = u /\ In (WGrant e) l'
  | _ => True
  end.
Definition backed_g (g' : shared) (l' : list work) (u k : nat) : Prop :=
  (1 <= gphase (grp g' k) -> gphase (grp g' k) <> 3 -> gown (grp g' k) = u /\ In (WDn k) l') /\
  (S k < ngrp g' -> gphase (grp g' k) = 3 -> head (grp g' (S k)) = HSent \/ exists e, In (WDx (S k) (Some e)) l').

Lemma tok_vdec g : tok (do_vdec g) = tok g.
Proof. unfold do_vdec. destruct (Nat.eqb (pred (vrefs g)) 0 && negb (vfreed g)); reflexivity. Qed.
Lemma grp_vdec g : grp (do_vdec g) = grp g.
Proof. unfold do_vdec. destruct (Nat.eqb (pred (vrefs g)) 0 && negb (vfreed g)); reflexivity. Qed.
Lemma ngrp_vdec g : ngrp (do_vdec g) = ngrp g.
Proof. unfold do_vdec. destruct (Nat.eqb (pred (vrefs g)) 0 && negb (vfreed g)); reflexivity. Qed.

Lemma do_rel_post t g e rest :
  (forall e0, e0 <> e -> tok (fst (do_rel t g e rest)) e0 = tok g e0) /\
  tst (tok (fst (do_rel t g e rest)) e) = TDead /\
  (forall k, ph_same g (fst (do_rel t g e rest)) k \/ backed_g (fst (do_rel t g e rest)) (snd (do_rel t g e rest)) t k) /\
  (forall x, In x rest -> In x (snd (do_rel t g e rest))) /\
  ngrp (fst (do_rel t g e rest)) = ngrp g.
Proof.
  unfold do_rel. cbn [fst snd].
  assert (X : forall g0, tok g0 = tok g -> grp g0 = grp g -> ngrp g0 = ngrp g ->
    let g' := upd_grp (with_bad (set_tst g0 e TDead) (Nat.eqb (refs (grp g (tgrp (tok g e)))) 0)) (tgrp (tok g e))
               (if Nat.eqb (pred (refs (grp g (tgrp (tok g e))))) 0
                then set_phase (set_refs (grp g (tgrp (tok g e))) (pred (refs (grp g (tgrp (tok g e)))))) 1 t
                else set_refs (grp g (tgrp (tok g e))) (pred (refs (grp g (tgrp (tok g e)))))) in
    let l' := if Nat.eqb (pred (refs (grp g (tgrp (tok g e))))) 0
              then WDv (tgrp (tok g e)) :: WDn (tgrp (tok g e)) :: rest else rest in
    (forall e0, e0 <> e -> tok g' e0 = tok g e0) /\ tst (tok g' e) = TDead /\
    (forall k, ph_same g g' k \/ backed_g g' l' t k) /\ (forall x, In x rest -> In x l') /\ ngrp g' = ngrp g).
  { intros g0 E1 E2 E3. cbn zeta. split; [|split; [|split; [|split]]].
    - intros e0 Hne. cbn. rewrite E1. rewrite fset_other by exact Hne. reflexivity.
    - cbn. rewrite fset_same. reflexivity.
    - intros k. unfold ph_same, backed_g. cbn. rewrite E2.
      destruct (Nat.eq_dec k (tgrp (tok g e))) as [->|Hne]; [|left; rewrite !fset_other by exact Hne; split; reflexivity].
      rewrite !fset_same.
      destruct (Nat.eqb (pred (refs (grp g (tgrp (tok g e))))) 0); cbn; [right|left; split; reflexivity].
      split; [intros _ _; split; [reflexivity|right; now left]|discriminate].
    - intros x Hx. destruct (Nat.eqb (pred (refs (grp g (tgrp (tok g e))))) 0); [right; right; exact Hx|exact Hx].
    - cbn. exact E3. }
  destruct (is_wrapper (tst (tok g e))); apply X; reflexivity.
Qed.

Ltac g_same := let k0 := fresh "k0" in intros k0; left; split;
  [unfold ph_same; rewrite ?grp_vdec; cbn; fse_goal; cbn; split; reflexivity | intros []].
Ltac t_same := let e0 := fresh "e0" in intros e0; left; split;
  [unfold tok_same; rewrite ?tok_vdec; cbn; split; reflexivity | intros []].
Ltac t_one e := let e0 := fresh "e0" in let Hne := fresh "Hne" in let X := fresh "X" in
  intros e0; destruct (Nat.eq_dec e0 e) as [->|Hne];
  [right; unfold backed_t; cbn; rewrite ?fset_same; cbn
  |left; split; [unfold tok_same; cbn; rewrite ?fset_other by exact Hne; split; reflexivity
                |intros [X|[]]; congruence]].

Lemma work_post sp u g w rest : GL g -> GS g -> GP g -> wl g u (w :: rest) ->
  (forall e, (tok_same g (fst (do_work sp u g w rest)) e /\ ~ In e (wtoks w)) \/
             backed_t (fst (do_work sp u g w rest)) (snd (do_work sp u g w rest)) u e) /\
  (forall k, (ph_same g (fst (do_work sp u g w rest)) k /\ ~ In k (wgrps w)) \/
             backed_g (fst (do_work sp u g w rest)) (snd (do_work sp u g w rest)) u k) /\
  (forall k, wdx w = Some k -> head (grp (fst (do_work sp u g w rest)) k) = HSent) /\
  (forall x, In x rest -> In x (snd (do_work sp u g w rest))) /\
  ngrp (fst (do_work sp u g w rest)) = ngrp g.
Proof.
  intros [HI [_ [_ [_ HE]]]] HS HP H. unfold wl in H.
  inversion H; subst; cbn [do_work wtoks wgrps wdx].
  - (* WLoad *)
    rewrite H2. cbn [is_starting]. rewrite Nat.eqb_refl. cbn [negb].
    destruct (hptr (head (grp g (tgrp (tok g e))))) eqn:Ep; cbn [fst snd];
      (split; [|split; [g_same|split; [discriminate|split; [intros x Hx; now right|reflexivity]]]]).
    + t_one e. split; [reflexivity|now left].
    + t_one e. rewrite H2. split; [reflexivity|right; eexists; now left].
    + t_one e. rewrite H2. split; [reflexivity|right; eexists; now left].
  - (* WCas *)
    rewrite H2. cbn [is_starting]. rewrite Nat.eqb_refl. cbn [negb].
    destruct (head (grp g (tgrp (tok g e)))) as [|l] eqn:Eh; cbn [fst snd].
    + split; [|split; [g_same|split; [discriminate|split; [intros x Hx; now right|reflexivity]]]].
      t_one e. split; [reflexivity|now left].
    + destruct (nxt_eqb nx (hptr (HList l)) && negb sp); cbn [fst snd].
      * split; [|split; [g_same|split; [discriminate|split; [intros x Hx; exact Hx|reflexivity]]]].
        t_one e. exact I.
      * split; [|split; [g_same|split; [discriminate|split; [intros x Hx; now right|reflexivity]]]].
        t_one e. rewrite H2. split; [reflexivity|right; eexists; now left].
  - (* WGrant *)
    rewrite H2. cbn [is_granting]. rewrite Nat.eqb_refl. cbn [negb fst snd].
    assert (X : forall g1, tok g1 = fset (tok g) e (set_st (tok g e) (if tauto (tok g e) then TAuto u else TLive)) ->
              grp g1 = grp g -> ngrp g1 = ngrp g ->
      (forall e0, (tok_same g g1 e0 /\ ~ In e0 [e]) \/ backed_t g1 (if tauto (tok g e) then WRel e :: rest else rest) u e0) /\
      (forall k, (ph_same g g1 k /\ ~ In k []) \/ backed_g g1 (if tauto (tok g e) then WRel e :: rest else rest) u k) /\
      (forall k, None = Some k -> head (grp g1 k) = HSent) /\
      (forall x, In x rest -> In x (if tauto (tok g e) then WRel e :: rest else rest)) /\ ngrp g1 = ngrp g).
    { intros g1 E1 E2 E3. split; [|split; [|split; [discriminate|split; [|exact E3]]]].
      - intros e0. destruct (Nat.eq_dec e0 e) as [->|Hne].
        + right. unfold backed_t. rewrite E1, fset_same. cbn. destruct (tauto (tok g e)); exact I.
        + left. split; [unfold tok_same; rewrite E1, fset_other by exact Hne; split; reflexivity|intros [X|[]]; congruence].
      - intros k0. left. split; [unfold ph_same; rewrite E2; split; reflexivity|intros []].
      - intros x Hx. destruct (tauto (tok g e)); [now right|exact Hx]. }
    destruct (tuse (tok g e)); apply X; reflexivity.
  - (* WRel *)
    rewrite H2. cbn [negb].
    destruct (do_rel_post u g e rest) as [R1 [R2 [R3 [R4 R5]]]].
    split; [|split; [|split; [discriminate|split; [exact R4|exact R5]]]].
    + intros e0. destruct (Nat.eq_dec e0 e) as [->|Hne].
      * right. unfold backed_t. rewrite R2. exact I.
      * left. split; [unfold tok_same; rewrite R1 by exact Hne; split; reflexivity|intros [X|[]]; congruence].
    + intros k0. destruct (R3 k0) as [X|X]; [left; split; [exact X|intros []]|right; exact X].
  - (* WDv *)
    rewrite H2. cbn [Nat.eqb]. rewrite Nat.eqb_refl. cbn [andb negb fst snd].
    split; [t_same|split; [|split; [discriminate|split; [intros x Hx; exact Hx|rewrite ngrp_vdec; reflexivity]]]].
    intros k0. destruct (Nat.eq_dec k0 k) as [->|Hne].
    + right. unfold backed_g. rewrite grp_vdec. cbn. rewrite fset_same. cbn.
      split; [intros _ _; split; [reflexivity|now left]|discriminate].
    + left. split; [unfold ph_same; rewrite grp_vdec; cbn; rewrite fset_other by exact Hne; split; reflexivity
                   |intros [X|[]]; congruence].
  - (* WDn *)
    rewrite H2. cbn [Nat.eqb]. rewrite Nat.eqb_refl. cbn [andb negb].
    destruct (linked (grp g k)) eqn:El; cbn [fst snd].
    + split; [|split; [|split; [discriminate|split; [intros x Hx; right; now right|reflexivity]]]].
      * intros e0. destruct (Nat.eq_dec e0 (ntok g)) as [->|Hne].
        -- right. unfold backed_t. cbn. rewrite fset_same. exact I.
        -- left. split; [unfold tok_same; cbn; rewrite fset_other by exact Hne; split; reflexivity|intros []].
      * intros k0. destruct (Nat.eq_dec k0 k) as [->|Hne].
        -- right. unfold backed_g. cbn. rewrite fset_same. cbn.
           split; [intros _ X; contradiction|intros _ _; right; eexists; now left].
        -- left. split; [unfold ph_same; cbn; rewrite fset_other by exact Hne; split; reflexivity|intros [X|[]]; congruence].
    + split; [t_same|split; [|split; [discriminate|split; [intros x Hx; exact Hx|reflexivity]]]].
      intros k0. destruct (Nat.eq_dec k0 k) as [->|Hne].
      * right. unfold backed_g. cbn. rewrite fset_same. cbn.
        split; [intros _ X; contradiction|]. intros Hs _. exfalso.
        destruct (p3 _ _ HP k Hs) as [X|X]; [congruence|lia].
      * left. split; [unfold ph_same; cbn; rewrite fset_other by exact Hne; split; reflexivity|intros [X|[]]; congruence].
  - (* WDx k (Some e) *)
    rewrite H2. cbn [is_done]. rewrite !Nat.eqb_refl. cbn [andb negb].
    destruct H4 as [l Hl]. rewrite Hl. cbn [fst snd].
    split; [|split; [g_same|split; [|split; [intros x Hx; apply in_or_app; now right|reflexivity]]]].
    + intros e0. destruct (in_dec Nat.eq_dec e0 l) as [Hin|Hin].
      * right. unfold backed_t. cbn. rewrite take_all_spec. destruct (in_dec Nat.eq_dec e0 l); [|contradiction]. cbn.
        split; [reflexivity|]. apply in_or_app. left. apply in_map. exact Hin.
      * left. split; [|intros []]. unfold tok_same. cbn. rewrite take_all_spec.
        destruct (in_dec Nat.eq_dec e0 l); [contradiction|]. split; reflexivity.
    + intros k0 Ek. injection Ek as <-. cbn. rewrite ?fset_same. reflexivity.
  - (* WDx 0 None *)
    cbn [Nat.eqb negb]. destruct H3 as [l Hl]. rewrite Hl. cbn [fst snd].
    split; [|split; [g_same|split; [|split; [intros x Hx; apply in_or_app; now right|reflexivity]]]].
    + intros e0. destruct (in_dec Nat.eq_dec e0 l) as [Hin|Hin].
      * right. unfold backed_t. cbn. rewrite take_all_spec. destruct (in_dec Nat.eq_dec e0 l); [|contradiction]. cbn.
        split; [reflexivity|]. apply in_or_app. left. apply in_map. exact Hin.
      * left. split; [|intros []]. unfold tok_same. cbn. rewrite take_all_spec.
        destruct (in_dec Nat.eq_dec e0 l); [contradiction|]. split; reflexivity.
    + intros k0 Ek. injection Ek as <-. cbn. rewrite ?fset_same. reflexivity.
  - (* WMv *)
    rewrite H2, H3. cbn [orb negb fst snd].
    split; [t_same|split; [g_same|split; [discriminate|split; [intros x Hx; exact Hx|rewrite ngrp_vdec; reflexivity]]]].
Qed.

Lemma cmd_post u g c : GL g ->
  (forall e, tok_same g (fst (do_cmd u g c)) e \/ backed_t (fst (do_cmd u g c)) (snd (do_cmd u g c)) u e) /\
  (forall k, (ph_same g (fst (do_cmd u g c)) k /\ (k < ngrp (fst (do_cmd u g c)) -> k < ngrp g)) \/
             backed_g (fst (do_cmd u g c)) (snd (do_cmd u g c)) u k) /\
  (ngrp g = 0 -> 1 <= ngrp (fst (do_cmd u g c)) -> In (WDx 0 None) (snd (do_cmd u g c))) /\
  (forall p, S p < ngrp (fst (do_cmd u g c)) -> gphase (grp g p) = 3 -> S p < ngrp g) /\
  ngrp g <= ngrp (fst (do_cmd u g c)).
Proof.
  intros [HI [_ [_ [_ HE]]]].
  assert (Hid : forall g' l', tok g' = tok g -> grp g' = grp g -> ngrp g' = ngrp g ->
    (forall e, tok_same g g' e \/ backed_t g' l' u e) /\
    (forall k, (ph_same g g' k /\ (k < ngrp g' -> k < ngrp g)) \/ backed_g g' l' u k) /\
    (ngrp g = 0 -> 1 <= ngrp g' -> In (WDx 0 None) l') /\
    (forall p, S p < ngrp g' -> gphase (grp g p) = 3 -> S p < ngrp g) /\ ngrp g <= ngrp g').
  { intros g' l' E1 E2 E3. unfold tok_same, ph_same. rewrite E1, E2, E3. repeat split; auto; lia. }
  destruct c as [sp|kd|e auto usev|e|e|e|e|]; cbn [do_cmd].
  - apply Hid; reflexivity.
  - destruct (malive g) eqn:Eal; cbn [negb]; [|apply Hid; reflexivity].
    assert (Hjoin : forall k nk, tst nk = TSender ->
      let g' := with_mutex (new_tok (upd_grp g k (set_refs (grp g k) (S (refs (grp g k))))) nk) (mstate g) (mprev g) true (S (nreq g)) in
      (forall e, tok_same g g' e \/ backed_t g' [] u e) /\
      (forall k, (ph_same g g' k /\ (k < ngrp g' -> k < ngrp g)) \/ backed_g g' [] u k) /\
      (ngrp g = 0 -> 1 <= ngrp g' -> In (WDx 0 None) []) /\
      (forall p, S p < ngrp g' -> gphase (grp g p) = 3 -> S p < ngrp g) /\ ngrp g <= ngrp g').
    { intros k nk Hs. cbn. split; [|split; [|split; [lia|split; [auto|lia]]]].
      - intros e0. destruct (Nat.eq_dec e0 (ntok g)) as [->|Hne].
        + right. unfold backed_t. cbn. rewrite fset_same, Hs. exact I.
        + left. unfold tok_same. cbn. rewrite fset_other by exact Hne. split; reflexivity.
      - intros k0. left. split; [|cbn; auto]. unfold ph_same. cbn. fse_goal; cbn; split; reflexivity. }
    assert (Hlink : forall p nk nk2 kd0 mp nr, mstate g = Some p -> tst nk = TSender -> tst nk2 = TTemp u ->
      let g' := with_mutex (new_tok (new_tok (with_ngrp (upd_grp (upd_grp (with_val g (S (vrefs g)) (vfreed g)) p
                   (set_linked (grp g p) true)) (ngrp g) (newg kd0 3)) (S (ngrp g))) nk) nk2) (Some (ngrp g)) mp true nr in
      forall l', (forall e, tok_same g g' e \/ backed_t g' l' u e) /\
      (forall k, (ph_same g g' k /\ (k < ngrp g' -> k < ngrp g)) \/ backed_g g' l' u k) /\
      (ngrp g = 0 -> 1 <= ngrp g' -> In (WDx 0 None) l') /\
      (forall p, S p < ngrp g' -> gphase (grp g p) = 3 -> S p < ngrp g) /\ ngrp g <= ngrp g').
    { intros p nk nk2 kd0 mp nr Ems Hs Hs2 g' l'. subst g'. cbn.
      pose proof (a6 _ _ _ _ _ _ HI p Ems) as Hp.
      split; [|split; [|split; [lia|split; [|lia]]]].
      - intros e0. destruct (Nat.eq_dec e0 (S (ntok g))) as [->|Hne].
        + right. unfold backed_t. cbn. rewrite fset_same, Hs2. exact I.
        + destruct (Nat.eq_dec e0 (ntok g)) as [->|Hne2].
          * right. unfold backed_t. cbn. rewrite fset_other by exact Hne. rewrite fset_same, Hs. exact I.
          * left. unfold tok_same. cbn. rewrite !fset_other by assumption. split; reflexivity.
      - intros k0. destruct (Nat.eq_dec k0 (ngrp g)) as [->|Hne].
        + right. unfold backed_g. cbn. rewrite fset_same. cbn. split; [intros; lia|discriminate].
        + left. split; [|cbn; lia]. unfold ph_same. cbn. rewrite fset_other by exact Hne. fse_goal; cbn; split; reflexivity.
      - intros q Hq Hph. destruct (Nat.eq_dec (S q) (ngrp g)) as [E|Hne]; [|lia]. exfalso.
        assert (q = p) by lia. subst q.
        assert (Hr : 1 <= refs (grp g p)).
        { rewrite (a2 _ _ _ _ _ _ HI p) by lia. rewrite Ems. cbn. rewrite Nat.eqb_refl. cbn. lia. }
        pose proof (a8 _ _ _ _ _ _ HI p ltac:(lia) ltac:(lia)). lia. }
    assert (Hfirst : forall nk kd0 r mp nr, mstate g = None -> tst nk = TSender ->
      let g' := with_mutex (new_tok (with_ngrp (upd_grp (with_val g (S (vrefs g)) (vfreed g)) (ngrp g) (newg kd0 r)) (S (ngrp g))) nk)
                  (Some (ngrp g)) mp true nr in
      (forall e, tok_same g g' e \/ backed_t g' [WDx (ngrp g) None] u e) /\
      (forall k, (ph_same g g' k /\ (k < ngrp g' -> k < ngrp g)) \/ backed_g g' [WDx (ngrp g) None] u k) /\
      (ngrp g = 0 -> 1 <= ngrp g' -> In (WDx 0 None) [WDx (ngrp g) None]) /\
      (forall p, S p < ngrp g' -> gphase (grp g p) = 3 -> S p < ngrp g) /\ ngrp g <= ngrp g').
    { intros nk kd0 r mp nr Ems Hs g'. subst g'. cbn.
      pose proof (a6' _ _ _ _ _ _ HI Ems Eal) as Hn.
      split; [|split; [|split; [intros E _; rewrite E; now left|split; [intros; lia|lia]]]].
      - intros e0. destruct (Nat.eq_dec e0 (ntok g)) as [->|Hne].
        + right. unfold backed_t. cbn. rewrite fset_same, Hs. exact I.
        + left. unfold tok_same. cbn. rewrite fset_other by exact Hne. split; reflexivity.
      - intros k0. destruct (Nat.eq_dec k0 (ngrp g)) as [->|Hne].
        + right. unfold backed_g. cbn. rewrite fset_same. cbn. split; [intros; lia|discriminate].
        + left. split; [|cbn; lia]. unfold ph_same. cbn. rewrite fset_other by exact Hne. split; reflexivity. }
    destruct kd, (mprev g), (mstate g) as [p|] eqn:Ems; cbn [fst snd];
      first [ apply Hjoin; reflexivity | apply (Hlink p); reflexivity | apply Hfirst; reflexivity ].
  - destruct (Nat.ltb e (ntok g) && is_sender (tst (tok g e))); [|apply Hid; reflexivity].
    cbn [fst snd]. split; [|split; [|split; [cbn; lia|split; [cbn; auto|cbn; lia]]]].
    + intros e0. destruct (Nat.eq_dec e0 e) as [->|Hne].
      * right. unfold backed_t. cbn. rewrite fset_same. cbn. split; [reflexivity|left; now left].
      * left. unfold tok_same. cbn. rewrite fset_other by exact Hne. split; reflexivity.
    + intros k0. left. split; [split; reflexivity|cbn; auto].
  - destruct (Nat.ltb e (ntok g) && is_sender (tst (tok g e))); [|apply Hid; reflexivity].
    cbn [fst snd]. split; [|split; [|split; [cbn; lia|split; [cbn; auto|cbn; lia]]]].
    + intros e0. destruct (Nat.eq_dec e0 e) as [->|Hne].
      * right. unfold backed_t. cbn. rewrite fset_same. exact I.
      * left. unfold tok_same. cbn. rewrite fset_other by exact Hne. split; reflexivity.
    + intros k0. left. split; [split; reflexivity|cbn; auto].
  - destruct (Nat.ltb e (ntok g) && kind_eqb (gkind (grp g (tgrp (tok g e)))) KR &&
              (is_sender (tst (tok g e)) || is_live (tst (tok g e)))) eqn:Eg; [|apply Hid; reflexivity].
    apply andb_true_iff in Eg. destruct Eg as [_ Es].
    cbn [fst snd]. split; [|split; [|split; [cbn; lia|split; [cbn; auto|cbn; lia]]]].
    + intros e0. destruct (Nat.eq_dec e0 (ntok g)) as [->|Hne].
      * right. unfold backed_t. cbn. rewrite fset_same. cbn.
        apply orb_true_iff in Es. destruct (tst (tok g e)); try exact I; destruct Es; discriminate.
      * left. unfold tok_same. cbn. rewrite fset_other by exact Hne. split; reflexivity.
    + intros k0. left. split; [|cbn; auto]. unfold ph_same. cbn. fse_goal; cbn; split; reflexivity.
  - destruct (Nat.ltb e (ntok g) && is_live (tst (tok g e))); [|apply Hid; reflexivity].
    destruct (do_rel_post u g e []) as [R1 [R2 [R3 [R4 R5]]]].
    split; [|split; [|split; [rewrite R5; lia|split; [rewrite R5; auto|rewrite R5; lia]]]].
    + intros e0. destruct (Nat.eq_dec e0 e) as [->|Hne].
      * right. unfold backed_t. rewrite R2. exact I.
      * left. unfold tok_same. rewrite R1 by exact Hne. split; reflexivity.
    + intros k0. destruct (R3 k0) as [X|X]; [left; split; [exact X|rewrite R5; auto]|right; exact X].
  - destruct (Nat.ltb e (ntok g) && is_live (tst (tok g e))); apply Hid; reflexivity.
  - destruct (malive g) eqn:Eal; cbn [negb]; [|apply Hid; reflexivity].
    destruct (mstate g) eqn:Ems; cbn [fst snd]; [|apply Hid; reflexivity].
    split; [|split; [|split; [cbn; lia|split; [cbn; auto|cbn; lia]]]].
    + intros e0. destruct (Nat.eq_dec e0 (ntok g)) as [->|Hne].
      * right. unfold backed_t. cbn. rewrite fset_same. exact I.
      * left. unfold tok_same. cbn. rewrite fset_other by exact Hne. split; reflexivity.
    + intros k0. left. split; [split; reflexivity|cbn; auto].
Qed.

(* the converse invariant: every transient owner state, every running destructor and every pending done() is
   backed by a work item *)
Record Conv (g : shared) (ls : nat -> list work) : Prop := {
  c_st : forall e t, tst (tok g e) = TStarting t -> In (WLoad e) (ls t) \/ exists nx, In (WCas e nx) (ls t);
  c_gr : forall e t, tst (tok g e) = TGranting t -> In (WGrant e) (ls t);
  c_dn : forall k, k < ngrp g -> 1 <= gphase (grp g k) -> gphase (grp g k) <> 3 -> In (WDn k) (ls (gown (grp g k)));
  c_dx : forall p, S p < ngrp g -> gphase (grp g p) = 3 ->
           head (grp g (S p)) = HSent \/ exists t e, In (WDx (S p) (Some e)) (ls t);
  c_d0 : 1 <= ngrp g -> head (grp g 0) = HSent \/ exists t, In (WDx 0 None) (ls t)
}.

Lemma Conv_init : Conv rw_init rw_locals.
Proof. constructor; cbn; intros; try discriminate; lia. Qed.

Lemma Conv_step_work sp u g (ls : nat -> list work) w rest : Inv g ls -> Conv g ls -> ls u = w :: rest ->
  Conv (fst (do_work sp u g w rest)) (upd ls u (snd (do_work sp u g w rest))).
Proof.
  intros HInv [C1 C2 C3 C4 C5] El.
  pose proof (i_wl _ _ HInv u) as Hwu. rewrite El in Hwu.
  destruct (work_post sp u g w rest (i_gl _ _ HInv) (i_gs _ _ HInv) (i_gp _ _ HInv) Hwu) as [PT [PG [PH [PK PN]]]].
  set (g' := fst (do_work sp u g w rest)) in *. set (l' := snd (do_work sp u g w rest)) in *.
  assert (Hkeep : forall t x, In x (ls t) -> (t = u -> x <> w) -> In x (upd ls u l' t)).
  { intros t x Hin Hx. unfold upd. destruct (Nat.eqb_spec t u); [subst|exact Hin].
    rewrite El in Hin. destruct Hin as [<-|Hin]; [exfalso; apply Hx; reflexivity|apply PK; exact Hin]. }
  constructor.
  - intros e t E. destruct (PT e) as [[[Hs _] Hn]|B].
    + rewrite Hs in E. destruct (C1 e t E) as [X|[nx X]].
      * left. apply Hkeep; [exact X|]. intros _ Ew. apply Hn. rewrite <- Ew. now left.
      * right. exists nx. apply Hkeep; [exact X|]. intros _ Ew. apply Hn. rewrite <- Ew. now left.
    + unfold backed_t in B. rewrite E in B. destruct B as [-> B]. rewrite upd_same. exact B.
  - intros e t E. destruct (PT e) as [[[Hs _] Hn]|B].
    + rewrite Hs in E. apply Hkeep; [exact (C2 e t E)|]. intros _ Ew. apply Hn. rewrite <- Ew. now left.
    + unfold backed_t in B. rewrite E in B. destruct B as [-> B]. rewrite upd_same. exact B.
  - intros k Hk Hp1 Hp3. rewrite PN in Hk. destruct (PG k) as [[[Hs Ho] Hn]|[B _]].
    + rewrite Hs in Hp1, Hp3. rewrite Ho. apply Hkeep; [exact (C3 k Hk Hp1 Hp3)|]. intros _ Ew. apply Hn. rewrite <- Ew. now left.
    + destruct (B Hp1 Hp3) as [-> X]. rewrite upd_same. exact X.
  - intros p Hp E. destruct (PG p) as [[[Hs _] Hn]|[_ B]].
    + rewrite Hs in E. rewrite PN in Hp. destruct (C4 p Hp E) as [X|[t [e X]]].
      * left. apply sent_work. exact X.
      * destruct (Nat.eq_dec t u) as [->|Hne].
        -- rewrite El in X. destruct X as [Ew|X]; [left; apply PH; rewrite Ew; reflexivity|].
           right. exists u, e. rewrite upd_same. apply PK. exact X.
        -- right. exists t, e. rewrite upd_other by exact Hne. exact X.
    + destruct (B Hp E) as [X|[e X]]; [left; exact X|right; exists u, e; rewrite upd_same; exact X].
  - intros Hn. rewrite PN in Hn. destruct (C5 Hn) as [X|[t X]].
    + left. apply sent_work. exact X.
    + destruct (Nat.eq_dec t u) as [->|Hne].
      * rewrite El in X. destruct X as [Ew|X]; [left; apply PH; rewrite Ew; reflexivity|].
        right. exists u. rewrite upd_same. apply PK. exact X.
      * right. exists t. rewrite upd_other by exact Hne. exact X.
Qed.

Lemma Conv_step_cmd u g (ls : nat -> list work) c : Inv g ls -> Conv g ls -> ls u = [] ->
  Conv (fst (do_cmd u g c)) (upd ls u (snd (do_cmd u g c))).
Proof.
  intros HInv [C1 C2 C3 C4 C5] El.
  destruct (cmd_post u g c (i_gl _ _ HInv)) as [PT [PG [P0 [PS PN]]]].
  set (g' := fst (do_cmd u g c)) in *. set (l' := snd (do_cmd u g c)) in *.
  assert (Hkeep : forall t x, In x (ls t) -> In x (upd ls u l' t)).
  { intros t x Hin. unfold upd. destruct (Nat.eqb_spec t u); [subst; rewrite El in Hin; destruct Hin|exact Hin]. }
  constructor.
  - intros e t E. destruct (PT e) as [[Hs _]|B].
    + rewrite Hs in E. destruct (C1 e t E) as [X|[nx X]]; [left|right; exists nx]; apply Hkeep; exact X.
    + unfold backed_t in B. rewrite E in B. destruct B as [-> B]. rewrite upd_same. exact B.
  - intros e t E. destruct (PT e) as [[Hs _]|B].
    + rewrite Hs in E. apply Hkeep. exact (C2 e t E).
    + unfold backed_t in B. rewrite E in B. destruct B as [-> B]. rewrite upd_same. exact B.
  - intros k Hk Hp1 Hp3. destruct (PG k) as [[[Hs Ho] Hlt]|[B _]].
    + rewrite Hs in Hp1, Hp3. rewrite Ho. apply Hkeep. exact (C3 k (Hlt Hk) Hp1 Hp3).
    + destruct (B Hp1 Hp3) as [-> X]. rewrite upd_same. exact X.
  - intros p Hp E. destruct (PG p) as [[[Hs _] Hlt]|[_ B]].
    + rewrite Hs in E. pose proof (PS p Hp E) as Hp'. destruct (C4 p Hp' E) as [X|[t [e X]]].
      * left. apply sent_cmd; [exact Hp'|exact X].
      * right. exists t, e. apply Hkeep. exact X.
    + destruct (B Hp E) as [X|[e X]]; [left; exact X|right; exists u, e; rewrite upd_same; exact X].
  - intros Hn. destruct (Nat.eq_dec (ngrp g) 0) as [E0|E0].
    + right. exists u. rewrite upd_same. apply P0; assumption.
    + destruct (C5 ltac:(lia)) as [X|[t X]].
      * left. apply sent_cmd; [lia|exact X].
      * right. exists t. apply Hkeep. exact X.
Qed.

Definition Inv2 (g : shared) (ls : nat -> list work) : Prop := Inv g ls /\ Conv g ls.

Lemma Inv2_step g ls u c : Inv2 g ls -> contract_ok (g, ls) (u, c) ->
  Inv2 (fst (rw_tstep c u g (ls u))) (upd ls u (snd (rw_tstep c u g (ls u)))).
Proof.
  intros [HInv HC] Hc. split; [apply Inv_step; assumption|].
  destruct (ls u) as [|w rest] eqn:El; cbn [rw_tstep].
  - apply Conv_step_cmd; assumption.
  - apply Conv_step_work; assumption.
Qed.

Theorem Inv2_run sched : forall c, Inv2 (fst c) (snd c) -> contract_from c sched ->
  Inv2 (fst (run rw_tstep sched c)) (snd (run rw_tstep sched c)).
Proof.
  induction sched as [|[u o] s IH]; intros [g ls] H Hc; [exact H|].
  destruct Hc as [Hc1 Hc2]. rewrite run_cons. apply IH; [|exact Hc2].
  pose proof (Inv2_step g ls u o H Hc1) as X. cbn [step fst snd].
  destruct (rw_tstep o u g (ls u)) as [g' l']. exact X.
Qed.

(* rw_progress: in a reachable state (contract-respecting schedule) in which every thread is idle, every started
   access whose predecessor shared states have all been released (count 0) has been granted *)
Theorem rw_progress sched : contract_from (rw_init, rw_locals) sched ->
  let g := fst (rw_run sched) in let ls := snd (rw_run sched) in
  (forall t, ls t = []) ->
  forall e, tstarted (tok g e) = true -> (forall j, j < tgrp (tok g e) -> refs (grp g j) = 0) ->
  In e (grant_toks (elog g)).
Proof.
  intros Hc g ls Hidle e Hst Hrel.
  assert (H2 : Inv2 g ls) by (apply (Inv2_run sched (rw_init, rw_locals)); [split; [exact Inv_init|exact Conv_init]|exact Hc]).
  destruct H2 as [HInv [C1 C2 C3 C4 C5]].
  destruct (i_gl _ _ HInv) as [HI [_ [HB _]]]. pose proof (i_gp _ _ HInv) as HP.
  destruct (GIQ_run sched) as [_ HQ]. fold g in HQ.
  destruct (b4 _ _ _ HB e Hst) as [Hp|Hg]; [exfalso|exact Hg].
  destruct (tst (tok g e)) eqn:Es; try discriminate.
  - destruct (C1 e t Es) as [X|[nx X]]; rewrite Hidle in X; destruct X.
  - destruct (HQ e Es) as [l [Hl Hin]].
    assert (Hk : tgrp (tok g e) < ngrp g) by (apply (a1 _ _ _ _ _ _ HI); rewrite Es; reflexivity).
    destruct (tgrp (tok g e)) as [|p] eqn:Ek.
    + destruct (C5 ltac:(lia)) as [X|[t X]]; [congruence|rewrite Hidle in X; destruct X].
    + pose proof (Hrel p ltac:(lia)) as Hr0.
      pose proof (p2 _ _ HP p ltac:(lia) Hr0) as Hph.
      destruct (Nat.eq_dec (gphase (grp g p)) 3) as [E3|E3].
      * destruct (C4 p Hk E3) as [X|[t [e' X]]]; [congruence|rewrite Hidle in X; destruct X].
      * pose proof (C3 p ltac:(lia) Hph E3) as X. rewrite Hidle in X. destruct X.
  - pose proof (C2 e t Es) as X. rewrite Hidle in X. destruct X.
Qed.

(* ---- a schedule recorded by the lock-step harness (harness/c04_rw.cpp), in the harness's own vocabulary:
   accesses are numbered in the order of the request / copy commands; the driver (ocaml/drv_c04.ml) maps an
   access to the token allocated by that command *)
Inductive hop := Hq (kd : kind) | Hs (a : nat) | Ht (a : nat) | HD (a : nat) | Ho (a : nat) | Hc (a : nat)
               | Hr (a : nat) | Hu (a : nat) | Hx | Hdot.
Fixpoint hflat (fuel : nat) (c : shared * (nat -> list work)) (accs : list nat) (ents : list (nat * hop))
  : list (nat * cmd) :=
  match ents with
  | [] => []
  | (t, op) :: s =>
      let tokof a := nth a accs (ntok (fst c)) in
      let cm := match op with
                | Hq kd => CReq kd | Hs a => CStart (tokof a) false false | Ht a => CStart (tokof a) true true
                | HD a => CStart (tokof a) true false | Ho a => CDropOp (tokof a) | Hc a => CCopy (tokof a)
                | Hr a => CRelease (tokof a) | Hu a => CUse (tokof a) | Hx => CDestroy | Hdot => CStep false
                end in
      let accs' := match op with Hq _ | Hc _ => accs ++ [ntok (fst c)] | _ => accs end in
      let c1 := step rw_tstep c (t, cm) in
      let tl := seg_tail fuel t c1 in
      (t, cm) :: tl ++ hflat fuel (run rw_tstep tl c1) accs' s
  end.

(* `c04_rw 1 1 0 12`, case 0 (mode T, 4 threads):
   0:qW,0:.,2:s0,3:qR,2:.,1:D1,1:.,3:qR,1:.,1:qR,2:.,1:s3,1:.,1:.,3:s2,3:.,1:r0,1:.,2:x,1:.,1:.,2:u3,3:.,3:.,2:u2,0:r2,1:r3 *)
Definition harness_case_1_0 : list (nat * hop) :=
  [(0, Hq KW); (0, Hdot); (2, Hs 0); (3, Hq KR); (2, Hdot); (1, HD 1); (1, Hdot); (3, Hq KR); (1, Hdot); (1, Hq KR);
   (2, Hdot); (1, Hs 3); (1, Hdot); (1, Hdot); (3, Hs 2); (3, Hdot); (1, Hr 0); (1, Hdot); (2, Hx); (1, Hdot);
   (1, Hdot); (2, Hu 3); (3, Hdot); (3, Hdot); (2, Hu 2); (0, Hr 2); (1, Hr 3)].
(* `c04_rw 1 3 2 12`, case 2 (mode T, 4 threads; copies, interleaved requests of four threads):
   2:qR,2:.,2:D0,1:qW,2:.,3:qR,2:.,0:c2,3:t2,2:.,3:.,3:.,1:s3,3:s1,0:qR,1:.,3:.,2:qW,2:s4,1:.,1:s5,2:.,1:.,0:x,1:.,3:.,3:r1,
   3:.,2:.,2:.,0:c4,2:c4,3:.,0:r3,3:.,1:r7,3:r6,0:r4,0:.,0:.,0:r5 *)
Definition harness_case_1_2 : list (nat * hop) :=
  [(2, Hq KR); (2, Hdot); (2, HD 0); (1, Hq KW); (2, Hdot); (3, Hq KR); (2, Hdot); (0, Hc 2); (3, Ht 2); (2, Hdot);
   (3, Hdot); (3, Hdot); (1, Hs 3); (3, Hs 1); (0, Hq KR); (1, Hdot); (3, Hdot); (2, Hq KW); (2, Hs 4); (1, Hdot);
   (1, Hs 5); (2, Hdot); (1, Hdot); (0, Hx); (1, Hdot); (3, Hdot); (3, Hr 1); (3, Hdot); (2, Hdot); (2, Hdot);
   (0, Hc 4); (2, Hc 4); (3, Hdot); (0, Hr 3); (3, Hdot); (1, Hr 7); (3, Hr 6); (0, Hr 4); (0, Hdot); (0, Hdot); (0, Hr 5)].

Lemma harness_cases_contract :
  let s0 := hflat 1000 (rw_init, rw_locals) [] harness_case_1_0 in
  let s2 := hflat 1000 (rw_init, rw_locals) [] harness_case_1_2 in
  (harness_from None (rw_init, rw_locals) s0 = true /\ contract_from (rw_init, rw_locals) s0 /\
   bad (fst (rw_run s0)) = false /\ length s0 = 36 /\ (forall t, t < 4 -> snd (rw_run s0) t = []) /\
   grant_toks (elog (fst (rw_run s0))) = [3; 1; 4; 0]) /\
  (harness_from None (rw_init, rw_locals) s2 = true /\ contract_from (rw_init, rw_locals) s2 /\
   bad (fst (rw_run s2)) = false).
Proof.
  intros s0 s2.
  assert (H0 : harness_from None (rw_init, rw_locals) s0 = true) by (vm_compute; reflexivity).
  assert (H2 : harness_from None (rw_init, rw_locals) s2 = true) by (vm_compute; reflexivity).
  pose proof (rw_harness_contract _ H0) as C0. pose proof (rw_harness_contract _ H2) as C2.
  split; [split; [exact H0|split; [exact C0|split; [exact (rw_no_bad_guarded _ C0)|]]]
         |split; [exact H2|split; [exact C2|exact (rw_no_bad_guarded _ C2)]]].
  split; [vm_compute; reflexivity|]. split; [|vm_compute; reflexivity].
  intros t Ht. destruct t as [|[|[|[|t]]]]; try lia; vm_compute; reflexivity.
Qed.

Theorem rw_worklist_complete sched : contract_from (rw_init, rw_locals) sched ->
  let g := fst (rw_run sched) in let ls := snd (rw_run sched) in
  (forall e t, tst (tok g e) = TStarting t -> In (WLoad e) (ls t) \/ exists nx, In (WCas e nx) (ls t)) /\
  (forall e t, tst (tok g e) = TGranting t -> In (WGrant e) (ls t)) /\
  (forall k, k < ngrp g -> 1 <= gphase (grp g k) -> gphase (grp g k) <> 3 -> In (WDn k) (ls (gown (grp g k)))) /\
  (forall p, S p < ngrp g -> gphase (grp g p) = 3 ->
     head (grp g (S p)) = HSent \/ exists t e, In (WDx (S p) (Some e)) (ls t)) /\
  (1 <= ngrp g -> head (grp g 0) = HSent \/ exists t, In (WDx 0 None) (ls t)).
Proof.
  intros Hc g ls.
  assert (H2 : Inv2 g ls) by (apply (Inv2_run sched (rw_init, rw_locals)); [split; [exact Inv_init|exact Conv_init]|exact Hc]).
  destruct H2 as [_ [C1 C2 C3 C4 C5]]. auto.
Qed.

(* ---- the hypothesis of rw_progress in terms of references: with every thread idle, "no live reference (sender,
   operation state, wrapper) to an earlier shared state" implies that the earlier shared states have count 0 *)
Lemma idle_released g ls : Inv2 g ls -> (forall t, ls t = []) -> forall k, k < ngrp g ->
  (forall e', alive (tst (tok g e')) = true -> k <= tgrp (tok g e')) ->
  forall j, j < k -> refs (grp g j) = 0.
Proof.
  intros [HInv [_ _ C3 _ _]] Hidle k Hk Hno.
  destruct (i_gl _ _ HInv) as [HI _]. pose proof (i_gp _ _ HInv) as HP.
  assert (Hbase : forall j, j < k -> refs (grp g j) = b2n (lk (grp g) j)).
  { intros j Hj. rewrite (a2 _ _ _ _ _ _ HI j) by lia.
    rewrite cnt_false.
    - destruct (mstate g) as [m|] eqn:Ems; cbn [ms_is b2n]; [|reflexivity].
      pose proof (a6 _ _ _ _ _ _ HI m Ems). destruct (Nat.eqb_spec m j); [lia|reflexivity].
    - intros i _. unfold holdsf. destruct (alive (tst (tok g i))) eqn:Ea; [|apply andb_false_r].
      pose proof (Hno i Ea). destruct (Nat.eqb_spec (tgrp (tok g i)) j); [lia|reflexivity]. }
  induction j as [|q IH]; intros Hj; rewrite (Hbase _ Hj); [reflexivity|].
  cbn [lk]. specialize (IH ltac:(lia)).
  pose proof (p2 _ _ HP q ltac:(lia) IH) as Hph.
  destruct (Nat.eq_dec (gphase (grp g q)) 3) as [E3|E3]; [rewrite (p4 _ _ HP q E3); reflexivity|].
  pose proof (C3 q ltac:(lia) Hph E3) as X. rewrite Hidle in X. destruct X.
Qed.

Theorem rw_progress_refs sched : contract_from (rw_init, rw_locals) sched ->
  let g := fst (rw_run sched) in let ls := snd (rw_run sched) in
  (forall t, ls t = []) ->
  forall e, tstarted (tok g e) = true -> (forall e', alive (tst (tok g e')) = true -> tgrp (tok g e) <= tgrp (tok g e')) ->
  In e (grant_toks (elog g)).
Proof.
  intros Hc g ls Hidle e Hst Hno.
  assert (H2 : Inv2 g ls) by (apply (Inv2_run sched (rw_init, rw_locals)); [split; [exact Inv_init|exact Conv_init]|exact Hc]).
  pose proof H2 as [HInv _]. destruct (i_gl _ _ HInv) as [HI [_ [HB _]]].
  destruct (b4 _ _ _ HB e Hst) as [Hp|Hg]; [|exact Hg].
  assert (Ha : alive (tst (tok g e)) = true) by (destruct (tst (tok g e)); try discriminate; reflexivity).
  apply (rw_progress sched Hc Hidle e Hst).
  apply (idle_released g ls H2 Hidle _ (a1 _ _ _ _ _ _ HI e Ha) Hno).
Qed.
