(* Proofs/SuspendResumeYieldProofs.v — C19: yielding tasks leave a processing unit that is being suspended. *)
From Coq Require Import List Arith Bool NArith Lia.
From Pika Require Import Gen.GenRuntimeState Model.SuspendResumeYield.
Import ListNotations.

(* every state the fallback walk accepts is one in which the scheduling loop computes running = true:
   a unit on its way to sleep (pre_sleep, sleeping) or beyond is never accepted *)
Lemma fallback_accepts_only_running_lemma s : fb_accepts s = true -> rs_lt s g_running_below = true.
Proof. destruct s; vm_compute; congruence. Qed.

Lemma fallback_accepts_active_lemma : fb_accepts g_wake_to = true /\ fb_accepts g_sus_from = true.
Proof. split; reflexivity. Qed.

Lemma fallback_rejects_requested_lemma : fb_accepts g_sus_to = false /\ fb_accepts g_sleep_store = false.
Proof. split; reflexivity. Qed.

Lemma fb_walk_avail n g w : forall fuel off,
  (exists k, off <= k < off + fuel /\ fb_avail g ((w + k) mod n) = true) ->
  fb_avail g (fb_walk n g w off fuel) = true.
Proof.
  induction fuel as [|f IH]; intros off (k & Hk & Ha); [lia|].
  cbn [fb_walk]. destruct (fb_avail g ((w + off) mod n)) eqn:E; [exact E|].
  apply IH. exists k. split; [|exact Ha].
  destruct (Nat.eq_dec k off) as [->|]; [congruence|lia].
Qed.

Lemma fb_walk_range n g w : 0 < n -> w < n -> forall fuel off, fb_walk n g w off fuel < n.
Proof.
  intros Hn Hw. induction fuel as [|f IH]; intros off; cbn [fb_walk]; [exact Hw|].
  destruct (fb_avail g ((w + off) mod n)); [apply Nat.mod_upper_bound; lia|apply IH].
Qed.

Lemma reach n v w : 0 < n -> v < n -> w < n -> (w + (v + n - w) mod n) mod n = v.
Proof.
  intros Hn Hv Hw. rewrite Nat.add_mod_idemp_r by lia.
  replace (w + (v + n - w)) with (v + 1 * n) by lia.
  rewrite Nat.mod_add by lia. apply Nat.mod_small; lia.
Qed.

(* the unit that is being suspended is chosen only if no other unit is available *)
Lemma select_fb_other n g w v :
  0 < n -> w < n -> v < n -> yst g w = g_sus_to ->
  ylock g v = false -> yst g v = g_wake_to ->
  let u := select_fb n g w in u <> w /\ u < n /\ fb_avail g u = true.
Proof.
  intros Hn Hw Hv Sw Lv Sv u.
  assert (A : fb_avail g u = true).
  { apply fb_walk_avail. exists ((v + n - w) mod n). split.
    - pose proof (Nat.mod_upper_bound (v + n - w) n). lia.
    - rewrite reach by assumption. unfold fb_avail. rewrite Lv, Sv. reflexivity. }
  split; [|split; [apply fb_walk_range; assumption|exact A]].
  intros E. rewrite E in A. unfold fb_avail in A. rewrite Sw in A.
  destruct (proj1 fallback_rejects_requested_lemma). rewrite andb_false_r in A. discriminate.
Qed.

Lemma yupd_same {A} (f : nat -> A) i x : yupd f i x i = x.
Proof. unfold yupd. now rewrite Nat.eqb_refl. Qed.
Lemma yupd_other {A} (f : nat -> A) i x j : j <> i -> yupd f i x j = f j.
Proof. intros H. unfold yupd. destruct (Nat.eqb_spec j i); congruence. Qed.

Lemma yield_iter_step n g w v a rest :
  yhyp n g w v -> yq g w = a :: rest ->
  let g' := yield_iter n g w in
  yhyp n g' w v /\ yq g' w = rest /\
  exists u, u <> w /\ u < n /\ yq g' u = yq g u ++ [a] /\ forall x, x <> w -> x <> u -> yq g' x = yq g x.
Proof.
  intros (Hn & Hw & Hv & Sw & Lv & Sv) Q g'. subst g'. unfold yield_iter. rewrite Q.
  set (g1 := {| yst := yst g; ylock := ylock g; yq := yupd (yq g) w rest |}).
  destruct (select_fb_other n g1 w v Hn Hw Hv Sw Lv Sv) as (U1 & U2 & _).
  set (u := select_fb n g1 w) in *.
  split; [repeat split; assumption|].
  cbn [yq]. split.
  - rewrite yupd_other by congruence. apply yupd_same.
  - exists u. repeat split; try assumption.
    + rewrite yupd_same. subst g1. cbn [yq]. now rewrite yupd_other by assumption.
    + intros x X1 X2. rewrite yupd_other by assumption. subst g1. cbn [yq]. now rewrite yupd_other by assumption.
Qed.

(* after as many iterations as there were tasks, the queue of the unit that is being suspended is empty, the unit may
   sleep, and every task sits in the queue of another worker; nothing that was in another queue left it *)
Lemma yielding_tasks_leave_lemma n w v : forall l g,
  yhyp n g w v -> yq g w = l ->
  let g' := yield_iters (length l) n g w in
  yq g' w = [] /\ y_can_sleep g' w = true /\
  (forall a, In a l -> exists u, u <> w /\ u < n /\ In a (yq g' u)) /\
  (forall x a, x <> w -> In a (yq g x) -> In a (yq g' x)).
Proof.
  induction l as [|a rest IH]; intros g H Q.
  - cbn. destruct H as (_ & _ & _ & Sw & _). repeat split.
    + exact Q.
    + unfold y_can_sleep. rewrite Sw, Q. reflexivity.
    + intros a [].
    + auto.
  - cbn [length yield_iters].
    destruct (yield_iter_step n g w v a rest H Q) as (H' & Q' & u & U1 & U2 & U3 & U4).
    destruct (IH (yield_iter n g w) H' Q') as (E & S & M & K).
    split; [exact E|]. split; [exact S|]. split.
    + intros b [->|B].
      * exists u. repeat split; try assumption. apply K; [assumption|]. rewrite U3. apply in_or_app. right. now left.
      * apply M, B.
    + intros x b X B. apply K; [assumption|].
      destruct (Nat.eq_dec x u) as [->|X2]; [rewrite U3; apply in_or_app; now left|now rewrite U4].
Qed.
