(* Proofs/BulkExitLog.v — C11: the ghost logs of returns and throws are consistent in every reachable state:
   a call of f that has returned for a throwing index is recorded as thrown (so, with
   [bulk_error_iff_thrown], a throw that has happened can never be followed by a value completion). *)
From Coq Require Import List NArith Lia Bool Arith.
From Pika Require Import Base.Conc Model.IndexQueue Model.Bulk.
Import ListNotations.
Local Open Scope N_scope.

Definition exit_log_ok (cf : cfg) (g : bshared) : Prop :=
  forall x, In x (exits g) -> cthrows cf x = true -> In x (thrown g).

Lemma bstep_exit_log cf o t g l :
  let g' := fst (bstep cf o t g l) in
  (exits g' = exits g /\ thrown g' = thrown g) \/
  (exists i, exits g' = i :: exits g /\ thrown g' = (if cthrows cf i then i :: thrown g else thrown g)).
Proof.
  cbn zeta. destruct l; cbn [bstep].
  - destruct (spawned g t); left; split; reflexivity.
  - destruct (cn cf =? 0); [left; split; reflexivity|].
    destruct (get_chunk_size _ _); left; split; reflexivity.
  - destruct (_ <=? _)%nat; [left; split; reflexivity|].
    destruct (Nat.eqb _ _); [left; split; reflexivity|].
    destruct (range_empty _); left; split; reflexivity.
  - destruct (pop_step _ _ _ _ _) as [qs' r]. destruct r as [p'|[idx|]]; left; split; reflexivity.
  - destruct (i <? e); left; split; reflexivity.
  - right. exists i. cbn [fst exits thrown]. split; reflexivity.
  - left; split; reflexivity.
  - left; split; reflexivity.
  - left; split; reflexivity.
  - left; split; reflexivity.
  - left; split; reflexivity.
Qed.

Lemma exit_log_step cf o t g l : exit_log_ok cf g -> exit_log_ok cf (fst (bstep cf o t g l)).
Proof.
  intros H. destruct (bstep_exit_log cf o t g l) as [[E1 E2]|[i [E1 E2]]]; unfold exit_log_ok; rewrite E1, E2.
  - exact H.
  - intros x [<-|Hx] Hthr.
    + rewrite Hthr. now left.
    + destruct (cthrows cf i); [right|]; now apply H.
Qed.

Lemma exit_log_run cf sched : exit_log_ok cf (fst (brun cf sched)).
Proof.
  unfold brun. apply (run_ginv _ _ _ (bstep cf) (exit_log_ok cf)).
  - intros o t g l. apply exit_log_step.
  - intros x Hx. cbn in Hx. destruct Hx.
Qed.

From Pika Require Import Proofs.IndexQueueProofs Proofs.BulkArith Proofs.BulkProofs.

(* once a call of f for a throwing index has returned, every completion is an error — never a value *)
Lemma returned_throw_means_error cf sched : guard cf ->
  let g := fst (brun cf sched) in
  forall x, In x (exits g) -> cthrows cf x = true ->
  In x (thrown g) /\ forall s, In s (sigs g) -> exists y, sg s = SError (Some y).
Proof.
  intros Hg g x Hx Hthr.
  assert (Hin : In x (thrown g)) by (apply (exit_log_run cf sched x Hx Hthr)).
  split; [exact Hin|]. intros s Hs.
  destruct (bulk_error_iff_thrown cf sched Hg s Hs) as [_ [H2 _]].
  apply H2. intros E. fold g in E. rewrite E in Hin. destruct Hin.
Qed.
