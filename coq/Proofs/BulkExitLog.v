(* Proofs/BulkExitLog.v — C11: the ghost logs of returns and throws are consistent in every reachable state:
   a call of f that has returned for a throwing index is recorded as thrown (so, with
   [bulk_error_iff_thrown], a throw that has happened can never be followed by a value completion). *)
From Coq Require Import List NArith Lia Bool Arith.
From Pika Require Import Base.Conc Model.IndexQueue Model.Bulk.
Import ListNotations.
Local Open Scope N_scope.

Definition exit_log_ok (cf : cfg) (g : bshared) : Prop :=
  forall x, In x (exits g) -> cthrows cf x = true -> In x (thrown g).

Lemma bstep_exit_log cf o t g l :
  let g' := fst (bstep cf o t g l) in
  (exits g' = exits g /\ thrown g' = thrown g) \/
  (exists i, exits g' = i :: exits g /\ thrown g' = (if cthrows cf i then i :: thrown g else thrown g)).
Proof.
  cbn zeta. destruct l; cbn [bstep].
  - destruct (spawned g t); left; split; reflexivity.
  - destruct (cn cf =? 0); [left; split; reflexivity|].
    destruct (get_chunk_size _ _); left; split; reflexivity.
  - destruct (_ <=? _)%nat; [left; split; reflexivity|].
    destruct (Nat.eqb _ _); [left; split; reflexivity|].
    destruct (range_empty _); left; split; reflexivity.
  - destruct (pop_step _ _ _ _ _) as [qs' r]. destruct r as [p'|[idx|]]; left; split; reflexivity.
  - destruct (i <? e); left; split; reflexivity.
  - right. exists i. cbn [fst exits thrown]. split; reflexivity.
  - left; split; reflexivity.
  - left; split; reflexivity.
  - left; split; reflexivity.
  - left; split; reflexivity.
  - left; split; reflexivity.
Qed.

Lemma exit_log_step cf o t g l : exit_log_ok cf g -> exit_log_ok cf (fst (bstep cf o t g l)).
Proof.
  intros H. destruct (bstep_exit_log cf o t g l) as [[E1 E2]|[i [E1 E2]]]; unfold exit_log_ok; rewrite E1, E2.
  - exact H.
  - intros x [<-|Hx] Hthr.
    + rewrite Hthr. now left.
    + destruct (cthrows cf i); [right|]; now apply H.
Qed.

Lemma exit_log_run cf sched : exit_log_ok cf (fst (brun cf sched)).
Proof.
  unfold brun. apply (run_ginv _ _ _ (bstep cf) (exit_log_ok cf)).
  - intros o t g l. apply exit_log_step.
  - intros x Hx. cbn in Hx. destruct Hx.
Qed.

From Pika Require Import Proofs.IndexQueueProofs Proofs.BulkArith Proofs.BulkProofs.

(* once a call of f for a throwing index has returned, every completion is an error — never a value *)
Lemma returned_throw_means_error cf sched : guard cf ->
  let g := fst (brun cf sched) in
  forall x, In x (exits g) -> cthrows cf x = true ->
  In x (thrown g) /\ forall s, In s (sigs g) -> exists y, sg s = SError (Some y).
Proof.
  intros Hg g x Hx Hthr.
  assert (Hin : In x (thrown g)) by (apply (exit_log_run cf sched x Hx Hthr)).
  split; [exact Hin|]. intros s Hs.
  destruct (bulk_error_iff_thrown cf sched Hg s Hs) as [_ [H2 _]].
  apply H2. intros E. fold g in E. rewrite E in Hin. destruct Hin.
Qed.

(* ---- a call returns only if it was entered: the exit log is contained in the call log, and a thread
   inside f(i) has i in the call log — every reachable state, no guard needed *)
Local Close Scope N_scope. Local Open Scope N_scope.
Definition in_call (l : bpc) : option N := match l with BCall _ _ i _ => Some i | _ => None end.

Definition ExitInv (g : bshared) (ls : nat -> bpc) : Prop :=
  (forall x, In x (exits g) -> called g x) /\
  (forall t i, in_call (ls t) = Some i -> called g i).

(* every step keeps the call log or extends it at the head *)
Lemma bstep_calls cf o t g l :
  let g' := fst (bstep cf o t g l) in
  calls g' = calls g \/ exists i v, calls g' = (i, v) :: calls g.
Proof.
  cbn zeta. destruct l; cbn [bstep].
  - destruct (spawned g t); left; reflexivity.
  - destruct (cn cf =? 0); [left; reflexivity|]. destruct (get_chunk_size _ _); left; reflexivity.
  - destruct (_ <=? _)%nat; [left; reflexivity|]. destruct (Nat.eqb _ _); [left; reflexivity|].
    destruct (range_empty _); left; reflexivity.
  - destruct (pop_step _ _ _ _ _) as [qs' r]. destruct r as [p'|[idx|]]; left; reflexivity.
  - destruct (i <? e); [right; eexists; eexists; reflexivity|left; reflexivity].
  - left; reflexivity.
  - left; reflexivity.
  - left; reflexivity.
  - left; reflexivity.
  - left; reflexivity.
  - left; reflexivity.
Qed.

Lemma called_mono cf o t g l x : called g x -> called (fst (bstep cf o t g l)) x.
Proof.
  unfold called. destruct (bstep_calls cf o t g l) as [E|[i [v E]]]; rewrite E; [auto|]. cbn [map fst]. intros H. now right.
Qed.

Lemma bstep_exits cf o t g l :
  exits (fst (bstep cf o t g l)) = match in_call l with Some i => i :: exits g | None => exits g end.
Proof.
  destruct l; cbn [bstep in_call].
  - destruct (spawned g t); reflexivity.
  - destruct (cn cf =? 0); [reflexivity|]. destruct (get_chunk_size _ _); reflexivity.
  - destruct (_ <=? _)%nat; [reflexivity|]. destruct (Nat.eqb _ _); [reflexivity|].
    destruct (range_empty _); reflexivity.
  - destruct (pop_step _ _ _ _ _) as [qs' r]. destruct r as [p'|[idx|]]; reflexivity.
  - destruct (i <? e); reflexivity.
  - reflexivity.
  - reflexivity.
  - reflexivity.
  - reflexivity.
  - reflexivity.
  - reflexivity.
Qed.

Lemma bstep_in_call cf o t g l i :
  in_call (snd (bstep cf o t g l)) = Some i -> called (fst (bstep cf o t g l)) i.
Proof.
  unfold called. destruct l; cbn [bstep].
  - destruct (spawned g t); discriminate.
  - destruct (cn cf =? 0); [discriminate|]. destruct (get_chunk_size _ _); discriminate.
  - destruct (_ <=? _)%nat; [discriminate|]. destruct (Nat.eqb _ _); [discriminate|].
    destruct (range_empty _); discriminate.
  - destruct (pop_step _ _ _ _ _) as [qs' r]. destruct r as [p'|[idx|]]; cbn [snd in_call]; try discriminate.
    destruct (_ <? _)%nat; discriminate.
  - destruct (i0 <? e); cbn [fst snd in_call calls map]; [|discriminate].
    intros H. injection H as <-. now left.
  - cbn [snd]. destruct (cthrows cf i0); discriminate.
  - cbn [snd]. destruct (exc_flag g); discriminate.
  - discriminate.
  - cbn [snd]. destruct (_ =? 0); [discriminate|]. destruct k; discriminate.
  - cbn [snd]. destruct k; discriminate.
  - discriminate.
Qed.

Lemma exit_inv_step cf : forall o t g ls, ExitInv g ls ->
  ExitInv (fst (bstep cf o t g (ls t))) (upd ls t (snd (bstep cf o t g (ls t)))).
Proof.
  intros o t g ls [H1 H2]. split.
  - intros x. rewrite bstep_exits. destruct (in_call (ls t)) as [i|] eqn:Ei.
    + intros [<-|Hx]; apply called_mono; [now apply (H2 t)|now apply H1].
    + intros Hx. apply called_mono. now apply H1.
  - intros t' i. destruct (Nat.eq_dec t' t) as [->|Hne].
    + rewrite upd_same. apply bstep_in_call.
    + rewrite upd_other by exact Hne. intros Hc. apply called_mono. now apply (H2 t').
Qed.

Lemma exit_inv_run cf sched : ExitInv (fst (brun cf sched)) (snd (brun cf sched)).
Proof.
  unfold brun. apply (run_inv _ _ _ (bstep cf) ExitInv (exit_inv_step cf)).
  split.
  - intros x Hx. cbn in Hx. destruct Hx.
  - intros t i. unfold binit, binit_locals. cbn [snd fst]. destruct (Nat.eqb t (clocal cf)); cbn [in_call]; intros H; discriminate H.
Qed.
