(* Proofs/MutexProofs.v — C06: invariants of the spinlock, the recursive mutex and pika::mutex
   models (Model/Mutex.v) over arbitrary thread counts, programs and schedules. *)
From Coq Require Import List NArith Bool Arith Lia.
From Pika Require Import Base.Conc Base.Agent Model.Mutex.
Import ListNotations.

Ltac upd_cases t' t :=
  let Hne := fresh "Hne" in
  destruct (Nat.eq_dec t' t) as [->|Hne];
  [rewrite ?upd_same in * | rewrite ?(upd_other _ _ _ _ _ Hne) in *].

(* ------------------------------------------------------------------------------------------ *)
(* spinlock *)
Definition sl_inv (g : sl_shared) (ls : locals sl_local) : Prop :=
  (slv g = false -> slholder g = None) /\ forall t, sl_held (ls t) = true -> slholder g = Some t.

Lemma sl_inv_step : forall o t g (ls : locals sl_local), sl_inv g ls ->
  sl_inv (fst (sl_tstep o t g (ls t))) (upd ls t (snd (sl_tstep o t g (ls t)))).
Proof.
  intros o t g ls [H1 H2]. unfold sl_tstep.
  pose proof (H2 t) as H2t.
  destruct (ls t) as [td p h] eqn:E. cbn [sl_pcv sl_todo sl_held] in *.
  destruct p; [destruct td as [|[] rest]|]; try destruct (slv g) eqn:Ev; try destruct h eqn:Eh;
    cbn [fst snd];
    (split; [cbn; intros Hv; try discriminate Hv; try congruence; auto
            | intros t' Ht'; upd_cases t' t; rewrite ?E in *; cbn in *]);
    try discriminate; try congruence; auto.
  all: try (specialize (H2 _ Ht'); specialize (H1 eq_refl); congruence).
  all: try (specialize (H2 _ Ht'); specialize (H2t eq_refl); congruence).
Qed.

Lemma sl_inv_init progs : sl_inv sl_init (sl_locals progs).
Proof. split; [reflexivity|]. intros t H. discriminate H. Qed.

Lemma sl_exclusion : forall progs sched t1 t2,
  let c := sl_run sched progs in
  sl_held (snd c t1) = true -> sl_held (snd c t2) = true -> t1 = t2.
Proof.
  intros progs sched t1 t2 c H1 H2.
  assert (I : sl_inv (fst c) (snd c)).
  { unfold c, sl_run. apply (run_inv _ _ _ sl_tstep sl_inv sl_inv_step). apply sl_inv_init. }
  destruct I as [_ I]. pose proof (I _ H1). pose proof (I _ H2). congruence.
Qed.

(* the flag is set whenever somebody is inside *)
Lemma sl_held_flag : forall progs sched t,
  let c := sl_run sched progs in sl_held (snd c t) = true -> slv (fst c) = true.
Proof.
  intros progs sched t c H.
  assert (I : sl_inv (fst c) (snd c)).
  { unfold c, sl_run. apply (run_inv _ _ _ sl_tstep sl_inv sl_inv_step). apply sl_inv_init. }
  destruct I as [I1 I2]. specialize (I2 _ H). destruct (slv (fst c)); [reflexivity|].
  rewrite I1 in I2 by reflexivity. discriminate.
Qed.

(* ------------------------------------------------------------------------------------------ *)
(* pika::mutex / timed_mutex *)
Lemma onat_eqb_true o t : onat_eqb o t = true <-> o = Some t.
Proof.
  destruct o as [x|]; cbn; [|split; discriminate].
  rewrite Nat.eqb_eq. split; [intros ->; reflexivity|intros H; now inversion H].
Qed.
Lemma onat_eqb_false o t : onat_eqb o t = false <-> o <> Some t.
Proof.
  rewrite <- onat_eqb_true. destruct (onat_eqb o t); split; congruence.
Qed.
Lemma mem_nat_true t q : mem_nat t q = true <-> In t q.
Proof.
  unfold mem_nat. rewrite existsb_exists. split.
  - intros [x [Hx He]]. apply Nat.eqb_eq in He. now subst.
  - intros H. exists t. split; [exact H|apply Nat.eqb_refl].
Qed.
Lemma mem_nat_false t q : mem_nat t q = false <-> ~ In t q.
Proof. rewrite <- mem_nat_true. destruct (mem_nat t q); split; congruence. Qed.
Lemma in_remove_nat x t q : In x (remove_nat t q) <-> In x q /\ x <> t.
Proof.
  unfold remove_nat. rewrite filter_In. rewrite negb_true_iff, Nat.eqb_neq. tauto.
Qed.
Lemma nodup_remove_nat t q : NoDup q -> NoDup (remove_nat t q).
Proof. apply NoDup_filter. Qed.
Lemma nodup_snoc (t : nat) q : NoDup q -> ~ In t q -> NoDup (q ++ [t]).
Proof.
  intros H Hn. induction H as [|x q Hx Hq IH]; cbn.
  - constructor; [intros []|constructor].
  - constructor.
    + rewrite in_app_iff. cbn. intros [H|[H|[]]]; [auto|]. subst. apply Hn. now left.
    + apply IH. intros H. apply Hn. now right.
Qed.

Record mx_inv (g : mx_shared) (ls : locals mx_local) : Prop := {
  i_nodup : NoDup (queue g);
  i_q : forall t, In t (queue g) -> pc (ls t) <> PIdle;
  i_h : forall t, held (ls t) = true <-> owner g = Some t;
  i_b : forall t, blocked (ag g t) = true -> pc (ls t) = PSusp /\ In t (queue g);
  i_t : forall t, pc (ls t) = PPre -> ~ In t (queue g) -> tok (ag g t) = true;
  i_v : owner g = None -> ver g = snd (log_state (mxlog g));
  i_lok : log_ok (mxlog g);
  i_ls : fst (log_state (mxlog g)) = (if owner g then true else false);
  i_k : owner g = None -> queue g = [] \/ exists w, ~ In w (queue g) /\ pc (ls w) <> PIdle
}.

Lemma mx_inv_init progs : mx_inv mx_init (mx_locals progs).
Proof.
  constructor; cbn; try tauto; try reflexivity.
  - constructor.
  - intros t. split; discriminate.
  - discriminate.
  - discriminate.
Qed.

(* case analysis of one step *)
Ltac mx_cases t g ls E :=
  unfold mx_tstep, lock_loop, notify_one;
  let td := fresh "td" in let p := fresh "p" in let h := fresh "h" in
  destruct (ls t) as [td p h] eqn:E; cbn [pc todo held];
  destruct p; [destruct td as [|[] ?]|..];
  cbn [fst snd mx_set mx_set_ag mx_pop mx_at owner queue ag ver mxlog pc todo held];
  repeat match goal with
   | |- context [onat_eqb (owner g) t] => destruct (onat_eqb (owner g) t) eqn:?
   | |- context [match owner g with _ => _ end] => destruct (owner g) as [ow|] eqn:?
   | |- context [if blocked (ag g t) then _ else _] => destruct (blocked (ag g t)) eqn:?
   | |- context [match queue g with _ => _ end] => destruct (queue g) as [|qw qr] eqn:Eq
   | |- context [if mem_nat t (queue g) then _ else _] => destruct (mem_nat t (queue g)) eqn:?
   | |- context [if h then _ else _] => destruct h eqn:?
   | |- context [if ?late then _ else _] => is_var late; destruct late
   end;
  repeat match goal with
   | H : onat_eqb _ _ = true |- _ => apply onat_eqb_true in H
   | H : onat_eqb _ _ = false |- _ => apply onat_eqb_false in H
   | H : mem_nat _ _ = true |- _ => apply mem_nat_true in H
   | H : mem_nat _ _ = false |- _ => apply mem_nat_false in H
   end;
  cbn [fst snd mx_set mx_set_ag mx_pop mx_at owner queue ag ver mxlog pc todo held].

Lemma mx_step_nodup o t g (ls : locals mx_local) : mx_inv g ls ->
  NoDup (queue (fst (mx_tstep o t g (ls t)))).
Proof.
  intros I. pose proof (i_nodup _ _ I) as Hn. pose proof (i_q _ _ I t) as Hq.
  mx_cases t g ls E; rewrite ?E in *; cbn [pc] in *; auto using nodup_remove_nat.
  all: try (apply nodup_snoc; [auto using nodup_remove_nat|]).
  all: try (intros Hin; apply Hq in Hin; congruence).
  all: try (rewrite in_remove_nat; tauto).
  all: try (now inversion Hn).
Qed.

Lemma in_tl_in (x : nat) q a : In x q -> In x (a :: q).
Proof. now right. Qed.

Lemma mx_step_q o t g (ls : locals mx_local) : mx_inv g ls -> forall t',
  In t' (queue (fst (mx_tstep o t g (ls t)))) ->
  pc (upd ls t (snd (mx_tstep o t g (ls t))) t') <> PIdle.
Proof.
  intros I t'. pose proof (i_nodup _ _ I) as Hn. pose proof (i_q _ _ I) as Hq.
  pose proof (i_b _ _ I t) as Hb.
  mx_cases t g ls E; intros Hin; upd_cases t' t; rewrite ?E in *; cbn [pc] in *;
    try discriminate; try (apply Hq in Hin; rewrite ?E in Hin; cbn [pc] in Hin; congruence).
  all: try (rewrite in_app_iff in Hin; cbn [In] in Hin; destruct Hin as [Hin|[Hin|[]]]; [|congruence]).
  all: try (rewrite in_remove_nat in Hin; destruct Hin as [Hin ?]).
  all: try (apply Hq in Hin; rewrite ?E in Hin; cbn [pc] in Hin; congruence).
  all: try congruence.
  all: try (apply (in_tl_in _ _ qw) in Hin; apply Hq in Hin; rewrite ?E in Hin; cbn [pc] in Hin; congruence).
  all: try contradiction.
Qed.

Lemma mx_step_h o t g (ls : locals mx_local) : mx_inv g ls -> forall t',
  held (upd ls t (snd (mx_tstep o t g (ls t))) t') = true <->
  owner (fst (mx_tstep o t g (ls t))) = Some t'.
Proof.
  intros I t'. pose proof (i_h _ _ I) as Hh. pose proof (Hh t) as Hht. pose proof (Hh t') as Hht'.
  mx_cases t g ls E; upd_cases t' t; rewrite ?E in *; cbn [held] in *; auto;
    try (destruct (queue g); cbn [owner]);
    try (split; congruence); try tauto.
  all: try (split; [intros; congruence|]; intros HH; inversion HH; congruence).
  all: try (rewrite Hht'; split; congruence).
  all: cbn [held mx_pop owner mx_set] in *; try (split; congruence); try (rewrite Hht'; split; congruence).
Qed.

Lemma mx_step_b o t g (ls : locals mx_local) : mx_inv g ls -> forall t',
  blocked (ag (fst (mx_tstep o t g (ls t))) t') = true ->
  pc (upd ls t (snd (mx_tstep o t g (ls t))) t') = PSusp /\ In t' (queue (fst (mx_tstep o t g (ls t)))).
Proof.
  intros I t'. pose proof (i_b _ _ I) as Hb. pose proof (i_t _ _ I t) as Ht.
  assert (Hbt : pc (ls t) <> PSusp -> blocked (ag g t) = false).
  { destruct (blocked (ag g t)) eqn:B; auto. intros H. destruct (Hb t B). contradiction. }
  mx_cases t g ls E; rewrite ?E in *; cbn [pc] in *;
   intros Hbl; upd_cases t' t; rewrite ?E in *; cbn [pc mx_at mx_pop a_phase_end blocked] in *;
   try (rewrite Hbt in Hbl by discriminate; discriminate Hbl);
   try discriminate Hbl;
   try (apply Hb in Hbl; tauto).
  all: try (apply Hb in Hbl; destruct Hbl as [Hp Hi]; split; [exact Hp|]).
  all: try (rewrite in_app_iff; tauto).
  all: try (rewrite in_remove_nat; tauto).
  all: try congruence.
  - destruct (Nat.eq_dec t qw) as [Heq|Hneq]; [subst; rewrite upd_same in Hbl; discriminate Hbl | rewrite upd_other in Hbl by assumption]. rewrite Hbt in Hbl by discriminate. discriminate.
  - destruct (Nat.eq_dec t' qw) as [Heq|Hneq]; [subst; rewrite upd_same in Hbl; discriminate Hbl | rewrite upd_other in Hbl by assumption]. apply Hb in Hbl. destruct Hbl as [Hp [Hi|Hi]]; [congruence|tauto].
  - split; [reflexivity|]. unfold a_suspend in Hbl. destruct (tok (ag g t)) eqn:Etok; [discriminate Hbl|].
    destruct (in_dec Nat.eq_dec t (queue g)) as [Hi|Hi]; [exact Hi|]. assert (HT := Ht eq_refl Hi). congruence.
  - rewrite in_app_iff, in_remove_nat. tauto.
Qed.

Lemma mx_step_t o t g (ls : locals mx_local) : mx_inv g ls -> forall t',
  pc (upd ls t (snd (mx_tstep o t g (ls t))) t') = PPre ->
  ~ In t' (queue (fst (mx_tstep o t g (ls t)))) ->
  tok (ag (fst (mx_tstep o t g (ls t))) t') = true.
Proof.
  intros I t'. pose proof (i_b _ _ I t') as Hb. pose proof (i_t _ _ I t') as Ht.
  mx_cases t g ls E; intros Hp Hn; upd_cases t' t; rewrite ?E in *; cbn [pc mx_at mx_pop] in *;
    try discriminate; try (apply Ht; tauto).
  all: try (exfalso; apply Hn; rewrite in_app_iff; cbn [In]; tauto).
  all: try (apply Ht; [assumption|]; intros Hi; apply Hn; rewrite ?in_app_iff, ?in_remove_nat; tauto).
  destruct (Nat.eq_dec t' qw) as [Heq|Hneq]; [subst; rewrite upd_same | rewrite upd_other by assumption].
  - cbn [a_resume tok]. destruct (blocked (ag g qw)) eqn:B; [|reflexivity].
    destruct (Hb eq_refl) as [Hc _]. congruence.
  - apply Ht; [assumption|]. intros [Hi|Hi]; [congruence|tauto].
Qed.

Lemma mx_step_log o t g (ls : locals mx_local) : mx_inv g ls ->
  let g' := fst (mx_tstep o t g (ls t)) in
  (owner g' = None -> ver g' = snd (log_state (mxlog g'))) /\
  log_ok (mxlog g') /\
  fst (log_state (mxlog g')) = (if owner g' then true else false).
Proof.
  intros I. pose proof (i_v _ _ I) as Hv. pose proof (i_lok _ _ I) as Hl. pose proof (i_ls _ _ I) as Hs.
  pose proof (proj1 (i_h _ _ I t)) as Hh.
  mx_cases t g ls E; rewrite ?E in *; cbn [held] in *;
    cbn [log_ok log_state ev_acq ev_rel fst snd];
    repeat match goal with H : owner g = _ |- _ => rewrite H in * end;
    try (specialize (Hh eq_refl)); try congruence;
    repeat split; auto; try congruence; try (intros; discriminate).
Qed.

Lemma mx_step_k o t g (ls : locals mx_local) : mx_inv g ls ->
  owner (fst (mx_tstep o t g (ls t))) = None ->
  queue (fst (mx_tstep o t g (ls t))) = [] \/
  exists w, ~ In w (queue (fst (mx_tstep o t g (ls t)))) /\
            pc (upd ls t (snd (mx_tstep o t g (ls t))) w) <> PIdle.
Proof.
  intros I. pose proof (i_k _ _ I) as Hk. pose proof (i_q _ _ I) as Hq. pose proof (i_nodup _ _ I) as Hn.
  mx_cases t g ls E; intros Ho; try discriminate Ho; try congruence.
  all: try (left; reflexivity).
  (* unlock with a non-empty queue: the popped waiter is the pending one *)
  all: try (right; exists qw; split; [now inversion Hn|];
            assert (Hqw : pc (ls qw) <> PIdle) by (apply Hq; now left);
            upd_cases qw t; [rewrite E in Hqw; cbn [pc] in Hqw; congruence | exact Hqw]).
  (* owner was and stays none *)
  all: assert (HK : queue g = [] \/ exists w, ~ In w (queue g) /\ pc (ls w) <> PIdle) by (apply Hk; congruence);
       destruct HK as [Hq0 | [w [Hw1 Hw2]]];
       [ try (left; rewrite ?Hq0; reflexivity)
       | right; exists w; split;
         [ rewrite ?in_remove_nat; tauto
         | upd_cases w t; rewrite ?E in *; cbn [pc mx_at mx_pop] in *; try congruence; try discriminate ] ].
  all: try (rewrite Hq0 in *; contradiction).
Qed.

Lemma mx_inv_step : forall o t g (ls : locals mx_local), mx_inv g ls ->
  mx_inv (fst (mx_tstep o t g (ls t))) (upd ls t (snd (mx_tstep o t g (ls t)))).
Proof.
  intros o t g ls I. pose proof (mx_step_log o t g ls I) as [Hv [Hl Hs]].
  constructor.
  - now apply mx_step_nodup.
  - now apply mx_step_q.
  - now apply mx_step_h.
  - now apply mx_step_b.
  - now apply mx_step_t.
  - exact Hv.
  - exact Hl.
  - exact Hs.
  - now apply mx_step_k.
Qed.

Lemma mx_reach_inv progs sched :
  mx_inv (fst (mx_run sched progs)) (snd (mx_run sched progs)).
Proof.
  unfold mx_run. apply (run_inv _ _ _ mx_tstep mx_inv mx_inv_step). apply mx_inv_init.
Qed.

(* ---- the theorems ---- *)
Lemma mutex_exclusion : forall progs sched t1 t2,
  let c := mx_run sched progs in
  held (snd c t1) = true -> held (snd c t2) = true -> t1 = t2.
Proof.
  intros progs sched t1 t2 c H1 H2. pose proof (mx_reach_inv progs sched) as I. fold c in I.
  apply (i_h _ _ I) in H1. apply (i_h _ _ I) in H2. congruence.
Qed.

Lemma mutex_owner_iff_held : forall progs sched t,
  let c := mx_run sched progs in held (snd c t) = true <-> owner (fst c) = Some t.
Proof. intros progs sched t c. apply (i_h _ _ (mx_reach_inv progs sched)). Qed.

Lemma cs_visibility : forall progs sched,
  let g := fst (mx_run sched progs) in
  log_ok (mxlog g) /\
  fst (log_state (mxlog g)) = (if owner g then true else false) /\
  (owner g = None -> ver g = snd (log_state (mxlog g))).
Proof.
  intros progs sched g. pose proof (mx_reach_inv progs sched) as I.
  split; [apply (i_lok _ _ I)|]. split; [apply (i_ls _ _ I)|apply (i_v _ _ I)].
Qed.

Lemma no_lost_unlock : forall progs sched,
  let c := mx_run sched progs in
  mx_stuck (fst c) (snd c) -> owner (fst c) = None ->
  forall t, ~ blocked_in_lock (fst c) (snd c t) t.
Proof.
  intros progs sched c Hst Ho t [Hp Hb]. pose proof (mx_reach_inv progs sched) as I. fold c in I.
  destruct (i_b _ _ I t Hb) as [_ Hin].
  destruct (i_k _ _ I Ho) as [Hq | [w [Hw1 Hw2]]]; [rewrite Hq in Hin; exact Hin|].
  destruct (Hst w) as [[Hc _] | [Hc Hbw]]; [contradiction|].
  destruct (i_b _ _ I w Hbw) as [_ Hinw]. contradiction.
Qed.

(* in a stuck state with the mutex free every task has finished its program *)
Lemma stuck_free_all_done : forall progs sched,
  let c := mx_run sched progs in
  mx_stuck (fst c) (snd c) -> owner (fst c) = None ->
  forall t, pc (snd c t) = PIdle /\ todo (snd c t) = [].
Proof.
  intros progs sched c Hst Ho t. destruct (Hst t) as [H|H]; [exact H|].
  exfalso. exact (no_lost_unlock progs sched Hst Ho t H).
Qed.

(* try_lock variants: one step from ANY state; true iff the mutex was free, and then the caller owns it *)
Lemma try_lock_true_iff_owner : forall late t g rest h,
  let r := mx_tstep late t g {| todo := OTry :: rest; pc := PIdle; held := h |} in
  (owner g = None ->
     owner (fst r) = Some t /\ held (snd r) = true /\ mxlog (fst r) = ETry t true (ver g) :: mxlog g) /\
  (owner g <> None ->
     owner (fst r) = owner g /\ held (snd r) = h /\ queue (fst r) = queue g /\
     mxlog (fst r) = ETry t false (ver g) :: mxlog g) /\
  queue (fst r) = queue g /\ ag (fst r) = ag g /\ ver (fst r) = ver g /\ snd r = mx_pop {| todo := OTry :: rest; pc := PIdle; held := h |} (held (snd r)).
Proof.
  intros late t g rest h. cbn. destruct (owner g) eqn:Eo; cbn; repeat split; auto; try congruence.
  all: intros H; congruence.
Qed.

Lemma timed_lock_result : forall late t g td h,
  let l := {| todo := td; pc := PWake; held := h |} in
  let r := mx_tstep late t g l in
  (held (snd r) = true /\ h = false -> owner (fst r) = Some t /\ owner g = None /\ ~ In t (queue g)) /\
  (In t (queue g) -> fst r = mx_set g (owner g) (remove_nat t (queue g)) (ETimed t 0 (ver g)) /\ held (snd r) = h).
Proof.
  intros late t g td h l r. unfold r, l. cbn.
  destruct (mem_nat t (queue g)) eqn:Em.
  - apply mem_nat_true in Em. cbn. split; [intros [H1 H2]; congruence|auto].
  - apply mem_nat_false in Em. destruct (owner g); cbn; split; try tauto; intros [H1 H2]; try congruence; auto.
Qed.

(* misuse: state (owner, queue, agents, data) unchanged, error reported *)
Lemma misuse_reported : forall late t g rest h,
  (owner g = Some t ->
     let r := mx_tstep late t g {| todo := OLock :: rest; pc := PIdle; held := h |} in
     fst r = mx_set g (owner g) (queue g) (EDead t) /\ snd r = {| todo := rest; pc := PIdle; held := h |}) /\
  (owner g <> Some t ->
     let r := mx_tstep late t g {| todo := OUnlock :: rest; pc := PIdle; held := h |} in
     fst r = mx_set g (owner g) (queue g) (EErr t) /\ snd r = {| todo := rest; pc := PIdle; held := h |}).
Proof.
  intros late t g rest h. split; intros H; cbn.
  - apply onat_eqb_true in H. rewrite H. split; reflexivity.
  - apply onat_eqb_false in H. rewrite H. split; reflexivity.
Qed.

(* ------------------------------------------------------------------------------------------ *)
(* recursive_mutex_impl<spinlock> *)
Definition rm_tinv (g : rm_shared) (t : nat) (l : rm_local) : Prop :=
  match rm_pcv l with
  | RPub => rholder g = Some t /\ rctx g = None /\ rdepth l = 0
  | RStore => rholder g = Some t /\ rctx g = Some t /\ rdepth l = 0
  | RClr => rholder g = Some t /\ rctx g = Some t /\ rdepth l = 0 /\ rcount g = 0%N
  | RRel => rholder g = Some t /\ rctx g = None /\ rdepth l = 0
  | RInc => rdepth l <> 0 /\ rholder g = Some t /\ rctx g = Some t /\ rcount g = N.of_nat (rdepth l)
  | RIdle => (rdepth l <> 0 -> rholder g = Some t /\ rctx g = Some t /\ rcount g = N.of_nat (rdepth l)) /\
             (rdepth l = 0 -> rholder g <> Some t)
  | RSpin | RXchg | RTXchg => rdepth l = 0 /\ rholder g <> Some t
  end.

Definition rm_inv (g : rm_shared) (ls : locals rm_local) : Prop :=
  (rv g = false -> rholder g = None) /\
  (forall x, rctx g = Some x -> rholder g = Some x) /\
  forall t, rm_tinv g t (ls t).

Lemma rm_inv_init progs : rm_inv rm_init (rm_locals progs).
Proof.
  split; [reflexivity|]. split; [intros x H; discriminate H|].
  intros t. cbn. split; [intros H; congruence|intros _ H; discriminate H].
Qed.

Lemma rm_inv_step : forall o t g (ls : locals rm_local), rm_inv g ls ->
  rm_inv (fst (rm_tstep o t g (ls t))) (upd ls t (snd (rm_tstep o t g (ls t)))).
Proof.
  intros o t g ls (G1 & G2 & P). pose proof (P t) as Pt. unfold rm_tinv in Pt.
  unfold rm_tstep, rm_set_pc. destruct (ls t) as [td p d] eqn:E. cbn [rm_pcv rm_todo rdepth] in *.
  destruct p; [destruct td as [|[] rest]|..];
   repeat match goal with
   | |- context [onat_eqb (rctx g) t] => destruct (onat_eqb (rctx g) t) eqn:Ec;
        [apply onat_eqb_true in Ec | apply onat_eqb_false in Ec]
   | |- context [if rv g then _ else _] => destruct (rv g) eqn:Ev
   | |- context [Nat.eqb d 0] => destruct (Nat.eqb_spec d 0)
   | |- context [N.eqb ?c 0] => destruct (N.eqb_spec c 0)
   end; cbn [fst snd];
   (split; [cbn; try (intros HH; discriminate HH); try (intros _; auto; tauto); auto
           |split; [cbn; intros x Hx; try (exfalso; intuition congruence); try (apply G2 in Hx); try congruence; auto
                   |intros t'; upd_cases t' t;
                    [ unfold rm_tinv; cbn
                    | specialize (P t'); unfold rm_tinv in *; destruct (rm_pcv (ls t')); cbn in *;
                      try (specialize (G1 eq_refl)); intuition congruence ]]]).
  all: try (intuition congruence).
  all: try (specialize (G1 eq_refl)); try (intuition congruence).
  all: try lia.
  all: try (specialize (G1 eq_refl)).
  all: try (destruct (rctx g) as [cx|] eqn:Ecx; [specialize (G2 _ eq_refl)|]).
  all: try change (N.pos (Pos.of_succ_nat d)) with (N.of_nat (S d)).
  all: destruct (Nat.eq_dec d 0) as [Hd|Hd]; repeat split; try congruence; try tauto;
       try (intuition congruence); try (intuition lia).
Qed.

Lemma rm_reach_inv progs sched : rm_inv (fst (rm_run sched progs)) (snd (rm_run sched progs)).
Proof.
  unfold rm_run. apply (run_inv _ _ _ rm_tstep rm_inv rm_inv_step). apply rm_inv_init.
Qed.

Lemma rm_depth_holder g t l : rm_tinv g t l -> rdepth l <> 0 -> rholder g = Some t /\ rctx g = Some t.
Proof.
  unfold rm_tinv. destruct (rm_pcv l); intuition congruence.
Qed.

(* at most one task holds the recursive mutex (depth > 0), and between calls its recursion_count
   equals that task's nesting depth *)
Lemma rm_exclusion : forall progs sched t1 t2,
  let c := rm_run sched progs in
  rdepth (snd c t1) <> 0 -> rdepth (snd c t2) <> 0 -> t1 = t2.
Proof.
  intros progs sched t1 t2 c H1 H2. destruct (rm_reach_inv progs sched) as (_ & _ & P). fold c in P.
  destruct (rm_depth_holder _ _ _ (P t1) H1) as [A _]. destruct (rm_depth_holder _ _ _ (P t2) H2) as [B _].
  congruence.
Qed.

Lemma rm_count_is_depth : forall progs sched t,
  let c := rm_run sched progs in
  rm_pcv (snd c t) = RIdle -> rdepth (snd c t) <> 0 ->
  rcount (fst c) = N.of_nat (rdepth (snd c t)) /\ rctx (fst c) = Some t /\ rv (fst c) = true.
Proof.
  intros progs sched t c Hp Hd. destruct (rm_reach_inv progs sched) as (G1 & _ & P). fold c in P, G1.
  specialize (P t). unfold rm_tinv in P. rewrite Hp in P. destruct P as [P _]. specialize (P Hd).
  destruct P as (A & B & C). repeat split; auto.
  destruct (rv (fst c)); [reflexivity|]. rewrite G1 in A by reflexivity. discriminate.
Qed.
