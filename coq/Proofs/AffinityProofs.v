(* Proofs/AffinityProofs.v — C15: soundness of the binding decoders and of the pool bookkeeping. *)
From Coq Require Import List Arith Bool Lia Permutation.
From Pika Require Import Model.Affinity.
Import ListNotations.

(* ---------- lists ---------- *)
Lemma nodup_app {A} (a b : list A) :
  NoDup a -> NoDup b -> (forall x, In x a -> ~ In x b) -> NoDup (a ++ b).
Proof.
  induction a as [|x a IH]; cbn; intros Ha Hb Hd; auto.
  inversion Ha; subst. constructor.
  - rewrite in_app_iff. intros [H|H]; [auto | eapply Hd; eauto].
  - apply IH; auto.
Qed.

Lemma nodup_map_inj {A B} (f : A -> B) (l : list A) x y :
  NoDup (map f l) -> In x l -> In y l -> f x = f y -> x = y.
Proof.
  induction l as [|a l IH]; cbn; intros Hn Hx Hy E; [tauto|].
  inversion Hn as [|? ? Hni Hn']; subst.
  destruct Hx as [->|Hx], Hy as [->|Hy]; auto.
  - exfalso. apply Hni. rewrite E. now apply in_map.
  - exfalso. apply Hni. rewrite <- E. now apply in_map.
Qed.

Lemma map_add_seq a n : map (fun p => a + p) (seq 0 n) = seq a n.
Proof.
  revert a. induction n as [|n IH]; intros a; cbn; auto.
  f_equal; [lia|]. rewrite <- seq_shift, map_map.
  rewrite <- (IH (S a)). apply map_ext. intros; lia.
Qed.

Lemma sum_firstn_S (l : list nat) k d :
  k < length l -> list_sum (firstn (S k) l) = list_sum (firstn k l) + nth k l d.
Proof.
  revert k. induction l as [|a l IH]; intros k Hk; [cbn in Hk; lia|].
  cbn [length] in Hk. destruct k as [|k]; [cbn; lia|].
  rewrite (firstn_cons (S k)), (firstn_cons k).
  change (a + list_sum (firstn (S k) l) = a + list_sum (firstn k l) + nth k l d).
  rewrite (IH k) by lia. lia.
Qed.

Lemma mem_In x l : mem x l = true <-> In x l.
Proof.
  unfold mem. rewrite existsb_exists. split.
  - intros (y & Hy & E). apply Nat.eqb_eq in E. now subst.
  - intros H. exists x. split; auto. apply Nat.eqb_refl.
Qed.

(* ---------- topology ---------- *)
Lemma prefix_S t c : c < ncores t -> prefix t (S c) = prefix t c + core_pus t c.
Proof. intros H. unfold prefix, core_pus. now apply sum_firstn_S. Qed.

Lemma prefix_all t : prefix t (ncores t) = total_pus t.
Proof. unfold prefix, ncores, total_pus. now rewrite firstn_all. Qed.

Lemma sum_firstn_le (l : list nat) k : list_sum (firstn k l) <= list_sum l.
Proof.
  revert k. induction l as [|a l IH]; intros k; [now rewrite firstn_nil|].
  destruct k as [|k]; [cbn; lia|]. rewrite firstn_cons.
  change (a + list_sum (firstn k l) <= a + list_sum l). specialize (IH k). lia.
Qed.

Lemma prefix_le t c : prefix t c <= total_pus t.
Proof. apply sum_firstn_le. Qed.

Lemma pun_small t c p : c < ncores t -> p < core_pus t c -> pu_number t c p = prefix t c + p.
Proof.
  intros Hc Hp. unfold pu_number. cbv zeta. rewrite (Nat.mod_small c) by lia.
  now rewrite Nat.mod_small.
Qed.

Definition pun (t : topology) (x : nat * nat) : nat := pu_number t (fst x) (snd x).

Lemma pun_pairs t k : k <= ncores t -> map (pun t) (all_pairs t k) = seq 0 (prefix t k).
Proof.
  induction k as [|k IH]; intros Hk.
  - reflexivity.
  - unfold all_pairs in *. rewrite seq_S, flat_map_app, map_app, IH by lia. cbn [flat_map Nat.add].
    rewrite app_nil_r. unfold core_pairs. rewrite Nat.add_0_r, map_map.
    rewrite prefix_S by lia. rewrite seq_app. f_equal. cbn [Nat.add].
    rewrite <- (map_add_seq (prefix t k)). apply map_ext_in. intros p Hp. apply in_seq in Hp.
    unfold pun. cbn [fst snd]. apply pun_small; lia.
Qed.

Definition valid (t : topology) (x : nat * nat) : Prop := In x (all_pairs t (ncores t)).

Lemma valid_intro t c p : c < ncores t -> p < core_pus t c -> valid t (c, p).
Proof.
  intros Hc Hp. unfold valid, all_pairs. apply in_flat_map. exists c. split.
  - apply in_seq. lia.
  - unfold core_pairs. rewrite Nat.add_0_r. apply in_map. apply in_seq. lia.
Qed.

Lemma valid_inj t x y : valid t x -> valid t y -> pun t x = pun t y -> x = y.
Proof.
  intros Hx Hy E. eapply (nodup_map_inj (pun t)); eauto.
  rewrite pun_pairs by lia. apply seq_NoDup.
Qed.

Lemma valid_lt t x : valid t x -> pun t x < total_pus t.
Proof.
  intros Hx. apply (in_map (pun t)) in Hx. rewrite pun_pairs in Hx by lia.
  apply in_seq in Hx. rewrite prefix_all in Hx. lia.
Qed.

(* a selection of (core, pu) pairs is good: no pair twice, every pair exists and is allowed *)
Definition good (t : topology) (inm : nat -> nat -> bool) (sel : list (nat * nat)) : Prop :=
  NoDup sel /\ forall x, In x sel -> valid t x /\ inm (fst x) (snd x) = true.

(* ---------- the per-core search and the sweeps (scatter, balanced, numa-balanced) ---------- *)
Lemma find_next_spec inm ncp : forall fuel idx use idx',
  find_next inm ncp idx fuel = (use, idx') ->
  idx <= idx' /\ (use = true -> 1 <= idx' /\ idx <= idx' - 1 /\ idx' - 1 < ncp /\ inm (idx' - 1) = true).
Proof.
  induction fuel as [|f IH]; intros idx use idx' H; cbn [find_next] in H.
  - inversion H; subst. split; [lia|discriminate].
  - destruct (idx <? ncp) eqn:E1.
    + apply Nat.ltb_lt in E1. destruct (inm idx) eqn:E2.
      * inversion H; subst. split; [lia|]. intros _. replace (S idx - 1) with idx by lia. repeat split; auto; lia.
      * apply IH in H. destruct H as [H1 H2]. split; [lia|]. intros U. destruct (H2 U) as (A1 & A2 & A3 & A4). repeat split; auto; lia.
    + inversion H; subst. split; [lia|discriminate].
Qed.

Definition sinv (t : topology) (inm : nat -> nat -> bool) (off ncs : nat) (st : sst) : Prop :=
  NoDup (picks st) /\
  forall c p, In (c, p) (picks st) ->
    exists lc, c = lc + off /\ lc < ncs /\ p < nxt st lc /\ p < core_pus t c /\ inm c p = true.

Lemma core_step_inv t inm off ncs st c st' b :
  c < ncs -> sinv t inm off ncs st -> core_step t inm off st c = (st', b) -> sinv t inm off ncs st'.
Proof.
  intros Hc [Hnd Hall] H. unfold core_step in H.
  destruct (find_next (inm (c + off)) (core_pus t (c + off)) (nxt st c) (core_pus t (c + off))) as [use idx] eqn:F.
  apply find_next_spec in F. destruct F as [Hle Huse].
  destruct use; inversion H; subst; clear H; unfold sinv; cbn [picks nxt].
  - destruct (Huse eq_refl) as (H1 & H2 & H3 & H4). split.
    + constructor; auto. intros Hin. apply Hall in Hin. destruct Hin as (lc & E & _ & Hlt & _).
      assert (lc = c) by lia. subst lc. lia.
    + intros c0 p0 [E|Hin].
      * inversion E; subst. exists c. unfold upd. rewrite Nat.eqb_refl. repeat split; auto; lia.
      * destruct (Hall _ _ Hin) as (lc & E & Hl & Hlt & Hcp & Hm). exists lc. unfold upd.
        destruct (lc =? c) eqn:E2; [apply Nat.eqb_eq in E2; subst lc|]; repeat split; auto; lia.
  - split; auto. intros c0 p0 Hin. destruct (Hall _ _ Hin) as (lc & E & Hl & Hlt & Hcp & Hm). exists lc. unfold upd.
    destruct (lc =? c) eqn:E2; [apply Nat.eqb_eq in E2; subst lc|]; repeat split; auto; lia.
Qed.

Lemma sweep_inv t inm off ncs target : forall cs st,
  Forall (fun c => c < ncs) cs -> sinv t inm off ncs st -> sinv t inm off ncs (sweep t inm off target cs st).
Proof.
  induction cs as [|c r IH]; intros st Hcs Hst; cbn [sweep]; auto.
  inversion Hcs; subst. destruct (core_step t inm off st c) as [st' picked] eqn:E.
  pose proof (core_step_inv _ _ _ _ _ _ _ _ H1 Hst E) as Hst'.
  destruct (picked && (length (picks st') =? target)); auto.
Qed.

Lemma sweeps_inv t inm off ncs target : forall fuel st st',
  sinv t inm off ncs st -> sweeps t inm off target ncs fuel st = Some st' -> sinv t inm off ncs st'.
Proof.
  induction fuel as [|f IH]; intros st st' Hst H; cbn [sweeps] in H.
  - destruct (length (picks st) <? target); [discriminate|]. now inversion H; subst.
  - destruct (length (picks st) <? target).
    + eapply IH; [|exact H]. apply sweep_inv; auto. apply Forall_forall. intros x Hx. apply in_seq in Hx. lia.
    + now inversion H; subst.
Qed.

Lemma sinv0 t inm off ncs : sinv t inm off ncs sst0.
Proof. split; [constructor|]. intros c p []. Qed.

Lemma sinv_good t inm off ncs st :
  off + ncs <= ncores t -> sinv t inm off ncs st ->
  good t inm (rev (picks st)) /\ forall x, In x (picks st) -> off <= fst x < off + ncs.
Proof.
  intros Hk [Hnd Hall]. split; [split|].
  - now apply NoDup_rev.
  - intros [c p] Hin. apply in_rev in Hin. destruct (Hall _ _ Hin) as (lc & E & Hl & _ & Hcp & Hm).
    cbn [fst snd]. split; auto. apply valid_intro; auto. lia.
  - intros [c p] Hin. destruct (Hall _ _ Hin) as (lc & E & Hl & _). cbn [fst]. lia.
Qed.

(* second loop of balanced / numa-balanced *)
Lemma by_core_in off ncs l x : In x (by_core off ncs l) -> In x l /\ off <= fst x < off + ncs.
Proof.
  unfold by_core. rewrite in_flat_map. intros (c & Hc & Hx). apply in_seq in Hc.
  apply filter_In in Hx. destruct Hx as [Hx E]. apply Nat.eqb_eq in E. split; auto. lia.
Qed.

Lemma by_core_nodup off l : NoDup l -> forall ncs, NoDup (by_core off ncs l).
Proof.
  intros Hl. induction ncs as [|k IH]; [constructor|].
  unfold by_core in *. rewrite seq_S, flat_map_app. cbn [flat_map Nat.add]. rewrite app_nil_r.
  apply nodup_app; auto.
  - now apply NoDup_filter.
  - intros x Hx Hy. apply (by_core_in off k l) in Hx. apply filter_In in Hy. destruct Hy as [_ E].
    apply Nat.eqb_eq in E. lia.
Qed.

Lemma by_core_good t inm off ncs l : good t inm l -> good t inm (by_core off ncs l).
Proof.
  intros [Hn Ha]. split; [now apply by_core_nodup|].
  intros x Hx. apply by_core_in in Hx. now apply Ha.
Qed.

(* numa-balanced: the socket loop *)
Lemma numa_sockets_good t inm : forall socks shs off acc nums r,
  off + length (concat socks) <= ncores t ->
  good t inm acc -> (forall x, In x acc -> fst x < off) ->
  numa_sockets t inm socks shs off acc nums = Some r -> good t inm (fst r).
Proof.
  induction socks as [|s rest IH]; intros shs off acc nums r Hk Hg Hlt H; cbn [numa_sockets] in H.
  - now inversion H; subst.
  - destruct (sweeps t inm off (hd 0 shs) (length s) (S (hd 0 shs)) sst0) as [st|] eqn:E; [|discriminate].
    cbn [concat] in Hk. rewrite app_length in Hk.
    apply sweeps_inv with (ncs := length s) in E; [|apply sinv0].
    apply sinv_good in E; [|lia]. destruct E as [Hgs Hrange].
    eapply IH; [| | |exact H].
    + lia.
    + destruct Hg as [Hn Ha]. pose proof (by_core_good t inm off (length s) _ Hgs) as [Hn2 Ha2]. split.
      * apply nodup_app; auto. intros x Hx Hy. apply Hlt in Hx. apply by_core_in in Hy. lia.
      * intros x Hx. apply in_app_iff in Hx. destruct Hx; auto.
    + intros x Hx. apply in_app_iff in Hx. destruct Hx as [Hx|Hx]; [apply Hlt in Hx; lia|].
      apply by_core_in in Hx. lia.
Qed.

(* ---------- compact ---------- *)
Definition inmb (inm : nat -> nat -> bool) (x : nat * nat) : bool := inm (fst x) (snd x).

Lemma compact_sweep_spec inm target : forall ps acc acc' d,
  compact_sweep inm target ps acc = (acc', d) ->
  NoDup acc -> NoDup ps -> (forall x, In x acc -> ~ In x ps) ->
  NoDup acc' /\ (forall x, In x acc' -> In x acc \/ (In x ps /\ inmb inm x = true)) /\
  (d = false -> length acc' = length acc + length (filter (inmb inm) ps)).
Proof.
  induction ps as [|[c p] r IH]; intros acc acc' d H Ha Hp Hd; cbn [compact_sweep] in H.
  - inversion H; subst. repeat split; auto; intros _; cbn; lia.
  - inversion Hp as [|? ? Hnr Hr]; subst. cbn [filter]. unfold inmb at 2. cbn [fst snd].
    destruct (inm c p) eqn:E.
    + assert (Hn : NoDup ((c, p) :: acc)).
      { constructor; auto. intros Hin. apply (Hd _ Hin). now left. }
      destruct (length ((c, p) :: acc) =? target) eqn:E2.
      * inversion H; subst. repeat split; auto; [|discriminate].
        intros x [<-|Hx]; [right; split; [now left|exact E]|now left].
      * apply IH in H; auto.
        -- destruct H as (H1 & H2 & H3). repeat split; auto.
           ++ intros x Hx. destruct (H2 x Hx) as [[<-|Hx']|[Hx' Hm]]; auto.
              ** right. split; [now left|exact E].
              ** right. split; [now right|auto].
           ++ intros Hf. rewrite (H3 Hf). cbn [length]. lia.
        -- intros x [<-|Hx]; auto. intros Hx'. apply (Hd _ Hx). now right.
    + apply IH in H; auto.
      * destruct H as (H1 & H2 & H3). repeat split; auto.
        intros x Hx. destruct (H2 x Hx) as [Hx'|[Hx' Hm]]; auto. right. split; [now right|auto].
      * intros x Hx Hx'. apply (Hd _ Hx). now right.
Qed.

Lemma compact_loop_good inm n ps acc :
  NoDup ps -> n <= length (filter (inmb inm) ps) ->
  compact_loop inm n ps (S n) [] = Some acc ->
  NoDup acc /\ forall x, In x acc -> In x ps /\ inmb inm x = true.
Proof.
  intros Hp Hn H. cbn [compact_loop] in H. cbn [length] in H.
  destruct (0 <? n) eqn:E0.
  - destruct (compact_sweep inm n ps []) as [acc' d] eqn:E.
    apply compact_sweep_spec in E; auto; [|constructor].
    destruct E as (H1 & H2 & H3).
    assert (acc = acc').
    { destruct d; [now inversion H|]. specialize (H3 eq_refl). cbn [length] in H3.
      destruct n as [|m]; [discriminate|]. cbn [compact_loop] in H.
      destruct (length acc' <? S m) eqn:E4; [apply Nat.ltb_lt in E4; lia|].
      destruct m; now inversion H. }
    subst acc'. split; auto. intros x Hx. destruct (H2 x Hx) as [[]|]; auto.
  - inversion H; subst. split; [constructor|]. intros x [].
Qed.

Lemma filter_map_length {A B} (f : A -> B) (g : B -> bool) (l : list A) :
  length (filter (fun x => g (f x)) l) = length (filter g (map f l)).
Proof.
  induction l as [|a l IH]; cbn; auto. destruct (g (f a)); cbn; now rewrite IH.
Qed.

Lemma filter_all_true {A} (f : A -> bool) (l : list A) : (forall x, f x = true) -> filter f l = l.
Proof. intros H. induction l as [|a l IH]; cbn; auto. now rewrite H, IH. Qed.

Lemma all_pairs_nodup t k : k <= ncores t -> NoDup (all_pairs t k).
Proof.
  intros Hk. apply (NoDup_map_inv (pun t)). rewrite pun_pairs by auto. apply seq_NoDup.
Qed.

Lemma all_pairs_valid t k x : k <= ncores t -> In x (all_pairs t k) -> valid t x.
Proof.
  intros Hk. unfold valid, all_pairs. rewrite !in_flat_map. intros (c & Hc & Hx).
  exists c. split; auto. apply in_seq in Hc. apply in_seq. lia.
Qed.

Lemma prefix_ge t k : wf_topo t -> k <= ncores t -> k <= prefix t k.
Proof.
  intros Hw. induction k as [|k IH]; intros Hk; [lia|].
  rewrite prefix_S by lia. specialize (IH ltac:(lia)).
  assert (1 <= core_pus t k).
  { unfold core_pus. unfold wf_topo in Hw. rewrite Forall_forall in Hw. apply Hw. apply nth_In. unfold ncores in Hk. lia. }
  lia.
Qed.

(* ---------- decode: every accepted selection is good ---------- *)
Lemma decode_good t m use pm n mc sel nums :
  (m = Compact -> use = true \/ (n <= mc /\ wf_topo t)) ->
  decode t m use pm n mc = Ok (sel, nums) -> good t (in_mask t use pm) sel.
Proof.
  intros Hc H. unfold decode in H.
  destruct (check_num_threads t use pm n) as [e|] eqn:Echk; [discriminate|].
  assert (Hk : num_cores_used t use mc <= ncores t) by (unfold num_cores_used; lia).
  destruct m.
  - (* compact *)
    destruct (compact_loop (in_mask t use pm) n (all_pairs t (num_cores_used t use mc)) (S n) []) as [acc|] eqn:E; [|discriminate].
    inversion H; subst; clear H.
    apply compact_loop_good in E.
    + destruct E as [H1 H2]. split; [now apply NoDup_rev|].
      intros x Hx. apply in_rev in Hx. destruct (H2 x Hx) as [Hin Hm]. split; auto.
      eapply all_pairs_valid; eauto.
    + now apply all_pairs_nodup.
    + unfold check_num_threads in Echk. destruct use.
      * destruct (count_mask t pm <? n) eqn:E2; [discriminate|]. apply Nat.ltb_ge in E2.
        unfold num_cores_used. rewrite Nat.min_id.
        unfold inmb, in_mask. fold (pun t).
        rewrite (filter_map_length (pun t) pm), pun_pairs, prefix_all by lia. exact E2.
      * destruct (total_pus t <? n) eqn:E2; [discriminate|]. apply Nat.ltb_ge in E2.
        destruct (Hc eq_refl) as [?|[Hn Hw]]; [discriminate|].
        assert (Hf : filter (inmb (in_mask t false pm)) (all_pairs t (num_cores_used t false mc)) = all_pairs t (num_cores_used t false mc)).
        { apply filter_all_true. intros; reflexivity. }
        rewrite Hf. rewrite <- (map_length (pun t)), pun_pairs, seq_length by auto.
        unfold num_cores_used. destruct (Nat.le_gt_cases (ncores t) mc).
        -- rewrite Nat.min_r by auto. rewrite prefix_all. auto.
        -- rewrite Nat.min_l by lia. pose proof (prefix_ge t mc Hw ltac:(lia)). lia.
  - (* scatter *)
    destruct (sweeps t (in_mask t use pm) 0 n (num_cores_used t use mc) (S n) sst0) as [st|] eqn:E; [|discriminate].
    inversion H; subst; clear H.
    apply sweeps_inv with (ncs := num_cores_used t use mc) in E; [|apply sinv0].
    apply sinv_good in E; [|lia]. apply E.
  - (* balanced *)
    destruct (sweeps t (in_mask t use pm) 0 n (num_cores_used t use mc) (S n) sst0) as [st|] eqn:E; [|discriminate].
    inversion H; subst; clear H.
    apply sweeps_inv with (ncs := num_cores_used t use mc) in E; [|apply sinv0].
    apply sinv_good in E; [|lia]. apply by_core_good. apply E.
  - (* numa-balanced *)
    destruct (numa_sockets t (in_mask t use pm) t
                (shares n (list_sum (socket_pu_counts t (in_mask t use pm) t 0))
                   (socket_pu_counts t (in_mask t use pm) t 0) 0) 0 [] []) as [r|] eqn:E; [|discriminate].
    inversion H; subst; clear H.
    change sel with (fst (sel, nums)).
    eapply numa_sockets_good; [ | | | exact E].
    + unfold ncores, cores. lia.
    + split; [constructor|]. intros x [].
    + intros x [].
Qed.

(* ---------- affinity_data::init ---------- *)
Lemma filter_any_repeat k : filter any_bit (repeat [] k) = [].
Proof. induction k; cbn; auto. Qed.

Lemma count_init_masks t n sel : count_initialized (masks_of t n sel) = length sel.
Proof.
  unfold count_initialized, masks_of. rewrite filter_app, filter_any_repeat, app_nil_r.
  induction sel as [|x sel IH]; cbn; auto.
Qed.

(* what C15 asks of the per-worker masks: worker i is bound to exactly the PU ps[i], the PUs are
   pairwise different, exist on the machine and lie inside the process mask when one is in use *)
Definition sound_masks (t : topology) (use : bool) (pm : nat -> bool) (n : nat) (ms : list (list nat)) : Prop :=
  exists ps : list nat, ms = map (fun p => [p]) ps /\ length ps = n /\ NoDup ps /\
    forall p, In p ps -> p < total_pus t /\ (use = true -> pm p = true).

Lemma good_pus t use pm sel :
  good t (in_mask t use pm) sel ->
  NoDup (map (pun t) sel) /\ forall p, In p (map (pun t) sel) -> p < total_pus t /\ (use = true -> pm p = true).
Proof.
  intros [Hn Ha]. split.
  - induction sel as [|x sel IH]; cbn; [constructor|]. inversion Hn; subst. constructor.
    + rewrite in_map_iff. intros (y & E & Hy). assert (y = x).
      { apply (valid_inj t); auto; apply Ha; [now right|now left]. }
      subst. auto.
    + apply IH; auto. intros y Hy. apply Ha. now right.
  - intros p Hp. apply in_map_iff in Hp. destruct Hp as (x & <- & Hx). destruct (Ha x Hx) as [Hv Hm]. split.
    + now apply valid_lt.
    + intros ->. exact Hm.
Qed.

Lemma init_sound t m use pm n mc ad :
  (m = Compact -> use = true \/ (n <= mc /\ wf_topo t)) ->
  affinity_init t (BindMode m) use pm n mc = Ok ad ->
  sound_masks t use pm n (ad_masks ad) /\ ad_noaff ad = [] /\ ad_n ad = n.
Proof.
  intros Hc H. unfold affinity_init in H.
  destruct (decode t m use pm n mc) as [[sel nums]|e] eqn:E; [|discriminate].
  apply decode_good in E; auto.
  destruct (n <? length sel) eqn:E1; [discriminate|]. apply Nat.ltb_ge in E1.
  destruct (count_initialized (masks_of t n sel) =? n) eqn:E2; [|discriminate].
  apply Nat.eqb_eq in E2. rewrite count_init_masks in E2.
  inversion H; subst; clear H. cbn [ad_masks ad_noaff ad_n]. split; auto.
  exists (map (pun t) sel). destruct (good_pus _ _ _ _ E) as [H1 H2].
  split; [|split; [|split]]; auto.
  - unfold masks_of. replace (length sel - length sel) with 0 by lia. cbn [repeat].
    rewrite app_nil_r, map_map. reflexivity.
  - now rewrite map_length.
Qed.

Lemma oversubscription_rejected t m (use : bool) pm n mc :
  (if use then count_mask t pm else total_pus t) < n ->
  exists e, affinity_init t (BindMode m) use pm n mc = Err e /\ (e = EOversubMask \/ e = EOversubHw).
Proof.
  intros H. unfold affinity_init, decode, check_num_threads. destruct use.
  - apply Nat.ltb_lt in H. rewrite H. eauto.
  - apply Nat.ltb_lt in H. rewrite H. eauto.
Qed.

(* bind=none: no worker gets a mask *)
Lemma get_pu_num_id hw i : i < hw -> get_pu_num 0 1 hw i = i.
Proof.
  intros H. unfold get_pu_num. cbv zeta. rewrite Nat.mod_1_r. rewrite Nat.add_0_r, Nat.mul_1_l. cbn [Nat.add].
  now apply Nat.mod_small.
Qed.

Lemma bind_none_unbound t use pm n mc :
  n <= total_pus t ->
  exists ad, affinity_init t BindNone use pm n mc = Ok ad /\ forall i, i < n -> get_pu_mask ad i = [].
Proof.
  intros Hn. eexists. split; [reflexivity|]. intros i Hi. unfold get_pu_mask. cbn [ad_noaff ad_masks].
  assert (Hm : mem i (map (get_pu_num 0 1 (total_pus t)) (seq 0 n)) = true).
  { apply mem_In. apply in_map_iff. exists i. split; [apply get_pu_num_id; lia|apply in_seq; lia]. }
  now rewrite Hm.
Qed.

(* the numbers pika reports are the partitioner's: worker = (mask {p}, reported p) *)
Lemma workers_reported ad pools w :
  ad_noaff ad = [] -> In w (workers_of ad pools) -> w_mask w = [w_pu w] /\ In (w_pu w) (concat pools).
Proof.
  intros Hn Hw. unfold workers_of in Hw. apply in_map_iff in Hw. destruct Hw as ([i p] & <- & Hin).
  cbn [w_mask w_pu fst snd]. rewrite Hn. cbn [mem existsb]. split; auto.
  apply in_combine_r in Hin. exact Hin.
Qed.

Lemma workers_none ad pools w :
  (forall i, i < length (concat pools) -> mem i (ad_noaff ad) = true) ->
  In w (workers_of ad pools) -> w_mask w = [].
Proof.
  intros Hn Hw. unfold workers_of in Hw. apply in_map_iff in Hw. destruct Hw as ([i p] & <- & Hin).
  cbn [w_mask fst]. apply in_combine_l in Hin. apply in_seq in Hin. rewrite Hn by lia. reflexivity.
Qed.

(* every worker number lies in the range of exactly one pool *)
Lemma owners_unique : forall pools off k i,
  off <= i < off + length (concat pools) -> exists j, owners pools off k i = [j].
Proof.
  induction pools as [|p r IH]; intros off k i H; cbn [concat length owners] in *; [lia|].
  rewrite app_length in H.
  destruct (Nat.lt_ge_cases i (off + length p)) as [Hlt|Hge].
  - assert (E1 : (off <=? i) && (i <? off + length p) = true).
    { apply andb_true_iff. split; [apply Nat.leb_le; lia|apply Nat.ltb_lt; lia]. }
    rewrite E1. exists k. cbn [app]. f_equal.
    clear -Hlt. assert (G : forall q o kk, i < o -> owners q o kk i = []).
    { induction q as [|a q IHq]; intros o kk Ho; cbn [owners]; auto.
      assert ((o <=? i) = false) by (apply Nat.leb_gt; lia). rewrite H. cbn [andb app]. apply IHq. lia. }
    apply G. lia.
  - assert (E1 : (off <=? i) && (i <? off + length p) = false).
    { apply andb_false_iff. right. apply Nat.ltb_ge. lia. }
    rewrite E1. cbn [app]. apply IH. lia.
Qed.

(* per-mode instances *)
Lemma compact_sound : forall t use pm n mc ad,
  (use = true \/ (n <= mc /\ wf_topo t)) ->
  affinity_init t (BindMode Compact) use pm n mc = Ok ad ->
  sound_masks t use pm n (ad_masks ad) /\ ad_noaff ad = [] /\ ad_n ad = n.
Proof. intros t use pm n mc ad H. exact (init_sound t Compact use pm n mc ad (fun _ => H)). Qed.

Lemma scatter_sound : forall t use pm n mc ad,
  affinity_init t (BindMode Scatter) use pm n mc = Ok ad ->
  sound_masks t use pm n (ad_masks ad) /\ ad_noaff ad = [] /\ ad_n ad = n.
Proof. intros t use pm n mc ad. apply init_sound. discriminate. Qed.

Lemma balanced_sound : forall t use pm n mc ad,
  affinity_init t (BindMode Balanced) use pm n mc = Ok ad ->
  sound_masks t use pm n (ad_masks ad) /\ ad_noaff ad = [] /\ ad_n ad = n.
Proof. intros t use pm n mc ad. apply init_sound. discriminate. Qed.

Lemma numabalanced_sound : forall t use pm n mc ad,
  affinity_init t (BindMode NumaBalanced) use pm n mc = Ok ad ->
  sound_masks t use pm n (ad_masks ad) /\ ad_noaff ad = [] /\ ad_n ad = n.
Proof. intros t use pm n mc ad. apply init_sound. discriminate. Qed.

Lemma pools_partition_workers : forall pools i,
  i < length (concat pools) -> exists j, owners pools 0 0 i = [j].
Proof. intros pools i H. apply owners_unique. split; [apply Nat.le_0_l|exact H]. Qed.
