(* Proofs/SemaphoreProofs.v — safety of the semaphore model: permit conservation and the meaning of
   every return value, for every kind assignment (pika tasks / OS threads), every program, every
   schedule and every deadline oracle. *)
From Coq Require Import List ZArith Bool Arith Lia.
From Pika Require Import Base.Conc Base.Agent Model.Semaphore.
Import ListNotations.
Local Open Scope Z_scope.

(* ------------------------------------------------------------------ generic: G-part + per-thread part *)
Section Split.
  Variables (G L O : Type) (tstep : O -> nat -> G -> L -> G * L).
  Variables (P : G -> Prop) (Q : L -> Prop).
  Hypothesis H : forall o t g l, P g -> Q l -> P (fst (tstep o t g l)) /\ Q (snd (tstep o t g l)).
  Lemma run_inv_split sched c : P (fst c) -> (forall t, Q (snd c t)) ->
    P (fst (run tstep sched c)) /\ forall t, Q (snd (run tstep sched c) t).
  Proof.
    intros HP HQ.
    apply (run_inv G L O tstep (fun g ls => P g /\ forall t, Q (ls t))); [|split; assumption].
    intros o t g ls [Hp Hq]. destruct (H o t g (ls t) Hp (Hq t)) as [H1 H2]. split; [exact H1|].
    intros t'. unfold upd. destruct (Nat.eqb t' t); [exact H2|apply Hq].
  Qed.
End Split.

(* ------------------------------------------------------------------ local well-formedness *)
Definition wf_op (o : sop) : Prop := match o with Release n => 0 <= n | _ => True end.

(* operations of the sliding semaphore that run the "touch upon all threads" loop *)
Definition is_slsig (o : sop) : Prop :=
  match o with SlSignal _ | SlSignalAll | SlSetMaxDiff _ _ => True | _ => False end.

(* the program counter belongs to the operation at the head of todo *)
Definition pc_ok (l : sem_l) : Prop :=
  match pc l with
  | Idle => True
  | Susp (CAcq n) | Blk (CAcq n) => cur_op l = Acquire n /\ todo l <> []
  | Susp (CSl u) | Blk (CSl u) => cur_op l = SlWait u /\ todo l <> []
  | TSleep n => cur_op l = TimedAcquire n /\ todo l <> []
  | SigLoop true _ | ResWait _ true _ => (exists n, cur_op l = Release n) /\ todo l <> []
  | SigLoop false _ | ResWait _ false _ => is_slsig (cur_op l) /\ todo l <> []
  end.
Definition lwf (l : sem_l) : Prop := Forall wf_op (todo l) /\ pc_ok l.

(* what a log entry must satisfy: the return value says exactly what happened to the count *)
Definition ev_ok (e : sev) : Prop :=
  match ev_op e with
  | TryAcquire => (ev_res e = true -> 1 <= ev_avail e /\ ev_taken e = 1) /\
                  (ev_res e = false -> ev_avail e < 1 /\ ev_taken e = 0)
  | TryWait n => (ev_res e = true -> n <= ev_avail e /\ ev_taken e = n) /\
                 (ev_res e = false -> ev_avail e < n /\ ev_taken e = 0)
  | Acquire n => ev_res e = true /\ ev_taken e = n /\ n <= ev_avail e
  | TimedAcquire n => (ev_res e = true -> ev_taken e = n /\ n <= ev_avail e) /\ (ev_res e = false -> ev_taken e = 0)
  | Release _ => ev_res e = true /\ ev_taken e = 0
  | SlWait u => ev_res e = true /\ ev_taken e = 0 /\ u - ev_maxd e <= ev_lower e
  | SlTryWait u => ev_taken e = 0 /\ (ev_res e = true <-> u - ev_maxd e <= ev_lower e)
  | SlSignal _ | SlSignalAll | SlSetMaxDiff _ _ => ev_res e = true /\ ev_taken e = 0
  | StaleResume _ => True
  end.

Definition sum_taken (lg : list sev) : Z := fold_right (fun e a => ev_taken e + a) 0 lg.

Record GInv (v0 lo0 md : Z) (g : sem_g) : Prop := {
  gi_cons : value g + acquired g = v0 + released g;
  gi_nonneg : 0 <= value g;
  gi_sum : acquired g = sum_taken (slog g);
  gi_log : Forall ev_ok (slog g)
}.

Ltac zb := repeat match goal with
  | H : (_ <? _) = true |- _ => apply Z.ltb_lt in H
  | H : (_ <? _) = false |- _ => apply Z.ltb_ge in H
  | H : (_ <=? _) = true |- _ => apply Z.leb_le in H
  | H : (_ <=? _) = false |- _ => apply Z.leb_gt in H
  end.

Lemma lwf_done l : lwf l -> lwf (done_l l).
Proof.
  intros [H1 _]. split; cbn; [|exact I]. destruct (todo l); [constructor|]. now inversion H1.
Qed.

Lemma GInv_log v0 lo0 md g t op res av tk :
  GInv v0 lo0 md g -> tk = 0 ->
  ev_ok {| ev_tid := t; ev_op := op; ev_res := res; ev_avail := av; ev_taken := tk;
              ev_lower := lower g; ev_maxd := maxd g; ev_sig_active := nonempty (sigl g) |} ->
  GInv v0 lo0 md (log_ev g t op res av tk).
Proof.
  intros [] -> He. constructor; cbn; try assumption; try lia; try (unfold sum_taken in *; lia). constructor; assumption.
Qed.

Lemma GInv_take_log v0 lo0 md g t op n :
  GInv v0 lo0 md g -> n <= value g ->
  ev_ok {| ev_tid := t; ev_op := op; ev_res := true; ev_avail := value g; ev_taken := n;
              ev_lower := lower g; ev_maxd := maxd g; ev_sig_active := nonempty (sigl g) |} ->
  GInv v0 lo0 md (log_ev (take g (CAcq n)) t op true (value g) n).
Proof.
  intros [] Hn He. constructor; cbn; try assumption; try lia; try (unfold sum_taken in *; lia). constructor; assumption.
Qed.

Lemma GInv_arrive v0 lo0 md g t : GInv v0 lo0 md g -> GInv v0 lo0 md (arrive g t).
Proof. intros []. constructor; cbn; assumption. Qed.
Lemma GInv_enqueue v0 lo0 md g t : GInv v0 lo0 md g -> GInv v0 lo0 md (enqueue g t).
Proof. intros []. constructor; cbn; assumption. Qed.

Lemma wait_or_take_inv v0 lo0 md t g l c :
  GInv v0 lo0 md g -> lwf l ->
  match c with CAcq n => cur_op l = Acquire n | CSl u => cur_op l = SlWait u end -> todo l <> [] ->
  GInv v0 lo0 md (fst (wait_or_take t g l c)) /\ lwf (snd (wait_or_take t g l c)).
Proof.
  intros Hg Hl Hc Hne. unfold wait_or_take.
  destruct (cond_blocked g c) eqn:Hb; cbn [fst snd].
  - split; [now apply GInv_enqueue|]. destruct Hl as [H1 _]. split; [exact H1|].
    unfold pc_ok; cbn. destruct c; auto.
  - split; [|now apply lwf_done].
    destruct c as [n|u]; cbn in Hb; zb.
    + cbn [taken_of]. apply GInv_take_log; [assumption|lia|]. rewrite Hc. cbn. repeat split; lia.
    + cbn [take taken_of]. apply GInv_log; [assumption|reflexivity|]. rewrite Hc. cbn.
      destruct Hg. repeat split; lia.
Qed.

Lemma fail_op_inv v0 lo0 md t g l :
  GInv v0 lo0 md g -> lwf l ->
  ev_ok {| ev_tid := t; ev_op := cur_op l; ev_res := false; ev_avail := value g; ev_taken := 0;
              ev_lower := lower g; ev_maxd := maxd g; ev_sig_active := nonempty (sigl g) |} ->
  GInv v0 lo0 md (fst (fail_op t g l)) /\ lwf (snd (fail_op t g l)).
Proof.
  intros Hg Hl He. unfold fail_op; cbn [fst snd]. split; [|now apply lwf_done].
  apply GInv_log; auto.
Qed.

Definition sig_op_ok (g : sem_g) (l : sem_l) : Prop :=
  (exists n, cur_op l = Release n) \/ is_slsig (cur_op l).

Lemma GInv_ghost v0 lo0 md g s : GInv v0 lo0 md g -> GInv v0 lo0 md (set_sigl g s).
Proof. intros []. constructor; cbn; assumption. Qed.

Lemma finish_sig_inv v0 lo0 md t g l :
  GInv v0 lo0 md g -> lwf l -> sig_op_ok g l ->
  GInv v0 lo0 md (fst (finish_sig t g l)) /\ lwf (snd (finish_sig t g l)).
Proof.
  intros Hg Hl Ho. unfold finish_sig; cbn [fst snd]. split; [|now apply lwf_done].
  apply GInv_log; [now apply GInv_ghost|reflexivity|].
  destruct Ho as [[n ->]|Ho]; [cbn; repeat split; lia|].
  destruct (cur_op l); try contradiction; cbn; repeat split; lia.
Qed.

Definition sig_pc_ok (l : sem_l) (chk : bool) : Prop :=
  todo l <> [] /\ if chk then exists n, cur_op l = Release n else is_slsig (cur_op l).

Lemma after_resume_inv v0 lo0 md t g l chk k :
  GInv v0 lo0 md g -> lwf l -> sig_op_ok g l -> sig_pc_ok l chk ->
  GInv v0 lo0 md (fst (after_resume t g l chk k)) /\ lwf (snd (after_resume t g l chk k)).
Proof.
  intros Hg Hl Ho [Hne Hc]. unfold after_resume. destruct (queue g).
  - now apply finish_sig_inv.
  - cbn [fst snd]. split; [now apply GInv_ghost|]. destruct Hl as [H1 _]. split; [exact H1|].
    unfold pc_ok; cbn. destruct chk; auto.
Qed.

Lemma GInv_agq v0 lo0 md g q p a h : GInv v0 lo0 md g ->
  GInv v0 lo0 md (set_holder (set_ag (set_popped (set_queue g q) p) a) h).
Proof. intros []. constructor; cbn; assumption. Qed.
Lemma GInv_agq' v0 lo0 md g q p a : GInv v0 lo0 md g ->
  GInv v0 lo0 md (set_ag (set_popped (set_queue g q) p) a).
Proof. intros []. constructor; cbn; assumption. Qed.
Lemma GInv_hq v0 lo0 md g q p h s : GInv v0 lo0 md g ->
  GInv v0 lo0 md (set_sigl (set_holder (set_popped (set_queue g q) p) h) s).
Proof. intros []. constructor; cbn; assumption. Qed.

Lemma notify_inv v0 lo0 md kind t g l chk k :
  GInv v0 lo0 md g -> lwf l -> sig_op_ok g l -> sig_pc_ok l chk ->
  GInv v0 lo0 md (fst (notify kind t g l chk k)) /\ lwf (snd (notify kind t g l chk k)).
Proof.
  intros Hg Hl Ho Hp. unfold notify.
  destruct ((negb chk || (0 <=? value g)) && (0 <? k)); [|now apply finish_sig_inv].
  destruct (queue g) as [|w q'] eqn:Hq; [now apply finish_sig_inv|].
  assert (Hres : forall a, let g2 := set_ag (set_popped (set_queue g q') (w :: popped g)) a in
            GInv v0 lo0 md (fst (after_resume t g2 l chk (k - 1))) /\ lwf (snd (after_resume t g2 l chk (k - 1)))).
  { intros a g2. apply after_resume_inv; auto. now apply GInv_agq'. }
  destruct (kind w); [apply Hres|].
  destruct (blocked (ag g w)); [apply Hres|].
  cbn [fst snd]. split; [now apply GInv_hq|]. destruct Hl as [H1 _]. split; [exact H1|].
  destruct Hp as [Hne Hc]. unfold pc_ok; cbn. destruct chk; auto.
Qed.

Lemma sem_step_inv v0 lo0 md kind o t g l :
  GInv v0 lo0 md g -> lwf l ->
  GInv v0 lo0 md (fst (sem_tstep kind o t g l)) /\ lwf (snd (sem_tstep kind o t g l)).
Proof.
  intros Hg Hl. unfold sem_tstep.
  destruct (pc l) as [|c|c|n|chk k|w chk k] eqn:Hpc.
  - (* Idle *)
    destruct (todo l) as [|op rest] eqn:Htd; [split; assumption|].
    assert (Hcur : cur_op l = op) by (unfold cur_op; now rewrite Htd).
    assert (Hne : todo l <> []) by (rewrite Htd; discriminate).
    assert (Hwf : wf_op op) by (destruct Hl as [H1 _]; rewrite Htd in H1; now inversion H1).
    destruct op; try (destruct (is_free g); [|split; assumption]).
    + apply wait_or_take_inv; auto.
    + destruct (value g <? n) eqn:Hv; zb; cbn [fst snd].
      * split; [now apply GInv_enqueue|]. destruct Hl as [H1 _]. split; [exact H1|].
        unfold pc_ok; cbn. auto.
      * split; [|now apply lwf_done]. apply GInv_take_log; auto. cbn. split; [intros _; lia|discriminate].
    + destruct (value g <? n) eqn:Hv; zb.
      * apply fail_op_inv; auto. rewrite Hcur. cbn. split; [discriminate|intros _; lia].
      * cbn [fst snd]. split; [|now apply lwf_done]. apply GInv_take_log; auto. cbn. split; [intros _; lia|discriminate].
    + destruct (1 <=? value g) eqn:Hv; zb.
      * cbn [fst snd]. split; [|now apply lwf_done]. apply GInv_take_log; auto. cbn. split; [intros _; lia|discriminate].
      * apply fail_op_inv; auto. rewrite Hcur. cbn. split; [discriminate|intros _; lia].
    + cbn in Hwf. apply notify_inv; auto.
      * destruct Hg. constructor; cbn; try assumption; lia.
      * left. eauto.
      * split; [assumption|eauto].
    + apply wait_or_take_inv; auto.
    + destruct (cond_blocked g (CSl u)) eqn:Hb; cbn in Hb; zb.
      * apply fail_op_inv; auto. rewrite Hcur. cbn. destruct Hg. split; [reflexivity|]. split; [discriminate|lia].
      * cbn [fst snd]. split; [|now apply lwf_done]. apply GInv_log; auto. cbn. destruct Hg.
        split; [reflexivity|]. split; [lia|reflexivity].
    + unfold sl_notify. apply notify_inv; auto.
      * destruct Hg. constructor; cbn; try assumption; lia.
      * right. rewrite Hcur. exact I.
      * split; [assumption|rewrite Hcur; exact I].
    + unfold sl_notify. apply notify_inv; auto.
      * destruct Hg. constructor; cbn; try assumption; lia.
      * right. rewrite Hcur. exact I.
      * split; [assumption|rewrite Hcur; exact I].
    + unfold sl_notify. apply notify_inv; auto.
      * destruct Hg. constructor; cbn; try assumption; lia.
      * right. rewrite Hcur. exact I.
      * split; [assumption|rewrite Hcur; exact I].
    + cbn [fst snd]. split; [|now apply lwf_done]. destruct (kind w); [|assumption].
      destruct Hg. constructor; cbn; assumption.
  - (* Susp *)
    cbn [fst snd]. split; [destruct Hg; constructor; cbn; assumption|].
    destruct Hl as [H1 H2]. split; [exact H1|]. unfold pc_ok in *. rewrite Hpc in H2. cbn. exact H2.
  - (* Blk *)
    destruct (is_free g && negb (blocked (ag g t))); [|split; assumption].
    destruct Hl as [H1 H2]. pose proof H2 as H2'. unfold pc_ok in H2'. rewrite Hpc in H2'.
    apply wait_or_take_inv; [now apply GInv_arrive|split; assumption| |]; destruct c; tauto.
  - (* TSleep *)
    destruct Hl as [H1 H2]. pose proof H2 as H2'. unfold pc_ok in H2'. rewrite Hpc in H2'. destruct H2' as [Hcur Hne].
    destruct o.
    + destruct (is_free g); [|split; [assumption|split; assumption]].
      destruct (mem t (queue g)).
      * apply fail_op_inv; [now apply GInv_arrive|split; assumption|]. rewrite Hcur. cbn. split; [discriminate|reflexivity].
      * destruct (value (arrive g t) <? n) eqn:Hv; zb; cbn [fst snd]; cbn in Hv.
        -- split; [apply GInv_enqueue; now apply GInv_arrive|split; assumption].
        -- split; [|apply lwf_done; split; assumption].
           apply GInv_take_log; [now apply GInv_arrive|cbn; lia|]. rewrite Hcur. cbn. split; [intros _; lia|discriminate].
    + cbn [fst snd]. split; [assumption|split; assumption].
  - (* SigLoop *)
    destruct (is_free g); [|split; assumption].
    destruct Hl as [H1 H2]. pose proof H2 as H2'. unfold pc_ok in H2'. rewrite Hpc in H2'.
    apply notify_inv; [assumption|split; assumption| |].
    + destruct chk; destruct H2' as [Hx _]; [left; exact Hx|right; exact Hx].
    + destruct chk; destruct H2' as [Hx Hne]; split; assumption.
  - (* ResWait *)
    destruct (blocked (ag g w)); [|split; assumption].
    destruct Hl as [H1 H2]. pose proof H2 as H2'. unfold pc_ok in H2'. rewrite Hpc in H2'.
    apply after_resume_inv; [|split; assumption| |].
    + destruct Hg. constructor; cbn; assumption.
    + destruct chk; destruct H2' as [Hx _]; [left; exact Hx|right; exact Hx].
    + destruct chk; destruct H2' as [Hx Hne]; split; assumption.
Qed.

(* ------------------------------------------------------------------ top level: safety *)
Definition wf_progs (progs : nat -> list sop) : Prop := forall t, Forall wf_op (progs t).

Lemma sem_inv_from kind sched v0 lo0 md c :
  GInv v0 lo0 md (fst c) -> (forall t, lwf (snd c t)) ->
  GInv v0 lo0 md (fst (run (sem_tstep kind) sched c)) /\ forall t, lwf (snd (run (sem_tstep kind) sched c) t).
Proof.
  apply run_inv_split. intros o t g l. apply sem_step_inv.
Qed.

Lemma GInv_init v0 lo0 md : 0 <= v0 -> GInv v0 lo0 md (sem_init v0 lo0 md).
Proof. intros H. constructor; cbn; try lia; try reflexivity. constructor. Qed.

Lemma lwf_init progs t : wf_progs progs -> lwf (sem_locals progs t).
Proof. intros H. split; [apply H|exact I]. Qed.

Theorem sem_safety kind sched v0 lo0 md progs : 0 <= v0 -> wf_progs progs ->
  GInv v0 lo0 md (fst (sem_run kind sched v0 lo0 md progs)).
Proof.
  intros Hv Hp. apply sem_inv_from; [now apply GInv_init|intros t; now apply lwf_init].
Qed.

Theorem permits_conserved kind sched v0 lo0 md progs : 0 <= v0 -> wf_progs progs ->
  let g := fst (sem_run kind sched v0 lo0 md progs) in
  value g + acquired g = v0 + released g /\ acquired g <= v0 + released g /\ 0 <= value g /\
  acquired g = sum_taken (slog g).
Proof.
  intros Hv Hp g. destruct (sem_safety kind sched v0 lo0 md progs Hv Hp) as [].
  fold g in gi_cons0, gi_nonneg0, gi_sum0. repeat split; try assumption; lia.
Qed.

Theorem log_meaning kind sched v0 lo0 md progs : 0 <= v0 -> wf_progs progs ->
  forall e, In e (slog (fst (sem_run kind sched v0 lo0 md progs))) -> ev_ok e.
Proof.
  intros Hv Hp e He. destruct (sem_safety kind sched v0 lo0 md progs Hv Hp) as [].
  rewrite Forall_forall in gi_log0. now apply gi_log0.
Qed.

(* non-blocking acquires: true iff enough permits were there at the critical section, and then
   exactly that many are consumed; false leaves the count alone *)
Theorem nonblocking_true_iff_consumed kind sched v0 lo0 md progs : 0 <= v0 -> wf_progs progs ->
  forall e, In e (slog (fst (sem_run kind sched v0 lo0 md progs))) ->
  (ev_op e = TryAcquire ->
     (ev_res e = true <-> 1 <= ev_avail e) /\ (ev_res e = true <-> ev_taken e = 1) /\ (ev_res e = false <-> ev_taken e = 0)) /\
  (forall n, 0 < n -> ev_op e = TryWait n ->
     (ev_res e = true <-> n <= ev_avail e) /\ (ev_res e = true <-> ev_taken e = n) /\ (ev_res e = false <-> ev_taken e = 0)).
Proof.
  intros Hv Hp e He. pose proof (log_meaning kind sched v0 lo0 md progs Hv Hp e He) as H.
  unfold ev_ok in H. split.
  - intros Ho. rewrite Ho in H. destruct H as [H1 H2]. destruct (ev_res e); intuition (try discriminate; try lia).
  - intros n Hn Ho. rewrite Ho in H. destruct H as [H1 H2]. destruct (ev_res e); intuition (try discriminate; try lia).
Qed.

Theorem timed_true_iff_consumed kind sched v0 lo0 md progs : 0 <= v0 -> wf_progs progs ->
  forall e n, In e (slog (fst (sem_run kind sched v0 lo0 md progs))) -> ev_op e = TimedAcquire n -> 0 < n ->
  (ev_res e = true <-> ev_taken e = n) /\ (ev_res e = false <-> ev_taken e = 0) /\ (ev_res e = true -> n <= ev_avail e).
Proof.
  intros Hv Hp e n He Ho Hn. pose proof (log_meaning kind sched v0 lo0 md progs Hv Hp e He) as H.
  unfold ev_ok in H. rewrite Ho in H. destruct H as [H1 H2]. destruct (ev_res e); intuition (try discriminate; try lia).
Qed.

(* a step in which an acquire-type operation returns false leaves the count untouched; more
   generally the count changes only by a release's first critical section and by the final
   critical section of an operation that returns true *)
Lemma cons_self_neq (A : Type) (x : A) l : l = x :: l -> False.
Proof. intros H. apply (f_equal (@length A)) in H. cbn in H. lia. Qed.

Theorem false_leaves_count kind o t g l :
  let g' := fst (sem_tstep kind o t g l) in
  (value g' = value g + (released g' - released g) - (acquired g' - acquired g)) /\
  (acquired g' <> acquired g ->
     exists e, slog g' = e :: slog g /\ ev_res e = true /\ ev_tid e = t /\ ev_taken e = acquired g' - acquired g) /\
  (forall e, slog g' = e :: slog g -> ev_res e = false -> value g' = value g /\ acquired g' = acquired g).
Proof.
  unfold sem_tstep, sl_notify, wait_or_take, fail_op, notify, after_resume, finish_sig, take, taken_of, cond_blocked.
  destruct (pc l); [destruct (todo l) as [|[] ?]| | |destruct o| |];
    repeat match goal with
           | |- context [if ?b then _ else _] => destruct b
           | |- context [match ?x with _ => _ end] => destruct x
           end;
    cbn; (split; [lia|split; [intros Hne; try (exfalso; lia); eexists; repeat split; cbn; lia|
                             intros e He Hr; try (exfalso; eapply cons_self_neq; eassumption);
                             try (injection He as <-; cbn in Hr; try discriminate); split; lia]]).
Qed.

(* sliding semaphore: lower_limit_ and max_difference_ are written by two kinds of critical section only.
   signal(x) (and signal_all = signal(lower_limit_)) raises the lower limit to max(x, lower) and
   leaves max_difference_; set_max_difference(md, lo) OVERWRITES both (the lower limit may
   decrease).  So "the lower limit never decreases" holds exactly for the steps that are not the
   first critical section of a set_max_difference, and between two of those along any run. *)
Definition at_setmd (l : sem_l) : Prop :=
  pc l = Idle /\ exists md lo rest, todo l = SlSetMaxDiff md lo :: rest.

Theorem sliding_signal_monotone_step kind o t g l : ~ at_setmd l ->
  lower g <= lower (fst (sem_tstep kind o t g l)) /\ maxd (fst (sem_tstep kind o t g l)) = maxd g.
Proof.
  intros Hn. destruct l as [td p]. unfold at_setmd in Hn. cbn [pc todo] in Hn.
  unfold sem_tstep, sl_notify, wait_or_take, fail_op, notify, after_resume, finish_sig, take, taken_of, cond_blocked.
  cbn [pc todo].
  destruct p; [destruct td as [|[] ?]| | |destruct o| |];
    try (exfalso; apply Hn; split; [reflexivity|eauto]; fail);
    repeat match goal with
           | |- context [if ?b then _ else _] => destruct b
           | |- context [match ?x with _ => _ end] => destruct x
           end; cbn; split; try reflexivity; lia.
Qed.

(* no step of the schedule s (started in c) is the first critical section of a set_max_difference *)
Fixpoint quiet (kind : nat -> akind) (s : list (nat * bool)) (c : sem_g * (nat -> sem_l)) : Prop :=
  match s with
  | [] => True
  | so :: s' => ~ at_setmd (snd c (fst so)) /\ quiet kind s' (step (sem_tstep kind) c so)
  end.

Theorem sliding_signal_monotone kind s1 s2 c :
  quiet kind s2 (run (sem_tstep kind) s1 c) ->
  lower (fst (run (sem_tstep kind) s1 c)) <= lower (fst (run (sem_tstep kind) (s1 ++ s2) c)) /\
  maxd (fst (run (sem_tstep kind) (s1 ++ s2) c)) = maxd (fst (run (sem_tstep kind) s1 c)).
Proof.
  rewrite run_app. generalize (run (sem_tstep kind) s1 c). clear c.
  induction s2 as [|[t o] s IH]; intros c Hq; [cbn; split; [lia|reflexivity]|].
  rewrite run_cons. destruct Hq as [Hn Hq]. cbn [fst] in Hn. specialize (IH _ Hq).
  assert (Hs : lower (fst c) <= lower (fst (step (sem_tstep kind) c (t, o))) /\
               maxd (fst (step (sem_tstep kind) c (t, o))) = maxd (fst c)).
  { destruct c as [g ls]. cbn [step fst snd] in *.
    pose proof (sliding_signal_monotone_step kind o t g (ls t) Hn) as H.
    destruct (sem_tstep kind o t g (ls t)). exact H. }
  destruct IH as [I1 I2]. destruct Hs as [S1 S2]. split; [lia|congruence].
Qed.

Theorem sliding_signal_sets_max kind o t g l x rest :
  pc l = Idle -> todo l = SlSignal x :: rest -> holder g = None ->
  lower (fst (sem_tstep kind o t g l)) = Z.max x (lower g).
Proof.
  intros Hpc Htd Hh. unfold sem_tstep, is_free. rewrite Hpc, Htd, Hh.
  unfold sl_notify, notify, after_resume, finish_sig.
  repeat match goal with
         | |- context [if ?b then _ else _] => destruct b
         | |- context [match ?x with _ => _ end] => destruct x
         end; cbn; reflexivity.
Qed.

(* signal_all() = signal(lower_limit_): both fields keep their values (it only notifies) *)
Theorem sliding_signal_all_keeps kind o t g l rest :
  pc l = Idle -> todo l = SlSignalAll :: rest -> holder g = None ->
  lower (fst (sem_tstep kind o t g l)) = lower g /\ maxd (fst (sem_tstep kind o t g l)) = maxd g.
Proof.
  intros Hpc Htd Hh. unfold sem_tstep, is_free. rewrite Hpc, Htd, Hh.
  unfold sl_notify, notify, after_resume, finish_sig.
  repeat match goal with
         | |- context [if ?b then _ else _] => destruct b
         | |- context [match ?x with _ => _ end] => destruct x
         end; cbn; split; try reflexivity; lia.
Qed.

(* set_max_difference(md, lo) sets both fields (the lower limit is overwritten, not maximised) *)
Theorem sliding_set_max_difference_sets kind o t g l md lo rest :
  pc l = Idle -> todo l = SlSetMaxDiff md lo :: rest -> holder g = None ->
  lower (fst (sem_tstep kind o t g l)) = lo /\ maxd (fst (sem_tstep kind o t g l)) = md.
Proof.
  intros Hpc Htd Hh. unfold sem_tstep, is_free. rewrite Hpc, Htd, Hh.
  unfold sl_notify, notify, after_resume, finish_sig.
  repeat match goal with
         | |- context [if ?b then _ else _] => destruct b
         | |- context [match ?x with _ => _ end] => destruct x
         end; cbn; split; reflexivity.
Qed.

(* sliding wait / try_wait: what the return value means (safety half of sliding_wait_iff) *)
Theorem sliding_wait_only_if kind sched v0 lo0 md progs : 0 <= v0 -> wf_progs progs ->
  forall e, In e (slog (fst (sem_run kind sched v0 lo0 md progs))) ->
  (forall u, ev_op e = SlWait u -> u - ev_maxd e <= ev_lower e) /\
  (forall u, ev_op e = SlTryWait u -> (ev_res e = true <-> u - ev_maxd e <= ev_lower e)).
Proof.
  intros Hv Hp e He. pose proof (log_meaning kind sched v0 lo0 md progs Hv Hp e He) as H.
  unfold ev_ok in H. split; intros u Ho; rewrite Ho in H; tauto.
Qed.

(* ------------------------------------------------------------------ F14: OS-thread agent instance *)
Definition f14_progs (t : nat) : list sop :=
  match t with 0%nat => [TimedAcquire 1] | 1%nat => [Release 1] | _ => [] end.
Definition all_os (_ : nat) : akind := OsThr.

(* X = thread 0: try_acquire_for on an empty semaphore; Y = thread 1: release(1) before the
   deadline.  The state reached is stuck whatever the clock says: a permit is available, the
   timed acquirer has not returned and cannot (it needs the spinlock once its deadline passed),
   release() has not returned either (inside default_agent::resume, holding the spinlock). *)
Lemma os_timed_acquire_deadlock_refuted :
  exists sched, let c := sem_run all_os sched 0 0 0 f14_progs in
    stuck all_os (fst c) (snd c) /\ slog (fst c) = [] /\ value (fst c) = 1 /\ released (fst c) = 1 /\
    pc (snd c 0%nat) = TSleep 1 /\ pc (snd c 1%nat) = ResWait 0 true 0 /\ holder (fst c) = Some 1%nat.
Proof.
  exists [(0%nat, false); (1%nat, false)]. cbv zeta.
  set (c := sem_run all_os _ 0 0 0 f14_progs). vm_compute in c. subst c. cbn [fst snd].
  split; [|repeat split; reflexivity].
  intros t o. destruct t as [|[|t]]; destruct o; vm_compute; reflexivity.
Qed.

(* the same program on pika tasks cannot get stuck there: the same two steps leave the lock free
   and the waiter signalled; after the deadline it takes the permit and returns true *)
Lemma task_timed_acquire_released_example :
  let c := sem_run (fun _ => Task) [(0%nat, false); (1%nat, false); (0%nat, false); (0%nat, true)] 0 0 0 f14_progs in
  value (fst c) = 0 /\ acquired (fst c) = 1 /\ map ev_res (slog (fst c)) = [true; true] /\
  map ev_tid (slog (fst c)) = [0%nat; 1%nat] /\ pc (snd c 0%nat) = Idle /\ todo (snd c 0%nat) = [].
Proof. vm_compute. repeat split; reflexivity. Qed.
