(* Proofs/SemaphoreScenarios.v — the timed acquire against releasers (F1 after the fix):
   one thread x runs [TimedAcquire 1], every other thread only releases; every kind assignment,
   every number of releasers, every release count, every schedule and deadline oracle. *)
From Coq Require Import List ZArith Bool Arith Lia.
From Pika Require Import Base.Conc Base.Agent Model.Semaphore Proofs.SemaphoreProofs.
Import ListNotations.
Local Open Scope Z_scope.

(* releasers may also deliver stale resumes to anybody at any time (weak agent contract) *)
Definition is_release (o : sop) : Prop := match o with Release n => 0 <= n | StaleResume _ => True | _ => False end.

Definition x_local (l : sem_l) : Prop :=
  (pc l = Idle /\ (todo l = [TimedAcquire 1] \/ todo l = [])) \/ (pc l = TSleep 1 /\ todo l = [TimedAcquire 1]).
Definition rel_local (l : sem_l) : Prop :=
  Forall is_release (todo l) /\
  (pc l = Idle \/ ((exists k, pc l = SigLoop true k) \/ (exists w k, pc l = ResWait w true k)) /\ todo l <> []).

Record Scn (v0 : Z) (x : nat) (g : sem_g) (ls : nat -> sem_l) : Prop := {
  sc_cons : value g + acquired g = v0 + released g;
  sc_nonneg : 0 <= value g;
  sc_x : x_local (ls x);
  sc_others : forall t, t <> x -> rel_local (ls t);
  sc_queue : queue g = [] \/ queue g = [x];
  sc_wait : In x (queue g) -> value g < 1;
  sc_pending : todo (ls x) <> [] -> acquired g = 0;
  sc_log : forall e, In e (slog g) -> ev_tid e = x -> ev_res e = false -> ev_avail e < 1;
  sc_inq : In x (queue g) -> pc (ls x) = TSleep 1
}.

Ltac zb' := repeat match goal with
  | H : (_ <? _) = true |- _ => apply Z.ltb_lt in H
  | H : (_ <? _) = false |- _ => apply Z.ltb_ge in H
  | H : (_ <=? _) = true |- _ => apply Z.leb_le in H
  | H : (_ <=? _) = false |- _ => apply Z.leb_gt in H
  end.

Lemma upd_x_other {L} (ls : nat -> L) t l t' : t' <> t -> upd ls t l t' = ls t'.
Proof. intros H. unfold upd. apply Nat.eqb_neq in H. now rewrite H. Qed.
Lemma upd_x_same {L} (ls : nat -> L) t l : upd ls t l t = l.
Proof. unfold upd. now rewrite Nat.eqb_refl. Qed.

Lemma rm_single x : rm x [x] = [].
Proof. unfold rm. cbn. now rewrite Nat.eqb_refl. Qed.
Lemma mem_single x : mem x [x] = true.
Proof. unfold mem. cbn. now rewrite Nat.eqb_refl. Qed.

Lemma notify_cases kind t g l k :
  let r := notify kind t g l true k in
  value (fst r) = value g /\ acquired (fst r) = acquired g /\ released (fst r) = released g /\
  (queue (fst r) = queue g \/ queue (fst r) = tl (queue g)) /\
  (slog (fst r) = slog g \/ exists e, slog (fst r) = e :: slog g /\ ev_tid e = t) /\
  (todo (snd r) = todo l \/ todo (snd r) = tl (todo l)) /\
  ((pc (snd r) = Idle /\ todo (snd r) = tl (todo l)) \/
   (todo (snd r) = todo l /\ ((exists k', pc (snd r) = SigLoop true k') \/ (exists w k', pc (snd r) = ResWait w true k')))).
Proof.
  unfold notify, after_resume, finish_sig.
  repeat match goal with
         | |- context [if ?b then _ else _] => destruct b
         | |- context [match ?x with _ => _ end] => destruct x eqn:?
         end; cbn; repeat split; eauto 8;
    match goal with H : queue g = _ |- _ => rewrite H; cbn; auto end.
Qed.

Lemma after_resume_cases t g l k :
  let r := after_resume t g l true k in
  value (fst r) = value g /\ acquired (fst r) = acquired g /\ released (fst r) = released g /\
  queue (fst r) = queue g /\
  (slog (fst r) = slog g \/ exists e, slog (fst r) = e :: slog g /\ ev_tid e = t) /\
  ((pc (snd r) = Idle /\ todo (snd r) = tl (todo l)) \/
   (todo (snd r) = todo l /\ ((exists k', pc (snd r) = SigLoop true k') \/ (exists w k', pc (snd r) = ResWait w true k')))).
Proof.
  unfold after_resume, finish_sig. destruct (queue g) eqn:Hq; cbn; repeat split; eauto 8.
Qed.

Lemma tl_queue_ok x (q : list nat) : (q = [] \/ q = [x]) -> (tl q = [] \/ tl q = [x]) /\ (In x (tl q) -> False).
Proof. intros [->| ->]; cbn; tauto. Qed.

Lemma rel_local_after l (r : sem_l) :
  Forall is_release (todo l) ->
  ((pc r = Idle /\ todo r = tl (todo l)) \/
   (todo r = todo l /\ ((exists k', pc r = SigLoop true k') \/ (exists w k', pc r = ResWait w true k')))) ->
  todo l <> [] -> rel_local r.
Proof.
  intros Hf [[Hp Ht]|[Ht Hp]] Hne; split.
  - rewrite Ht. destruct (todo l); [constructor|now inversion Hf].
  - now left.
  - now rewrite Ht.
  - right. split; [exact Hp|now rewrite Ht].
Qed.

Ltac scn_fin :=
  cbn; rewrite ?upd_x_same; auto; try lia; try tauto;
  try (intros ? ?; rewrite upd_x_other by auto; auto; fail);
  try (right; cbn; split; [reflexivity|assumption]);
  try (left; split; [assumption|auto]; fail); try (right; split; assumption);
  try (left; cbn; split; [reflexivity|]; match goal with H : todo _ = _ |- _ => rewrite H end; cbn; auto; fail).

Lemma scn_step v0 x kind o t g ls : 0 <= v0 ->
  Scn v0 x g ls ->
  Scn v0 x (fst (sem_tstep kind o t g (ls t))) (upd ls t (snd (sem_tstep kind o t g (ls t)))).
Proof.
  intros Hv0 S. destruct (Nat.eq_dec t x) as [->|Hne].
  - (* the timed acquirer *)
    destruct S. unfold sem_tstep.
    destruct sc_x0 as [[Hpc [Htd|Htd]]|[Hpc Htd]]; rewrite Hpc, ?Htd.
    + (* start *)
      destruct (is_free g); [|constructor; scn_fin].
      destruct (value g <? 1) eqn:Hlt; zb'; cbn [fst snd].
      * constructor; scn_fin.
        destruct sc_queue0 as [Hq|Hq]; rewrite Hq; cbn; auto.
        exfalso. specialize (sc_inq0 ltac:(rewrite Hq; now left)). congruence.
      * constructor; scn_fin;
          try (intros Hin; specialize (sc_wait0 Hin); (lia || (exfalso; lia)));
          try (unfold done_l; cbn [todo]; rewrite Htd; cbn; tauto).
        intros e [<-|He]; cbn; [discriminate|auto].
    + (* finished *)
      constructor; scn_fin.
    + (* sleeping *)
      destruct o.
      * destruct (is_free g); [|constructor; scn_fin].
        destruct sc_queue0 as [Hq|Hq]; rewrite Hq.
        -- (* signalled *)
           cbn [mem existsb]. unfold arrive. rewrite Hq. cbn [rm filter].
           match goal with |- context [if ?b then _ else _] => destruct b eqn:Hlt end; cbn in Hlt; zb'; cbn [fst snd].
           ++ constructor; scn_fin.
           ++ assert (acquired g = 0) by (apply sc_pending0; rewrite Htd; discriminate).
              constructor; scn_fin; try (unfold done_l; cbn [todo]; rewrite Htd; cbn; tauto).
              intros e [<-|He]; cbn; [discriminate|auto].
        -- (* timeout *)
           rewrite mem_single. unfold fail_op, arrive. rewrite Hq, rm_single. cbn [fst snd].
           assert (value g < 1) by (apply sc_wait0; rewrite Hq; now left).
           constructor; scn_fin; try (unfold done_l; cbn [todo]; rewrite Htd; cbn; tauto).
           intros e [<-|He]; cbn; [|auto]. intros _ _. assumption.
      * cbn [fst snd]. destruct (kind x); constructor; scn_fin.
  - (* a releaser *)
    pose proof S as S'. destruct S. destruct (sc_others0 t Hne) as [Hf Hp].
    assert (Hx : forall l', upd ls t l' x = ls x) by (intros; apply upd_x_other; auto).
    assert (Hoth : forall l', rel_local l' -> forall t', t' <> x -> rel_local (upd ls t l' t')).
    { intros l' Hl' t' Ht'. unfold upd. destruct (Nat.eqb t' t); auto. }
    unfold sem_tstep.
    destruct Hp as [Hpc|[[[k Hpc]|[w [k Hpc]]] Htne]]; rewrite Hpc.
    + destruct (todo (ls t)) as [|op rest] eqn:Htd.
      { constructor; rewrite ?Hx; auto. apply Hoth. exact (sc_others0 t Hne). }
      inversion Hf as [|? ? Hop Hrest]; subst. destruct op as [| | | |n| | | | | |w0]; cbn in Hop; try contradiction;
        [|cbn [fst snd];
          assert (Hl : rel_local (done_l (ls t))) by (split; [cbn; rewrite Htd; exact Hrest|now left]);
          destruct (kind w0); constructor; cbn; rewrite ?Hx; auto; apply Hoth; exact Hl].
      destruct (is_free g); [|constructor; rewrite ?Hx; auto; apply Hoth; exact (sc_others0 t Hne)].
      set (g1 := set_released (set_value g (value g + n)) (released g + n)).
      pose proof (notify_cases kind t g1 (ls t) n) as Hn. cbv zeta in Hn.
      destruct (notify kind t g1 (ls t) true n) as [g' l'] eqn:Hnot. cbn [fst snd] in *.
      destruct Hn as (Hval & Hacq & Hrel & Hqq & Hlog & _ & Hpc').
      (* did it pop?  if n >= 1 and the queue was [x] it did *)
      assert (Hqn : (queue g' = [] \/ queue g' = [x]) /\ (In x (queue g') -> value g' < 1)).
      { unfold notify in Hnot. cbn [value g1 set_released set_value negb orb] in Hnot.
        destruct (0 <=? value g + n) eqn:Hz; zb'; [|lia].
        destruct (0 <? n) eqn:Hn0; zb'; cbn [andb] in Hnot.
        - cbn [queue g1 set_released set_value] in Hnot.
          destruct sc_queue0 as [Hq|Hq]; rewrite Hq in Hnot.
          + unfold finish_sig in Hnot. injection Hnot as <- <-. cbn. rewrite Hq. split; [auto|intros []].
          + assert (queue g' = []) as ->; [|split; [auto|intros []]].
            unfold after_resume, finish_sig in Hnot. cbn in Hnot.
            destruct (kind x); [injection Hnot as <- <-; reflexivity|].
            destruct (blocked (ag g x)); injection Hnot as <- <-; reflexivity.
        - assert (n = 0) by lia. subst n. unfold finish_sig in Hnot. injection Hnot as <- <-. cbn.
          split; [auto|]. intros Hin. specialize (sc_wait0 Hin). lia. }
      destruct Hqn as [Hq1 Hq2].
      constructor; rewrite ?Hx; auto.
      * rewrite Hval, Hacq, Hrel. cbn. lia.
      * rewrite Hval. cbn. lia.
      * apply Hoth. eapply rel_local_after; eauto; try rewrite Htd; try discriminate; auto.
      * intros Hne'. rewrite Hacq. cbn. auto.
      * intros e He. destruct Hlog as [Hl|[e' [Hl He']]]; rewrite Hl in He; cbn in He.
        -- auto.
        -- destruct He as [<-|He]; [intros Ht; congruence|auto].
      * intros Hin. apply sc_inq0. destruct Hqq as [Hq'|Hq']; rewrite Hq' in Hin; cbn in Hin; [exact Hin|].
        destruct (queue g); cbn in *; auto.
    + destruct (is_free g); [|constructor; rewrite ?Hx; auto; apply Hoth; exact (sc_others0 t Hne)].
      pose proof (notify_cases kind t g (ls t) k) as Hn. cbv zeta in Hn.
      destruct (notify kind t g (ls t) true k) as [g' l'] eqn:Hnot. cbn [fst snd] in *.
      destruct Hn as (Hval & Hacq & Hrel & Hqq & Hlog & _ & Hpc').
      constructor; rewrite ?Hx; auto; try congruence.
      * apply Hoth. eapply rel_local_after; eauto.
      * destruct Hqq as [->| ->]; [auto|]. now apply (tl_queue_ok x).
      * rewrite Hval. destruct Hqq as [->| ->]; [auto|]. intros Hin. now apply (tl_queue_ok x) in Hin.
      * rewrite Hacq. auto.
      * intros e He. destruct Hlog as [Hl|[e' [Hl He']]]; rewrite Hl in He; cbn in He.
        -- auto.
        -- destruct He as [<-|He]; [intros Ht; congruence|auto].
      * intros Hin. apply sc_inq0. destruct Hqq as [Hq'|Hq']; rewrite Hq' in Hin; cbn in Hin; [exact Hin|].
        destruct (queue g); cbn in *; auto.
    + destruct (blocked (ag g w)); [|constructor; rewrite ?Hx; auto; apply Hoth; exact (sc_others0 t Hne)].
      set (g1 := set_holder (set_ag g (upd (ag g) w (a_resume (ag g w)))) None).
      pose proof (after_resume_cases t g1 (ls t) k) as Hn. cbv zeta in Hn.
      destruct (after_resume t g1 (ls t) true k) as [g' l'] eqn:Hnot. cbn [fst snd] in *.
      destruct Hn as (Hval & Hacq & Hrel & Hqq & Hlog & Hpc').
      constructor; rewrite ?Hx; auto; try (rewrite ?Hval, ?Hacq, ?Hrel, ?Hqq; cbn; auto; fail).
      * apply Hoth. eapply rel_local_after; eauto.
      * intros e He. destruct Hlog as [Hl|[e' [Hl He']]]; rewrite Hl in He; cbn in He.
        -- auto.
        -- destruct He as [<-|He]; [intros Ht; congruence|auto].
Qed.

Definition releasers_only (x : nat) (progs : nat -> list sop) : Prop :=
  progs x = [TimedAcquire 1] /\ forall t, t <> x -> Forall is_release (progs t).

Lemma scn_init v0 lo0 md x progs : 0 <= v0 -> releasers_only x progs ->
  Scn v0 x (sem_init v0 lo0 md) (sem_locals progs).
Proof.
  intros Hv [Hx Ho]. constructor; cbn; auto; try lia; try tauto.
  - left. cbn. auto.
  - intros t Ht. split; [now apply Ho|now left].
Qed.

(* A timed acquire of one permit, with any number of concurrent releasers and nobody else
   acquiring, returns false only if at its decision point (after the deadline) the count was 0;
   and while it is pending every released permit is in the count: value = initial + released.
   So it returns true whenever a permit was there initially or was released before that point
   — in particular before its deadline — and then it consumed it (C08_timed_true_iff_consumed). *)
Theorem timed_true_if_released_before_deadline kind sched v0 lo0 md x progs :
  0 <= v0 -> releasers_only x progs ->
  let c := sem_run kind sched v0 lo0 md progs in
  (forall e, In e (slog (fst c)) -> ev_tid e = x -> ev_res e = false -> ev_avail e < 1) /\
  (todo (snd c x) <> [] -> value (fst c) = v0 + released (fst c)).
Proof.
  intros Hv Hp c.
  assert (S : Scn v0 x (fst c) (snd c)).
  { unfold c, sem_run. apply (run_inv _ _ _ (sem_tstep kind) (Scn v0 x)).
    - intros o t g ls. now apply scn_step.
    - now apply scn_init. }
  destruct S. split; [exact sc_log0|]. intros Hne. specialize (sc_pending0 Hne). lia.
Qed.
