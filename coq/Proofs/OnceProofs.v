(* Proofs/OnceProofs.v — call_once: the callable completes successfully at most once, runs of it
   never overlap, callers return only after the successful run, a throw hands the flag back. *)
From Coq Require Import List Bool Arith NArith Lia.
From Pika Require Import Base.Conc Base.Agent Gen.GenOnce Model.Event Model.Once.
Import ListNotations.

Definition runner_pc (o : option opcT) : bool :=
  match o with Some OR1 | Some OBody | Some (OStore _) | Some (OSet false _) => true | _ => false end.
Definition body_pc (o : option opcT) : bool := match o with Some OBody => true | _ => false end.

Lemma consts_distinct :
  N.eqb once_running once_complete = false /\ N.eqb once_running once_cas_expected = false /\
  N.eqb once_complete once_cas_expected = false /\ N.eqb once_after_throw once_complete = false /\
  N.eqb once_after_throw once_running = false /\ once_after_throw = once_cas_expected /\
  once_init = once_cas_expected.
Proof. repeat split; reflexivity. Qed.

Record OInv (g : once) (ls : locals olocal) : Prop := {
  r1a : forall t, orun g = Some t -> runner_pc (opc (ls t)) = true;
  r1b : forall t, runner_pc (opc (ls t)) = true -> orun g = Some t;
  r2a : status g = once_running -> orun g <> None;
  r2b : orun g <> None -> status g = once_running;
  r3 : status g = once_running \/ status g = once_complete \/ status g = once_cas_expected;
  c1 : nbegin (olog g) = nend (olog g) +
       (match orun g with Some t => match opc (ls t) with Some OBody => 1 | _ => 0 end | None => 0 end);
  k1 : status g = once_complete -> nok (olog g) = 1;
  k2 : forall t, opc (ls t) = Some (OStore true) -> nok (olog g) = 1;
  k3 : forall t sub, opc (ls t) = Some (OSet true sub) -> nok (olog g) = 1;
  k4 : 1 <= nok (olog g) -> status g = once_complete \/ exists t, orun g = Some t /\ opc (ls t) = Some (OStore true);
  k5 : nok (olog g) <= 1;
  l_ret : forall l1 l2 t, olog g = l1 ++ ORet t :: l2 -> nok l2 = 1;
  l_begin : forall l1 l2 t, olog g = l1 ++ OBegin t :: l2 -> nbegin l2 = nend l2 /\ nok l2 = 0 }.

Lemma split_cons {A} (e e' : A) lg l1 l2 : e' :: lg = l1 ++ e :: l2 ->
  (l1 = [] /\ e' = e /\ lg = l2) \/ (exists l1', l1 = e' :: l1' /\ lg = l1' ++ e :: l2).
Proof.
  destruct l1 as [|x l1']; cbn; intros H; inversion H; subst.
  - left. repeat split.
  - right. eexists. split; reflexivity.
Qed.

(* steps that change neither status, orun nor the log, and keep the thread inside the same class
   of program counters *)
Lemma OInv_local g g' ls t l' : OInv g ls ->
  status g' = status g -> orun g' = orun g -> olog g' = olog g ->
  runner_pc (opc l') = runner_pc (opc (ls t)) -> body_pc (opc l') = body_pc (opc (ls t)) ->
  (opc l' = Some (OStore true) <-> opc (ls t) = Some (OStore true)) ->
  (forall sub, opc l' = Some (OSet true sub) -> exists sub0, opc (ls t) = Some (OSet true sub0)) ->
  OInv g' (upd ls t l').
Proof.
  intros I Hs Ho Hl Hr Hb Hst Hset. destruct I as [A B C D E F K1 K2 K3 K4 K5 L1 L2].
  split; rewrite ?Hs, ?Ho, ?Hl; auto.
  - intros t0 H0. destruct (Nat.eq_dec t0 t) as [->|Hne]; [rewrite upd_same, Hr; apply A; exact H0|].
    rewrite upd_other by exact Hne. apply A. exact H0.
  - intros t0 H0. destruct (Nat.eq_dec t0 t) as [->|Hne]; [rewrite upd_same, Hr in H0; apply B; exact H0|].
    rewrite upd_other in H0 by exact Hne. apply B. exact H0.
  - destruct (orun g) as [t0|] eqn:Hor; [|exact F].
    destruct (Nat.eq_dec t0 t) as [->|Hne]; [|rewrite upd_other by exact Hne; exact F].
    rewrite upd_same. unfold body_pc in Hb.
    destruct (opc l') as [[]|]; destruct (opc (ls t)) as [[]|]; try discriminate; exact F.
  - intros t0 H0. destruct (Nat.eq_dec t0 t) as [->|Hne]; [rewrite upd_same in H0; apply (K2 t); apply Hst; exact H0|].
    rewrite upd_other in H0 by exact Hne. eapply K2; exact H0.
  - intros t0 sub H0. destruct (Nat.eq_dec t0 t) as [->|Hne].
    + rewrite upd_same in H0. destruct (Hset _ H0) as [sub0 H1]. eapply K3; exact H1.
    + rewrite upd_other in H0 by exact Hne. eapply K3; exact H0.
  - intros H0. destruct (K4 H0) as [H1|[t0 [H1 H2]]]; [left; exact H1|right].
    exists t0. split; [exact H1|]. destruct (Nat.eq_dec t0 t) as [->|Hne]; [rewrite upd_same; apply Hst; exact H2|].
    rewrite upd_other by exact Hne. exact H2.
Qed.

Lemma OInv_same g e' ls t : OInv g ls ->
  OInv {| status := status g; oev := e'; orun := orun g; olog := olog g |} (upd ls t (ls t)).
Proof.
  intros I. assert (Hq : forall t0, upd ls t (ls t) t0 = ls t0).
  { intros t0. destruct (Nat.eq_dec t0 t) as [->|Hne]; [apply upd_same|apply upd_other; exact Hne]. }
  destruct I as [A B C D E F K1 K2 K3 K4 K5 L1 L2]. split; cbn; auto.
  - intros t0 H0. rewrite Hq. auto.
  - intros t0 H0. rewrite Hq in H0. auto.
  - destruct (orun g); [rewrite Hq|]; exact F.
  - intros t0 H0. rewrite Hq in H0. eauto.
  - intros t0 sub H0. rewrite Hq in H0. eauto.
  - intros H0. destruct (K4 H0) as [H1|[t0 [H1 H2]]]; [left; exact H1|right; exists t0; rewrite Hq; auto].
Qed.

Definition add_log (g : once) (e : oevt) : once :=
  {| status := status g; oev := oev g; orun := orun g; olog := e :: olog g |}.

Lemma OInv_log_ret g ls t : OInv g ls -> nok (olog g) = 1 -> OInv (add_log g (ORet t)) ls.
Proof.
  intros I Hk. destruct I as [A B C D E F K1 K2 K3 K4 K5 L1 L2]. split; cbn [add_log status orun olog oev]; try assumption.
  - intros l1 l2 t0 H0. destruct (split_cons _ _ _ _ _ H0) as [[_ [H1 H2]]|[l1' [_ H1]]].
    + subst l2. exact Hk.
    + eapply L1; exact H1.
  - intros l1 l2 t0 H0. destruct (split_cons _ _ _ _ _ H0) as [[_ [H1 _]]|[l1' [_ H1]]]; [discriminate|].
    eapply L2; exact H1.
Qed.

Lemma OInv_log_thrown g ls t : OInv g ls -> OInv (add_log g (OThrown t)) ls.
Proof.
  intros I. destruct I as [A B C D E F K1 K2 K3 K4 K5 L1 L2]. split; cbn [add_log status orun olog oev]; try assumption.
  - intros l1 l2 t0 H0. destruct (split_cons _ _ _ _ _ H0) as [[_ [H1 _]]|[l1' [_ H1]]]; [discriminate|].
    eapply L1; exact H1.
  - intros l1 l2 t0 H0. destruct (split_cons _ _ _ _ _ H0) as [[_ [H1 _]]|[l1' [_ H1]]]; [discriminate|].
    eapply L2; exact H1.
Qed.

Lemma OInv_step o t g (ls : locals olocal) : OInv g ls ->
  OInv (fst (o_tstep o t g (ls t))) (upd ls t (snd (o_tstep o t g (ls t)))).
Proof.
  intros I. destruct consts_distinct as [D1 [D2 [D3 [D4 [D5 [D6 D7]]]]]].
  apply N.eqb_neq in D1, D2, D3, D4, D5.
  unfold o_tstep. destruct o as [throws|]; cbn [fst snd].
  2:{ apply OInv_same. exact I. }
  destruct (opc (ls t)) as [[| | | |ok|ok sub|sub]|] eqn:Hpc.
  - (* C0 *)
    destruct (N.eqb (status g) once_complete) eqn:Hc; cbn [fst snd].
    + apply N.eqb_eq in Hc. pose proof (k1 _ _ I Hc) as Hk.
      change {| status := status g; oev := oev g; orun := orun g; olog := ORet t :: olog g |} with (add_log g (ORet t)).
      apply (OInv_local (add_log g (ORet t)) _ ls t _); [apply OInv_log_ret; assumption| | | | | | |];
        cbn; auto; try (rewrite Hpc; reflexivity); try (rewrite Hpc; split; discriminate); try discriminate.
    + apply (OInv_local g _ ls t _ I); cbn; auto; try (rewrite Hpc; reflexivity); try (rewrite Hpc; split; discriminate); try discriminate.
  - (* C1 *)
    destruct (N.eqb (status g) once_cas_expected) eqn:Hz; cbn [fst snd].
    + (* CAS success *)
      apply N.eqb_eq in Hz.
      assert (Hor : orun g = None).
      { destruct (orun g) eqn:Hx; [|reflexivity]. assert (status g = once_running) by (apply (r2b _ _ I); congruence).
        congruence. }
      assert (Hnok : nok (olog g) = 0).
      { destruct (Nat.eq_dec (nok (olog g)) 0) as [|Hn]; [assumption|].
        destruct (k4 _ _ I) as [H1|[t0 [H1 _]]]; [lia| |congruence]. congruence. }
      destruct I as [A B C D E F K1 K2 K3 K4 K5 L1 L2]. cbn [fst snd]. split; cbn [status orun olog oev].
      * intros t0 H0. inversion H0; subst. rewrite upd_same. reflexivity.
      * intros t0 H0. destruct (Nat.eq_dec t0 t) as [->|Hne]; [reflexivity|].
        rewrite upd_other in H0 by exact Hne. specialize (B _ H0). congruence.
      * intros _. discriminate.
      * reflexivity.
      * left. reflexivity.
      * rewrite upd_same. cbn. rewrite Hor in F. exact F.
      * intros H. congruence.
      * intros t0 H0. destruct (Nat.eq_dec t0 t) as [->|Hne]; [rewrite upd_same in H0; discriminate|].
        rewrite upd_other in H0 by exact Hne. eapply K2; exact H0.
      * intros t0 sub H0. destruct (Nat.eq_dec t0 t) as [->|Hne]; [rewrite upd_same in H0; discriminate|].
        rewrite upd_other in H0 by exact Hne. eapply K3; exact H0.
      * intros H. lia.
      * exact K5.
      * exact L1.
      * exact L2.
    + destruct (N.eqb (status g) once_complete) eqn:Hc; cbn [fst snd].
      * apply N.eqb_eq in Hc. pose proof (k1 _ _ I Hc) as Hk.
        change {| status := status g; oev := oev g; orun := orun g; olog := ORet t :: olog g |} with (add_log g (ORet t)).
        apply (OInv_local (add_log g (ORet t)) _ ls t _); [apply OInv_log_ret; assumption| | | | | | |];
          cbn; auto; try (rewrite Hpc; reflexivity); try (rewrite Hpc; split; discriminate); try discriminate.
      * apply (OInv_local g _ ls t _ I); cbn; auto; try (rewrite Hpc; reflexivity); try (rewrite Hpc; split; discriminate); try discriminate.
  - (* R1: event_.reset(), the body begins *)
    assert (Hor : orun g = Some t) by (apply (r1b _ _ I); rewrite Hpc; reflexivity).
    assert (Hst : status g = once_running) by (apply (r2b _ _ I); congruence).
    assert (Hnok : nok (olog g) = 0).
    { destruct (Nat.eq_dec (nok (olog g)) 0) as [|Hn]; [assumption|].
      destruct (k4 _ _ I) as [H1|[t0 [H1 H2]]]; [lia|congruence|].
      rewrite Hor in H1. inversion H1; subst. congruence. }
    pose proof (c1 _ _ I) as Hc1. rewrite Hor, Hpc in Hc1.
    destruct I as [A B C D E F K1 K2 K3 K4 K5 L1 L2]. cbn [fst snd]. split; cbn [status orun olog oev].
    + intros t0 H0. rewrite Hor in H0. inversion H0; subst. rewrite upd_same. reflexivity.
    + intros t0 H0. destruct (Nat.eq_dec t0 t) as [->|Hne]; [exact Hor|].
      rewrite upd_other in H0 by exact Hne. apply B. exact H0.
    + exact C.
    + exact D.
    + exact E.
    + rewrite Hor. cbv beta iota. rewrite upd_same. unfold nbegin, nend in *. cbn [filter length o_at opc]. lia.
    + intros H. congruence.
    + intros t0 H0. destruct (Nat.eq_dec t0 t) as [->|Hne]; [rewrite upd_same in H0; discriminate|].
      rewrite upd_other in H0 by exact Hne. specialize (K2 _ H0). lia.
    + intros t0 sub H0. destruct (Nat.eq_dec t0 t) as [->|Hne]; [rewrite upd_same in H0; discriminate|].
      rewrite upd_other in H0 by exact Hne. specialize (K3 _ _ H0). lia.
    + unfold nok in *. cbn [filter]. intros H. lia.
    + unfold nok in *. cbn [filter]. lia.
    + intros l1 l2 t0 H0. destruct (split_cons _ _ _ _ _ H0) as [[_ [H1 _]]|[l1' [_ H1]]]; [discriminate|].
      eapply L1; exact H1.
    + intros l1 l2 t0 H0. destruct (split_cons _ _ _ _ _ H0) as [[_ [_ H2]]|[l1' [_ H1]]].
      * subst l2. split; [lia|exact Hnok].
      * eapply L2; exact H1.
  - (* BODY ends *)
    assert (Hor : orun g = Some t) by (apply (r1b _ _ I); rewrite Hpc; reflexivity).
    assert (Hst : status g = once_running) by (apply (r2b _ _ I); congruence).
    assert (Hnok : nok (olog g) = 0).
    { destruct (Nat.eq_dec (nok (olog g)) 0) as [|Hn]; [assumption|].
      destruct (k4 _ _ I) as [H1|[t0 [H1 H2]]]; [lia|congruence|].
      rewrite Hor in H1. inversion H1; subst. congruence. }
    pose proof (c1 _ _ I) as Hc1. rewrite Hor, Hpc in Hc1.
    destruct I as [A B C D E F K1 K2 K3 K4 K5 L1 L2]. cbn [fst snd]. split; cbn [status orun olog oev].
    + intros t0 H0. rewrite Hor in H0. inversion H0; subst. rewrite upd_same. destruct throws; reflexivity.
    + intros t0 H0. destruct (Nat.eq_dec t0 t) as [->|Hne]; [exact Hor|].
      rewrite upd_other in H0 by exact Hne. apply B. exact H0.
    + exact C.
    + exact D.
    + exact E.
    + rewrite Hor. cbv beta iota. rewrite upd_same. unfold nbegin, nend in *. destruct throws; cbn [filter length o_at opc]; lia.
    + intros H. congruence.
    + intros t0 H0. unfold nok in *. destruct (Nat.eq_dec t0 t) as [->|Hne].
      * rewrite upd_same in H0. cbn in H0. destruct throws; [discriminate|]. cbn [negb filter length]. lia.
      * rewrite upd_other in H0 by exact Hne. specialize (K2 _ H0). lia.
    + intros t0 sub H0. destruct (Nat.eq_dec t0 t) as [->|Hne]; [rewrite upd_same in H0; destruct throws; discriminate|].
      rewrite upd_other in H0 by exact Hne. specialize (K3 _ _ H0). lia.
    + intros H. right. exists t. rewrite upd_same. split; [exact Hor|]. unfold nok in *.
      destruct throws; cbn in *; [lia|reflexivity].
    + unfold nok in *. destruct throws; cbn; lia.
    + intros l1 l2 t0 H0. destruct (split_cons _ _ _ _ _ H0) as [[_ [H1 _]]|[l1' [_ H1]]]; [discriminate|].
      eapply L1; exact H1.
    + intros l1 l2 t0 H0. destruct (split_cons _ _ _ _ _ H0) as [[_ [H1 _]]|[l1' [_ H1]]]; [discriminate|].
      eapply L2; exact H1.
  - (* ST: status_.store *)
    assert (Hor : orun g = Some t) by (apply (r1b _ _ I); rewrite Hpc; reflexivity).
    assert (Hst : status g = once_running) by (apply (r2b _ _ I); congruence).
    pose proof (c1 _ _ I) as Hc1. rewrite Hor, Hpc in Hc1.
    assert (Hk : nok (olog g) = if ok then 1 else 0).
    { destruct ok; [apply (k2 _ _ I t Hpc)|].
      destruct (Nat.eq_dec (nok (olog g)) 0) as [|Hn]; [assumption|].
      destruct (k4 _ _ I) as [H1|[t0 [H1 H2]]]; [lia|congruence|].
      rewrite Hor in H1. inversion H1; subst. congruence. }
    assert (Hgen : forall l', runner_pc (opc l') = false -> (opc l' = Some (OStore true) -> False) ->
              (forall sub, opc l' = Some (OSet true sub) -> ok = true) ->
              OInv {| status := if ok then once_complete else once_after_throw; oev := oev g; orun := None; olog := olog g |}
                   (upd ls t l')).
    { intros l' Hr' Hs' Hset'. destruct I as [A B C D E F K1 K2 K3 K4 K5 L1 L2]. split; cbn [status orun olog oev].
      + discriminate.
      + intros t0 H0. exfalso. destruct (Nat.eq_dec t0 t) as [->|Hne]; [rewrite upd_same in H0; congruence|].
        rewrite upd_other in H0 by exact Hne. specialize (B _ H0). congruence.
      + intros H. exfalso. destruct ok; congruence.
      + intros H. congruence.
      + destruct ok; [right; left; reflexivity|right; right; exact D6].
      + lia.
      + intros H. destruct ok; [exact Hk|congruence].
      + intros t0 H0. exfalso. destruct (Nat.eq_dec t0 t) as [->|Hne]; [rewrite upd_same in H0; auto|].
        rewrite upd_other in H0 by exact Hne.
        assert (orun g = Some t0) by (apply B; rewrite H0; reflexivity). congruence.
      + intros t0 sub H0. destruct (Nat.eq_dec t0 t) as [->|Hne].
        * rewrite upd_same in H0. rewrite (Hset' _ H0) in Hk. exact Hk.
        * rewrite upd_other in H0 by exact Hne. eapply K3; exact H0.
      + intros H. left. destruct ok; [reflexivity|lia].
      + exact K5.
      + exact L1.
      + exact L2. }
    destruct ok; cbn [fst snd].
    + apply Hgen; cbn; try discriminate; auto.
    + change {| status := once_after_throw; oev := oev g; orun := None; olog := OThrown t :: olog g |}
        with (add_log {| status := once_after_throw; oev := oev g; orun := None; olog := olog g |} (OThrown t)).
      apply OInv_log_thrown. apply (Hgen (o_done (ls t))); cbn; try discriminate; auto.
  - (* SET: event_.set() steps; success: then return; throw: then the status store *)
    destruct (ev_step t (oev g) sub) as [e' sub'] eqn:Hev.
    assert (Hgen : forall pc', pc' <> EDone ->
       OInv {| status := status g; oev := e'; orun := orun g; olog := olog g |} (upd ls t (o_at (ls t) (OSet ok pc')))).
    { intros pc' _. apply (OInv_local g _ ls t _ I); cbn; auto; try (rewrite Hpc; reflexivity).
      - rewrite Hpc. split; discriminate.
      - intros sub1 H1. inversion H1; subst. exists sub. exact Hpc. }
    destruct sub'; try (apply Hgen; discriminate).
    destruct ok; cbn [fst snd].
    + assert (I' : OInv {| status := status g; oev := e'; orun := orun g; olog := olog g |} (upd ls t (o_done (ls t)))).
      { apply (OInv_local g _ ls t _ I); cbn; auto; try (rewrite Hpc; reflexivity); try (rewrite Hpc; split; discriminate); try discriminate. }
      apply (OInv_log_ret _ _ t) in I'; [exact I'|]. cbn. apply (k3 _ _ I t sub Hpc).
    + apply (OInv_local g _ ls t _ I); cbn; auto; try (rewrite Hpc; reflexivity); try (rewrite Hpc; split; discriminate); try discriminate.
  - (* event_.wait() steps *)
    destruct (ev_step t (oev g) sub) as [e' sub'] eqn:Hev.
    destruct sub'; cbn [fst snd]; apply (OInv_local g _ ls t _ I); cbn; auto; try (rewrite Hpc; reflexivity); try (rewrite Hpc; split; discriminate); try discriminate.
  - (* dispatch *)
    destruct (calls (ls t)) as [|k]; cbn [fst snd].
    + destruct g as [st ev orn lg]. apply (OInv_same {| status := st; oev := ev; orun := orn; olog := lg |} ev ls t I).
    + apply (OInv_local g _ ls t _ I); cbn; auto; try (rewrite Hpc; reflexivity); try (rewrite Hpc; split; discriminate); try discriminate.
Qed.

Lemma once_inv sched ncalls : OInv (fst (o_run sched ncalls)) (snd (o_run sched ncalls)).
Proof.
  unfold o_run. apply (run_inv _ _ _ o_tstep OInv).
  - intros o t g ls I. apply OInv_step. exact I.
  - split; cbn; try discriminate; try reflexivity; try lia; try (intros; lia).
    + intros H. exfalso. apply H. reflexivity.
    + right. right. reflexivity.
    + intros l1 l2 t H. destruct l1; discriminate.
    + intros l1 l2 t H. destruct l1; discriminate.
Qed.

Lemma once_exactly_once sched ncalls :
  let g := fst (o_run sched ncalls) in
  nok (olog g) <= 1 /\
  (forall l1 l2 t, olog g = l1 ++ OBegin t :: l2 -> nbegin l2 = nend l2 /\ nok l2 = 0) /\
  nend (olog g) <= nbegin (olog g) <= S (nend (olog g)).
Proof.
  intros g. pose proof (once_inv sched ncalls) as I. fold g in I. split; [apply (k5 _ _ I)|split].
  - apply (l_begin _ _ I).
  - pose proof (c1 _ _ I) as H. destruct (orun g) as [t|]; [destruct (opc (snd (o_run sched ncalls) t)) as [[]|]|]; lia.
Qed.

Lemma once_others_wait sched ncalls :
  let g := fst (o_run sched ncalls) in
  forall l1 l2 t, olog g = l1 ++ ORet t :: l2 -> nok l2 = 1.
Proof. intros g. apply (l_ret _ _ (once_inv sched ncalls)). Qed.

(* after a throw the flag is handed back: the thrower stores the value the CAS expects, the
   status is `running` only while a runner is between its CAS and its store (so it is never
   left at `running`), and a caller whose CAS finds the initial value becomes the next runner *)
Lemma once_handback_after_throw sched ncalls :
  let c := o_run sched ncalls in
  once_after_throw = once_cas_expected /\
  (status (fst c) = once_running ->
     exists t, orun (fst c) = Some t /\ runner_pc (opc (snd c t)) = true) /\
  (forall t o, opc (snd c t) = Some (OStore false) ->
     status (fst (o_tstep (OONorm o) t (fst c) (snd c t))) = once_cas_expected) /\
  (forall t o, opc (snd c t) = Some OC1 -> status (fst c) = once_cas_expected ->
     orun (fst (o_tstep (OONorm o) t (fst c) (snd c t))) = Some t /\
     opc (snd (o_tstep (OONorm o) t (fst c) (snd c t))) = Some OR1).
Proof.
  intros c. pose proof (once_inv sched ncalls) as I. fold c in I. split; [reflexivity|split; [|split]].
  - intros H. destruct (orun (fst c)) as [t|] eqn:Hor; [|destruct (r2a _ _ I H Hor)].
    exists t. split; [reflexivity|]. apply (r1a _ _ I _ Hor).
  - intros t o H. unfold o_tstep. rewrite H. reflexivity.
  - intros t o H Hs. unfold o_tstep. rewrite H, Hs. cbn. split; reflexivity.
Qed.
