(* Proofs/IndexQueueProofs.v — invariants of the contiguous index queue for every
   number of threads, every operation mix and every schedule (weak CAS included). *)
From Coq Require Import List NArith Bool Lia Arith.
From Pika Require Import Base.Conc Model.IndexQueue.
Import ListNotations.
Local Open Scope N_scope.

Fixpoint Nrange (f : N) (k : nat) : list N :=
  match k with O => [] | S k' => f :: Nrange (f + 1) k' end.
Fixpoint Ndesc (top : N) (k : nat) : list N :=
  match k with O => [] | S k' => (top - 1) :: Ndesc (top - 1) k' end.

Lemma Nrange_snoc f k : Nrange f (S k) = Nrange f k ++ [f + N.of_nat k].
Proof.
  revert f; induction k as [|k IH]; intros f.
  - cbn. now rewrite N.add_0_r.
  - change (Nrange f (S (S k))) with (f :: Nrange (f + 1) (S k)). rewrite IH.
    cbn [Nrange app].
    replace (f + N.of_nat (S k)) with (f + 1 + N.of_nat k) by (rewrite Nat2N.inj_succ; lia). reflexivity.
Qed.

Lemma Ndesc_snoc top k : Ndesc top (S k) = Ndesc top k ++ [top - 1 - N.of_nat k].
Proof.
  revert top; induction k as [|k IH]; intros top.
  - cbn. now rewrite N.sub_0_r.
  - change (Ndesc top (S (S k))) with ((top - 1) :: Ndesc (top - 1) (S k)). rewrite IH.
    cbn [Ndesc app].
    replace (top - 1 - N.of_nat (S k)) with (top - 1 - 1 - N.of_nat k) by (rewrite Nat2N.inj_succ; lia). reflexivity.
Qed.

Lemma popped_cons t s r lg :
  popped ({| ev_tid := t; ev_side := s; ev_res := r |} :: lg) =
  match r with Some x => x :: popped lg | None => popped lg end.
Proof. destruct r; reflexivity. Qed.
Lemma popped_side_cons sd t s r lg :
  popped_side sd ({| ev_tid := t; ev_side := s; ev_res := r |} :: lg) =
  match r, s, sd with
  | Some x, SL, SL => x :: popped_side sd lg
  | Some x, SR, SR => x :: popped_side sd lg
  | _, _, _ => popped_side sd lg end.
Proof. destruct r, s, sd; reflexivity. Qed.

Definition has_none (lg : list iq_ev) : Prop := exists e, In e lg /\ ev_res e = None.

Record IQInv (f0 l0 : N) (g : iq_shared) : Prop := {
  iq_lo : f0 <= first (cur g);
  iq_mid : first (cur g) <= last (cur g);
  iq_hi : last (cur g) <= l0;
  iq_nodup : NoDup (popped (iqlog g));
  iq_in : forall x, In x (popped (iqlog g)) <->
                    (f0 <= x < first (cur g) \/ last (cur g) <= x < l0);
  iq_left : rev (popped_side SL (iqlog g)) = Nrange f0 (N.to_nat (first (cur g) - f0));
  iq_right : rev (popped_side SR (iqlog g)) = Ndesc l0 (N.to_nat (l0 - last (cur g)));
  iq_none : has_none (iqlog g) -> first (cur g) = last (cur g)
}.

Lemma range_eqb_eq a b : range_eqb a b = true -> a = b.
Proof.
  unfold range_eqb. intros H. apply andb_prop in H as [H1 H2].
  apply N.eqb_eq in H1, H2. destruct a, b; cbn in *; congruence.
Qed.

Lemma range_empty_false r : range_empty r = false -> first r < last r.
Proof. unfold range_empty. intros H. apply N.leb_gt in H. exact H. Qed.
Lemma range_empty_true r : range_empty r = true -> last r <= first r.
Proof. unfold range_empty. intros H. now apply N.leb_le in H. Qed.

Lemma inv_log_none f0 l0 g t s :
  IQInv f0 l0 g -> range_empty (cur g) = true -> IQInv f0 l0 (log_ev g t s None).
Proof.
  intros [A B C D E F G H] He. apply range_empty_true in He.
  constructor; cbn [log_ev cur iqlog]; rewrite ?popped_cons, ?popped_side_cons; auto.
  intros _. lia.
Qed.

Lemma has_none_cons_some e lg : ev_res e <> None -> has_none (e :: lg) -> has_none lg.
Proof. intros Hn [x [[<-|Hin] Hx]]; [contradiction|]. now exists x. Qed.

Definition loc_ok (l : iq_local) : Prop :=
  match pc l with Idle => True | Loaded _ e => first e < last e end.

Lemma iq_step_inv f0 l0 o t g l :
  IQInv f0 l0 g -> loc_ok l ->
  IQInv f0 l0 (fst (iq_tstep o t g l)) /\ loc_ok (snd (iq_tstep o t g l)).
Proof.
  intros HI Hl. unfold iq_tstep, loc_ok in *.
  destruct (pc l) as [|s e] eqn:Hpc.
  - destruct (todo l) as [|s rest]; [cbn [fst snd]; rewrite Hpc; auto|].
    destruct (range_empty (cur g)) eqn:He; cbn [fst snd pc].
    + split; [now apply inv_log_none | exact I].
    + split; [exact HI | now apply range_empty_false].
  - destruct (range_eqb e (cur g) && negb o) eqn:Hc.
    + apply andb_prop in Hc as [Hc _]. apply range_eqb_eq in Hc. subst e.
      destruct HI as [A B C D E F G H].
      destruct s; cbn [fst snd pc]; (split; [|exact I]).
      * (* pop_left succeeded: first := first + 1, logged first *)
        constructor;
          cbn [log_ev cur iqlog increment_first first last]; rewrite ?popped_cons, ?popped_side_cons.
        -- lia.
        -- lia.
        -- lia.
        -- constructor; [|exact D]. intros Hin. apply E in Hin. lia.
        -- intros x. split.
           ++ intros [<-|Hin]; [lia|]. apply E in Hin. lia.
           ++ intros Hx. destruct (N.eq_dec (first (cur g)) x) as [->|Hne]; [now left|].
              right. apply E. lia.
        -- cbn [rev]. rewrite F.
           replace (N.to_nat (first (cur g) + 1 - f0)) with (S (N.to_nat (first (cur g) - f0))) by lia.
           rewrite Nrange_snoc. do 2 f_equal. lia.
        -- exact G.
        -- intros Hn. apply has_none_cons_some in Hn; [|discriminate]. specialize (H Hn). lia.
      * (* pop_right succeeded: last := last - 1, logged last - 1 *)
        constructor;
          cbn [log_ev cur iqlog decrement_last first last]; rewrite ?popped_cons, ?popped_side_cons.
        -- lia.
        -- lia.
        -- lia.
        -- constructor; [|exact D]. intros Hin. apply E in Hin. lia.
        -- intros x. split.
           ++ intros [<-|Hin]; [lia|]. apply E in Hin. lia.
           ++ intros Hx. destruct (N.eq_dec (last (cur g) - 1) x) as [->|Hne]; [now left|].
              right. apply E. lia.
        -- exact F.
        -- cbn [rev]. rewrite G.
           replace (N.to_nat (l0 - (last (cur g) - 1))) with (S (N.to_nat (l0 - last (cur g)))) by lia.
           rewrite Ndesc_snoc. do 2 f_equal. lia.
        -- intros Hn. apply has_none_cons_some in Hn; [|discriminate]. specialize (H Hn). lia.
    + destruct (range_empty (cur g)) eqn:He; cbn [fst snd pc].
      * split; [now apply inv_log_none | exact I].
      * split; [exact HI | now apply range_empty_false].
Qed.

Definition IQFull (f0 l0 : N) (g : iq_shared) (ls : nat -> iq_local) : Prop :=
  IQInv f0 l0 g /\ forall t, loc_ok (ls t).

Lemma iq_init_inv f0 l0 progs : f0 <= l0 -> IQFull f0 l0 (iq_init f0 l0) (iq_locals progs).
Proof.
  intros H. split; [|intros t; exact I].
  constructor; cbn [iq_init cur iqlog first last popped popped_side flat_map rev].
  - lia.
  - lia.
  - lia.
  - constructor.
  - intros x; split; [intros []|lia].
  - now rewrite N.sub_diag.
  - now rewrite N.sub_diag.
  - intros [e [[] _]].
Qed.

Theorem iq_run_inv f0 l0 progs sched : f0 <= l0 ->
  IQInv f0 l0 (fst (iq_run sched f0 l0 progs)).
Proof.
  intros H. unfold iq_run.
  apply (run_inv _ _ _ iq_tstep (IQFull f0 l0)).
  - intros o t g ls [HI Hl]. destruct (iq_step_inv f0 l0 o t g (ls t) HI (Hl t)) as [A B].
    split; [exact A|]. intros t'. unfold upd. destruct (Nat.eqb t' t); [exact B|apply Hl].
  - now apply iq_init_inv.
Qed.

(* --- statements used by Props/Properties_C17.v --- *)

Lemma iq_partition f0 l0 progs sched : f0 <= l0 ->
  let g := fst (iq_run sched f0 l0 progs) in
  NoDup (popped (iqlog g)) /\
  (forall x, In x (popped (iqlog g)) <-> (f0 <= x < first (cur g) \/ last (cur g) <= x < l0)) /\
  f0 <= first (cur g) <= last (cur g) /\ last (cur g) <= l0.
Proof.
  intros H g. destruct (iq_run_inv f0 l0 progs sched H) as [A B C D E F G I]. fold g in A, B, C, D, E.
  repeat split; auto; apply E.
Qed.

Lemma iq_drained_all f0 l0 progs sched : f0 <= l0 ->
  let g := fst (iq_run sched f0 l0 progs) in
  has_none (iqlog g) ->
  NoDup (popped (iqlog g)) /\ forall x, In x (popped (iqlog g)) <-> f0 <= x < l0.
Proof.
  intros H g Hn. destruct (iq_run_inv f0 l0 progs sched H) as [A B C D E F G I]. fold g in A, B, C, D, E, I.
  specialize (I Hn). split; [exact D|]. intros x. rewrite E. lia.
Qed.

Lemma iq_left_ascending f0 l0 progs sched : f0 <= l0 ->
  let g := fst (iq_run sched f0 l0 progs) in
  rev (popped_side SL (iqlog g)) = Nrange f0 (N.to_nat (first (cur g) - f0)).
Proof. intros H g. now destruct (iq_run_inv f0 l0 progs sched H). Qed.

Lemma iq_right_descending f0 l0 progs sched : f0 <= l0 ->
  let g := fst (iq_run sched f0 l0 progs) in
  rev (popped_side SR (iqlog g)) = Ndesc l0 (N.to_nat (l0 - last (cur g))).
Proof. intros H g. now destruct (iq_run_inv f0 l0 progs sched H). Qed.

Lemma range_eqb_refl r : range_eqb r r = true.
Proof. unfold range_eqb. now rewrite !N.eqb_refl. Qed.

Lemma step_load g (ls : locals iq_local) t o s rest :
  ls t = {| todo := s :: rest; pc := Idle |} -> range_empty (cur g) = false ->
  step iq_tstep (g, ls) (t, o) = (g, upd ls t {| todo := s :: rest; pc := Loaded s (cur g) |}).
Proof.
  intros Hl He. unfold step. cbn [fst snd]. rewrite Hl. unfold iq_tstep. cbn [pc todo].
  rewrite He. reflexivity.
Qed.

Lemma step_load_empty g (ls : locals iq_local) t o s rest :
  ls t = {| todo := s :: rest; pc := Idle |} -> range_empty (cur g) = true ->
  step iq_tstep (g, ls) (t, o) = (log_ev g t s None, upd ls t {| todo := rest; pc := Idle |}).
Proof.
  intros Hl He. unfold step. cbn [fst snd]. rewrite Hl. unfold iq_tstep. cbn [pc todo].
  rewrite He. reflexivity.
Qed.

Lemma step_cas_ok g (ls : locals iq_local) t s rest :
  ls t = {| todo := s :: rest; pc := Loaded s (cur g) |} ->
  step iq_tstep (g, ls) (t, false) =
  (log_ev {| cur := snd (seq_pop s (cur g)); iqlog := iqlog g |} t s
          (Some (match s with SL => first (cur g) | SR => last (cur g) - 1 end)),
   upd ls t {| todo := rest; pc := Idle |}) \/ range_empty (cur g) = true.
Proof.
  intros Hl. destruct (range_empty (cur g)) eqn:He; [now right|left].
  unfold step. cbn [fst snd]. rewrite Hl. unfold iq_tstep. cbn [pc todo tl].
  rewrite range_eqb_refl. cbn [negb andb]. unfold seq_pop. rewrite He.
  destruct s; reflexivity.
Qed.

(* a pop that runs without interference on a non-empty queue succeeds *)
Lemma iq_pop_quiescent_nonempty g (ls : locals iq_local) t s rest :
  ls t = {| todo := s :: rest; pc := Idle |} -> first (cur g) < last (cur g) ->
  let c := run iq_tstep [(t, false); (t, false)] (g, ls) in
  exists x, iqlog (fst c) = {| ev_tid := t; ev_side := s; ev_res := Some x |} :: iqlog g /\
            x = match s with SL => first (cur g) | SR => last (cur g) - 1 end /\
            snd c t = {| todo := rest; pc := Idle |}.
Proof.
  intros Hl Hne.
  assert (He : range_empty (cur g) = false) by (unfold range_empty; apply N.leb_gt; exact Hne).
  rewrite !run_cons. rewrite (step_load g ls t false s rest Hl He).
  destruct (step_cas_ok g (upd ls t {| todo := s :: rest; pc := Loaded s (cur g) |}) t s rest
              (upd_same _ _ _ _)) as [E|E]; [|congruence].
  rewrite E. cbn [run fold_left fst snd log_ev iqlog]. rewrite upd_same.
  eexists; repeat split.
Qed.

(* the sequential reference and the concurrent model agree when one thread runs alone *)
Lemma iq_seq_refines g (ls : locals iq_local) t s rest :
  ls t = {| todo := s :: rest; pc := Idle |} ->
  let c := run iq_tstep (if range_empty (cur g) then [(t, false)] else [(t, false); (t, false)]) (g, ls) in
  cur (fst c) = snd (seq_pop s (cur g)) /\
  iqlog (fst c) = {| ev_tid := t; ev_side := s; ev_res := fst (seq_pop s (cur g)) |} :: iqlog g /\
  snd c t = {| todo := rest; pc := Idle |}.
Proof.
  intros Hl. destruct (range_empty (cur g)) eqn:He.
  - rewrite run_cons, (step_load_empty g ls t false s rest Hl He).
    cbn [run fold_left fst snd log_ev cur iqlog]. rewrite upd_same. unfold seq_pop. rewrite He.
    repeat split.
  - rewrite !run_cons. rewrite (step_load g ls t false s rest Hl He).
    destruct (step_cas_ok g (upd ls t {| todo := s :: rest; pc := Loaded s (cur g) |}) t s rest
                (upd_same _ _ _ _)) as [E|E]; [|congruence].
    rewrite E. cbn [run fold_left fst snd log_ev cur iqlog]. rewrite upd_same.
    unfold seq_pop. rewrite He. destruct s; repeat split.
Qed.
