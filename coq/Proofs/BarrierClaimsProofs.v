(* Proofs/BarrierClaimsProofs.v — the shape of the ticket claims of barrier_algorithm_base::arrive.

   Gen/GenBarrier.v (regenerated from barrier.cpp on every run) says for each of the three
   ticket claims whether the source performs it with ONE compare_exchange_strong or with a
   separate load and store.  Model/BarrierTree.v has the step function for either shape
   ([treex_step]).  Here:
   * [claims_are_cas]: the source claims all three tickets with compare_exchange.  THIS IS THE
     LEMMA THAT FAILS when a claim is rewritten as load; store — on purpose: everything below
     (and Properties_C09) depends on it;
   * for that shape the source-shaped step function is the step function [tree_step] that all
     other theorems and the lock-step tie use ([treex_step_matches_source], [trx_run_sim]), so
     [tree_one_winner] holds for the source-shaped model ([tree_one_winner_src]);
   * for a load; store claim the property is false: concrete schedules
     ([nonatomic_last_ticket_two_winners], [nonatomic_first_ticket_no_winner],
     [nonatomic_second_ticket_early_winner]). *)
From Coq Require Import List NArith Arith Bool Lia.
From Pika Require Import Base.Conc Gen.GenBarrier Model.BarrierTree Proofs.BarrierTreeProofs.
Import ListNotations.

(* If this fails: a ticket claim in libs/pika/synchronization/src/barrier.cpp
   (barrier_algorithm_base::arrive) is no longer a compare_exchange_strong but a load followed
   by a store.  Two arrivals can then both claim the ticket (see the schedules at the end of
   this file); the one-winner theorem does not hold for that code. *)
Lemma claims_are_cas :
  claim_last_is_cas = true /\ claim_first_is_cas = true /\ claim_second_is_cas = true.
Proof. repeat split; reflexivity. Qed.

Lemma src_claims_all_cas : src_claims = all_cas.
Proof.
  unfold src_claims, all_cas. destruct claims_are_cas as [-> [-> ->]]. reflexivity.
Qed.

(* with compare_exchange claims the general step is the step of the CAS model *)
Lemma treex_step_all_cas p t tr pc :
  treex_step all_cas p t tr (XP pc) = liftx (tree_step p t tr pc).
Proof.
  destruct pc as [r c0 e|r cur e|b]; cbn [treex_step all_cas c_last c_first c_second].
  - destruct (Nat.eqb (if Nat.eqb c0 ((e + 1) / 2) then 0 else c0) ((e + 1) / 2 - 1) && Nat.odd e); reflexivity.
  - reflexivity.
  - reflexivity.
Qed.

Lemma treex_step_matches_source p t tr pc :
  treex_step src_claims p t tr (XP pc) = liftx (tree_step p t tr pc).
Proof. rewrite src_claims_all_cas. apply treex_step_all_cas. Qed.

(* ---------- the runs coincide ---------- *)
Definition liftl (l : tr_local) : trx_local := {| todox := todo l; tpx := option_map XP (tp l) |}.

Lemma finishx_lift g lg t pc k :
  finishx g lg t (XP pc) k = (fst (finish g lg t pc k), liftl (snd (finish g lg t pc k))).
Proof. destruct pc; reflexivity. Qed.

Lemma trx_tstep_lift E p o t g l :
  trx_tstep all_cas E p o t g (liftl l) = (fst (tr_tstep E p o t g l), liftl (snd (tr_tstep E p o t g l))).
Proof.
  unfold trx_tstep, tr_tstep. destruct l as [td [pc|]]; cbn [liftl tpx todox tp todo option_map].
  - rewrite treex_step_all_cas. destruct (tree_step p t (tre g) pc) as [g' pc'].
    cbn [liftx fst snd]. apply finishx_lift.
  - destruct td as [|k]; [reflexivity|].
    destruct (tree_start E t (tre g) o) as [g' pc]. apply finishx_lift.
Qed.

Lemma trx_run_sim E p sched : forall (c : tr_shared * locals tr_local) (cx : tr_shared * locals trx_local),
  fst cx = fst c -> (forall t, snd cx t = liftl (snd c t)) ->
  fst (run (trx_tstep all_cas E p) sched cx) = fst (run (tr_tstep E p) sched c) /\
  forall t, snd (run (trx_tstep all_cas E p) sched cx) t = liftl (snd (run (tr_tstep E p) sched c) t).
Proof.
  induction sched as [|[t o] s IH]; intros c cx Hg Hl; [split; assumption|].
  rewrite !run_cons. apply IH.
  - unfold step. rewrite Hg, Hl, trx_tstep_lift.
    destruct (tr_tstep E p o t (fst c) (snd c t)); reflexivity.
  - intros t'. unfold step. rewrite Hg, Hl, trx_tstep_lift.
    destruct (tr_tstep E p o t (fst c) (snd c t)) as [g' l']. cbn [fst snd].
    unfold upd. destruct (Nat.eqb t' t); [reflexivity|apply Hl].
Qed.

Lemma trx_run_src E p sched progs :
  fst (trx_run src_claims E p sched progs) = fst (tr_run E p sched progs) /\
  forall t, snd (trx_run src_claims E p sched progs) t = liftl (snd (tr_run E p sched progs) t).
Proof.
  rewrite src_claims_all_cas. unfold trx_run, tr_run. apply trx_run_sim; [reflexivity|].
  intros t. reflexivity.
Qed.

(* the one-winner theorem for the model whose claim steps have the shape read from the source *)
Lemma tree_one_winner_src E p progs sched : 1 <= E -> (p < pmod)%N ->
  let c := trx_run src_claims E p sched progs in
  let g := fst c in
  started (tre g) <= E ->
  wins_of (trlog g) <= 1 /\
  (forall t s, In (t, true, s) (trlog g) -> s = E) /\
  (wins_of (trlog g) = 1 -> started (tre g) = E /\ forall t, tpx (snd c t) = None) /\
  (started (tre g) = E -> (forall t, tpx (snd c t) = None) -> wins_of (trlog g) = 1).
Proof.
  intros HE Hp c g. subst g c. destruct (trx_run_src E p sched progs) as [Hg Hl]. rewrite Hg.
  intros Hs. destruct (tree_one_winner E p progs sched HE Hp Hs) as [H1 [H2 [H3 H4]]].
  repeat split.
  - exact H1.
  - exact H2.
  - apply H3. assumption.
  - intros t. rewrite Hl. destruct (H3 H) as [_ Hn]. unfold liftl. cbn [tpx]. rewrite Hn. reflexivity.
  - intros Hst Hnone. apply H4; [exact Hst|]. intros t. specialize (Hnone t). rewrite Hl in Hnone.
    unfold liftl in Hnone. cbn [tpx] in Hnone. destruct (tp (snd (tr_run E p sched progs) t)); [discriminate|reflexivity].
Qed.

(* ---------- a load; store claim is a different algorithm ---------- *)
Definition cl_last_nonatomic : claims := {| c_last := false; c_first := true; c_second := true |}.
Definition cl_first_nonatomic : claims := {| c_last := true; c_first := false; c_second := true |}.
Definition cl_second_nonatomic : claims := {| c_last := true; c_first := true; c_second := false |}.
Definition one_each (n : nat) : nat -> nat := fun t => if t <? n then 1 else 0.

(* E = 3: nodes 0 (paired) and 1 (the unpaired last node).  Arrivals 0 and 1 both start at node 1,
   both load the old phase, then both store the full step: BOTH have won the "1 in 1" ticket and
   are in round 1 (two winners of one ticket).  There arrival 0 takes the first half, arrival 1
   the second: it returns true — the phase completes — when only 2 of the 3 expected arrivals
   have started.  (Schedule entries: (thread, start-node hash).) *)
Definition sched_last : list (nat * nat) :=
  [(0, 1); (1, 1);        (* 900: both start at node 1 *)
   (0, 0); (1, 0);        (* both load ticket[0][1] == old_phase *)
   (0, 0); (1, 0)].       (* both store full_step and advance *)
Lemma nonatomic_last_ticket_two_winners :
  let c := trx_run cl_last_nonatomic 3 0%N sched_last (one_each 3) in
  tpx (snd c 0) = Some (XP (TScan 1 0 2)) /\ tpx (snd c 1) = Some (XP (TScan 1 0 2)) /\
  let c' := trx_run cl_last_nonatomic 3 0%N (sched_last ++ [(0, 0); (1, 0); (1, 0)]) (one_each 3) in
  started (tre (fst c')) = 2 /\ In (1, true, 2) (trlog (fst c')) /\
  ~ (forall t s, In (t, true, s) (trlog (fst c')) -> s = 3).
Proof.
  vm_compute. repeat split; auto.
  intros H. specialize (H 1 2 (or_introl eq_refl)). discriminate.
Qed.

(* the same schedule on the model with the claims as the source has them: arrival 1 finds the
   ticket taken and goes on to node 0; nobody returns true before the third arrival *)
Lemma atomic_last_ticket_same_schedule :
  let c' := trx_run all_cas 3 0%N (sched_last ++ [(0, 0); (1, 0); (1, 0)]) (one_each 3) in
  wins_of (trlog (fst c')) = 0.
Proof. vm_compute. reflexivity. Qed.

(* first-of-pair claim (old -> half) as load; store, E = 2: both arrivals load the old phase at
   node 0, both store the half step, both return false: all arrived, all returned, nobody won *)
Lemma nonatomic_first_ticket_no_winner :
  let c := trx_run cl_first_nonatomic 2 0%N [(0, 0); (1, 0); (0, 0); (1, 0); (0, 0); (1, 0)] (one_each 2) in
  started (tre (fst c)) = 2 /\ (forall t, t < 2 -> tpx (snd c t) = None) /\ tpx (snd c 2) = None /\
  wins_of (trlog (fst c)) = 0 /\ length (trlog (fst c)) = 2.
Proof.
  vm_compute. repeat split. intros t Ht. destruct t as [|[|t]]; [reflexivity|reflexivity|lia].
Qed.

(* second-of-pair claim (half -> full) as load; store, E = 4: arrival 0 takes the first half of
   node 0; arrivals 1 and 2 both see the half step, both load it again, both store the full
   step and advance; in round 1 arrival 1 takes the first half, arrival 2 the second (load,
   store): it returns true with 3 of 4 arrivals started *)
Lemma nonatomic_second_ticket_early_winner :
  let c := trx_run cl_second_nonatomic 4 0%N
             [(0, 0); (0, 0); (1, 0); (2, 0); (1, 0); (2, 0); (1, 0); (2, 0); (1, 0); (2, 0); (1, 0); (2, 0); (2, 0); (2, 0)]
             (one_each 4) in
  started (tre (fst c)) = 3 /\ In (2, true, 3) (trlog (fst c)).
Proof. vm_compute. split; [reflexivity|]. auto. Qed.
