(* Proofs/SuspendResumeStutter.v — C19: the meaning of [enabled] / [stuck] (Model/SuspendResume.v). *)
From Coq Require Import List NArith Bool Arith Lia Permutation.
From Pika Require Import Base.Conc Gen.GenRuntimeState Model.SuspendResume Proofs.SuspendResumeProofs.
Import ListNotations.

(* ---- what [enabled] means: a thread that is not enabled only stutters ----
   (no spurious wake-up / lock contention in the step: fst o = false).  [geq]: equal up to the extensional value of [waiting]. *)
Definition geq (g g' : gst) : Prop :=
  st g' = st g /\ pul g' = pul g /\ qs g' = qs g /\ sq g' = sq g /\ heldl g' = heldl g /\ (forall w, waiting g' w = waiting g w) /\
  rr g' = rr g /\ live g' = live g /\ nxt g' = nxt g /\ executed g' = executed g /\ submitted g' = submitted g /\ fresh g' = fresh g /\
  calls g' = calls g /\ validated g' = validated g.

Lemma geq_refl : forall g, geq g g.
Proof. intros g. unfold geq. repeat split; reflexivity. Qed.

Lemma extract_none_qof : forall v l, qof v l = [] -> extract v l = None.
Proof.
  induction l as [|e l IH]; intros H; [reflexivity|]. unfold qof in H. cbn in H |- *. destruct (Nat.eqb (fst e) v); [discriminate|].
  rewrite (IH H). reflexivity.
Qed.

Lemma take_none : forall g w v, nonempty (qof v (qs g)) = false -> take g w v = None.
Proof. intros g w v H. unfold take. rewrite (extract_none_qof v (qs g) (nonempty_false _ _ H)). reflexivity. Qed.

Lemma has_normal_qof : forall c l v, has_normal c l = false -> v < nw c -> nonempty (qof v l) = false.
Proof.
  intros c l v H Hv. destruct (qof v l) as [|x r] eqn:E; [reflexivity|exfalso].
  assert (Hin : In x (qof v l)) by (rewrite E; left; reflexivity). apply in_qof in Hin. eapply has_normal_false; eassumption.
Qed.

Lemma worker_disabled_stutter : forall c o t g pc, t < nw c -> fst o = false -> worker_enabled c t g pc = false ->
  fst (worker_step c o t g pc) = g /\ worker_enabled c t g (snd (worker_step c o t g pc)) = false.
Proof.
  intros c o t g pc Ht Ho D.
  assert (Hv : victim c o < nw c) by (unfold victim; apply Nat.mod_upper_bound; lia).
  destruct pc as [|r| | | |r| | |r|ce| | | |]; cbn [worker_enabled] in D; try discriminate.
  10:{ (* WWaiting *) cbn [worker_step]. rewrite Ho. apply negb_false_iff in D. rewrite D. cbn. rewrite D. auto. }
  all: apply orb_false_iff in D; destruct D as [D ST]; apply orb_false_iff in D; destruct D as [D RW];
       apply orb_false_iff in D; destruct D as [OW CS];
       pose proof OW as OW'; unfold own_work in OW'; apply orb_false_iff in OW'; destruct OW' as [O1 O2];
       cbn [worker_step stale fst snd] in *.
  - (* WTop *) split; [reflexivity|]. cbn [worker_enabled stale]. rewrite OW, CS, RW. cbn [orb].
    unfold can_sleep in CS. destruct (rs_lt (st g t) g_running_below); cbn in RW, CS |- *; [exact RW|exact CS].
  - (* WPop *) rewrite (take_none g t t O1), O2. cbn [nonempty].
    destruct r; cbn [fst snd worker_enabled stale]; rewrite OW, CS, RW, ST; auto.
  - (* WSteal *) unfold run_work in ST. apply orb_false_iff in ST. destruct ST as [ST LS]. apply orb_false_iff in ST. destruct ST as [ST LP].
    apply orb_false_iff in ST. destruct ST as [SP SS].
    assert (E : fst (if stealing c then if Nat.eqb (victim c o) t then (g, WLowPop) else
                  match take g t (victim c o) with Some g' => (g', WExec) | None => (g, WLowPop) end else (g, WLowPop)) = g /\
                snd (if stealing c then if Nat.eqb (victim c o) t then (g, WLowPop) else
                  match take g t (victim c o) with Some g' => (g', WExec) | None => (g, WLowPop) end else (g, WLowPop)) = WLowPop).
    { unfold steal_p in SP. destruct (stealing c); [|auto]. cbn in SP. destruct (Nat.eqb (victim c o) t); [auto|].
      rewrite (take_none g t (victim c o) (has_normal_qof c _ _ SP Hv)). auto. }
    destruct E as [E1 E2]. rewrite E1, E2. split; [reflexivity|]. cbn [worker_enabled stale]. rewrite OW, CS, RW, SS, LP, LS. reflexivity.
  - (* WLowPop *) apply orb_false_iff in ST. destruct ST as [ST LS]. apply orb_false_iff in ST. destruct ST as [SS LP].
    unfold low_p in LP. rewrite (take_none g t (lowq c) LP). cbn [fst snd worker_enabled stale]. rewrite OW, CS, RW, SS, LS. auto.
  - (* WAdd *) rewrite O2. cbn [andb]. destruct r; cbn [fst snd worker_enabled stale]; rewrite OW, CS, RW, ST; auto.
  - (* WAddSteal *) apply orb_false_iff in ST. destruct ST as [SS LS].
    assert (E : stealing c && negb (Nat.eqb (victim c o) t) && negb (fst o) && nonempty (qof (victim c o) (sq g)) = false).
    { unfold steal_s in SS. destruct (stealing c); [|reflexivity]. cbn in SS. rewrite (has_normal_qof c _ _ SS Hv). apply andb_false_r. }
    rewrite E. cbn [fst snd worker_enabled stale]. rewrite OW, CS, RW, LS. auto.
  - (* WAddLow *) unfold low_s in ST.
    assert (E : lastw c t && negb (fst o) && nonempty (qof (lowq c) (sq g)) = false).
    { rewrite Ho. cbn. rewrite andb_true_r. exact ST. }
    rewrite E. cbn [fst snd worker_enabled stale]. rewrite OW, CS, RW. auto.
  - (* WIdle *) destruct r.
    + destruct (qlen_tasks c t g); cbn [fst snd worker_enabled stale]; rewrite OW, CS, RW; auto.
    + apply negb_false_iff in ST. destruct (qlen_tasks c t g) eqn:Q; [discriminate|]. cbn [fst snd worker_enabled stale]. rewrite OW, CS, RW. auto.
  - (* WCheck *) destruct ce.
    + rewrite ST. cbn [fst snd worker_enabled stale]. rewrite OW, CS, RW. auto.
    + destruct (rs_eqb (st g t) g_sleep_if); cbn [fst snd worker_enabled stale]; rewrite OW, CS, RW; auto.
Qed.

Lemma client_disabled_stutter : forall c o t g cl, client_enabled c g cl = false ->
  geq g (fst (client_step c o t g cl)) /\ client_enabled c (fst (client_step c o t g cl)) (snd (client_step c o t g cl)) = false.
Proof.
  intros c o t g cl D. unfold client_enabled in D. unfold client_step.
  destruct (todo cl) as [|p rest] eqn:E; [cbn [fst snd]; split; [apply geq_refl|unfold client_enabled; rewrite E; reflexivity]|].
  assert (Same : geq g g /\ client_enabled c g cl = false).
  { split; [apply geq_refl|]. unfold client_enabled. rewrite E. exact D. }
  destruct p; try discriminate.
  - (* PLockedCas *) destruct (ph cl); try discriminate; destruct (pul g w); try discriminate; exact Same.
  - (* PLockedNop *) destruct (ph cl); try discriminate; destruct (pul g w); try discriminate; exact Same.
  - (* PWaitNot *) apply negb_false_iff in D. rewrite D. exact Same.
  - (* PResumeLoop *) apply orb_false_iff in D. destruct D as [D1 D2]. apply negb_false_iff in D1. rewrite D1. cbn [fst snd].
    change g_resume_notifies with true in D2. cbn [andb] in D2. unfold notify. change g_resume_notifies with true. cbv iota.
    split.
    + unfold geq. cbn. repeat split; try reflexivity. intros x. unfold upd. destruct (Nat.eqb x w) eqn:Ex; [|reflexivity].
      apply Nat.eqb_eq in Ex. subst. symmetry. exact D2.
    + unfold client_enabled. rewrite E. cbn [st waiting set_waiting]. rewrite D1, upd_same. reflexivity.
  - (* PWaitIdle *) destruct (live g); [discriminate|]. exact Same.
Qed.

(* a thread that is not enabled only stutters: its step leaves the shared state unchanged and it is still not enabled *)
Lemma disabled_stutter : forall c o t g l, fst o = false -> enabled c t g l = false ->
  geq g (fst (sr_tstep c o t g l)) /\ enabled c t (fst (sr_tstep c o t g l)) (snd (sr_tstep c o t g l)) = false.
Proof.
  intros c o t g l Ho D. destruct l as [pc|cl|]; cbn [sr_tstep enabled] in *.
  - destruct (Nat.ltb t (nw c)) eqn:Lt; [|cbn [fst snd enabled]; rewrite Lt; split; [apply geq_refl|reflexivity]].
    cbn [andb] in D. apply Nat.ltb_lt in Lt. destruct (worker_disabled_stutter c o t g pc Lt Ho D) as [A B].
    destruct (worker_step c o t g pc) as [g' pc']. cbn [fst snd] in *. subst g'. split; [apply geq_refl|].
    cbn [enabled]. rewrite B. apply andb_false_r.
  - destruct (Nat.ltb t (nw c)) eqn:Lt; [cbn [fst snd enabled]; rewrite Lt; split; [apply geq_refl|reflexivity]|].
    cbn [negb andb] in D. destruct (client_disabled_stutter c o t g cl D) as [A B].
    destruct (client_step c o t g cl) as [g' cl']. cbn [fst snd] in *. split; [exact A|]. cbn [enabled]. rewrite Lt. exact B.
  - split; [apply geq_refl|reflexivity].
Qed.
