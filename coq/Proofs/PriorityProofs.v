(* Proofs/PriorityProofs.v — C10: the priority resolution of create_work / create_thread. *)
From Coq Require Import List NArith Bool ZArith Arith Lia.
From Pika Require Import Gen.GenPriority Model.Placement Model.Priority Proofs.PlacementProofs.
Import ListNotations.

Lemma rp_eqb_eq a b : rp_eqb a b = true <-> a = b.
Proof. split; [destruct a, b; cbv; congruence | intros ->; destruct b; reflexivity]. Qed.

(* an explicitly requested priority is what the task gets, whoever submits *)
Lemma explicit_priority_kept_lemma requested parent :
  requested <> rp_default_ -> resolve_priority requested parent = requested.
Proof.
  intros H. destruct requested; try congruence; destruct parent as [[]|]; reflexivity.
Qed.

Lemma explicit_priority_kept_thread_lemma requested parent :
  requested <> rp_default_ -> resolve_priority_thread requested parent = requested.
Proof.
  intros H. destruct requested; try congruence; destruct parent as [[]|]; reflexivity.
Qed.

(* default_ becomes high_recursive exactly under a high_recursive parent, normal otherwise *)
Lemma default_inherits_only_high_recursive_lemma parent :
  resolve_priority rp_default_ parent =
    match parent with Some rp_high_recursive => rp_high_recursive | _ => rp_normal end
  /\ resolve_priority_thread rp_default_ parent =
    match parent with Some rp_high_recursive => rp_high_recursive | _ => rp_normal end.
Proof. destruct parent as [[]|]; split; reflexivity. Qed.

(* the result is never default_ (every scheduler switch would otherwise fall to its default branch) *)
Lemma resolved_not_default_lemma requested parent :
  resolve_priority requested parent <> rp_default_ \/ requested = rp_unknown.
Proof. destruct requested; destruct parent as [[]|]; cbv; (left; congruence) || (right; reflexivity). Qed.

(* composition with Placement.v: an explicitly normal child hinted to worker h lands in queue h,
   for every parent, every number H of high-priority queues, priority scheduler or not *)
Lemma normal_child_queue_is_hinted_queue_lemma (c : pool_cfg) p parent h rr :
  h < pW c -> (Z.of_nat (pW c) <= 32767)%Z ->
  child_queue c p rp_normal parent (worker_hint h) rr = QN p h.
Proof.
  intros Hh HW. unfold child_queue.
  rewrite explicit_priority_kept_lemma by congruence.
  rewrite base_queue_worker by lia. cbn [fst placement_prio].
  unfold qkind_of. destruct (pPrio c); reflexivity.
Qed.

(* what the default_ child of a high_recursive parent gets on a priority scheduler: the
   high-priority queue (hint mod H) — worker h only when h < H *)
Lemma inherited_child_queue_lemma (c : pool_cfg) p h rr :
  h < pW c -> (Z.of_nat (pW c) <= 32767)%Z -> pPrio c = true ->
  child_queue c p rp_default_ (Some rp_high_recursive) (worker_hint h) rr = QH p (h mod pH c).
Proof.
  intros Hh HW HP. unfold child_queue.
  destruct (default_inherits_only_high_recursive_lemma (Some rp_high_recursive)) as [-> _].
  rewrite base_queue_worker by lia. cbn [fst placement_prio].
  unfold qkind_of. rewrite HP. reflexivity.
Qed.

(* the queue family of a child depends on the parent ONLY through a default_ request *)
Lemma child_queue_parent_independent_lemma (c : pool_cfg) p requested parent parent' h rr :
  requested <> rp_default_ ->
  child_queue c p requested parent h rr = child_queue c p requested parent' h rr.
Proof.
  intros H. unfold child_queue. now rewrite !explicit_priority_kept_lemma by assumption.
Qed.
