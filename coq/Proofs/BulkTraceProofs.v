(* Proofs/BulkTraceProofs.v — C11: the trace acceptor [lock_trace] (used for the lock-step harness and
   for the TRACE tie of the real set_value on a real pool) only ever moves along [bstep]: whatever it
   accepts is a run of the model, so every theorem about [brun] holds for the state it reaches. *)
From Coq Require Import List NArith Lia Bool Arith.
From Pika Require Import Base.Conc Model.IndexQueue Model.Bulk.
Import ListNotations.

Lemma settle_is_run cf fuel t c : exists s, settle cf fuel t c = run (bstep cf) s c.
Proof.
  revert c. induction fuel as [|f IH]; intros c; cbn [settle].
  - now exists [].
  - destruct (Nat.eqb (bsite cf (fst c) t (snd c t)) 0 && negb (bfinal (snd c t))).
    + destruct (IH (step (bstep cf) c (t, false))) as [s Hs]. exists ((t, false) :: s). now rewrite run_cons.
    + now exists [].
Qed.

Lemma lock_step_is_run cf c t : exists s, lock_step cf c t = run (bstep cf) s c.
Proof.
  unfold lock_step. destruct (settle_is_run cf 8 t (step (bstep cf) c (t, false))) as [s Hs].
  exists ((t, false) :: s). now rewrite run_cons.
Qed.

Lemma lock_trace_is_run cf sched : forall c acc, exists s, snd (lock_trace cf sched c acc) = run (bstep cf) s c.
Proof.
  induction sched as [|t r IH]; intros c acc; cbn [lock_trace].
  - now exists [].
  - destruct (lock_step_is_run cf c t) as [s1 H1]. destruct (IH (lock_step cf c t) (bsite cf (fst c) t (snd c t) :: acc)) as [s2 H2].
    exists (s1 ++ s2). now rewrite run_app, <- H1.
Qed.

Lemma trace_acceptor_sound cf sched : exists s, snd (lock_trace cf sched (binit cf) []) = brun cf s.
Proof. unfold brun. apply lock_trace_is_run. Qed.

(* the sites reported by the acceptor: one per scheduled thread, in order *)
Lemma lock_trace_sites_length cf sched : forall c acc,
  length (fst (lock_trace cf sched c acc)) = (length sched + length acc)%nat.
Proof.
  induction sched as [|t r IH]; intros c acc; cbn [lock_trace fst].
  - now rewrite rev_length.
  - rewrite IH. cbn [length]. lia.
Qed.

(* hence everything proved about [brun] holds for the state reached by an accepted trace *)
From Pika Require Import Proofs.IndexQueueProofs Proofs.BulkArith Proofs.BulkProofs.
Local Open Scope N_scope.

Lemma trace_accepted_props cf sched : guard cf ->
  let g := fst (snd (lock_trace cf sched (binit cf) [])) in
  NoDup (map fst (calls g)) /\
  (forall j v, In (j, v) (calls g) -> j < cn cf /\ v = Some (cvals cf)) /\
  (length (sigs g) <= 1)%nat /\
  (forall s, In s (sigs g) ->
     sg_calls s = length (calls g) /\ sg_exits s = length (exits g) /\ length (calls g) = length (exits g)).
Proof.
  intros Hg. destruct (trace_acceptor_sound cf sched) as [s Hs]. cbn zeta. rewrite Hs.
  destruct (bulk_each_index_once cf s Hg) as [H1 H2].
  split; [exact H1|]. split; [exact H2|]. split; [exact (bulk_completes_at_most_once cf s Hg)|].
  exact (bulk_signal_after_last_call cf s Hg).
Qed.
