(* Proofs/RwMutexDoneProofs.v — done() happens once per shared state and in destructor order:
   shared-state invariant GS (no thread-local lists needed: every guard of Model/RwMutex.v is evaluated on
   the shared ghost state).  First layer of the work-list invariant sketched in notes/design/C04.md. *)
From Coq Require Import List Arith Bool Lia.
From Pika Require Import Base.Conc Model.RwMutex Proofs.RwMutexProofs Proofs.RwMutexQueueProofs.
Import ListNotations.

Record GSc (gs : nat -> group) (ng : nat) (tk : nat -> token) : Prop := {
  (* the local taken from next_state of group p exists only after p's destructor body has finished *)
  s1 : forall e t, tst (tk e) = TDone t -> exists p, tgrp (tk e) = S p /\ gphase (gs p) = 3;
  (* at most one such local per group: done() of a successor is issued once *)
  s2 : forall e e' t t', tst (tk e) = TDone t -> tst (tk e') = TDone t' -> tgrp (tk e) = tgrp (tk e') -> e = e';
  (* the sentinel of a successor group is set only after its predecessor's destructor body has finished *)
  s3 : forall p, S p < ng -> head (gs (S p)) = HSent -> gphase (gs p) = 3
}.
Definition GS (g : shared) : Prop := GSc (grp g) (ngrp g) (tok g).

Lemma GS_init : GS rw_init.
Proof. constructor; cbn; intros; try discriminate; lia. Qed.

Lemma GS_upd gs ng tk gs' ng' tk' :
  GSc gs ng tk -> (forall e t, tst (tk e) = TDone t -> tgrp (tk e) < ng) ->
  (forall e t, tst (tk' e) = TDone t -> tst (tk e) = TDone t /\ tgrp (tk' e) = tgrp (tk e)) ->
  (forall p, S p < ng -> gphase (gs p) = 3 -> gphase (gs' p) = 3) ->
  (forall p, S p < ng' -> head (gs' (S p)) = HSent -> (S p < ng /\ head (gs (S p)) = HSent) \/ gphase (gs' p) = 3) ->
  GSc gs' ng' tk'.
Proof.
  intros [S1 S2 S3] Hlt Ht Hp Hh. constructor.
  - intros e t H. destruct (Ht _ _ H) as [H1 H2]. destruct (S1 _ _ H1) as [p [A B]]. exists p. rewrite H2.
    split; [exact A|]. apply Hp; [|exact B]. rewrite <- A. eapply Hlt; eauto.
  - intros e e' t t' H H' E. destruct (Ht _ _ H) as [H1 H2]. destruct (Ht _ _ H') as [H1' H2'].
    eapply S2; eauto. congruence.
  - intros p Hl Hs. destruct (Hh p Hl Hs) as [[A B]|A]; [apply Hp; [exact A|]; eapply S3; eauto|exact A].
Qed.

Lemma fset_done tk e nk : (forall t, tst nk <> TDone t) ->
  forall e0 t, tst (fset tk e nk e0) = TDone t -> tst (tk e0) = TDone t /\ tgrp (fset tk e nk e0) = tgrp (tk e0).
Proof. intros Hn e0 t. unfold fset. destruct (Nat.eqb_spec e0 e); subst; intros H; [exfalso; eapply Hn; eauto|auto]. Qed.

Lemma take_all_done tk l t : forall e0 u, tst (take_all tk l t e0) = TDone u ->
  tst (tk e0) = TDone u /\ tgrp (take_all tk l t e0) = tgrp (tk e0).
Proof.
  intros e0 u. rewrite take_all_spec. destruct (in_dec Nat.eq_dec e0 l); cbn; [discriminate|auto].
Qed.

(* generic consequences for the shapes of state updates that occur *)
Lemma done_lt g : GI g -> forall e t, tst (tok g e) = TDone t -> tgrp (tok g e) < ngrp g.
Proof. intros HI e t H. apply (a1 _ _ _ _ _ _ HI). rewrite H. reflexivity. Qed.

Lemma GS_tok g e nk : GI g -> GS g -> (forall t, tst nk <> TDone t) -> GSc (grp g) (ngrp g) (fset (tok g) e nk).
Proof. intros HI H Hn. eapply GS_upd; [exact H|apply done_lt; exact HI|apply fset_done; exact Hn|auto|auto]. Qed.

Lemma GS_grp gs ng tk k gr : GSc gs ng tk -> (forall e t, tst (tk e) = TDone t -> tgrp (tk e) < ng) ->
  (gphase (gs k) = 3 -> gphase gr = 3) ->
  (head gr = HSent -> head (gs k) = HSent) -> GSc (fset gs k gr) ng tk.
Proof.
  intros H Hlt Hp Hh. eapply GS_upd; [exact H|exact Hlt|auto| |].
  - intros p _. unfold fset. destruct (Nat.eqb_spec p k); subst; auto.
  - intros p Hl. unfold fset at 1. destruct (Nat.eqb_spec (S p) k) as [E|]; [rewrite <- E in Hh|]; intros Hs; left; auto.
Qed.

Lemma GS_rel t g e : GI g -> GS g -> alive (tst (tok g e)) = true ->
  GSc (fset (grp g) (tgrp (tok g e)) (rel_grp t (grp g (tgrp (tok g e))))) (ngrp g) (fset (tok g) e (set_st (tok g e) TDead)).
Proof.
  intros HI H Ha.
  assert (H1 : GSc (grp g) (ngrp g) (fset (tok g) e (set_st (tok g e) TDead))) by (apply GS_tok; [assumption|assumption|discriminate]).
  apply GS_grp; [exact H1| | |rewrite rel_grp_head; auto].
  { intros e0 u. unfold fset. destruct (Nat.eqb_spec e0 e); subst; cbn; [discriminate|apply done_lt; exact HI]. }
  intros Hp. pose proof (alive_refs _ _ _ _ _ _ e HI Ha) as Hr.
  rewrite (a8 _ _ _ _ _ _ HI) in Hr; [lia|eapply a1; eauto|lia].
Qed.

Lemma GS_do_rel t g e rest : GI g -> GS g -> alive (tst (tok g e)) = true -> GS (fst (do_rel t g e rest)).
Proof.
  intros HI H Ha. unfold do_rel. cbn [fst]. pose proof (GS_rel t g e HI H Ha) as H1.
  destruct (is_wrapper (tst (tok g e))); exact H1.
Qed.

Lemma GS_vdec g : GS g -> GS (do_vdec g).
Proof. unfold do_vdec. destruct (Nat.eqb (pred (vrefs g)) 0 && negb (vfreed g)); exact (fun H => H). Qed.

Lemma GS_set_tst g e s : GI g -> GS g -> (forall t, s <> TDone t) -> GS (set_tst g e s).
Proof. intros HI H Hn. unfold GS, set_tst. cbn. apply GS_tok; [exact HI|exact H|exact Hn]. Qed.

Lemma GS_work sp t g w rest : GI g -> GS g -> GS (fst (do_work sp t g w rest)).
Proof.
  intros HI H. destruct w as [e|e nx|e|e|k|k|k tmp|]; cbn [do_work].
  - (* WLoad *)
    destruct (is_starting t (tst (tok g e))); cbn [negb]; [|exact H].
    destruct (hptr (head (grp g (tgrp (tok g e))))); cbn [fst]; try exact H.
    apply (GS_set_tst (with_bad g _)); [exact HI|exact H|discriminate].
  - (* WCas *)
    destruct (is_starting t (tst (tok g e))); cbn [negb]; [|exact H].
    destruct (head (grp g (tgrp (tok g e)))) as [|l] eqn:Eh.
    + cbn [fst]. apply (GS_set_tst (with_bad g _)); [exact HI|exact H|discriminate].
    + destruct (nxt_eqb nx (hptr (HList l)) && negb sp); [|exact H].
      cbn [fst]. unfold GS, set_tst, upd_grp. cbn.
      eapply GS_upd; [exact H|apply done_lt; exact HI|apply fset_done; discriminate| |].
      * intros p _. unfold fset. destruct (Nat.eqb_spec p (tgrp (tok g e))); subst; auto.
      * intros p Hlt. unfold fset. destruct (Nat.eqb_spec (S p) (tgrp (tok g e))); cbn; [discriminate|auto].
  - (* WGrant *)
    destruct (is_granting t (tst (tok g e))); cbn [negb]; [|exact H]. cbn [fst].
    assert (H1 : GS (with_ev (set_tst g e (if tauto (tok g e) then TAuto t else TLive))
                       (EGrant e (tgrp (tok g e)) (treq (tok g e)) :: elog g))).
    { apply (GS_set_tst g); [exact HI|exact H|]. destruct (tauto (tok g e)); discriminate. }
    destruct (tuse (tok g e)); exact H1.
  - (* WRel *)
    destruct (owned_by t (tst (tok g e))) eqn:Eo; cbn [negb]; [|exact H].
    destruct (owned_alive _ _ Eo). apply GS_do_rel; auto.
  - (* WDv *)
    destruct (Nat.eqb (gphase (grp g k)) 1 && Nat.eqb (gown (grp g k)) t) eqn:Eg; cbn [negb]; [|exact H].
    apply andb_true_iff in Eg. destruct Eg as [Eg _]. apply Nat.eqb_eq in Eg.
    cbn [fst]. apply GS_vdec. unfold GS, upd_grp. cbn. apply GS_grp; [exact H|apply done_lt; exact HI|cbn; lia|cbn; auto].
  - (* WDn *)
    destruct (Nat.eqb (gphase (grp g k)) 2 && Nat.eqb (gown (grp g k)) t) eqn:Eg; cbn [negb]; [|exact H].
    apply andb_true_iff in Eg. destruct Eg as [Eg _]. apply Nat.eqb_eq in Eg.
    destruct (linked (grp g k)) eqn:El; cbn [fst].
    + unfold GS, new_tok, upd_grp. cbn. destruct H as [S1 S2 S3].
      assert (Hfresh : tst (tok g (ntok g)) = TDead) by (apply (a0 _ _ _ _ _ _ HI); lia).
      assert (Hno : forall e u, tst (tok g e) = TDone u -> tgrp (tok g e) <> S k).
      { intros e u He E. destruct (S1 _ _ He) as [p [A B]]. rewrite A in E. injection E as ->. lia. }
      constructor.
      * intros e u. unfold fset at 1 2. destruct (Nat.eqb_spec e (ntok g)); cbn.
        -- intros _. exists k. split; [reflexivity|]. rewrite fset_same. reflexivity.
        -- intros He. destruct (S1 _ _ He) as [p [A B]]. exists p. split; [exact A|].
           unfold fset. destruct (Nat.eqb_spec p k); subst; [reflexivity|exact B].
      * intros e e' u u'. unfold fset. destruct (Nat.eqb_spec e (ntok g)), (Nat.eqb_spec e' (ntok g)); subst; cbn; auto.
        -- intros _ He' E. exfalso. eapply Hno; eauto.
        -- intros He _ E. exfalso. eapply Hno; eauto.
        -- apply S2.
      * intros p Hlt. unfold fset. destruct (Nat.eqb_spec (S p) k), (Nat.eqb_spec p k); subst; cbn; auto; try lia.
        all: try (intros Hs; apply S3; auto; fail).
    + unfold GS, upd_grp. cbn. apply GS_grp; [exact H|apply done_lt; exact HI|cbn; auto|cbn; auto].
  - (* WDx *)
    destruct (match tmp with None => Nat.eqb k 0 | Some e => is_done t (tst (tok g e)) && Nat.eqb (tgrp (tok g e)) k end) eqn:Eg;
      cbn [negb]; [|exact H].
    destruct (head (grp g k)) as [|l] eqn:Eh; [exact H|].
    cbn [fst]. unfold GS, upd_grp. cbn.
    eapply GS_upd; [exact H|apply done_lt; exact HI|apply take_all_done| |].
    + intros p _. unfold fset. destruct (Nat.eqb_spec p k); subst; auto.
    + intros p Hlt. unfold fset at 1. destruct (Nat.eqb_spec (S p) k) as [E|]; [|auto].
      intros _. right. destruct tmp as [e|].
      * apply andb_true_iff in Eg. destruct Eg as [E1 E2]. apply is_done_spec in E1. apply Nat.eqb_eq in E2.
        destruct (s1 _ _ _ H _ _ E1) as [q [A B]]. assert (q = p) by lia. subst q.
        unfold fset. destruct (Nat.eqb_spec p k); [lia|exact B].
      * apply Nat.eqb_eq in Eg. lia.
  - destruct (malive g || negb (mvheld g)); cbn [fst]; [exact H|]. apply GS_vdec. exact H.
Qed.


Lemma GS_cmd t g c : GI g -> GS g -> GS (fst (do_cmd t g c)).
Proof.
  intros HI H. destruct c as [sp|kd|e auto usev|e|e|e|e|]; cbn [do_cmd].
  - exact H.
  - (* CReq *)
    destruct (malive g) eqn:Eal; cbn [negb]; [|exact H].
    assert (Hnew : forall ms, ms = mstate g ->
      GS (fst (let k := ngrp g in
       let newg0 := fun r : nat => {| gkind := kd; refs := r; head := HList []; linked := false; vheld := true; gphase := 0; gown := 0 |} in
       let snd_tok := {| tgrp := k; treq := nreq g; tauto := false; tuse := false; tstarted := false; tst := TSender |} in
       let gv := with_val g (S (vrefs g)) (vfreed g) in
       match ms with
       | Some p =>
           let g1 := upd_grp (upd_grp gv p (set_linked (grp g p) true)) k (newg0 3) in
           let g2 := new_tok (with_ngrp g1 (S k)) snd_tok in
           let tmp := ntok g2 in
           let g3 := new_tok g2 {| tgrp := p; treq := 0; tauto := false; tuse := false; tstarted := false; tst := TTemp t |} in
           (with_mutex g3 (Some k) kd true (S (nreq g)), [WRel tmp])
       | None =>
           let g1 := upd_grp gv k (newg0 2) in
           let g2 := new_tok (with_ngrp g1 (S k)) snd_tok in
           (with_mutex g2 (Some k) kd true (S (nreq g)), [WDx k None])
       end))).
    { intros ms Ems. destruct ms as [p|]; cbn.
      - pose proof (a6 _ _ _ _ _ _ HI p (eq_sym Ems)) as Hp.
        unfold GS. cbn. eapply GS_upd; [exact H|apply done_lt; exact HI| | |].
        + intros e0 u. unfold fset. destruct (Nat.eqb_spec e0 (S (ntok g))); cbn; [discriminate|].
          destruct (Nat.eqb_spec e0 (ntok g)); cbn; [discriminate|auto].
        + intros q Hq. unfold fset. destruct (Nat.eqb_spec q (ngrp g)); [lia|].
          destruct (Nat.eqb_spec q p); subst; cbn; auto.
        + intros q Hlt. remember (S q) as sq eqn:Esq. unfold fset. destruct (Nat.eqb_spec sq (ngrp g)); cbn; [discriminate|].
          destruct (Nat.eqb_spec sq p) as [E|]; cbn; intros Hs; left; split; try lia; [rewrite E|]; exact Hs.
      - unfold GS. cbn. eapply GS_upd; [exact H|apply done_lt; exact HI| | |].
        + intros e0 u. unfold fset. destruct (Nat.eqb_spec e0 (ntok g)); cbn; [discriminate|auto].
        + intros q Hq. unfold fset. destruct (Nat.eqb_spec q (ngrp g)); [lia|auto].
        + intros q Hlt. remember (S q) as sq eqn:Esq. unfold fset. destruct (Nat.eqb_spec sq (ngrp g)); cbn; [discriminate|].
          intros Hs; left; split; [lia|exact Hs]. }
    destruct kd.
    + destruct (mprev g).
      * destruct (mstate g) as [k|] eqn:Ems; [|apply (Hnew None); reflexivity].
        cbn [fst]. unfold GS, new_tok, upd_grp. cbn.
        apply GS_grp; [apply GS_tok; [exact HI|exact H|discriminate]| |cbn; auto|cbn; auto].
        intros e0 u. unfold fset. destruct (Nat.eqb_spec e0 (ntok g)); cbn; [discriminate|apply done_lt; exact HI].
      * apply (Hnew (mstate g)); reflexivity.
    + destruct (mprev g); apply (Hnew (mstate g)); reflexivity.
  - (* CStart *)
    destruct (Nat.ltb e (ntok g) && is_sender (tst (tok g e))); [|exact H].
    cbn [fst]. unfold GS. cbn. apply GS_tok; [exact HI|exact H|discriminate].
  - (* CDropOp *)
    destruct (Nat.ltb e (ntok g) && is_sender (tst (tok g e))); [|exact H].
    cbn [fst]. apply GS_set_tst; [exact HI|exact H|discriminate].
  - (* CCopy *)
    destruct (Nat.ltb e (ntok g) && kind_eqb (gkind (grp g (tgrp (tok g e)))) KR &&
              (is_sender (tst (tok g e)) || is_live (tst (tok g e)))) eqn:Eg; [|exact H].
    apply andb_true_iff in Eg. destruct Eg as [_ Es].
    cbn [fst]. unfold GS, new_tok, upd_grp. cbn.
    assert (Hn : forall u, tst (tok g e) <> TDone u).
    { intros u Hu. rewrite Hu in Es. discriminate. }
    apply GS_grp; [apply GS_tok; [exact HI|exact H|exact Hn]| |cbn; auto|cbn; auto].
    intros e0 u. unfold fset. destruct (Nat.eqb_spec e0 (ntok g)); cbn; [intros Hu; exfalso; eapply Hn; eauto|apply done_lt; exact HI].
  - (* CRelease *)
    destruct (Nat.ltb e (ntok g) && is_live (tst (tok g e))) eqn:Eg; [|exact H].
    apply andb_true_iff in Eg. destruct Eg as [_ Es]. apply is_live_spec in Es.
    apply GS_do_rel; auto. rewrite Es. reflexivity.
  - (* CUse *)
    destruct (Nat.ltb e (ntok g) && is_live (tst (tok g e))); exact H.
  - (* CDestroy *)
    destruct (malive g); cbn [negb]; [|exact H].
    destruct (mstate g) as [k|]; cbn [fst]; [|exact H].
    unfold GS, new_tok. cbn. apply GS_tok; [exact HI|exact H|discriminate].
Qed.

Lemma GS_step c t g l : GI g -> GS g -> GS (fst (rw_tstep c t g l)).
Proof. intros HI H. destruct l as [|w rest]; [apply GS_cmd|apply GS_work]; assumption. Qed.

Theorem GS_run sched : GS (fst (rw_run sched)).
Proof.
  assert (H : GI (fst (rw_run sched)) /\ GS (fst (rw_run sched))); [|tauto].
  unfold rw_run. apply (run_ginv _ _ _ rw_tstep (fun g => GI g /\ GS g)).
  - intros o t g l [HI HS]. split; [apply GI_step; exact HI|apply GS_step; assumption].
  - split; [apply GI_init|apply GS_init].
Qed.

(* done() is issued at most once per shared state, and in destructor order *)
Theorem rw_done_once sched : let g := fst (rw_run sched) in
  (forall e e' t t', tst (tok g e) = TDone t -> tst (tok g e') = TDone t' -> tgrp (tok g e) = tgrp (tok g e') -> e = e') /\
  (forall e t, tst (tok g e) = TDone t -> exists p, tgrp (tok g e) = S p /\ gphase (grp g p) = 3 /\ refs (grp g p) = 0) /\
  (forall p, S p < ngrp g -> head (grp g (S p)) = HSent -> gphase (grp g p) = 3 /\ refs (grp g p) = 0).
Proof.
  intros g. pose proof (GS_run sched) as H. pose proof (GI_run sched) as HI. fold g in H, HI.
  split; [apply (s2 _ _ _ H)|split].
  - intros e t He. destruct (s1 _ _ _ H _ _ He) as [p [A B]]. exists p. repeat split; auto.
    apply (a8 _ _ _ _ _ _ HI); [|lia]. pose proof (done_lt g HI _ _ He). lia.
  - intros p Hlt Hs. pose proof (s3 _ _ _ H p Hlt Hs) as B. split; [exact B|].
    apply (a8 _ _ _ _ _ _ HI); lia.
Qed.
