(* Proofs/ErasedStepsProofs.v — C18: the step lists regenerated from the source are the lists the model was
   transcribed from.  One lemma per member so that a failure names the member. *)
From Coq Require Import List.
From Pika Require Import Gen.GenErasedSteps Model.ErasedSteps.
Import ListNotations.

Lemma tie_fb_copy_ctor : fb_copy_ctor = m_fb_copy_ctor.
Proof. reflexivity. Qed.
Lemma tie_fb_move_ctor : fb_move_ctor = m_fb_move_ctor.
Proof. reflexivity. Qed.
Lemma tie_fb_dtor : fb_dtor = m_fb_dtor.
Proof. reflexivity. Qed.
Lemma tie_fb_op_assign_copy : fb_op_assign_copy = m_fb_op_assign_copy.
Proof. reflexivity. Qed.
Lemma tie_fb_op_assign_move : fb_op_assign_move = m_fb_op_assign_move.
Proof. reflexivity. Qed.
Lemma tie_fb_destroy : fb_destroy = m_fb_destroy.
Proof. reflexivity. Qed.
Lemma tie_fb_reset : fb_reset = m_fb_reset.
Proof. reflexivity. Qed.
Lemma tie_fb_swap : fb_swap = m_fb_swap.
Proof. reflexivity. Qed.
Lemma tie_bf_default_ctor : bf_default_ctor = m_bf_default_ctor.
Proof. reflexivity. Qed.
Lemma tie_bf_copy_ctor : bf_copy_ctor = m_bf_copy_ctor.
Proof. reflexivity. Qed.
Lemma tie_bf_move_ctor : bf_move_ctor = m_bf_move_ctor.
Proof. reflexivity. Qed.
Lemma tie_bf_copy_assign : bf_copy_assign = m_bf_copy_assign.
Proof. reflexivity. Qed.
Lemma tie_bf_move_assign : bf_move_assign = m_bf_move_assign.
Proof. reflexivity. Qed.
Lemma tie_bf_assign_null : bf_assign_null = m_bf_assign_null.
Proof. reflexivity. Qed.
Lemma tie_bf_assign : bf_assign = m_bf_assign.
Proof. reflexivity. Qed.
Lemma tie_bf_reset : bf_reset = m_bf_reset.
Proof. reflexivity. Qed.
Lemma tie_vt_allocate : vt_allocate = m_vt_allocate.
Proof. reflexivity. Qed.
Lemma tie_vt_deallocate : vt_deallocate = m_vt_deallocate.
Proof. reflexivity. Qed.
Lemma tie_vt_copy : vt_copy = m_vt_copy.
Proof. reflexivity. Qed.
Lemma tie_ss_release : forall sbo, ss_release sbo = m_ss_release sbo.
Proof. intros [|]; reflexivity. Qed.
Lemma tie_ss_move_assign : forall sbo, ss_move_assign sbo = m_ss_move_assign sbo.
Proof. intros [|]; reflexivity. Qed.
Lemma tie_ss_move_assign_from_copyable : forall sbo, ss_move_assign_from_copyable sbo = m_ss_move_assign_from_copyable sbo.
Proof. intros [|]; reflexivity. Qed.
Lemma tie_ss_dtor : forall sbo, ss_dtor sbo = m_ss_dtor sbo.
Proof. intros [|]; reflexivity. Qed.
Lemma tie_ss_move_ctor : forall sbo, ss_move_ctor sbo = m_ss_move_ctor sbo.
Proof. intros [|]; reflexivity. Qed.
Lemma tie_ss_move_ctor_from_copyable : forall sbo, ss_move_ctor_from_copyable sbo = m_ss_move_ctor_from_copyable sbo.
Proof. intros [|]; reflexivity. Qed.
Lemma tie_ss_move_op_assign : forall sbo, ss_move_op_assign sbo = m_ss_move_op_assign sbo.
Proof. intros [|]; reflexivity. Qed.
Lemma tie_ss_move_op_assign_from_copyable : forall sbo, ss_move_op_assign_from_copyable sbo = m_ss_move_op_assign_from_copyable sbo.
Proof. intros [|]; reflexivity. Qed.
Lemma tie_ss_store : forall sbo, ss_store sbo = m_ss_store sbo.
Proof. intros [|]; reflexivity. Qed.
Lemma tie_ss_reset : forall sbo, ss_reset sbo = m_ss_reset sbo.
Proof. intros [|]; reflexivity. Qed.
Lemma tie_cs_copy_assign : forall sbo, cs_copy_assign sbo = m_cs_copy_assign sbo.
Proof. intros [|]; reflexivity. Qed.
Lemma tie_cs_copy_ctor : forall sbo, cs_copy_ctor sbo = m_cs_copy_ctor sbo.
Proof. intros [|]; reflexivity. Qed.
Lemma tie_cs_copy_op_assign : forall sbo, cs_copy_op_assign sbo = m_cs_copy_op_assign sbo.
Proof. intros [|]; reflexivity. Qed.

Definition function_members : list prog :=
  [fb_copy_ctor; fb_move_ctor; fb_dtor; fb_op_assign_copy; fb_op_assign_move; fb_destroy; fb_reset; fb_swap; bf_default_ctor; bf_copy_ctor; bf_move_ctor; bf_copy_assign; bf_move_assign; bf_assign_null; bf_assign; bf_reset; vt_allocate; vt_deallocate; vt_copy].
Definition m_function_members : list prog :=
  [m_fb_copy_ctor; m_fb_move_ctor; m_fb_dtor; m_fb_op_assign_copy; m_fb_op_assign_move; m_fb_destroy; m_fb_reset; m_fb_swap; m_bf_default_ctor; m_bf_copy_ctor; m_bf_move_ctor; m_bf_copy_assign; m_bf_move_assign; m_bf_assign_null; m_bf_assign; m_bf_reset; m_vt_allocate; m_vt_deallocate; m_vt_copy].
Definition sender_members (sbo : bool) : list prog :=
  [ss_release sbo; ss_move_assign sbo; ss_move_assign_from_copyable sbo; ss_dtor sbo; ss_move_ctor sbo; ss_move_ctor_from_copyable sbo; ss_move_op_assign sbo; ss_move_op_assign_from_copyable sbo; ss_store sbo; ss_reset sbo; cs_copy_assign sbo; cs_copy_ctor sbo; cs_copy_op_assign sbo].
Definition m_sender_members (sbo : bool) : list prog :=
  [m_ss_release sbo; m_ss_move_assign sbo; m_ss_move_assign_from_copyable sbo; m_ss_dtor sbo; m_ss_move_ctor sbo; m_ss_move_ctor_from_copyable sbo; m_ss_move_op_assign sbo; m_ss_move_op_assign_from_copyable sbo; m_ss_store sbo; m_ss_reset sbo; m_cs_copy_assign sbo; m_cs_copy_ctor sbo; m_cs_copy_op_assign sbo].
Lemma source_steps_are_model_steps :
  function_members = m_function_members /\ forall sbo, sender_members sbo = m_sender_members sbo.
Proof.
  split; [unfold function_members, m_function_members | intros sbo; unfold sender_members, m_sender_members].
  - rewrite tie_fb_copy_ctor, tie_fb_move_ctor, tie_fb_dtor, tie_fb_op_assign_copy, tie_fb_op_assign_move, tie_fb_destroy, tie_fb_reset, tie_fb_swap, tie_bf_default_ctor, tie_bf_copy_ctor, tie_bf_move_ctor, tie_bf_copy_assign, tie_bf_move_assign, tie_bf_assign_null, tie_bf_assign, tie_bf_reset, tie_vt_allocate, tie_vt_deallocate, tie_vt_copy. reflexivity.
  - rewrite tie_ss_release, tie_ss_move_assign, tie_ss_move_assign_from_copyable, tie_ss_dtor, tie_ss_move_ctor, tie_ss_move_ctor_from_copyable, tie_ss_move_op_assign, tie_ss_move_op_assign_from_copyable, tie_ss_store, tie_ss_reset, tie_cs_copy_assign, tie_cs_copy_ctor, tie_cs_copy_op_assign. reflexivity.
Qed.
