(* Proofs/HandoffProofs.v — C03: the shared-state hand-off of split / ensure_started /
   split_tuple and the join counter of when_all / when_all_vector, for every number of
   threads and every schedule. *)
From Coq Require Import List NArith ZArith Bool Arith Lia Permutation.
From Pika Require Import Base.Conc Model.Sender Model.Handoff.
Import ListNotations.

(* ================================================================== 1. hand-off *)
Definition consumers (g : hs) : list nat := map (fun x => fst (fst x)) (h_log g).
Definition pre_lock (l : hpc) : Prop := l = P0 \/ l = P1 \/ l = P2.

Lemma NoDup_app_l {A} (l l' : list A) : NoDup (l ++ l') -> NoDup l.
Proof.
  induction l as [|a l IH]; cbn [app]; intros H; [constructor|].
  inversion H as [|? ? Hn Hd]; subst. constructor; [|auto].
  intros Hin. apply Hn. apply in_or_app. now left.
Qed.

Lemma insert_sorted_perm c l : Permutation (insert_sorted c l) (c :: l).
Proof.
  induction l as [|x l IH]; cbn [insert_sorted]; [reflexivity|].
  destruct (Nat.leb c x); [reflexivity|].
  rewrite IH. apply perm_swap.
Qed.

Lemma push_cont_perm k c l : Permutation (push_cont k c l) (c :: l).
Proof.
  destruct k; cbn [push_cont]; try apply insert_sorted_perm;
    (rewrite Permutation_app_comm; reflexivity).
Qed.

Lemma fold_signal conts : forall g,
  let g' := fold_left (fun g' cn => signal g' cn 0) conts g in
  h_v g' = h_v g /\ h_done g' = h_done g /\ h_started g' = h_started g /\ h_conts g' = h_conts g /\
  h_lock g' = h_lock g /\
  h_log g' = rev (map (fun cn => (cn, 0, visit (h_v g))) conts) ++ h_log g.
Proof.
  induction conts as [|cn r IH]; intros g; cbn [fold_left].
  - repeat split; reflexivity.
  - destruct (IH (signal g cn 0)) as (Hv & Hd & Hs & Hc & Hl & Hlog).
    cbn zeta. rewrite Hv, Hd, Hs, Hc, Hl, Hlog. cbn [signal add_log h_v h_done h_started h_conts h_lock h_log map rev].
    repeat split; try reflexivity. rewrite <- app_assoc. reflexivity.
Qed.

Section Handoff.
  Variable k : hkind.
  Variable c : completion.
  Let v0 := split_store c.

  Record HInv (g : hs) (ls : locals hpc) : Prop := {
    i_pred : ls 0 = P0 \/ ls 0 = P1 \/ ls 0 = P2 \/ ls 0 = P3 \/ ls 0 = PEnd;
    i_cons : forall t, t <> 0 -> ls t = C0 \/ ls t = C1 \/ ls t = C2 \/ ls t = C3 \/ ls t = CEnd;
    i_v : ls 0 <> P0 -> h_v g = v0;
    i_done : h_done g = true <-> (ls 0 = P2 \/ ls 0 = P3 \/ ls 0 = PEnd);
    i_log : forall cn b e, In (cn, b, e) (h_log g) ->
              e = visit v0 /\ h_v g = v0 /\ h_done g = true /\ cn <> 0 /\ ls cn = CEnd;
    i_nodup : NoDup (consumers g ++ h_conts g);
    i_conts : forall cn, In cn (h_conts g) -> cn <> 0 /\ ls cn = CEnd;
    i_conts_end : ls 0 = PEnd -> h_conts g = [];
    i_complete : forall t, t <> 0 -> ls t = CEnd -> In t (consumers g) \/ In t (h_conts g);
    i_lock : forall t, h_lock g = Some t <-> (t <> 0 /\ ls t = C3);
    i_c3 : forall t, t <> 0 -> ls t = C3 -> pre_lock (ls 0)
  }.

  Lemma HInv_ext g (ls ls' : locals hpc) : (forall u, ls' u = ls u) -> HInv g ls -> HInv g ls'.
  Proof.
    intros E [H1 H2 H3 H4 H5 H6 H7 H8 H9 H10 H11].
    constructor; intros; rewrite ?E in *; eauto.
  Qed.

  Lemma upd_id (ls : locals hpc) t u : upd ls t (ls t) u = ls u.
  Proof. unfold upd. destruct (Nat.eqb u t) eqn:E; [apply Nat.eqb_eq in E; now subst|reflexivity]. Qed.

  Lemma consumers_not_end g ls t : HInv g ls -> ls t <> CEnd -> ~ In t (consumers g ++ h_conts g).
  Proof.
    intros H Hne Hin. apply in_app_or in Hin. destruct Hin as [Hin|Hin].
    - unfold consumers in Hin. apply in_map_iff in Hin. destruct Hin as ([[cn b] e] & <- & Hin).
      cbn [fst] in Hne. destruct (i_log _ _ H _ _ _ Hin) as (_ & _ & _ & _ & He). contradiction.
    - destruct (i_conts _ _ H _ Hin). contradiction.
  Qed.

  Ltac upd_at u t :=
    destruct (Nat.eq_dec u t) as [->|?];
    [rewrite ?upd_same in *|rewrite ?upd_other in * by assumption].

  (* consumer t signals itself after reading predecessor_done = true *)
  Lemma self_signal g (ls : locals hpc) t :
    HInv g ls -> t <> 0 -> ls t <> CEnd -> ls t <> C3 -> h_done g = true ->
    HInv (signal g t t) (upd ls t CEnd).
  Proof.
    intros H Ht Hne Hn3 Hd.
    assert (Hv : h_v g = v0).
    { apply (i_v _ _ H). intros E. apply (i_done _ _ H) in Hd. rewrite E in Hd. intuition discriminate. }
    constructor; cbn [signal add_log h_v h_done h_started h_conts h_lock h_log].
    - rewrite upd_other by auto. apply (i_pred _ _ H).
    - intros u Hu. upd_at u t; [auto|apply (i_cons _ _ H); auto].
    - rewrite upd_other by auto. apply (i_v _ _ H).
    - rewrite upd_other by auto. apply (i_done _ _ H).
    - intros cn b e [Hin|Hin].
      + injection Hin as <- <- <-. rewrite upd_same, Hv. auto.
      + destruct (i_log _ _ H _ _ _ Hin) as (? & ? & ? & ? & ?). repeat split; auto.
        upd_at cn t; auto.
    - unfold consumers. cbn [h_log map fst app]. constructor; [|apply (i_nodup _ _ H)].
      apply (consumers_not_end _ _ _ H Hne).
    - intros cn Hin. destruct (i_conts _ _ H _ Hin). split; auto. upd_at cn t; auto.
    - rewrite upd_other by auto. apply (i_conts_end _ _ H).
    - intros u Hu He. unfold consumers. cbn [h_log map fst]. upd_at u t; [left; now left|].
      destruct (i_complete _ _ H u Hu He); [left; now right|now right].
    - intros u. rewrite (i_lock _ _ H u). upd_at u t; [|tauto].
      split; intros [? ?]; [contradiction|discriminate].
    - intros u Hu. upd_at u t; [discriminate|]. rewrite upd_other by auto. apply (i_c3 _ _ H u Hu).
  Qed.

  (* a consumer moves between program points outside the critical section, shared state unchanged *)
  Lemma move_inv g (ls : locals hpc) t l' :
    HInv g ls -> t <> 0 -> ls t <> CEnd -> ls t <> C3 -> (l' = C1 \/ l' = C2) ->
    HInv g (upd ls t l').
  Proof.
    intros [H1 H2 H3 H4 H5 H6 H7 H8 H9 H10 H11] Ht Hne Hn3 Hl'.
    assert (Hl1 : l' <> CEnd) by (destruct Hl' as [-> | ->]; discriminate).
    assert (Hl3 : l' <> C3) by (destruct Hl' as [-> | ->]; discriminate).
    constructor.
    - rewrite upd_other by auto. auto.
    - intros u Hu. upd_at u t; [destruct Hl' as [-> | ->]; auto|auto].
    - rewrite upd_other by auto. auto.
    - rewrite upd_other by auto. auto.
    - intros cn b e Hin. destruct (H5 _ _ _ Hin) as (? & ? & ? & ? & He). repeat split; auto.
      upd_at cn t; [congruence|auto].
    - exact H6.
    - intros cn Hin. destruct (H7 _ Hin) as [? He]. split; auto. upd_at cn t; [congruence|auto].
    - rewrite upd_other by auto. auto.
    - intros u Hu. upd_at u t; [intros; congruence|auto].
    - intros u. rewrite (H10 u). upd_at u t; [|tauto]. split; intros [? ?]; congruence.
    - intros u Hu. upd_at u t; [intros; congruence|]. rewrite ?upd_other by auto. apply (H11 u Hu).
  Qed.

  Lemma hstep_inv : forall (o : unit) t g (ls : locals hpc), HInv g ls ->
    HInv (fst (h_tstep k c o t g (ls t))) (upd ls t (snd (h_tstep k c o t g (ls t)))).
  Proof.
    intros o t g ls H.
    assert (Hstut : HInv g (upd ls t (ls t))) by (apply (HInv_ext g ls); [apply upd_id|exact H]).
    destruct t as [|t'].
    - (* the predecessor thread *)
      cbn [h_tstep]. destruct (ls 0) eqn:E0; cbn [fst snd]; try (first [exact Hstut | rewrite E0 in Hstut; exact Hstut]).
      + (* P0 *) destruct (h_started g); cbn [fst snd]; [|first [exact Hstut | rewrite E0 in Hstut; exact Hstut]].
        assert (Hnd : h_done g = false).
        { destruct (h_done g) eqn:Ed; [|reflexivity]. apply (i_done _ _ H) in Ed. rewrite E0 in Ed. intuition discriminate. }
        constructor; cbn [set_v h_v h_done h_started h_conts h_lock h_log]; rewrite ?upd_same.
        * auto.
        * intros u Hu. rewrite upd_other by auto. apply (i_cons _ _ H); auto.
        * reflexivity.
        * rewrite Hnd. split; [discriminate|intuition discriminate].
        * intros cn b e Hin. destruct (i_log _ _ H _ _ _ Hin) as (? & ? & Hd & ? & ?). congruence.
        * apply (i_nodup _ _ H).
        * intros cn Hin. destruct (i_conts _ _ H _ Hin). split; auto. rewrite upd_other by auto. auto.
        * discriminate.
        * intros u Hu. rewrite upd_other by auto. apply (i_complete _ _ H u Hu).
        * intros u. rewrite (i_lock _ _ H u). destruct (Nat.eq_dec u 0) as [->|Hu]; [tauto|]. rewrite upd_other by auto. tauto.
        * intros u Hu _. unfold pre_lock. auto.
      + (* P1 *)
        constructor; cbn [set_done h_v h_done h_started h_conts h_lock h_log]; rewrite ?upd_same.
        * auto.
        * intros u Hu. rewrite upd_other by auto. apply (i_cons _ _ H); auto.
        * intros _. apply (i_v _ _ H). rewrite E0. discriminate.
        * split; auto.
        * intros cn b e Hin. destruct (i_log _ _ H _ _ _ Hin) as (? & ? & Hd & ? & ?). repeat split; auto.
          rewrite upd_other by auto. auto.
        * apply (i_nodup _ _ H).
        * intros cn Hin. destruct (i_conts _ _ H _ Hin). split; auto. rewrite upd_other by auto. auto.
        * discriminate.
        * intros u Hu. rewrite upd_other by auto. apply (i_complete _ _ H u Hu).
        * intros u. rewrite (i_lock _ _ H u). destruct (Nat.eq_dec u 0) as [->|Hu]; [tauto|]. rewrite upd_other by auto. tauto.
        * intros u Hu _. unfold pre_lock. auto.
      + (* P2 *)
        destruct (h_lock g) as [hl|] eqn:El; cbn [fst snd]; [first [exact Hstut | rewrite E0 in Hstut; exact Hstut]|].
        assert (Hno3 : forall u, u <> 0 -> ls u <> C3).
        { intros u Hu E3. assert (h_lock g = Some u) by (apply (i_lock _ _ H); auto). congruence. }
        constructor; rewrite ?upd_same.
        * auto.
        * intros u Hu. rewrite upd_other by auto. apply (i_cons _ _ H); auto.
        * intros _. apply (i_v _ _ H). rewrite E0. discriminate.
        * split; [auto|]. intros _. apply (i_done _ _ H). rewrite E0. auto.
        * intros cn b e Hin. destruct (i_log _ _ H _ _ _ Hin) as (? & ? & Hd & ? & ?). repeat split; auto.
          rewrite upd_other by auto. auto.
        * apply (i_nodup _ _ H).
        * intros cn Hin. destruct (i_conts _ _ H _ Hin). split; auto. rewrite upd_other by auto. auto.
        * discriminate.
        * intros u Hu. rewrite upd_other by auto. apply (i_complete _ _ H u Hu).
        * intros u. rewrite (i_lock _ _ H u). destruct (Nat.eq_dec u 0) as [->|Hu]; [tauto|]. rewrite upd_other by auto. tauto.
        * intros u Hu. rewrite upd_other by auto. intros E3. exfalso. exact (Hno3 u Hu E3).
      + (* P3: run the continuations *)
        destruct (fold_signal (h_conts g) g) as (Hv & Hd & Hs & Hc & Hl & Hlog).
        assert (Hno3 : forall u, u <> 0 -> ls u <> C3).
        { intros u Hu E3. destruct (i_c3 _ _ H u Hu E3) as [X|[X|X]]; rewrite E0 in X; discriminate. }
        assert (Hdone : h_done g = true) by (apply (i_done _ _ H); rewrite E0; auto).
        assert (Hvg : h_v g = v0) by (apply (i_v _ _ H); rewrite E0; discriminate).
        constructor; cbn [set_conts h_v h_done h_started h_conts h_lock h_log]; rewrite ?upd_same.
        * auto.
        * intros u Hu. rewrite upd_other by auto. apply (i_cons _ _ H); auto.
        * intros _. now rewrite Hv.
        * rewrite Hd. split; auto.
        * intros cn b e Hin. rewrite Hlog in Hin. apply in_app_or in Hin. destruct Hin as [Hin|Hin].
          -- apply in_rev in Hin. apply in_map_iff in Hin. destruct Hin as (x & Hx & Hin).
             injection Hx as <- <- <-. destruct (i_conts _ _ H _ Hin) as [Hx0 Hxe].
             rewrite Hv, Hd, Hvg. repeat split; auto. rewrite upd_other by auto. auto.
          -- destruct (i_log _ _ H _ _ _ Hin) as (? & ? & ? & ? & ?). rewrite Hv, Hd. repeat split; auto.
             rewrite upd_other by auto. auto.
        * rewrite app_nil_r. unfold consumers. cbn [set_conts h_log]. rewrite Hlog, map_app, map_rev, map_map. cbn [fst].
          rewrite map_id. apply (Permutation_NoDup (l := consumers g ++ h_conts g)); [|apply (i_nodup _ _ H)].
          rewrite Permutation_app_comm. apply Permutation_app_tail. apply Permutation_rev.
        * intros cn [].
        * reflexivity.
        * intros u Hu. rewrite upd_other by auto. intros He. left.
          unfold consumers. cbn [set_conts h_log]. rewrite Hlog, map_app, map_rev, map_map. cbn [fst]. rewrite map_id.
          apply in_or_app. destruct (i_complete _ _ H u Hu He); [now right|left; now apply -> in_rev].
        * intros u. rewrite Hl, (i_lock _ _ H u). destruct (Nat.eq_dec u 0) as [->|Hu]; [tauto|]. rewrite upd_other by auto. tauto.
        * intros u Hu. rewrite upd_other by auto. intros E3. exfalso. exact (Hno3 u Hu E3).
    - (* a consumer thread *)
      cbn [h_tstep]. set (t := S t') in *. assert (Ht : t <> 0) by (unfold t; discriminate).
      destruct (ls t) eqn:Et; cbn [fst snd]; try (first [exact Hstut | rewrite Et in Hstut; exact Hstut]).
      + (* C0 *)
        assert (Hg : HInv (match k with HEnsure => g | _ => set_started g end) ls).
        { destruct k; try exact H; destruct H; constructor; auto. }
        apply move_inv; auto; rewrite Et; discriminate.
      + (* C1 *)
        destruct (h_done g) eqn:Ed; cbn [fst snd].
        * apply self_signal; auto; rewrite Et; discriminate.
        * apply move_inv; auto; rewrite Et; discriminate.
      + (* C2 *)
        destruct (h_lock g) as [hl|] eqn:El; cbn [fst snd]; [first [exact Hstut | rewrite Et in Hstut; exact Hstut]|].
        destruct (h_done g) eqn:Ed; cbn [fst snd].
        * apply self_signal; auto; rewrite Et; discriminate.
        * (* takes the lock and is about to push *)
          assert (Hpre : pre_lock (ls 0)).
          { unfold pre_lock. destruct (i_pred _ _ H) as [X|[X|[X|[X|X]]]]; auto;
              assert (h_done g = true) by (apply (i_done _ _ H); auto); congruence. }
          destruct H as [H1 H2 H3 H4 H5 H6 H7 H8 H9 H10 H11].
          constructor; cbn [set_lock h_v h_done h_started h_conts h_lock h_log].
          -- rewrite upd_other by auto. auto.
          -- intros u Hu. upd_at u t; auto.
          -- rewrite upd_other by auto. auto.
          -- rewrite upd_other by auto. auto.
          -- intros cn b e Hin. destruct (H5 _ _ _ Hin) as (? & ? & ? & ? & He). repeat split; auto.
             upd_at cn t; [congruence|auto].
          -- exact H6.
          -- intros cn Hin. destruct (H7 _ Hin) as [? He]. split; auto. upd_at cn t; [congruence|auto].
          -- rewrite upd_other by auto. auto.
          -- intros u Hu. upd_at u t; [discriminate|auto].
          -- intros u. upd_at u t.
             ++ split; auto.
             ++ split; [intros [= <-]; contradiction|].
                intros [Hu E3]. assert (h_lock g = Some u) by (apply H10; auto). congruence.
          -- intros u Hu. upd_at u t; rewrite ?upd_other by auto; [intros _; exact Hpre|apply (H11 u Hu)].
      + (* C3: push and unlock *)
        assert (Hpre : pre_lock (ls 0)) by (apply (i_c3 _ _ H t Ht Et)).
        assert (Hnin : ~ In t (consumers g ++ h_conts g)) by (apply (consumers_not_end _ _ _ H); rewrite Et; discriminate).
        assert (Honly : forall u, u <> 0 -> ls u = C3 -> u = t).
        { intros u Hu E3. assert (A : h_lock g = Some u) by (apply (i_lock _ _ H); auto).
          assert (B : h_lock g = Some t) by (apply (i_lock _ _ H); auto). congruence. }
        pose proof (push_cont_perm k t (h_conts g)) as Hperm.
        destruct H as [H1 H2 H3 H4 H5 H6 H7 H8 H9 H10 H11].
        constructor; unfold consumers in *; cbn [set_lock set_conts h_v h_done h_started h_conts h_lock h_log].
        * rewrite upd_other by auto. auto.
        * intros u Hu. upd_at u t; auto.
        * rewrite upd_other by auto. auto.
        * rewrite upd_other by auto. auto.
        * intros cn b e Hin. destruct (H5 _ _ _ Hin) as (? & ? & ? & ? & He). repeat split; auto.
          upd_at cn t; auto.
        * apply (Permutation_NoDup (l := t :: consumers g ++ h_conts g)).
          -- rewrite Hperm. apply Permutation_middle.
          -- constructor; auto.
        * intros cn Hin. apply (Permutation_in _ Hperm) in Hin. destruct Hin as [<-|Hin].
          -- rewrite upd_same. auto.
          -- destruct (H7 _ Hin). split; auto. upd_at cn t; auto.
        * rewrite upd_other by auto. intros E. destruct Hpre as [X|[X|X]]; rewrite E in X; discriminate.
        * intros u Hu He. upd_at u t.
          -- right. apply (Permutation_in _ (Permutation_sym Hperm)). now left.
          -- destruct (H9 u Hu He); [now left|right].
             apply (Permutation_in _ (Permutation_sym Hperm)). now right.
        * intros u. split; [discriminate|]. intros [Hu E3]. upd_at u t; [discriminate|].
          exfalso. apply n. apply Honly; auto.
        * intros u Hu. upd_at u t; [discriminate|]. rewrite ?upd_other by auto. apply (H11 u Hu).
  Qed.

  Lemma hinit_inv : HInv (h_init k) h_locals.
  Proof.
    constructor; cbn [h_init h_locals h_v h_done h_started h_conts h_lock h_log]; auto.
    - intros t Ht. destruct t; [contradiction|auto].
    - intros X. contradiction.
    - split; [discriminate|intuition discriminate].
    - intros cn b e [].
    - constructor.
    - intros cn [].
    - intros t Ht E. destruct t; [contradiction|discriminate].
    - intros t. split; [discriminate|]. intros [Ht E]. destruct t; [contradiction|discriminate].
    - intros t Ht E. destruct t; [contradiction|discriminate].
  Qed.

  Theorem h_run_inv sched : HInv (fst (h_run k c sched)) (snd (h_run k c sched)).
  Proof.
    unfold h_run. apply (run_inv hs hpc unit (h_tstep k c) HInv hstep_inv). exact hinit_inv.
  Qed.

  (* who calls a consumer's receiver: the consumer's own thread or the predecessor's *)
  Definition GSig (g : hs) : Prop := forall cn b e, In (cn, b, e) (h_log g) -> b = cn \/ b = 0.

  Lemma signaller_step : forall (o : unit) t g l, GSig g -> GSig (fst (h_tstep k c o t g l)).
  Proof.
    intros o t g l HG. destruct t as [|t']; cbn [h_tstep].
    - destruct l; cbn [fst]; auto.
      + destruct (h_started g); cbn [fst]; auto.
      + destruct (h_lock g); cbn [fst]; auto.
      + intros cn b e Hin. cbn [set_conts h_log] in Hin.
        destruct (fold_signal (h_conts g) g) as (_ & _ & _ & _ & _ & Hlog).
        rewrite Hlog in Hin. apply in_app_or in Hin. destruct Hin as [Hin|Hin]; [|eauto].
        apply in_rev in Hin. apply in_map_iff in Hin. destruct Hin as (x & Hx & _). injection Hx as <- <- <-. auto.
    - destruct l; cbn [fst]; auto.
      + destruct k; cbn [fst]; auto.
      + destruct (h_done g); cbn [fst]; auto.
        intros cn b e [Hx|Hin]; [injection Hx as <- <- <-; auto|eauto].
      + destruct (h_lock g); cbn [fst]; auto. destruct (h_done g); cbn [fst]; auto.
        intros cn b e [Hx|Hin]; [injection Hx as <- <- <-; auto|eauto].
  Qed.

  Lemma signaller_inv sched : GSig (fst (h_run k c sched)).
  Proof.
    unfold h_run. apply (run_ginv hs hpc unit (h_tstep k c) GSig signaller_step).
    intros cn b e [].
  Qed.

  (* in every reachable state: no consumer has been signalled twice; whoever was signalled got
     the stored result, after it was stored and predecessor_done was set; and once the
     predecessor thread and a consumer have both finished, that consumer has been signalled *)
  Theorem handoff_exactly_once sched :
    let g := fst (h_run k c sched) in
    let ls := snd (h_run k c sched) in
    NoDup (consumers g) /\
    (forall cn b e, In (cn, b, e) (h_log g) ->
        e = visit (split_store c) /\ h_v g = split_store c /\ h_done g = true /\ (b = cn \/ b = 0)) /\
    (ls 0 = PEnd -> forall t, t <> 0 -> ls t = CEnd -> In t (consumers g)).
  Proof.
    cbn zeta. pose proof (h_run_inv sched) as H.
    split; [|split].
    - eapply NoDup_app_l. apply (i_nodup _ _ H).
    - intros cn b e Hin. destruct (i_log _ _ H _ _ _ Hin) as (? & ? & ? & ? & ?). repeat split; auto.
      exact (signaller_inv sched _ _ _ Hin).
    - intros He t Ht Hc. destruct (i_complete _ _ H t Ht Hc) as [X|X]; [exact X|].
      rewrite (i_conts_end _ _ H He) in X. destruct X.
  Qed.

  (* nothing blocks for ever: the lock is only held by a consumer whose next step releases it *)
  Theorem handoff_lock_released sched t :
    let g := fst (h_run k c sched) in
    let ls := snd (h_run k c sched) in
    h_lock g = Some t -> h_lock (fst (h_tstep k c tt t g (ls t))) = None.
  Proof.
    cbn zeta. intros Hl. pose proof (h_run_inv sched) as H.
    apply (i_lock _ _ H) in Hl. destruct Hl as [Ht E3]. destruct t; [contradiction|].
    cbn [h_tstep]. rewrite E3. reflexivity.
  Qed.
End Handoff.

(* ================================================================== 2. when_all join *)
Definition past (l : wpc) : bool := match l with W2 | WEnd => true | _ => false end.

Lemma fin_bound n (fin : list nat) : NoDup fin -> (forall t, In t fin -> t < n) -> length fin <= n.
Proof.
  intros Hn Hlt. rewrite <- (seq_length n 0). apply NoDup_incl_length; [exact Hn|].
  intros t Ht. apply in_seq. specialize (Hlt t Ht). lia.
Qed.

Lemma fin_full n (fin : list nat) : NoDup fin -> (forall t, In t fin -> t < n) -> length fin = n ->
  forall t, t < n -> In t fin.
Proof.
  intros Hn Hlt Hlen t Ht.
  assert (Hincl : incl (seq 0 n) fin).
  { apply NoDup_length_incl; [exact Hn|rewrite seq_length; lia|].
    intros u Hu. apply in_seq. specialize (Hlt u Hu). lia. }
  apply Hincl. apply in_seq. lia.
Qed.

Lemma flat_map_ext_in' {A B} (f g : A -> list B) l : (forall a, In a l -> f a = g a) -> flat_map f l = flat_map g l.
Proof.
  induction l as [|a l IH]; intros H; [reflexivity|]. cbn [flat_map].
  rewrite (H a) by now left. rewrite IH; [reflexivity|]. intros b Hb. apply H. now right.
Qed.

Section Join.
  Variable n : nat.
  Variable cs : nat -> completion.

  Record WInv (g : ws) (ls : locals wpc) : Prop := {
    wi_rem : w_rem g = (Z.of_nat n - Z.of_nat (length (w_fin g)))%Z;
    wi_nodup : NoDup (w_fin g);
    wi_fin : forall t, In t (w_fin g) <-> (t < n /\ ls t = WEnd);
    wi_flag : w_flag g = match w_first g with Some _ => true | None => false end;
    wi_first : forall f, w_first g = Some f ->
                 f < n /\ is_val (cs f) = false /\ past (ls f) = true /\
                 w_err g = match cs f with CErr e => Some e | _ => None end;
    wi_nofirst : w_first g = None ->
                 w_err g = None /\
                 (forall t, t < n -> past (ls t) = true -> is_val (cs t) = true) /\
                 (forall t, t < n -> lookup t (w_slots g) = if past (ls t) then val_of (cs t) else []);
    wi_out0 : length (w_fin g) < n -> w_out g = [];
    wi_out1 : length (w_fin g) = n -> n > 0 ->
                exists t r, w_fin g = t :: r /\ w_out g = [(t, Sig (w_expected n cs (w_first g)))]
  }.

  Lemma WInv_ext g (ls ls' : locals wpc) : (forall u, ls' u = ls u) -> WInv g ls -> WInv g ls'.
  Proof.
    intros E [H1 H2 H3 H4 H5 H6 H7 H8].
    constructor; auto.
    - intros t. rewrite E. apply H3.
    - intros f Hf. rewrite E. apply H5, Hf.
    - intros Hn. destruct (H6 Hn) as (A & B & C). repeat split; auto.
      + intros t Ht. rewrite E. apply B, Ht.
      + intros t Ht. rewrite E. apply C, Ht.
  Qed.

  Lemma wupd_id (ls : locals wpc) t u : upd ls t (ls t) u = ls u.
  Proof. unfold upd. destruct (Nat.eqb u t) eqn:E; [apply Nat.eqb_eq in E; now subst|reflexivity]. Qed.

  Ltac wupd_at u t :=
    destruct (Nat.eq_dec u t) as [->|?];
    [rewrite ?upd_same in *|rewrite ?upd_other in * by assumption].

  Lemma not_fin_lt g (ls : locals wpc) t : WInv g ls -> t < n -> ls t <> WEnd -> length (w_fin g) < n.
  Proof.
    intros H Ht Hne.
    assert (Hnin : ~ In t (w_fin g)) by (intros Hin; apply (wi_fin _ _ H) in Hin; tauto).
    assert (Hb : length (t :: w_fin g) <= n).
    { apply fin_bound; [constructor; [exact Hnin|apply (wi_nodup _ _ H)]|].
      intros u [<-|Hu]; [exact Ht|]. apply (wi_fin _ _ H) in Hu. tauto. }
    cbn [length] in Hb. lia.
  Qed.

  (* a step that changes neither the shared state nor whether t is past its flag step / finished *)
  Lemma wmove g (ls : locals wpc) t l' : WInv g ls -> ls t <> WEnd -> l' <> WEnd -> past l' = past (ls t) ->
    WInv g (upd ls t l').
  Proof.
    intros [H1 H2 H3 H4 H5 H6 H7 H8] Hne Hl' Hp.
    constructor; auto.
    - intros u. rewrite (H3 u). wupd_at u t; [|tauto]. split; intros [? ?]; congruence.
    - intros f Hf. destruct (H5 f Hf) as (A & B & C & D). repeat split; auto. wupd_at f t; congruence.
    - intros Hn. destruct (H6 Hn) as (A & B & C). repeat split; auto.
      + intros u Hu. wupd_at u t; [rewrite Hp|]; apply B; auto.
      + intros u Hu. wupd_at u t; [rewrite Hp|]; apply C; auto.
  Qed.

  Lemma wstep_inv : forall (o : unit) t g (ls : locals wpc), WInv g ls ->
    WInv (fst (w_tstep n cs o t g (ls t))) (upd ls t (snd (w_tstep n cs o t g (ls t)))).
  Proof.
    intros o t g ls H.
    assert (Hstut : WInv g (upd ls t (ls t))) by (apply (WInv_ext g ls); [apply wupd_id|exact H]).
    unfold w_tstep. destruct (Nat.ltb t n) eqn:Elt; [|exact Hstut].
    apply Nat.ltb_lt in Elt.
    destruct (ls t) eqn:Et; cbn [fst snd].
    - (* W0 *) apply wmove; auto; rewrite ?Et; try discriminate; reflexivity.
    - (* W1: the flag step *)
      assert (Hlt : length (w_fin g) < n) by (apply (not_fin_lt g ls t H Elt); rewrite Et; discriminate).
      assert (Hsame : WInv g (upd ls t W2) -> WInv g (upd ls t W2)) by auto.
      destruct H as [H1 H2 H3 H4 H5 H6 H7 H8].
      assert (HF : forall u, In u (w_fin g) <-> u < n /\ upd ls t W2 u = WEnd).
      { intros u. rewrite (H3 u). wupd_at u t; [|tauto]. split; intros [? ?]; congruence. }
      unfold w_flag_step.
      destruct (cs t) as [vs|e|] eqn:Ec.
      + (* value *)
        destruct (w_first g) as [f|] eqn:Efirst; rewrite H4.
        * constructor; cbn [w_rem w_flag w_err w_slots w_out w_first w_fin]; rewrite ?Efirst; try solve [auto | discriminate | intros; lia | rewrite ?Efirst; auto; discriminate].
          intros f' Hf'; injection Hf' as <-;
             destruct (H5 f eq_refl) as (A & B & C & D); repeat split; auto;
             wupd_at f t; [rewrite Et in C; discriminate|exact C].
        * destruct (H6 eq_refl) as (A & B & C).
          constructor; cbn [w_rem w_flag w_err w_slots w_out w_first w_fin]; rewrite ?Efirst; try solve [auto | discriminate | intros; lia | rewrite ?Efirst; auto; discriminate].
          intros _. repeat split; auto.
          -- intros u Hu. wupd_at u t; [intros _; now rewrite Ec|apply B; auto].
          -- intros u Hu. cbn [lookup]. wupd_at u t.
             ++ rewrite Nat.eqb_refl. cbn [past]. now rewrite Ec.
             ++ replace (Nat.eqb t u) with false by (symmetry; apply Nat.eqb_neq; auto). apply C; auto.
      + (* error *)
        destruct (w_first g) as [f|] eqn:Efirst; rewrite H4.
        * constructor; cbn [w_rem w_flag w_err w_slots w_out w_first w_fin]; rewrite ?Efirst; try solve [auto | discriminate | intros; lia | rewrite ?Efirst; auto; discriminate].
          intros f' Hf'; injection Hf' as <-;
             destruct (H5 f eq_refl) as (A & B & C & D); repeat split; auto;
             wupd_at f t; [rewrite Et in C; discriminate|exact C].
        * constructor; cbn [w_rem w_flag w_err w_slots w_out w_first w_fin]; rewrite ?Efirst; try solve [auto | discriminate | intros; lia | rewrite ?Efirst; auto; discriminate].
          intros f' Hf'. injection Hf' as <-. rewrite upd_same, Ec. repeat split; auto.
      + (* stopped *)
        destruct (w_first g) as [f|] eqn:Efirst.
        * constructor; cbn [w_rem w_flag w_err w_slots w_out w_first w_fin]; rewrite ?Efirst; try solve [auto | discriminate | intros; lia | rewrite ?Efirst; auto; discriminate].
          intros f' Hf'; injection Hf' as <-;
             destruct (H5 f eq_refl) as (A & B & C & D); repeat split; auto;
             wupd_at f t; [rewrite Et in C; discriminate|exact C].
        * destruct (H6 eq_refl) as (A & B & C).
          constructor; cbn [w_rem w_flag w_err w_slots w_out w_first w_fin]; rewrite ?Efirst; try solve [auto | discriminate | intros; lia | rewrite ?Efirst; auto; discriminate].
          intros f' Hf'. injection Hf' as <-. rewrite upd_same, Ec. repeat split; auto.
    - (* W2: the decrement *)
      assert (Hlt : length (w_fin g) < n) by (apply (not_fin_lt g ls t H Elt); rewrite Et; discriminate).
      destruct H as [H1 H2 H3 H4 H5 H6 H7 H8].
      assert (Hnin : ~ In t (w_fin g)) by (intros Hin; apply H3 in Hin; destruct Hin; congruence).
      assert (HF : forall u, In u (t :: w_fin g) <-> u < n /\ upd ls t WEnd u = WEnd).
      { intros u. cbn [In]. rewrite (H3 u). wupd_at u t; [tauto|]. split; [intros [?|?]; [congruence|tauto]|tauto]. }
      assert (HND : NoDup (t :: w_fin g)) by (constructor; auto).
      assert (H5' : forall f, w_first g = Some f ->
                 f < n /\ is_val (cs f) = false /\ past (upd ls t WEnd f) = true /\
                 w_err g = match cs f with CErr e => Some e | _ => None end).
      { intros f Hf. destruct (H5 f Hf) as (A & B & C & D). repeat split; auto. wupd_at f t; auto. }
      assert (H6' : w_first g = None ->
                 w_err g = None /\
                 (forall u, u < n -> past (upd ls t WEnd u) = true -> is_val (cs u) = true) /\
                 (forall u, u < n -> lookup u (w_slots g) = if past (upd ls t WEnd u) then val_of (cs u) else [])).
      { intros Hn. destruct (H6 Hn) as (A & B & C). repeat split; auto.
        - intros u Hu. wupd_at u t; [intros _; apply B; auto; now rewrite Et|apply B; auto].
        - intros u Hu. wupd_at u t; [rewrite (C t Hu), Et; reflexivity|apply C; auto]. }
      unfold w_dec_step. cbn [w_rem w_flag w_err w_slots w_out w_first w_fin].
      destruct ((w_rem g - 1 =? 0)%Z) eqn:Ez.
      + apply Z.eqb_eq in Ez.
        assert (Hlen : length (t :: w_fin g) = n) by (cbn [length]; lia).
        constructor; cbn [w_rem w_flag w_err w_slots w_out w_first w_fin]; auto.
        * cbn [length]. lia.
        * intros Hl. lia.
        * intros _ _. exists t, (w_fin g). split; [reflexivity|].
          rewrite (H7 Hlt). do 3 f_equal.
          unfold w_emit, w_expected. cbn [w_flag w_err w_slots]. rewrite H4.
          destruct (w_first g) as [f|] eqn:Efirst; cbn [negb].
          -- destruct (H5 f eq_refl) as (A & B & C & D). rewrite D.
             destruct (cs f); reflexivity.
          -- destruct (H6' eq_refl) as (A & B & C). unfold collect. apply (f_equal (fun x => Sig (CVal x))).
             apply flat_map_ext_in'. intros u Hu. apply in_seq in Hu.
             rewrite C by lia.
             assert (Hin : In u (t :: w_fin g)) by (apply (fin_full n); auto; [intros x Hx; apply HF in Hx; tauto|lia]).
             apply HF in Hin. destruct Hin as [_ Hin]. rewrite Hin. reflexivity.
      + apply Z.eqb_neq in Ez.
        assert (Hlen : length (t :: w_fin g) < n).
        { assert (length (t :: w_fin g) <= n) by (apply fin_bound; auto; intros x Hx; apply HF in Hx; tauto).
          cbn [length] in *. lia. }
        constructor; cbn [w_rem w_flag w_err w_slots w_out w_first w_fin]; auto.
        * cbn [length]. lia.
        * intros Hl Hn. lia.
    - exact Hstut.
  Qed.

  Lemma winit_inv : WInv (w_init n) w_locals.
  Proof.
    constructor; cbn [w_init w_locals w_rem w_flag w_err w_slots w_out w_first w_fin length]; auto.
    - lia.
    - constructor.
    - intros t. split; [intros []|intros [_ X]; discriminate].
    - discriminate.
    - intros _. repeat split; auto. intros t _ X. discriminate.
    - intros Hn Hp. lia.
  Qed.

  Theorem w_run_inv sched : WInv (fst (w_run n cs sched)) (snd (w_run n cs sched)).
  Proof.
    unfold w_run. apply (run_inv ws wpc unit (w_tstep n cs) WInv wstep_inv). exact winit_inv.
  Qed.

  (* at most one signal in every reachable state; none before the last child has decremented;
     when the last of the n children has, exactly one, delivered by that child's thread:
     a value iff no child failed (the children's values in child order), otherwise the error of
     the first child to set the flag if it failed with an error, else stopped *)
  Theorem when_all_join_once sched : n > 0 ->
    let g := fst (w_run n cs sched) in
    let ls := snd (w_run n cs sched) in
    length (w_out g) <= 1 /\
    (length (w_fin g) < n -> w_out g = []) /\
    ((forall t, t < n -> ls t = WEnd) ->
       exists t r, w_fin g = t :: r /\ w_out g = [(t, Sig (w_expected n cs (w_first g)))] /\
                   (w_first g = None <-> forall u, u < n -> is_val (cs u) = true) /\
                   (forall f, w_first g = Some f -> f < n /\ is_val (cs f) = false)).
  Proof.
    intros Hn. cbn zeta. pose proof (w_run_inv sched) as H.
    assert (Hb : length (w_fin (fst (w_run n cs sched))) <= n).
    { apply fin_bound; [apply (wi_nodup _ _ H)|]. intros t Ht. apply (wi_fin _ _ H) in Ht. tauto. }
    split; [|split].
    - destruct (Nat.eq_dec (length (w_fin (fst (w_run n cs sched)))) n) as [E|E].
      + destruct (wi_out1 _ _ H E Hn) as (t & r & _ & ->). cbn. lia.
      + rewrite (wi_out0 _ _ H) by lia. cbn. lia.
    - apply (wi_out0 _ _ H).
    - intros Hall.
      assert (E : length (w_fin (fst (w_run n cs sched))) = n).
      { apply Nat.le_antisymm; [exact Hb|].
        assert (Hle : length (seq 0 n) <= length (w_fin (fst (w_run n cs sched)))).
        { apply NoDup_incl_length; [apply seq_NoDup|].
          intros u Hu. apply in_seq in Hu. apply (wi_fin _ _ H). split; [lia|apply Hall; lia]. }
        rewrite seq_length in Hle. exact Hle. }
      destruct (wi_out1 _ _ H E Hn) as (t & r & Hf & Ho). exists t, r. repeat split; auto.
      + intros Hnone u Hu. destruct (wi_nofirst _ _ H Hnone) as (_ & B & _). apply B; auto.
        rewrite (Hall u Hu). reflexivity.
      + intros Hv. destruct (w_first (fst (w_run n cs sched))) as [f|] eqn:Ef; [|reflexivity].
        destruct (wi_first _ _ H f Ef) as (A & B & _). rewrite (Hv f A) in B. discriminate.
      + destruct (wi_first _ _ H f H0) as (A & _). exact A.
      + destruct (wi_first _ _ H f H0) as (_ & B & _). exact B.
  Qed.
End Join.

(* ================================================================== 3. bridges and necessity *)
(* the concurrent join reports one of the completions the denotation of when_all admits *)
Lemma flat_map_map' {A B C} (f : A -> B) (g : B -> list C) l : flat_map g (map f l) = flat_map (fun x => g (f x)) l.
Proof. induction l as [|a l IH]; [reflexivity|]. cbn [map flat_map]. now rewrite IH. Qed.

Theorem join_in_den n cs (first : option nat) :
  (first = None <-> forall u, u < n -> is_val (cs u) = true) ->
  (forall f, first = Some f -> f < n /\ is_val (cs f) = false) ->
  In (w_expected n cs first) (join_den (map cs (seq 0 n))).
Proof.
  intros Hnone Hsome. unfold join_den, w_expected.
  destruct first as [f|].
  - destruct (Hsome f eq_refl) as [Hf Hv].
    assert (Hall : forallb is_val (map cs (seq 0 n)) = false).
    { destruct (forallb is_val (map cs (seq 0 n))) eqn:E; [|reflexivity].
      rewrite forallb_forall in E. rewrite <- Hv. symmetry. apply E. apply in_map. apply in_seq. lia. }
    rewrite Hall. apply filter_In. split.
    + destruct (cs f) eqn:Ec; try discriminate; rewrite <- Ec; apply in_map; apply in_seq; lia.
    + destruct (cs f); try discriminate; reflexivity.
  - assert (Hall : forallb is_val (map cs (seq 0 n)) = true).
    { apply forallb_forall. intros c Hc. apply in_map_iff in Hc. destruct Hc as (u & <- & Hu).
      apply in_seq in Hu. apply (proj1 Hnone eq_refl). lia. }
    rewrite Hall. left. now rewrite flat_map_map'.
Qed.

(* the re-check of predecessor_done under the lock is necessary: without it a consumer that has
   passed the first test while the predecessor completes stores a continuation nobody runs *)
Definition h_tstep_norecheck (k : hkind) (c : completion) (o : unit) (t : nat) (g : hs) (l : hpc) : hs * hpc :=
  match t, l with
  | S _, C2 => match h_lock g with Some _ => (g, C2) | None => (set_lock g (Some t), C3) end
  | _, _ => h_tstep k c o t g l
  end.

Lemma recheck_needed :
  exists sched, let st := run (h_tstep_norecheck HSplit (CVal [1%N])) sched (h_init HSplit, h_locals) in
    snd st 0 = PEnd /\ snd st 1 = CEnd /\ h_log (fst st) = [] /\ h_conts (fst st) = [1].
Proof.
  exists (map (fun t => (t, tt)) [1; 1; 0; 0; 0; 0; 1; 1]). vm_compute. repeat split.
Qed.

(* so is the predecessor's (empty) critical section: without it the predecessor can read the
   continuations while a consumer that saw predecessor_done = false is still inside its own *)
Definition h_tstep_nopredlock (k : hkind) (c : completion) (o : unit) (t : nat) (g : hs) (l : hpc) : hs * hpc :=
  match t, l with
  | O, P2 => (g, P3)
  | _, _ => h_tstep k c o t g l
  end.

Lemma pred_lock_needed :
  exists sched, let st := run (h_tstep_nopredlock HSplit (CVal [1%N])) sched (h_init HSplit, h_locals) in
    snd st 0 = PEnd /\ snd st 1 = CEnd /\ h_log (fst st) = [] /\ h_conts (fst st) = [1].
Proof.
  exists (map (fun t => (t, tt)) [1; 1; 1; 0; 0; 0; 0; 1]). vm_compute. repeat split.
Qed.
