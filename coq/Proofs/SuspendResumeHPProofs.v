(* Proofs/SuspendResumeHPProofs.v — C19, round w11c: lemmas about Model/SuspendResumeHP.v. *)
From Coq Require Import List NArith Bool Arith Lia Permutation.
From Pika Require Import Base.Conc Gen.GenRuntimeState Model.SuspendResume Model.SuspendResumeHP Proofs.SuspendResumeProofs.
Import ListNotations.

(* ------------------------------------------------------------------ limits of add_new / staged-stealing thresholds *)
(* a conversion step refused by max_thread_count, by min_tasks_to_steal_staged or by the idle-loop threshold is a step of the base
   model whose try_lock failed: every run with the limits is a run of Model/SuspendResume.v *)
Lemma lim_simulated : forall c o lo w g pc, exists o', worker_step_lim c o lo w g pc = worker_step c o' w g pc.
Proof.
  intros c o lo w g pc. destruct pc; cbn [worker_step_lim]; try (exists o; reflexivity);
    match goal with |- context [if ?b then _ else _] => destruct b end;
    first [exists (true, snd o); reflexivity | exists o; reflexivity].
Qed.

(* ... and it refuses only while there is pending work in the destination queue (the worker, or any running worker for the
   low-priority queue, can pop it): a refused own conversion leaves the worker with own pending work *)
Lemma lim_refusal_has_pending : forall c o lo w g r,
  worker_step_lim c o lo w g (WAdd r) <> worker_step c o w g (WAdd r) -> nonempty (qof w (qs g)) = true.
Proof.
  intros c o lo w g r H. cbn [worker_step_lim] in H. destruct (fst lo); cbn [andb] in H; [|congruence].
  destruct (nonempty (qof w (qs g))); [reflexivity|congruence].
Qed.

(* ------------------------------------------------------------------ conservation with high-priority queues *)
Lemma conserv_enqueue_now : forall g t i, conserv g -> conserv (enqueue_now g t i).
Proof.
  intros g t i (P & N & B). unfold conserv, enqueue_now; cbn. split; [|split].
  - rewrite map_app. cbn. rewrite <- app_assoc. cbn.
    apply Permutation_sym. eapply Permutation_trans; [apply perm_skip, Permutation_sym, P|].
    apply Permutation_middle.
  - constructor; [|exact N]. intros H. apply B in H. cbn in H. lia.
  - intros tk [<-|H]; cbn.
    + rewrite upd_same. lia.
    + specialize (B _ H). unfold upd. destruct (Nat.eqb (fst tk) t) eqn:E; [apply Nat.eqb_eq in E; rewrite E in B; lia|exact B].
Qed.

Lemma hp_worker_step_conserv : forall c nhp o w g pc, conserv g -> conserv (fst (hp_worker_step c nhp o w g pc)).
Proof.
  intros c nhp o w g pc H.
  assert (B : forall pc0, conserv (fst (let '(g', pc') := worker_step c o w g pc0 in (g', splice pc')))).
  { intros pc0. pose proof (worker_step_conserv c o w g pc0 H) as W. destruct (worker_step c o w g pc0). exact W. }
  destruct pc as [pc0|r|]; cbn [hp_worker_step].
  - destruct pc0; try apply B. destruct (Nat.ltb w nhp && nonempty (qof (hq c w) (qs g))); [exact H|apply B].
  - destruct (Nat.ltb w nhp); [|exact H]. destruct (take g w (hq c w)) eqn:E; [|exact H]. cbn [fst]. eapply conserv_take; eassumption.
  - destruct (stealing c && Nat.ltb w nhp && Nat.ltb (victim c o) nhp && negb (Nat.eqb (victim c o) w)); [|exact H].
    destruct (take g w (hq c (victim c o))) eqn:E; [|exact H]. cbn [fst]. eapply conserv_take; eassumption.
Qed.

Lemma hp_client_step_conserv : forall c nhp high o t g cl, conserv g -> conserv (fst (hp_client_step c nhp high o t g cl)).
Proof.
  intros c nhp high o t g cl H. unfold hp_client_step.
  assert (B : conserv (fst (client_step c o t g cl))) by (apply client_step_conserv; exact H).
  destruct high; [|exact B]. destruct (todo cl) as [|p rest]; [exact B|]. destruct p; try exact B.
  destruct low; [exact B|]. destruct (ph cl); try exact B; cbn [fst].
  - eapply conserv_same; [reflexivity|reflexivity|reflexivity|reflexivity|reflexivity|reflexivity|apply conserv_enqueue_now; exact H].
  - apply conserv_enqueue_now; exact H.
Qed.

Lemma hp_tstep_conserv : forall c nhp o t g l, conserv g -> conserv (fst (hp_tstep c nhp o t g l)).
Proof.
  intros c nhp o t g l H. destruct l as [pc|cl high|]; cbn [hp_tstep].
  - destruct (Nat.ltb t (nw c)); [|exact H].
    pose proof (hp_worker_step_conserv c nhp o t g pc H) as W. destruct (hp_worker_step c nhp o t g pc). exact W.
  - destruct (Nat.ltb t (nw c)); [exact H|].
    pose proof (hp_client_step_conserv c nhp high o t g cl H) as W. destruct (hp_client_step c nhp high o t g cl). exact W.
  - exact H.
Qed.

Lemma hp_conserv : forall c nhp progs high sched, conserv (fst (hp_run c nhp progs high sched)).
Proof.
  intros c nhp progs high sched. unfold hp_run.
  apply (run_ginv gst hlstate oracle (hp_tstep c nhp) conserv).
  - intros o t g l. apply hp_tstep_conserv.
  - exact conserv_init.
Qed.

Lemma hp_no_dup : forall c nhp progs high sched,
  NoDup (map fst (executed (fst (hp_run c nhp progs high sched)))).
Proof.
  intros c nhp progs high sched. destruct (hp_conserv c nhp progs high sched) as (P & N & _).
  apply Permutation_sym in P. apply (Permutation_NoDup P) in N.
  apply nodup_app_r in N. apply nodup_app_r in N. apply nodup_app_r in N. exact N.
Qed.

Lemma hp_no_task_lost : forall c nhp progs high sched tk,
  let g := fst (hp_run c nhp progs high sched) in
  (In tk (submitted g) -> In tk (map fst (executed g)) \/ In tk (map snd (heldl g)) \/ In tk (map snd (qs g)) \/ In tk (map snd (sq g))) /\
  (In tk (map fst (executed g)) -> In tk (submitted g)).
Proof.
  intros c nhp progs high sched tk g. destruct (hp_conserv c nhp progs high sched) as (P & _ & _). fold g in P. split; intros H.
  - apply Permutation_sym in P. apply (Permutation_in _ P) in H. rewrite !in_app_iff in H. tauto.
  - apply (Permutation_in _ P). rewrite !in_app_iff. tauto.
Qed.

(* ------------------------------------------------------------------ who can take what *)
Lemma extract_none_if : forall v (l : list (nat * task)), (forall e, In e l -> fst e <> v) -> extract v l = None.
Proof.
  induction l as [|e l IH]; intros H; [reflexivity|]. cbn [extract].
  destruct (Nat.eqb (fst e) v) eqn:E.
  - apply Nat.eqb_eq in E. exfalso. exact (H e (or_introl eq_refl) E).
  - rewrite IH; [reflexivity|]. intros e' He'. apply H. right. exact He'.
Qed.

Lemma moven_nil : forall n g d s, sq g = [] -> moven n g d s = g.
Proof. intros [|n] g d s H; [reflexivity|]. cbn [moven]. unfold move1. rewrite H. reflexivity. Qed.

(* the part of the state the stranded-task argument is about *)
Definition hp_only (c : cfg) (g : gst) : Prop :=
  (forall e, In e (qs g) -> nw c < fst e) /\ sq g = [] /\ heldl g = [].
Definition same_work (g g' : gst) : Prop :=
  qs g' = qs g /\ sq g' = sq g /\ heldl g' = heldl g /\ executed g' = executed g.

(* a step of the BASE worker cycle never touches a queue whose index is above nw (the high-priority queues) *)
Lemma worker_step_hp_only : forall c o w g pc, w < nw c -> hp_only c g -> same_work g (fst (worker_step c o w g pc)).
Proof.
  intros c o w g pc Hw (Hq & Hs & Hh).
  assert (T : forall v, v <= nw c -> take g w v = None).
  { intros v Hv. unfold take. rewrite extract_none_if; [reflexivity|]. intros e He. specialize (Hq e He). lia. }
  assert (T1 : take g w w = None) by (apply T; lia).
  assert (T2 : take g w (victim c o) = None).
  { apply T. unfold victim. pose proof (Nat.mod_upper_bound (snd o) (nw c)). lia. }
  assert (T3 : take g w (lowq c) = None) by (apply T; unfold lowq; lia).
  assert (X : exec g w = g) by (unfold exec; rewrite Hh; reflexivity).
  destruct pc; cbn [worker_step]; cbv zeta; rewrite ?T1, ?T2, ?T3, ?X, ?moven_nil by exact Hs; unfold reset_fresh;
    repeat match goal with
           | |- context [match ?x with _ => _ end] => destruct x eqn:?
           | |- context [if ?x then _ else _] => destruct x eqn:?
           end; cbn [fst]; repeat split; reflexivity.
Qed.

Lemma hp_worker_step_hp_only : forall c nhp o w g pc, w < nw c -> nhp <= w -> hp_only c g ->
  same_work g (fst (hp_worker_step c nhp o w g pc)).
Proof.
  intros c nhp o w g pc Hw Hn H.
  assert (L : Nat.ltb w nhp = false) by (apply Nat.ltb_ge; exact Hn).
  assert (B : forall pc0, same_work g (fst (let '(g', pc') := worker_step c o w g pc0 in (g', splice pc')))).
  { intros pc0. pose proof (worker_step_hp_only c o w g pc0 Hw H) as W. destruct (worker_step c o w g pc0). exact W. }
  destruct pc as [pc0|r|]; cbn [hp_worker_step]; rewrite ?L, ?andb_false_r; cbn [andb fst].
  - destruct pc0; try apply B; repeat split; reflexivity.
  - repeat split; reflexivity.
  - repeat split; reflexivity.
Qed.

Lemma same_work_hp_only : forall c g g', same_work g g' -> hp_only c g -> hp_only c g'.
Proof. intros c g g' (E1 & E2 & E3 & _) (Hq & Hs & Hh). unfold hp_only. rewrite E1, E2, E3. auto. Qed.

(* workers without a high-priority queue (w >= nhp) and finished clients: whatever they do, for ever, the tasks sitting in
   high-priority queues stay there and nothing is executed *)
Definition HPinv (c : cfg) (nhp : nat) (g0 : gst) (g : gst) (ls : locals hlstate) : Prop :=
  hp_only c g /\ same_work g0 g /\ (forall t cl h, ls t = HClient cl h -> todo cl = []).

Lemma hp_stranded_step : forall c nhp g0 o t g (ls : locals hlstate), nhp <= t -> HPinv c nhp g0 g ls ->
  HPinv c nhp g0 (fst (hp_tstep c nhp o t g (ls t))) (upd ls t (snd (hp_tstep c nhp o t g (ls t)))).
Proof.
  intros c nhp g0 o t g ls Hn (Ho & Sw & Cl).
  assert (Keep : HPinv c nhp g0 g (upd ls t (ls t))).
  { split; [exact Ho|split; [exact Sw|]]. intros t2 cl2 h2 H2. unfold upd in H2.
    destruct (Nat.eqb t2 t) eqn:E; [apply Nat.eqb_eq in E; subst|]; eapply Cl; eassumption. }
  destruct (ls t) as [pc|cl high|] eqn:L; cbn [hp_tstep]; [| |exact Keep].
  - destruct (Nat.ltb t (nw c)) eqn:Lt; [|exact Keep]. apply Nat.ltb_lt in Lt.
    pose proof (hp_worker_step_hp_only c nhp o t g pc Lt Hn Ho) as W.
    destruct (hp_worker_step c nhp o t g pc) as [g' pc']. cbn [fst snd] in *.
    split; [eapply same_work_hp_only; eassumption|split].
    + destruct Sw as (A1 & A2 & A3 & A4). destruct W as (B1 & B2 & B3 & B4). unfold same_work. rewrite B1, B2, B3, B4. auto.
    + intros t2 cl2 h2 H2. unfold upd in H2. destruct (Nat.eqb t2 t); [discriminate|]. eapply Cl; eassumption.
  - destruct (Nat.ltb t (nw c)); [exact Keep|].
    pose proof (Cl t cl high L) as Td. unfold hp_client_step, client_step. rewrite Td.
    destruct high; cbn [fst snd]; (split; [exact Ho|split; [exact Sw|]]);
      intros t2 cl2 h2 H2; unfold upd in H2; (destruct (Nat.eqb t2 t); [inversion H2; subst; exact Td|eapply Cl; eassumption]).
Qed.

Lemma hp_stranded_run : forall c nhp (sched : list (nat * oracle)) g0 (cf : gst * locals hlstate),
  (forall so, In so sched -> nhp <= fst so) -> HPinv c nhp g0 (fst cf) (snd cf) ->
  HPinv c nhp g0 (fst (run (hp_tstep c nhp) sched cf)) (snd (run (hp_tstep c nhp) sched cf)).
Proof.
  induction sched as [|[t o] s IH]; intros g0 cf Hs I; [exact I|].
  rewrite run_cons. apply IH; [intros so Hso; apply Hs; right; exact Hso|].
  unfold step. cbn [fst snd]. pose proof (hp_stranded_step c nhp g0 o t (fst cf) (snd cf) (Hs (t, o) (or_introl eq_refl)) I) as W.
  destruct (hp_tstep c nhp o t (fst cf) (snd cf t)) as [g' l']. exact W.
Qed.

(* ------------------------------------------------------------------ the finding: a reachable state *)
(* 2 workers, ONE high-priority queue, elasticity, stealing.  Client (thread 2, high priority): suspend PU 0; submit with hint 1. *)
Definition hp_cfg := {| nw := 2; elastic := true; stealing := true |}.
Definition hp_progs (t : nat) : list api := if Nat.eqb t 2 then [ASuspendPU 0 false; ASubmit (Some 1)] else [].
Definition hp_high (t : nat) : bool := Nat.eqb t 2.
Definition o0 : oracle := (false, 0).
Definition hp_sched : list (nat * oracle) :=
  [(2, o0); (2, o0)] ++                                  (* lock PU 0; CAS running -> pre_sleep, unlock *)
  repeat (0, o0) 8 ++                                    (* worker 0: top, HP pop, pop, add, idle (can_exit), check, store sleeping, wait *)
  [(2, o0); (2, o0); (2, o0); (2, o0); (2, o0)].         (* suspend returns; select_active_pu(1): lock PU 1 (running); push on hq (1 mod 1) *)

Lemma hp_reached :
  let cf := hp_run hp_cfg 1 hp_progs hp_high hp_sched in
  st (fst cf) 0 = rs_sleeping /\ st (fst cf) 1 = rs_running /\
  qs (fst cf) = [(hq hp_cfg 0, (2, 0))] /\ sq (fst cf) = [] /\ heldl (fst cf) = [] /\ executed (fst cf) = [] /\
  submitted (fst cf) = [(2, 0)] /\ calls (fst cf) = [(2, KSuspendPU, false)] /\ pul (fst cf) 0 = None /\ pul (fst cf) 1 = None /\
  snd cf 0 = HWorker (HBase WWaiting) /\ waiting (fst cf) 0 = true /\ snd cf 1 = HWorker (HBase WTop) /\
  (forall t cl h, snd cf t = HClient cl h -> todo cl = []).
Proof.
  vm_compute. repeat split; try reflexivity.
  intros t cl h H. destruct t as [|[|[|t]]]; try discriminate; inversion H; reflexivity.
Qed.

Lemma hp_stranded_refuted :
  let cf := hp_run hp_cfg 1 hp_progs hp_high hp_sched in
  stealing hp_cfg = true /\ st (fst cf) 1 = rs_running /\ st (fst cf) 0 = rs_sleeping /\
  calls (fst cf) = [(2, KSuspendPU, false)] /\
  In (2, 0) (submitted (fst cf)) /\ qs (fst cf) = [(hq hp_cfg 0, (2, 0))] /\
  forall sched', (forall so, In so sched' -> 1 <= fst so) ->
    let g' := fst (run (hp_tstep hp_cfg 1) sched' cf) in
    executed g' = [] /\ qs g' = [(hq hp_cfg 0, (2, 0))].
Proof.
  intros cf. destruct hp_reached as (S0 & S1 & Q & Sq & Hh & Ex & Su & Ca & _ & _ & _ & _ & _ & Cl). fold cf in S0, S1, Q, Sq, Hh, Ex, Su, Ca, Cl.
  repeat split; try assumption; try reflexivity.
  - rewrite Su. left. reflexivity.
  - assert (I : HPinv hp_cfg 1 (fst cf) (fst cf) (snd cf)).
    { split; [|split; [repeat split; reflexivity|exact Cl]]. split; [|split; assumption].
      intros e He. rewrite Q in He. destruct He as [<-|[]]. cbn. lia. }
    destruct (hp_stranded_run hp_cfg 1 sched' (fst cf) cf H I) as (_ & (_ & _ & _ & E) & _). rewrite E. exact Ex.
  - assert (I : HPinv hp_cfg 1 (fst cf) (fst cf) (snd cf)).
    { split; [|split; [repeat split; reflexivity|exact Cl]]. split; [|split; assumption].
      intros e He. rewrite Q in He. destruct He as [<-|[]]. cbn. lia. }
    destruct (hp_stranded_run hp_cfg 1 sched' (fst cf) cf H I) as (_ & (E & _) & _). rewrite E. exact Q.
Qed.

(* with as many high-priority queues as workers (the default) the queue chosen is the validated worker's own, and every worker
   may steal from every high-priority queue: the eligibility the merged model assumes *)
Lemma hp_default_target : forall i nhp, i < nhp -> Nat.modulo i nhp = i.
Proof. intros i nhp H. apply Nat.mod_small. exact H. Qed.

Lemma hp_target_foreign : forall c nhp i, 0 < nhp -> nhp <= i -> hq c (Nat.modulo i nhp) <> hq c i.
Proof. intros c nhp i H0 H. unfold hq. pose proof (Nat.mod_upper_bound i nhp). lia. Qed.
