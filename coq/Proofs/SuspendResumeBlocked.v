(* C19: blocked tasks do not keep a processing unit from sleeping (session h10b). *)
From Coq Require Import List Arith Bool Lia.
From Pika Require Import Base.Conc Gen.GenRuntimeState Model.SuspendResume.
Import ListNotations.

(* ---- blocked tasks.  A task that has started and is suspended on a latch / future / condition variable is alive
   (counted by get_thread_count(), the model's [live]; owned by the thread map of the queue that created it) but is in NO
   queue: neither pending nor staged nor held by a worker.  [with_blocked g k] is g with k more such tasks.  The worker's
   way to sleep (loop head, own pop, own conversion, idle branch, the pre_sleep test, scheduler_base::suspend) never reads
   [live]: blocked tasks do not keep a processing unit from sleeping -- the suspended-thread count gates EXIT
   (runtime_state::stopping), not sleep.  Contrast: suspend_internal (whole pool) waits for get_thread_count() == 0. *)
Definition with_blocked (g : gst) (k : nat) : gst :=
  {| st := st g; pul := pul g; qs := qs g; sq := sq g; heldl := heldl g; waiting := waiting g; rr := rr g; live := k + live g;
     nxt := nxt g; executed := executed g; submitted := submitted g; fresh := fresh g; calls := calls g; validated := validated g |}.

Definition no_exec (pc : wpc) : bool := match pc with WExec => false | _ => true end.

Lemma take_blocked g k w v :
  take (with_blocked g k) w v = match take g w v with Some g' => Some (with_blocked g' k) | None => None end.
Proof. unfold take, with_blocked; cbn. destruct (extract v (qs g)) as [[tk r]|]; reflexivity. Qed.

Lemma move1_blocked g k d s :
  move1 (with_blocked g k) d s = match move1 g d s with Some g' => Some (with_blocked g' k) | None => None end.
Proof. unfold move1, with_blocked; cbn. destruct (extract s (sq g)) as [[tk r]|]; reflexivity. Qed.

Lemma moven_blocked n : forall g k d s, moven n (with_blocked g k) d s = with_blocked (moven n g d s) k.
Proof.
  induction n as [|n IH]; intros g k d s; cbn; [reflexivity|].
  rewrite move1_blocked. destruct (move1 g d s) as [g'|]; [apply IH|reflexivity].
Qed.

(* every worker step except the execution of a task commutes with the presence of blocked tasks *)
Lemma worker_step_blocked c o w g k pc : no_exec pc = true ->
  worker_step c o w (with_blocked g k) pc =
  (with_blocked (fst (worker_step c o w g pc)) k, snd (worker_step c o w g pc)).
Proof.
  intros Hpc. destruct pc; try discriminate Hpc; cbn [worker_step].
  - reflexivity.
  - rewrite take_blocked. destruct (take g w w); [reflexivity|].
    change (sq (with_blocked g k)) with (sq g). destruct (nonempty (qof w (sq g))); [reflexivity|]. destruct r; reflexivity.
  - destruct (stealing c); [|reflexivity]. destruct (Nat.eqb (victim c o) w); [reflexivity|].
    rewrite take_blocked. destruct (take g w (victim c o)); reflexivity.
  - rewrite take_blocked. destruct (take g w (lowq c)); reflexivity.
  - change (sq (with_blocked g k)) with (sq g). destruct (nonempty (qof w (sq g)) && negb (fst o)).
    + rewrite moven_blocked. reflexivity.
    + destruct r; reflexivity.
  - change (sq (with_blocked g k)) with (sq g).
    destruct (stealing c && negb (Nat.eqb (victim c o) w) && negb (fst o) && nonempty (qof (victim c o) (sq g))).
    + rewrite moven_blocked. reflexivity.
    + reflexivity.
  - change (sq (with_blocked g k)) with (sq g). destruct (lastw c w && negb (fst o) && nonempty (qof (lowq c) (sq g))).
    + rewrite moven_blocked. reflexivity.
    + reflexivity.
  - change (qlen_tasks c w (with_blocked g k)) with (qlen_tasks c w g). destruct (qlen_tasks c w g); [|reflexivity].
    destruct r; reflexivity.
  - change (st (with_blocked g k) w) with (st g w). destruct (rs_eqb (st g w) g_sleep_if); [|reflexivity]. destruct ce; reflexivity.
  - reflexivity.
  - reflexivity.
  - change (waiting (with_blocked g k) w) with (waiting g w). destruct (negb (waiting g w) || fst o); reflexivity.
  - reflexivity.
Qed.

(* n consecutive steps of worker w alone *)
Fixpoint wrun (c : cfg) (os : list oracle) (w : nat) (g : gst) (pc : wpc) : gst * wpc :=
  match os with
  | [] => (g, pc)
  | o :: r => let (g', pc') := worker_step c o w g pc in wrun c r w g' pc'
  end.

(* a worker told to sleep (pre_sleep) whose queues get_queue_length counts are empty reaches `sleeping` and waits, in
   seven steps of its own, however many blocked tasks exist *)
Lemma qof_nil_extract w (l : list (nat * task)) : qof w l = [] -> extract w l = None.
Proof.
  unfold qof. induction l as [|e l IH]; cbn; [reflexivity|].
  destruct (Nat.eqb (fst e) w); [discriminate|]. intros H. rewrite (IH H). reflexivity.
Qed.

Lemma sleep_ignores_blocked_tasks c w g k os :
  st g w = g_sleep_if -> qlen_tasks c w g = [] -> length os = 7 ->
  let r := wrun c os w (with_blocked g k) WTop in
  snd r = WWaiting /\ st (fst r) w = g_sleep_store /\ waiting (fst r) w = true /\ live (fst r) = k + live g.
Proof.
  intros Hst Hq Hlen.
  assert (Hqs : qof w (qs g) = [] /\ qof w (sq g) = []).
  { unfold qlen_tasks in Hq. apply app_eq_nil in Hq. destruct Hq as [H1 H2]. apply app_eq_nil in H2. tauto. }
  destruct Hqs as [Hp Hs].
  destruct os as [|o1 [|o2 [|o3 [|o4 [|o5 [|o6 [|o7 [|? ?]]]]]]]]; try discriminate Hlen.
  set (G := with_blocked g k).
  assert (HstG : st G w = g_sleep_if) by exact Hst.
  assert (HqG : qlen_tasks c w G = []) by exact Hq.
  assert (HexG : extract w (qs G) = None) by (apply qof_nil_extract; exact Hp).
  assert (HsG : qof w (sq G) = []) by exact Hs.
  assert (E1 : worker_step c o1 w G WTop = (G, WPop false)).
  { cbn [worker_step]. rewrite HstG. reflexivity. }
  assert (E2 : worker_step c o2 w G (WPop false) = (G, WAdd false)).
  { cbn [worker_step]. unfold take. rewrite HexG, HsG. reflexivity. }
  assert (E3 : worker_step c o3 w G (WAdd false) = (G, WIdle false)).
  { cbn [worker_step]. rewrite HsG. reflexivity. }
  assert (E4 : worker_step c o4 w G (WIdle false) = (reset_fresh c w G, WCheck true)).
  { cbn [worker_step]. rewrite HqG. reflexivity. }
  assert (E5 : worker_step c o5 w (reset_fresh c w G) (WCheck true) = (reset_fresh c w G, WStore)).
  { cbn [worker_step]. change (st (reset_fresh c w G) w) with (st G w). rewrite HstG. reflexivity. }
  cbv zeta. unfold wrun. rewrite E1, E2, E3, E4, E5. cbn [worker_step fst snd].
  repeat split.
  - cbn. unfold upd. rewrite Nat.eqb_refl. reflexivity.
  - cbn. unfold upd. rewrite Nat.eqb_refl. reflexivity.
Qed.
