(* Proofs/StopRefusedProofs.v — C14, the "registration refused" outcome of add_callback as an
   absorbing state: from the read of lock_if_not_stopped that sends the constructor of k to its
   refused exit onwards, k is never invoked, never linked into callbacks_, never registered; the
   constructor ends with cb_ctor = 2, cb_reg = false, cb_runs = 0 and that state is never left.
   Suffix invariant over Model/StopState.v on top of Inv2 (Proofs/StopCallbacksProofs.v). *)
From Coq Require Import List NArith Bool Arith Lia.
From Pika Require Import Base.Conc Gen.GenStopBits Model.StopWord Model.StopState
  Proofs.StopFlagsProofs Proofs.StopStateProofs Proofs.StopCallbacksAbs Proofs.StopCallbacksProofs
  Proofs.StopProgressStep Proofs.StopProgressProofs Proofs.StopCtorProofs.
Import ListNotations.

(* one-step facts about the constructor exits of k *)
Lemma S14 P o t g l0 k :
  On (fun g' l' =>
    (pc (norm l0) = AUnlock k -> cb_ctor (cb g' k) = 2) /\
    (pc (norm l0) = ARelease k -> (g' = g /\ l' = norm l0) \/ cb_ctor (cb g' k) = 2) /\
    ((pc (norm l0) = ALoad k \/ (exists old, pc (norm l0) = ACas k old) \/ pc (norm l0) = ASpin k) ->
     pc l' = ARelease k -> g' = g))
  (st_tstep P o t g l0).
Proof.
  start l0 l Epc; prep.
  all: try match goal with removed : bool |- _ => destruct removed end.
  all: repeat split; intros; rewrite ?Epc in *; proj; try discriminate; try reflexivity.
  all: try solve [match goal with H : _ \/ _ |- _ => destruct H as [H|[[? H]|H]]; discriminate H end].
  all: try solve [match goal with H : _ = _ |- _ => injection H; intros; subst; updc; cbf; fin3 end].
  all: try solve [left; split; reflexivity].
  all: try solve [right; match goal with H : _ = _ |- _ => injection H; intros; subst; updc; cbf; fin3 end].
Qed.

(* a callback object is marked registered only together with the return of its constructor *)
Definition RG (g : shared) : Prop := forall k, cb_reg (cb g k) = true -> cb_ctor (cb g k) = 2.

Lemma RG_step P o t g l0 : RG g -> RG (fst (st_tstep P o t g l0)).
Proof.
  intros H k Hr. pose proof (S9 P o t g l0 k) as F. pose proof (S14 P o t g l0 k) as G. unfold On in *.
  destruct F as (_ & _ & F3 & F4 & _). destruct G as (G1 & _).
  destruct (F3 Hr) as [X|X]; [|now apply G1]. specialize (H k X).
  destruct F4 as [Y|[(Y & _)|[Y|(_ & Y)]]]; try congruence. now apply G1.
Qed.

Lemma run_RG P sched w0 progs srcs : RG (fst (st_run P sched w0 progs srcs)).
Proof.
  unfold st_run. apply (run_ginv _ _ _ (st_tstep P) RG).
  - intros o t g l H. now apply RG_step.
  - intros k H. discriminate H.
Qed.

(* ---------------- the suffix invariant ---------------- *)
Definition RF (k tc : nat) (g : shared) (ls : nat -> local) : Prop :=
  cb_runs (cb g k) = 0 /\ cb_reg (cb g k) = false /\ cb_queued (cb g k) = false /\
  cb_deq (cb g k) = false /\
  ((cb_ctor (cb g k) = 1 /\ cb_cthr (cb g k) = Some tc /\ pc (ls tc) = ARelease k) \/
   cb_ctor (cb g k) = 2).

Definition Inv5 (P : params) (k tc : nat) (g : shared) (ls : nat -> local) : Prop :=
  Inv2 P g ls /\ RF k tc g ls.

Theorem RF_step P o t g ls k tc : ids_faithful P -> Inv5 P k tc g ls ->
  Inv5 P k tc (fst (st_tstep P o t g (ls t))) (upd ls t (snd (st_tstep P o t g (ls t)))).
Proof.
  intros Hid [H2 HK]. pose proof (step_inv2 P o t g ls Hid H2) as H2'. split; [exact H2'|].
  destruct H2 as (HI & HG2 & HL2). destruct HK as (K1 & K2 & K3 & K4 & K5).
  pose proof (S9 P o t g (ls t) k) as F. pose proof (S14 P o t g (ls t) k) as G. unfold On in F, G.
  destruct (LI2_norm g t (ls t) (HL2 t)) as (HA & _).
  set (g' := fst (st_tstep P o t g (ls t))) in *. set (l' := snd (st_tstep P o t g (ls t))) in *.
  clearbody g' l'.
  assert (Etc : t = tc -> cb_ctor (cb g k) = 1 -> norm (ls t) = ls t /\ pc (ls t) = ARelease k).
  { intros -> C1. destruct K5 as [(_ & _ & X)|X]; [|congruence]. split; [|exact X].
    apply norm_nonidle. congruence. }
  set (l := norm (ls t)) in *.
  destruct F as (F1 & F2 & F3 & F4 & F5 & F6 & _). destruct G as (G1 & G2 & _).
  pose proof HG2 as (_ & HQ & _ & _ & _ & _ & _ & HC).
  (* the constructing thread of k, while cb_ctor = 1 *)
  assert (Own : cb_ctor (cb g k) = 1 -> cb_cthr (cb g k) = Some t -> pc l = ARelease k).
  { intros C1 Ct. destruct K5 as [(_ & X & _)|X]; [|congruence].
    assert (t = tc) by congruence. destruct (Etc H C1) as [E0 E]. rewrite E0. exact E. }
  assert (NB : pc l <> ABegin k).
  { intros E. pose proof HA as HA'. rewrite E in HA'. cbn [PCA] in HA'. destruct HA' as (X1 & X2 & _).
    specialize (Own X1 X2). congruence. }
  assert (NQ : pc l <> QBegin k).
  { intros E. pose proof HA as HA'. rewrite E in HA'. cbn [PCA] in HA'. destruct HA' as (X & _). congruence. }
  assert (NU : pc l <> AUnlock k).
  { intros E. pose proof HA as HA'. rewrite E in HA'. cbn [PCA] in HA'. destruct HA' as (_ & _ & X). congruence. }
  assert (NC : forall old, pc l <> ACas k old).
  { intros old E. pose proof HA as HA'. rewrite E in HA'. cbn [PCA] in HA'. destruct HA' as ((X1 & X2 & _) & _).
    specialize (Own X1 X2). congruence. }
  unfold RF. split; [|split; [|split; [|split]]].
  - destruct F5 as [[A _]|[(A & _)|(A & _)]]; congruence.
  - destruct (cb_reg (cb g' k)) eqn:E; [|reflexivity]. destruct (F3 eq_refl); congruence.
  - destruct (cb_queued (cb g' k)) eqn:E; [|reflexivity]. destruct (F1 eq_refl) as [X|[old X]]; [congruence|].
    exfalso. exact (NC old X).
  - destruct (cb_deq (cb g' k)) eqn:E; [|reflexivity]. destruct (F2 eq_refl) as [X|X]; [congruence|].
    apply HQ in X. congruence.
  - destruct F4 as [Y|[(Y & _)|[Y|(_ & Y)]]].
    + destruct K5 as [(X1 & X2 & X3)|X]; [|right; congruence].
      destruct (Nat.eq_dec t tc) as [E|Hne].
      * destruct (Etc E X1) as [E0 E2]. rewrite <- E0 in E2. destruct (G2 E2) as [[-> ->]|Z]; [|now right].
        left. subst tc. rewrite upd_same. repeat split; assumption.
      * left. rewrite upd_other by congruence. repeat split; try congruence.
        destruct F6 as [W|W]; congruence.
    + destruct K5 as [(X & _)|X]; congruence.
    + contradiction.
    + now right.
Qed.

(* the refusing read of lock_if_not_stopped at the end of s1 (by thread t, oracle o): from then on ... *)
Theorem refused_state P s1 s2 w0 progs srcs t o k : ids_faithful P -> good_init w0 ->
  let c1 := st_run P s1 w0 progs srcs in
  (pc (norm (snd c1 t)) = ALoad k \/ (exists old, pc (norm (snd c1 t)) = ACas k old) \/
   pc (norm (snd c1 t)) = ASpin k) ->
  pc (snd (st_tstep P o t (fst c1) (snd c1 t))) = ARelease k ->
  let c2 := st_run P (s1 ++ (t, o) :: s2) w0 progs srcs in
  cb_runs (cb (fst c2) k) = 0 /\ cb_reg (cb (fst c2) k) = false /\
  cb_queued (cb (fst c2) k) = false /\ ~ In k (cbs (fst c2)) /\ cb_deq (cb (fst c2) k) = false /\
  ((cb_ctor (cb (fst c2) k) = 1 /\ pc (snd c2 t) = ARelease k) \/ cb_ctor (cb (fst c2) k) = 2).
Proof.
  intros Hid Hw. cbv zeta. intros Hp Hr. unfold st_run in *. rewrite run_app, run_cons.
  set (c1 := run (st_tstep P) s1 (st_init w0, st_locals progs srcs)) in *.
  assert (I1 : Inv2 P (fst c1) (snd c1)) by (apply (run_Inv2 P s1 w0 progs srcs Hid Hw)).
  assert (R1 : RG (fst c1)) by (apply (run_RG P s1 w0 progs srcs)).
  assert (K : Inv5 P k t (fst (step (st_tstep P) c1 (t, o))) (snd (step (st_tstep P) c1 (t, o)))).
  { pose proof (step_inv2 P o t (fst c1) (snd c1) Hid I1) as I2.
    pose proof (S14 P o t (fst c1) (snd c1 t) k) as G. unfold On in G. destruct G as (_ & _ & G3).
    specialize (G3 Hp Hr).
    destruct I1 as (_ & _ & HL2). destruct (LI2_norm _ t _ (HL2 t)) as (HA & _).
    assert (A : A1 (fst c1) k t).
    { destruct Hp as [Hp|[[old Hp]|Hp]]; rewrite Hp in HA; cbn [PCA] in HA; [exact HA|now destruct HA|exact HA]. }
    unfold step. destruct c1 as [g ls]. cbn [fst snd] in *.
    destruct (st_tstep P o t g (ls t)) as [g' l'] eqn:E. cbn [fst snd] in *. subst g'.
    split; [exact I2|]. destruct A as (A1' & A2' & A3' & A4' & A5').
    unfold RF. repeat split; try assumption.
    - destruct (cb_reg (cb g k)) eqn:Er; [|reflexivity]. specialize (R1 k Er). congruence.
    - left. rewrite upd_same. repeat split; assumption. }
  assert (K2 : Inv5 P k t (fst (run (st_tstep P) s2 (step (st_tstep P) c1 (t, o))))
                          (snd (run (st_tstep P) s2 (step (st_tstep P) c1 (t, o))))).
  { apply (run_inv _ _ _ (st_tstep P) (Inv5 P k t)); [|exact K].
    intros o' t' g ls H. now apply RF_step. }
  destruct K2 as [(_ & HG2 & _) (K1 & K2' & K3 & K4 & K5)].
  destruct HG2 as (_ & HQ & _).
  repeat split; try assumption.
  - rewrite HQ. congruence.
  - destruct K5 as [(X1 & _ & X3)|X]; [left; split; assumption|now right].
Qed.

(* ... and the end state is absorbing: a stop_callback whose constructor returned unregistered
   without having run its callback stays in exactly that state, in every extension *)
Theorem refused_absorbing P s1 s2 w0 progs srcs k : ids_faithful P -> good_init w0 ->
  let g1 := fst (st_run P s1 w0 progs srcs) in
  let g2 := fst (st_run P (s1 ++ s2) w0 progs srcs) in
  cb_ctor (cb g1 k) = 2 -> cb_reg (cb g1 k) = false -> cb_runs (cb g1 k) = 0 ->
  cb_ctor (cb g2 k) = 2 /\ cb_reg (cb g2 k) = false /\ cb_runs (cb g2 k) = 0 /\
  cb_queued (cb g2 k) = false /\ ~ In k (cbs g2) /\ cb_deq (cb g2 k) = false.
Proof.
  intros Hid Hw. cbv zeta. intros H2 Hr H0. unfold st_run in *. rewrite run_app.
  set (c1 := run (st_tstep P) s1 (st_init w0, st_locals progs srcs)) in *.
  assert (I1 : Inv2 P (fst c1) (snd c1)) by (apply (run_Inv2 P s1 w0 progs srcs Hid Hw)).
  assert (K : Inv5 P k 0 (fst (run (st_tstep P) s2 c1)) (snd (run (st_tstep P) s2 c1))).
  { apply (run_inv _ _ _ (st_tstep P) (Inv5 P k 0)).
    - intros o' t' g ls H. now apply RF_step.
    - split; [exact I1|]. destruct I1 as (_ & HG2 & _). destruct HG2 as (_ & _ & _ & _ & _ & _ & _ & HC).
      destruct (HC k) as (_ & _ & _ & _ & _ & C6 & _). cbv zeta in C6. destruct (C6 H2 Hr) as (Q1 & Q2 & _).
      unfold RF. repeat split; try assumption. now right. }
  destruct K as [(_ & HG2 & _) (K1 & K2 & K3 & K4 & K5)]. destruct HG2 as (_ & HQ & _).
  destruct K5 as [(X1 & _ & X3)|X].
  2:{ repeat split; try assumption. rewrite HQ. congruence. }
  exfalso.
  (* cb_ctor never goes back from 2 to 1 *)
  assert (Mono : forall s c, cb_ctor (cb (fst c) k) = 2 -> cb_ctor (cb (fst (run (st_tstep P) s c)) k) = 2).
  { induction s as [|[t o] s IH]; intros c Hc; [exact Hc|]. rewrite run_cons. apply IH.
    unfold step. destruct c as [g ls]. cbn [fst snd] in *.
    pose proof (S9 P o t g (ls t) k) as F. unfold On in F. destruct F as (_ & _ & _ & F4 & _).
    pose proof (S14 P o t g (ls t) k) as G. unfold On in G. destruct G as (G1 & _).
    destruct (st_tstep P o t g (ls t)) as [g' l'] eqn:E. cbn [fst snd] in *.
    destruct F4 as [Y|[(Y & _)|[Y|(_ & Y)]]]; try congruence. now apply G1. }
  rewrite (Mono s2 c1 H2) in X1. discriminate X1.
Qed.
