(* TEMPORARY: extraction of the handle-history model alone (merge into ExtractC14.v) *)
Require Extraction.
Require ExtrOcamlBasic.
From Pika Require Import Model.StopHandles.
Extraction Language OCaml.
Extraction "m.ml" h_trace h_run h_obs.
