(* Extraction of the executable C15 model (affinity pipeline) for the correspondence check.
   Directives: exactly those of ExtrOcamlBasic; nat stays the extracted inductive type. *)
Require Extraction.
Require ExtrOcamlBasic.
From Coq Require Import NArith.
From Pika Require Import Model.Affinity.
Extraction Language OCaml.
Extraction "m.ml" startup startup_os set_process_mask process_mask_bits mask_bits default_threads default_cores owners
  decode total_pus exposed
  N.of_nat. (* N.of_nat only so that the shared conversion prelude (conv.ml.in) finds the types n/positive *)
