(* Extraction of the executable C19 model for the correspondence check (ExtrOcamlBasic directives only). *)
Require Extraction.
Require ExtrOcamlBasic.
From Pika Require Import Base.Conc Gen.GenRuntimeState Model.SuspendResume Model.SuspendResumeHP.
Extraction Language OCaml.
Extraction "m.ml" sr_tstep sr_g0 sr_locals enabled client_done refused expand rs_ord qof step hp_tstep hq.
