(* Extraction of the executable C05 models for the correspondence check (ExtrOcamlBasic only). *)
Require Extraction.
Require ExtrOcamlBasic.
From Pika Require Import Base.Conc Gen.GenLifecycle Model.Lifecycle.
Extraction Language OCaml.
Extraction "m.ml" api0 api_step api_resps violates_pre lc_run lc_tstep lc_init lc_locals step rr_sched sim_summary gen_wait_continue.
