(* Extraction of the executable C16 model for the correspondence check.
   Directives: exactly those of ExtrOcamlBasic; string/ascii/N/nat stay the extracted inductive types. *)
Require Extraction.
Require ExtrOcamlBasic.
From Pika Require Import Gen.GenIni Model.Config.
Extraction Language OCaml.
Extraction "m.ml" run read_x no_entries tok_prepend split_unix opt_key builtin_ini pika_options.
