(* Extraction of the executable C07 model (condition variable) for the correspondence checks.
   Directives: exactly those of ExtrOcamlBasic. *)
Require Extraction.
Require ExtrOcamlBasic.
From Coq Require Import NArith.
From Pika Require Import Base.Conc Base.Agent Gen.GenTimedPred Model.CondVar Model.CondVarAbort Model.TimedPredLoop.
Extraction Language OCaml.
(* N.succ only so that the numeral types used by the shared conversion helpers exist in m.ml *)
Extraction "m.ml" cv_tstep cv_enabled cv_view cv_init cv_locals N.succ ab_tstep ab_init ab_locals
  tp_call script cv_on_timeout cva_on_timeout cvs_on_timeout.
