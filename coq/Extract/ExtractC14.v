(* Extraction of the executable C14 models for the correspondence check.
   Directives: exactly those of ExtrOcamlBasic; N, positive, nat stay the extracted inductive types. *)
Require Extraction.
Require ExtrOcamlBasic.
From Pika Require Import Base.Conc Gen.GenStopBits Model.StopWord Model.StopState Model.StopHandles.
Extraction Language OCaml.
Extraction "m.ml" st_trace st_init st_locals w_stop_requested w_stop_possible w_tokens w_sources thread_done h_trace h_run h_obs.
