(* Extraction of the executable C10 model (Model/Placement.v, Model/BulkPlacement.v, Model/Priority.v) for the correspondence check.
   Directives: exactly those of ExtrOcamlBasic; nat, positive, Z stay the extracted inductive types
   (N.of_nat is listed only because ocaml/conv.ml.in mentions the type N). *)
Require Extraction.
Require ExtrOcamlBasic.
From Coq Require Import NArith.
From Pika Require Import Base.Conc Model.Placement Model.BulkPlacement Gen.GenPriority Model.Priority.
Extraction Language OCaml.
Extraction "m.ml" step pl_tstep g_init l_init find_handle where_is get_task hint_num base_queue N.of_nat
  bulk_allowed bulk_worker part_nonempty bk_tstep bk_init
  resolve_priority resolve_priority_thread stored_rprio child_queue rp_all rp_ord.
