(* Extraction of the executable C18 model (type-erased wrappers) for the correspondence check.
   Directives: exactly those of ExtrOcamlBasic; nat, N, Z, positive stay inductive. *)
Require Extraction.
Require ExtrOcamlBasic.
From Pika Require Import Model.Erased.
Extraction Language OCaml.
Extraction "m.ml" sstep fstep fxstep init destroy_all trace new_events is_empty sspec fspec spec_trace.
