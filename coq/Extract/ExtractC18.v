(* Extraction of the executable C18 model (type-erased wrappers) for the correspondence check.
   Directives: exactly those of ExtrOcamlBasic; nat, N, Z, positive stay inductive. *)
Require Extraction.
Require ExtrOcamlBasic.
From Pika Require Import Gen.GenErased Gen.GenErasedSteps Model.Erased Model.ErasedBlocks.
Extraction Language OCaml.
Extraction "m.ml" sstep fstep sxstep gstep gtrace xinit init destroy_all trace new_events is_empty sspec fspec spec_trace
  sender_embeds function_inline class_ok ptr_size
  gblive sblive leaked_at_exit b0 function_misplaced.
