(* Extraction of the executable C11 model for the correspondence checks.
   Directives: exactly those of ExtrOcamlBasic; N, positive, nat stay inductive. *)
Require Extraction.
Require ExtrOcamlBasic.
From Pika Require Import Base.Conc Model.IndexQueue Model.Bulk.
Extraction Language OCaml.
Extraction "m.ml" arith gen_bulk binit brun bstep bsite lock_step lock_trace chunk_calls
  get_chunk_size get_num_chunks part_begin part_end chunk_begin chunk_end seq_pop.
