(* Extraction of the executable C09 models for the correspondence check.
   Directives: exactly those of ExtrOcamlBasic (unit, bool, sumbool, option, prod, list mapped to
   OCaml's built-ins); N, Z, positive, nat stay the extracted inductive types. *)
Require Extraction.
Require ExtrOcamlBasic.
From Pika Require Import Base.Conc Base.Agent Model.BarrierTree Model.Latch Model.Event Model.Once.
Extraction Language OCaml.
Extraction "m.ml" step b_tstep bar_init bar_locals bpc_site bpc_args
  trx_tstep src_claims tr_init trx_locals
  latch_tstep latch_init latch_locals l_enabled
  e_tstep e_init e_locals e_enabled o_tstep o_init o_locals o_enabled nok nbegin nend.
