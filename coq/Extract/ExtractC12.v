(* Extraction of the executable C12 models for the correspondence check.
   Directives: exactly those of ExtrOcamlBasic; Z, N, positive, nat stay inductive. *)
Require Extraction.
Require ExtrOcamlBasic.
From Coq Require Import ZArith.
From Pika Require Import Model.CtxSyntax Gen.GenSwapctx Model.Ctx Model.Rebind.
Extraction Language OCaml.
Extraction "m.ml" Z.of_N Z.to_N Z.of_nat run_two run_fe swapcontext q_run get_stack_size
  rebind_base construct all_tfields per_task coro_do_rebind coro_at_exit coro_construct
  created_class created_enum mc_created_class mc_created_enum mc_q_run.
