(* Extraction of the executable C03 models for the correspondence check.
   Directives: exactly those of ExtrOcamlBasic; N, positive, nat, Z stay inductive. *)
Require Extraction.
Require ExtrOcamlBasic.
From Pika Require Import Base.Conc Model.Sender Model.Handoff Model.SenderLedger Model.HandoffLife.
Extraction Language OCaml.
Extraction "m.ml" sigs den sync_wait start_detached sends_done join_seq
  h_trace h_init h_locals w_trace w_init w_locals w_expected
  ledger nouse_ok upto_term
  hl_trace hl_init hl_locals.
