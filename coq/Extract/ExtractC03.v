(* Extraction of the executable C03 models for the correspondence check.
   Directives: exactly those of ExtrOcamlBasic; N, positive, nat, Z stay inductive. *)
Require Extraction.
Require ExtrOcamlBasic.
From Pika Require Import Base.Conc Model.Sender.
Extraction Language OCaml.
Extraction "m.ml" sigs den sync_wait start_detached sends_done join_seq.
