(* Extraction of the executable scheduler model for the C01/C02 correspondence checks.
   Directives: exactly those of ExtrOcamlBasic. *)
Require Extraction.
Require ExtrOcamlBasic.
From Pika Require Import Base.Conc Gen.GenEnums Model.Sched Model.SchedY.
Extraction Language OCaml.
Extraction "m.ml" accepts activations trans_ok sst_of_Z sst_val sched_run mon_ok idle_b lost_wakeup_b w_init sched_runY monY_ok idleY_b.
