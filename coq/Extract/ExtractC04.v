(* Extraction of the executable C04 model (async_rw_mutex) for the lock-step correspondence
   check.  Directives: exactly those of ExtrOcamlBasic; nat stays the extracted inductive. *)
Require Extraction.
Require ExtrOcamlBasic.
From Coq Require Import NArith.
From Pika Require Import Base.Conc Model.RwMutex.
Extraction Language OCaml.
Extraction "m.ml" step rw_tstep rw_init rw_locals is_point site_of seg N.succ.
