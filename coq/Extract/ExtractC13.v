(* Extraction of the executable C13 model (Model/Join.v) for the correspondence check.
   Directives: exactly those of ExtrOcamlBasic. *)
Require Extraction.
Require ExtrOcamlBasic.
From Coq Require Import NArith.
From Pika Require Import Base.Conc Base.Agent Model.Join Model.JoinLock Gen.GenJoin.
Extraction Language OCaml.
Extraction "m.ml" tstep step jrun g_init l_init round_robin run_task all_done join_ok_b a_resume
  ltstep lg_init ll_init lrun_task lround_robin first_waiter calls_returned waits_for join_unlocks_before_wait N.succ.   (* N.succ: conv.ml.in expects the numeral types *)
