(* Extraction of the executable C06 models (spinlock, recursive mutex, pika::mutex) for the
   correspondence checks.  Directives: exactly those of ExtrOcamlBasic. *)
Require Extraction.
Require ExtrOcamlBasic.
From Pika Require Import Base.Conc Base.Agent Model.Mutex.
Extraction Language OCaml.
Extraction "m.ml" sl_tstep sl_site sl_init sl_locals rm_tstep rm_site rm_init rm_locals
  mx_tstep mx_init mx_locals mx_set_ag a_resume upd.
