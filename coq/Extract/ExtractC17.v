(* Extraction of the executable C17 models for the correspondence check.
   Directives: exactly those of ExtrOcamlBasic (unit, bool, sumbool, option, prod, list
   mapped to OCaml's built-ins); N, positive, nat stay the extracted inductive types. *)
Require Extraction.
Require ExtrOcamlBasic.
From Pika Require Import Base.Conc Model.IndexQueue.
Extraction Language OCaml.
Extraction "m.ml" iq_trace iq_init iq_locals iq_run popped seq_pop.
