(* Extraction of the executable C17 models for the correspondence check.
   Directives: exactly those of ExtrOcamlBasic (unit, bool, sumbool, option, prod, list
   mapped to OCaml's built-ins); N, positive, nat stay the extracted inductive types. *)
Require Extraction.
Require ExtrOcamlBasic.
From Pika Require Import Base.Conc Model.IndexQueue Model.DequeSpec Model.Deque Model.DequeWitness.
Extraction Language OCaml.
Extraction "m.ml" iq_trace iq_init iq_locals iq_run popped seq_pop
  dq_trace dq_init dq_locals dq_solo dq_done dq_results dq_obs pushed_vals popped_vals spec_run
  aba_k aba_progs aba_sched aba2_progs aba2_sched aba3_progs aba3_sched aba4_progs aba4_sched.
