(* Extraction of the executable C20 models for the correspondence check (ExtrOcamlBasic only). *)
Require Extraction.
Require ExtrOcamlBasic.
From Pika Require Import Base.Conc Gen.GenMpi Model.Mpi.
Extraction Language OCaml.
Extraction "m.ml" mstep m_init m_locals m_run compact compact_inplace take_nth calls regs nonnull somes
  decode_mode single_threaded tm_step tm_run tm_run_cur t_init all_modes p_run p_step balanced
  max_poll_requests trigger_guarded hm_default_mode sstep s_submit s_locals in_callback.
