(* Extraction of the executable C08 model for the correspondence check.
   Directives: exactly those of ExtrOcamlBasic; Z, positive, nat stay the extracted inductive types. *)
Require Extraction.
Require ExtrOcamlBasic.
From Coq Require Import NArith.
From Pika Require Import Base.Conc Base.Agent Model.Semaphore.
Extraction Language OCaml.
Extraction "m.ml" sem_trace sem_init sem_locals sem_tstep is_blocked_thread forced N.of_nat.
