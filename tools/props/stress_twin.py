# Shared runner for the free-running stress twins (harness/common/stress_util.hpp): real threads released
# from a spin barrier with swept offsets, no controller, model-independent monitors, forked child with a
# watchdog.  Lock-step harnesses can only interleave at the hooks placed BEFORE each modelled atomic step; a
# code change that splits one atomic step in two has no scheduling point inside the new window.  The twins
# close that gap: they find a concrete failing run (BAD line = monitor hit, DIED line = crash / hang).
#
#   BAD  <TAG> <trial> cls=<class> sig=<signature> <details...>
#   DIED <TAG> <trial> <hang|segv|abort|exit> cls=<class>
#   SUM  <TAG> <class> <trials>
#   DONE <TAG> trials=<n> ms=<elapsed> deaths=<n>
import json
import re

from vlib import Hit, sh


def run_twin(ctx, r, prop, harness_path, harness_name, tag, mode_args, ntrials, budget_ms, what, min_trials=0,
             sig_prefix=None):
    """runs `<harness> <mode_args...> <seed> <ntrials> <budget_ms>`; appends hits / distribution / extra to r.
    Signatures: <prop>:stress:<tag-lower>:<class-kind>:<sig> where class-kind is the class up to the first ':'
    or '/' (so that the signature names operation kind + input class, not every shape)."""
    pre = sig_prefix or ('%s:stress:%s' % (prop, tag.lower()))
    args = list(mode_args) + [str(ctx.seed), str(ntrials), str(budget_ms)]
    rc, out = sh([harness_path] + args, timeout=budget_ms / 1000.0 + 400)
    lines = out.split('\n')
    rep0 = {'harness': harness_name, 'args': args}
    done = [x for x in lines if x.startswith('DONE %s ' % tag)]
    if rc != 0 or not done:
        r.hits.append(Hit('tie', '%s:stress_harness:%s' % (prop, tag), 'stress twin %s failed rc=%d: %s' % (harness_name, rc, out[-500:]), rep0))
    nbad = 0
    for l in lines:
        if l.startswith('SUM %s ' % tag):
            q = l.split(' ')
            r.count('stress[%s]=%s' % (tag, q[2]), int(q[3]))
            r.nontrivial('stress %s class %s (>=2 real threads released from one spin barrier)' % (tag, q[2]))
        elif l.startswith('BAD %s ' % tag):
            q = l.split(' ', 5)
            cls = q[3].split('=', 1)[1]
            sig = q[4].split('=', 1)[1]
            text = q[5] if len(q) > 5 else ''
            nbad += 1
            r.hits.append(Hit('monitor', '%s:%s:%s' % (pre, cls_kind(cls), sig),
                              '%s (free-running stress twin, trial %s, class %s): %s' % (what, q[2], cls, text[:1200]),
                              dict(rep0, trial=q[2], observed=l[:3000])))
        elif l.startswith('DIED %s ' % tag):
            q = l.split(' ')
            cls = q[4].split('=', 1)[1] if len(q) > 4 else '?'
            nbad += 1
            r.hits.append(Hit('monitor', '%s:%s:died:%s' % (pre, cls_kind(cls), q[3]),
                              '%s (free-running stress twin): the process running the real code %s in trial %s (class %s)'
                              % (what, {'abort': 'aborted', 'hang': 'hung (no progress for 60 s)', 'segv': 'crashed'}.get(q[3], 'exited unexpectedly'), q[2], cls),
                              dict(rep0, trial=q[2], observed=l)))
        elif l.startswith('SKIPPED %s' % tag):
            r.notes.append('stress twin %s stopped early: %s' % (harness_name, l))
    if done:
        m = re.search(r'trials=(\d+) ms=(\d+)', done[0])
        if m:
            key = 'stress_%s' % tag.lower()
            r.extra[key + '_trials'] = int(m.group(1))    # reported separately: not mixed into the lock-step case count
            r.extra[key + '_ms'] = int(m.group(2))
            if int(m.group(1)) < min_trials and nbad == 0:
                r.notes.append('stress twin %s: only %s trials fitted into the %d ms budget (machine overloaded)' % (tag, m.group(1), budget_ms))
        r.sample({'stress_twin': tag, 'done': done[0], 'classes': [x for x in lines if x.startswith('SUM %s ' % tag)][:12]}, cap=12)
    return nbad


def cls_kind(cls):
    return re.split(r'[:/]', cls, 1)[0]


def twin_replay(ctx, harness_name):
    """True when --replay names a hit of this twin: the twin is then run again with the stored seed (tools/check restores
    seed and tier from the file).  Trial numbers and per-trial plans are reproduced exactly; the thread timing is not
    controlled, so a rare race may need more than one replay."""
    if not ctx.replay:
        return False
    try:
        rp = json.load(open(ctx.replay)).get('replay', {})
    except Exception:
        return False
    return rp.get('harness') == harness_name
