# C02 — no lost wake-up: a resumed task always runs again.  Shares the scheduler model, the TRACE
# harness and the driver with C01 (tools/props/c01.py); mode `c02` of the harness races wake-ups
# against suspension under perturbation of exactly the hand-off windows and has a quiescence
# watchdog that turns a lost wake-up into a monitor hit.
import json
import os
import sys

sys.path.insert(0, os.path.dirname(os.path.abspath(__file__)))
from props import c01 as base  # noqa: E402
from vlib import Hit, sh  # noqa: E402

WINDOW_ASSUMPTION = (
    'scenario wake_in_window (harness/c02_window.cpp): the target is HELD by the hook function at hooks 204 / 205 / 206 (inside the window '
    '"registered as a waiter, internal lock released, state word still active") while the waker reads the word and issues the wake-up; '
    'the hold keeps the worker (204/205: the coroutine, 206: the scheduling loop) busy-waiting for at most hold_limit_us after the waker '
    'fired, which stretches a window that exists in the unhooked code (100 ns .. 1 us there) and adds no behaviour')

ASSUMPTIONS = base.ASSUMPTIONS + [
    'restart reasons other than `signaled` (abort = thread::interrupt of a task suspended in a semaphore / cv / mutex wait) are exercised on the real runtime only (scenario after_interrupted_wait: ledger + quiescence watchdog + "marked active, inside no worker\'s coroutine" watch; its state-word chains go through the acceptor, which compares (state, tag)); the Coq model keeps state_ex constant, which is what restore_state documents ("ignore the state_ex while compare-exchanging")',
    'a wake-up is "issued after registration" when the waker pops the waiter entry under the primitive\'s internal lock (SIssue); the guarantee is for the suspension that ends the phase in which the task registered',
    'that helper tasks and re-queued tasks are eventually scheduled is fairness of the runtime (stuck-state theorem only)',
    WINDOW_ASSUMPTION,
]




def window_process(ctx, r, hb, args, notes_prefix=''):
    """one process of harness/c02_window.cpp; returns (rc, index of the case that ended the process or None)"""
    rc, out = sh([hb] + [str(a) for a in args], timeout=200, env={'PIKA_LOG_LEVEL': '6'})
    lines = out.split('\n')
    rep = {'harness': 'c02_window', 'args': [str(a) for a in args]}
    ended_at = None
    for wl in [x for x in lines if x.startswith('WIN ')]:
        f = dict(x.split('=', 1) for x in wl.split(' ')[2:] if '=' in x)
        idx = int(wl.split(' ')[1])
        r.evaluations += 1
        r.count('window_cases')
        r.count('window_case=%s:%s' % (f.get('wake', '?'), f.get('facility', '?')))
        r.count('window_site=%s' % f.get('site', '?'))
        r.count('window_waker=%s' % f.get('waker', '?'))
        r.count('window_workers=%s' % f.get('workers', '?'))
        r.count('window_outcome=%s' % f.get('outcome', '?'))
        if f.get('in_window') == '1':
            # the waker read the state word (`active`) while the target was held inside the window
            r.count('window_wake_issued_inside_window')
            r.count('window_%s_issued_inside_window' % f.get('wake', '?'))
            r.nontrivial('window %s %s %s %s %s' % (f.get('workers'), f.get('facility'), f.get('wake'), f.get('site'), f.get('waker')))
        else:
            r.count('window_wake_issued_outside_window')
        if int(f.get('helper_created', '0')) > 0:
            r.count('window_cases_with_retry_helper_created')       # hook 208 for the target while it was held
        if int(f.get('helper_runs', '0')) > 0 and int(f.get('need_runs', '0')) > 0:
            r.count('window_cases_helper_ran_against_active_target')
        if len([x for x in r.samples if isinstance(x, dict) and x.get('scenario') == 'wake_in_window']) < 2:
            r.samples.append({'scenario': 'wake_in_window', 'replay_args': [args[0], args[1], idx, 1], 'case': wl[:400]})
    mons = [x for x in lines if x.startswith('MON ')]
    for m in mons:
        p = m.split(' ')
        idx = int(p[1])
        ended_at = idx
        kind = p[3].split('=', 1)[1] if len(p) > 3 and p[3].startswith('kind=') else '?'
        r.hits.append(Hit('monitor', 'C02:%s:%s' % (p[2], kind),
                          'wake-up issued into the window registered / not yet suspended is lost on the real runtime '
                          '(%s workers, case %d of seed %s): %s' % (args[1], idx, args[0], m[:1200]),
                          {'harness': 'c02_window', 'args': [str(args[0]), str(args[1]), str(idx), '1'], 'line': m[:600]}))
    inconc = [x for x in lines if x.startswith('INCONCLUSIVE ')]
    if inconc:
        r.count('window_inconclusive_setup')
        r.notes.append('%swindow scenario, %s workers: %s' % (notes_prefix, args[1], inconc[0]))
        try:
            ended_at = int(inconc[0].split(' ')[1])
        except Exception:
            pass
    if rc not in (0, 3, 4) or (rc == 3 and not mons):
        tail = ' | '.join([x for x in lines if x and not x.startswith('WIN ')][-5:])
        last = [x for x in lines if x.startswith('WIN ')]
        what = 'hang' if rc == 124 else 'crash'
        nxt = (int(last[-1].split(' ')[1]) + 1) if last else int(args[2])
        ended_at = nxt
        r.hits.append(Hit('monitor', 'C02:%s:wake_in_window' % what,
                          'harness c02_window %s (rc=%d) in case %d (%s workers): %s' % (what, rc, nxt, args[1], tail[-700:]),
                          {'harness': 'c02_window', 'args': [str(args[0]), str(args[1]), str(nxt), '1'], 'rc': rc}))
    elif rc == 0 and not [x for x in lines if x.startswith('SUMMARY ')]:
        r.hits.append(Hit('tie', 'C02:harness_output', 'c02_window produced no SUMMARY line: ' + ' | '.join(lines[-4:])[:600], rep))
    return rc, ended_at


def run_window(ctx, r):
    """wake-ups (thread::interrupt and the facility's own notify) issued while the target is held inside the window
    "registered as a waiter, internal lock released, state word still active" (hooks 204 / 205 / 206)"""
    hb = ctx.build_harness('c02_window', 'c02_window.cpp')
    quick = ctx.tier == 'quick'
    workers = (1, 4) if quick else (1, 2, 3, 4, 8)
    count = 30 if quick else 150
    for W in workers:
        first, restarts = 0, 0
        while first < count and restarts <= 2:
            rc, ended_at = window_process(ctx, r, hb, [ctx.seed, W, first, count - first])
            if rc == 0 or ended_at is None:
                break
            # a lost wake-up ends the process (the runtime cannot shut down): go on behind that case
            first = ended_at + 1
            restarts += 1
    if not r.hits and r.dist.get('window_interrupt_issued_inside_window', 0) == 0:
        r.hits.append(Hit('tie', 'C02:scenario:wake_in_window',
                          'no interrupt was issued while its target was held inside the window (registered, state word still '
                          'active) in this run: the scenario of harness/c02_window.cpp did not reach the window', {}))
    elif not r.hits and r.dist.get('window_notify_issued_inside_window', 0) == 0:
        r.hits.append(Hit('tie', 'C02:scenario:wake_in_window',
                          'no facility notify was issued while its target was held inside the window in this run', {}))


def run(ctx):
    if ctx.replay:
        try:
            rep = json.load(open(ctx.replay)).get('replay', {})
        except Exception:
            rep = {}
        if rep.get('harness') == 'c02_window' and len(rep.get('args', [])) >= 4:
            r = base.Result()
            ctx.build_pika()
            hb = ctx.build_harness('c02_window', 'c02_window.cpp')
            window_process(ctx, r, hb, rep['args'][:4])
            return r
    r = base.run_modes(ctx, 'C02', ['c02'], 'ExtractC02.v', 'drv_c02.ml', 'c02_wake.cpp', 'c02_wake')
    if not ctx.replay:
        run_window(ctx, r)
    if not ctx.replay and r.dist.get('interrupted_in_wait', 0) == 0 and not r.hits:
        r.hits.append(base.Hit('tie', 'C02:scenario:after_interrupted_wait',
                               'no task was interrupted inside a wait (restart reason abort) in this run: the scenario '
                               'after_interrupted_wait of harness/c01_trace.cpp did not run', {}))
    if not ctx.replay and not any('reproduced=1' in n for n in r.notes):
        r.notes.append('phase-scoped wake-up witness was not reproduced in this run (timing dependent; not an alarm)')
    return r
