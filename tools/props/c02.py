# C02 — no lost wake-up: a resumed task always runs again.  Shares the scheduler model, the TRACE
# harness and the driver with C01 (tools/props/c01.py); mode `c02` of the harness races wake-ups
# against suspension under perturbation of exactly the hand-off windows and has a quiescence
# watchdog that turns a lost wake-up into a monitor hit.
import os
import sys

sys.path.insert(0, os.path.dirname(os.path.abspath(__file__)))
from props import c01 as base  # noqa: E402

ASSUMPTIONS = base.ASSUMPTIONS + [
    'a wake-up is "issued after registration" when the waker pops the waiter entry under the primitive\'s internal lock (SIssue); the guarantee is for the suspension that ends the phase in which the task registered',
    'that helper tasks and re-queued tasks are eventually scheduled is fairness of the runtime (stuck-state theorem only)',
]


def run(ctx):
    r = base.run_modes(ctx, 'C02', ['c02'], 'ExtractC02.v', 'drv_c02.ml', 'c02_wake.cpp', 'c02_wake')
    if not ctx.replay and not any('reproduced=1' in n for n in r.notes):
        r.notes.append('phase-scoped wake-up witness was not reproduced in this run (timing dependent; not an alarm)')
    return r
