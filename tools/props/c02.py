# C02 — no lost wake-up: a resumed task always runs again.  Shares the scheduler model, the TRACE
# harness and the driver with C01 (tools/props/c01.py); mode `c02` of the harness races wake-ups
# against suspension under perturbation of exactly the hand-off windows and has a quiescence
# watchdog that turns a lost wake-up into a monitor hit.
import os
import sys

sys.path.insert(0, os.path.dirname(os.path.abspath(__file__)))
from props import c01 as base  # noqa: E402

ASSUMPTIONS = base.ASSUMPTIONS + [
    'restart reasons other than `signaled` (abort = thread::interrupt of a task suspended in a semaphore / cv / mutex wait) are exercised on the real runtime only (scenario after_interrupted_wait: ledger + quiescence watchdog + "marked active, inside no worker\'s coroutine" watch; its state-word chains go through the acceptor, which compares (state, tag)); the Coq model keeps state_ex constant, which is what restore_state documents ("ignore the state_ex while compare-exchanging")',
    'a wake-up is "issued after registration" when the waker pops the waiter entry under the primitive\'s internal lock (SIssue); the guarantee is for the suspension that ends the phase in which the task registered',
    'that helper tasks and re-queued tasks are eventually scheduled is fairness of the runtime (stuck-state theorem only)',
]


def run(ctx):
    r = base.run_modes(ctx, 'C02', ['c02'], 'ExtractC02.v', 'drv_c02.ml', 'c02_wake.cpp', 'c02_wake')
    if not ctx.replay and r.dist.get('interrupted_in_wait', 0) == 0 and not r.hits:
        r.hits.append(base.Hit('tie', 'C02:scenario:after_interrupted_wait',
                               'no task was interrupted inside a wait (restart reason abort) in this run: the scenario '
                               'after_interrupted_wait of harness/c01_trace.cpp did not run', {}))
    if not ctx.replay and not any('reproduced=1' in n for n in r.notes):
        r.notes.append('phase-scoped wake-up witness was not reproduced in this run (timing dependent; not an alarm)')
    return r
