# C10 — work runs where it was sent.  PROC/TRACE on the real runtime: harness/c10_place.cpp runs
# pipelines over a default pool and pools created through the resource partitioner; monitors
# evaluate the property on the recorded placements; the extracted model (Model/Placement.v) replays
# every observed trace as an acceptor (ocaml/drv_c10.ml) and the placements are compared.
import random

from vlib import Hit, Result, diff_lines, sh

ASSUMPTIONS = [
    'which OS thread a worker is, CPU binding (C15) and std::thread itself are outside the model: std_thread_scheduler is observed only (fresh OS thread, no pika task id)',
    'PU availability (states_[w]) is constant during a run: suspending/resuming processing units is C19; select_active_pu with no PU available is approximated',
    'curr_queue_ wrap at 2^64 and the int16 cast of worker numbers > 32767 are not modelled (hypothesis W <= 32767 in static_ok)',
    'shared-priority scheduler: pool membership only (modelled as a stealing priority scheduler)',
    'bulk: which task_function (queue number k) calls f(i) is observed through hook 1103 and left to the oracle in the model (the index-queue stealing is C11); the bulk set_value is assumed to run in a pika task (asserted by the code), and the exact-worker statements assume the hypotheses of static_hint_pinned',
    'round-robin placement of unhinted submissions: the acceptor aligns the counter with unobserved traffic; exact counter values are not compared',
    'SC interleaving at the granularity of one queue operation / one try_lock; queue discipline abstract',
]

TWO64 = 1 << 64
BODY = set('EYBUZK')


def parse(out):
    pools, tasks, recs = {}, {}, []
    ins, outs, done, other = [], [], None, []
    for ln in out.split('\n'):
        if ln.startswith('REC '):
            p = ln.split(' ')
            recs.append({'seq': int(p[2]), 'kind': p[3], 'uid': int(p[4]), 'pool': int(p[5]), 'lw': int(p[6]),
                         'gw': int(p[7]), 'ptid': p[8], 'ostid': p[9], 'a': int(p[10]), 'b': int(p[11])})
        elif ln.startswith('TASK '):
            p = ln.split(' ')
            tasks[int(p[2])] = {'pool': int(p[3]), 'prio': p[4], 'hint': None if p[5] == 'x' else int(p[5]),
                                'ctxkind': int(p[6]), 'ctxid': int(p[7]), 'job': p[8], 'stage': int(p[9]),
                                'next': int(p[10]), 'prog': p[11]}
        elif ln.startswith('POOL '):
            p = ln.split(' ')
            pools[int(p[2])] = {'name': p[3], 'policy': p[4], 'W': int(p[5]), 'H': int(p[6]), 'prio': int(p[7]),
                                'steal': int(p[8]), 'elastic': int(p[9]), 'offset': int(p[10])}
        elif ln.startswith('IN '):
            ins.append(ln)
        elif ln.startswith('OUT '):
            outs.append(ln)
        elif ln.startswith('DONE '):
            done = ln
        elif ln.strip() and '[pika]' not in ln:
            other.append(ln)
    return pools, tasks, recs, ins, outs, done, other


def expected_worker(task, pool):
    """worker that the hint denotes under a static policy (None: no exact expectation)"""
    if task['hint'] is None:
        return None
    u = task['hint'] % TWO64
    if u == TWO64 - 1:
        return None
    n = u % pool['W']
    if pool['prio'] and task['prio'] == 'l':
        return None
    return n


def monitors(pools, tasks, recs, mode):
    """the property itself on the observations; returns list of (signature, detail)"""
    hits = []
    byuid = {}
    for r in recs:
        byuid.setdefault(r['uid'], []).append(r)
    yt_targets = {}
    for r in recs:
        if r['kind'] == 'K':
            yt_targets.setdefault(r['a'], r['seq'])
    worker_os = {}
    os_worker = {}
    nplace = 0
    for r in recs:
        if r['pool'] >= 0 and r['lw'] >= 0:
            k = (r['pool'], r['lw'])
            if worker_os.setdefault(k, r['ostid']) != r['ostid'] or os_worker.setdefault(r['ostid'], k) != k:
                hits.append(('C10:worker:os_thread_mapping', 'worker %s seen on OS threads %s and %s' % (k, worker_os[k], r['ostid'])))
            p = pools.get(r['pool'])
            if p is None or not (0 <= r['lw'] < p['W']) or r['gw'] != p['offset'] + r['lw']:
                hits.append(('C10:worker:numbering', 'record %s: pool/local/global worker numbers inconsistent with the pool layout' % r))
    for uid, t in tasks.items():
        rs = byuid.get(uid, [])
        if t['job'] in 'bt':
            sub = [r for r in rs if r['kind'] == 'G']
            if t['job'] == 'b':
                pool = pools[t['pool']]
                per_task = {}
                for r in rs:
                    if r['kind'] != 'F':
                        continue
                    nplace += 1
                    if r['ptid'] == '0':
                        hits.append(('C10:bulk:outside_task', 'bulk callable of uid %d index %d ran outside a pika task' % (uid, r['a'])))
                    elif r['pool'] != t['pool']:
                        hits.append(('C10:bulk:wrong_pool', 'bulk callable of uid %d index %d ran on pool %d, scheduler pool %d' % (uid, r['a'], r['pool'], t['pool'])))
                    if sub and r['ostid'] == sub[0]['ostid']:
                        hits.append(('C10:bulk:inline', 'bulk callable of uid %d ran on the submitting OS thread' % uid))
                    per_task.setdefault(r['ptid'], set()).add(r['lw'])
                if not pool['steal'] and not pool['elastic']:
                    for pt, ws in per_task.items():
                        if len(ws) > 1:
                            hits.append(('C10:bulk:static_chunk_moved', 'bulk chunk task %s of uid %d ran on workers %s of a static pool' % (pt, uid, sorted(ws))))
            else:
                for r in rs:
                    if r['kind'] != 'T':
                        continue
                    nplace += 1
                    if r['ptid'] != '0' or r['pool'] != -1:
                        hits.append(('C10:std_thread:on_pika_task', 'std_thread_scheduler work ran on a pika task (pool %d)' % r['pool']))
                    if (sub and r['ostid'] == sub[0]['ostid']) or r['ostid'] in os_worker:
                        hits.append(('C10:std_thread:not_fresh', 'std_thread_scheduler work ran on the submitting thread or on a worker thread'))
            continue
        pool = pools[t['pool']]
        body = [r for r in rs if r['kind'] in BODY]
        srec = [r for r in rs if r['kind'] == 'S']
        # pool membership, task-ness
        for r in body:
            nplace += 1
            if r['ptid'] == '0':
                hits.append(('C10:notask:ran_outside_task', 'uid %d (%s) ran outside a pika task on OS thread %s' % (uid, t['job'], r['ostid'])))
                break
            if r['pool'] != t['pool']:
                sig = 'C10:continues_on:wrong_pool' if (t['job'] == 'c' and t['stage'] > 0) else 'C10:pool:wrong_pool'
                hits.append((sig, 'uid %d (job %s stage %d) sent to pool %d (%s) ran on pool %d worker %d'
                             % (uid, t['job'], t['stage'], t['pool'], pool['name'], r['pool'], r['lw'])))
                break
        # never inside the submitting call / the predecessor's context
        if body and srec:
            e, s = body[0], srec[0]
            inline = (s['ptid'] != '0' and e['ptid'] == s['ptid']) or (s['ptid'] == '0' and e['ostid'] == s['ostid'])
            if inline:
                sig = 'C10:continues_on:same_task_as_predecessor' if (t['job'] == 'c' and t['stage'] > 0) else 'C10:inline:ran_in_submitter'
                hits.append((sig, 'uid %d (job %s stage %d) ran inside the context that submitted it (task %s, OS thread %s)'
                             % (uid, t['job'], t['stage'], s['ptid'], s['ostid'])))
        # static policies: pinned
        if not pool['steal'] and body and not (pool['prio'] and t['prio'] == 'l'):
            exp = expected_worker(t, pool)
            if exp is not None and pool['prio'] and t['prio'] == 'h':
                exp = exp % pool['H']          # initial queue of a high-priority task
            cur = exp if exp is not None else body[0]['lw']
            prev = None
            boosted = False
            for r in body:
                if r['pool'] == t['pool'] and r['lw'] != cur:
                    what = {None: 'initial', 'Y': 'after_yield', 'B': 'after_boost_yield', 'U': 'after_suspend',
                            'E': 'within_phase', 'K': 'after_yield_to'}.get(prev, 'other')
                    if pool['elastic']:
                        sig = 'C10:static_hint:elastic_divert'
                    elif uid in yt_targets and yt_targets[uid] < r['seq']:
                        sig = 'C10:static_hint:yield_to'
                    elif pool['prio'] and pool['H'] < pool['W'] and boosted:
                        sig = 'C10:static_hint:boost_hp_queues'
                    elif exp is None:
                        sig = 'C10:static_unhinted:moved:' + what
                    else:
                        sig = 'C10:static_hint:wrong_worker:' + what
                    hits.append((sig, 'uid %d on static pool %s (W=%d H=%d) hint %s prio %s: expected worker %d, %s ran on worker %d'
                                 % (uid, pool['name'], pool['W'], pool['H'], t['hint'], t['prio'], cur, what, r['lw'])))
                    break
                if r['kind'] == 'B':
                    boosted = True
                prev = r['kind']
    return hits, nplace


def parse_bulk(out):
    pools, ops, svs, fs = {}, {}, {}, []
    ins, outs, done, other = [], [], None, []
    def kv(parts):
        return dict(x.split('=', 1) for x in parts if '=' in x)
    for ln in out.split('\n'):
        p = ln.split(' ')
        if ln.startswith('POOL '):
            pools[int(p[2])] = {'name': p[3], 'policy': p[4], 'W': int(p[5]), 'H': int(p[6]), 'prio': int(p[7]),
                                'steal': int(p[8]), 'elastic': int(p[9]), 'offset': int(p[10])}
        elif ln.startswith('OP '):
            d = kv(p[3:])
            ops[int(p[2])] = d
        elif ln.startswith('SV '):
            svs[int(p[2])] = kv(p[3:])
        elif ln.startswith('F '):
            d = kv(p[3:])
            d['uid'] = int(p[2])
            fs.append(d)
        elif ln.startswith('IN '):
            ins.append(ln)
        elif ln.startswith('OUT '):
            outs.append(ln)
        elif ln.startswith('DONE '):
            done = ln
        elif ln.strip() and '[pika]' not in ln:
            other.append(ln)
    return pools, ops, svs, fs, ins, outs, done, other


def bulk_monitors(pools, ops, svs, fs):
    """C10 for bulk, evaluated on the observations only (no model): returns [(signature, detail)], #placements"""
    hits = []
    byuid = {}
    for f in fs:
        byuid.setdefault(f['uid'], []).append(f)
    for uid, o in ops.items():
        pool = pools[int(o['pool'])]
        W = pool['W']
        n = int(o['n'])
        rs = byuid.get(uid, [])
        sv = svs.get(uid)
        if o['completed'] != '1':
            hits.append(('C10:bulk:not_completed', 'bulk op %d (n=%d pred=%s) completed %s times' % (uid, n, o['pred'], o['completed'])))
        if sorted(int(r['i']) for r in rs) != list(range(n)):
            hits.append(('C10:bulk:index_set', 'bulk op %d: f called for %d indices, shape %d' % (uid, len(rs), n)))
        if sv is None:
            if rs:
                hits.append(('C10:bulk:no_set_value_record', 'bulk op %d: f ran but hook 1101 was not seen' % uid))
            continue
        if sv['pt'] == '0' or int(sv['pool']) != int(o['pool']):
            hits.append(('C10:bulk:set_value_off_pool', 'bulk op %d: set_value ran on pool %s task %s, scheduler pool %s' % (uid, sv['pool'], sv['pt'], o['pool'])))
        static = (not pool['steal']) and (not pool['elastic']) and not (pool['prio'] and o['prio'] == 'l')
        task_k = {}
        for r in rs:
            k, lw = int(r['k']), int(r['lw'])
            what = 'op %d (pool %s W=%d policy %s prio %s hint %s n=%d pred %s) f(%s) by task_function %d' % (
                uid, o['pool'], W, pool['policy'], o['prio'], o['hint'], n, o['pred'], r['i'], k)
            if r['pt'] == '0':
                hits.append(('C10:bulk:outside_task', what + ' ran outside a pika task'))
                continue
            if int(r['pool']) != int(o['pool']):
                hits.append(('C10:bulk:wrong_pool', what + ' ran on pool %s' % r['pool']))
            if (o['subpt'] == '0' and r['os'] == o['subos']) or (o['subpt'] != '0' and r['pt'] == o['subpt']):
                hits.append(('C10:bulk:inline', what + ' ran inside the context that called start'))
            if k < 0:
                hits.append(('C10:bulk:no_chunk_record', what + ': hook 1103 not seen before f'))
                continue
            if task_k.setdefault(r['pt'], k) != k:
                hits.append(('C10:bulk:task_two_queues', what + ': the same task also ran task_function %d' % task_k[r['pt']]))
            local = r['pt'] == sv['pt']
            if local != (k == int(sv['lw'])):
                hits.append(('C10:bulk:local_part_mismatch', what + ': local worker of set_value %s, same task as set_value: %s' % (sv['lw'], local)))
            if not (0 <= k < W):
                hits.append(('C10:bulk:queue_out_of_range', what))
            if static:
                if local:
                    exp = int(sv['lw'])
                elif o['hint'] == 'x':
                    exp = k
                else:
                    u = int(o['hint']) % TWO64
                    exp = None if u == TWO64 - 1 else u % W
                if exp is not None and lw != exp:
                    hits.append(('C10:bulk:static_wrong_worker:' + ('local' if local else 'spawned'),
                                 what + ' ran on worker %d of a static pool, expected worker %d' % (lw, exp)))
    return hits, len(fs)


def run(ctx):
    r = Result()
    r.rule = ('PROC/TRACE: each case starts the real runtime with a default pool and 1-2 resource-partitioner pools (policies and '
              'sizes from VERIF_SEED), two OS threads plus tasks submit execute/schedule/transfer_just/continues_on/bulk/'
              'std_thread jobs whose callables yield, boost-yield, suspend (semaphore, mutex) and spawn children; every callable '
              'records pool, local/global worker, task id, OS thread id in every phase; monitors check inline/pool/static-hint '
              'placement; the extracted model replays the trace as an acceptor; non-trivial = a case with a static pool, hinted '
              'tasks and at least one suspension or yield; plus the scenarios (E6 elastic, yield_to, boost with H<W, shared-priority with an out-of-range hint 30000+i (sphint) / -1 (sphintneg), '
              'firstsusp: several hundred tasks of a static pool whose very first action is a contended pika::mutex, the unlocking tasks being the wakers, with '
              'hook 205 keeping a waiter active after it enqueued itself and hook 1001 holding the retry helper between its read of the last worker and its retry; '
              'firstsuspsp: the same with a shared-priority default pool, where a wake-up carrying hint -1 used to crash the scheduler); '
              'bulk cases (harness/c10_bulk.cpp): bulk on pool A (two thirds static policies, W 1-5) after schedule/then/transfer_just/continues_on/bulk predecessors, '
              'hints and priorities, started from OS threads and tasks; every f(i) records the calling task_function (hook 1103), pool and worker; monitors + the extracted '
              'acceptor bulk_allowed; non-trivial = a static bulk pool with at least one call from a spawned worker task')
    ctx.build_pika()
    drv = ctx.build_model('C10', 'ExtractC10.v', 'drv_c10.ml')
    h = ctx.build_harness('c10_place', 'c10_place.cpp')
    hb = ctx.build_harness('c10_bulk', 'c10_bulk.cpp')
    rng = random.Random(ctx.seed)
    if ctx.tier == 'quick':
        ncases, njobs = 48, 24
        scen = [('e6', 2500), ('e6', 2500), ('yieldto', 100), ('yieldto', 100), ('yieldto', 100), ('boost', 12), ('sphint', 3), ('sphintneg', 3),
                ('firstsusp', 400)] + [('firstsusp', 400)] * 4 + [('firstsuspsp', 400)] * 3
    else:
        ncases, njobs = 800, 40
        scen = [('e6', 3000), ('yieldto', 100), ('boost', 24)] * 4 + [('sphint', 3), ('sphintneg', 3)] + [('firstsusp', 400)] * 12 + [('firstsuspsp', 400)] * 30
    cases = [('rand', njobs)] * ncases + scen
    base = rng.randrange(1, 1 << 30)
    all_in, all_out = [], []
    inmap = {}
    for ci, (mode, n) in enumerate(cases):
        args = [h, str(base), str(ci), mode, str(n)]
        rc, out = sh(args, timeout=120)
        pools, tasks, recs, ins, outs, done, other = parse(out)
        replay = {'harness': 'c10_place', 'args': args[1:]}
        if 'TIEFAIL' in out:
            r.hits.append(Hit('tie', 'C10:harness', 'harness could not set up the pools: %s' % out[-400:], replay))
            continue
        if rc != 0 or done is None or 'completed=1' not in done:
            # a hang / crash of the real runtime is a failure of the property's run: report it with the replay
            # sphint / sphintneg: the user passes the out-of-range hint (known finding).  firstsuspsp: shared-priority default
            # pool, every hint in range - a crash there means a WAKE-UP carried an invalid hint again (the route closed by
            # recording the worker at the start of every phase): reported, not known
            sig = 'C10:shared_priority:hint_out_of_range' if mode in ('sphint', 'sphintneg') else 'C10:run:hang_or_crash'
            r.hits.append(Hit('monitor', sig,
                              'runtime hung or crashed in case %d (%s): rc=%d %s %s' % (ci, mode, rc, done, ' | '.join(other)[-400:]), replay))
        mh, nplace = monitors(pools, tasks, recs, mode)
        r.evaluations += nplace
        seen = set()
        for sig, detail in mh:
            if sig in seen:
                continue
            seen.add(sig)
            rp = dict(replay)
            rp['pools'] = pools
            r.hits.append(Hit('monitor', sig, 'case %d (%s): %s' % (ci, mode, detail), rp))
        for p in pools.values():
            r.count('policy=' + p['policy'])
            r.count('poolsize=%d' % p['W'])
        r.count('mode=' + mode)
        for t in tasks.values():
            r.count('job=' + t['job'])
        nstatic = [u for u, t in tasks.items() if t['job'] not in 'bt' and not pools[t['pool']]['steal'] and t['hint'] is not None]
        if nstatic and any(x['kind'] in 'YU' for x in recs):
            r.nontrivial('case %d %s %s' % (base, ci, mode))
        all_in += ins
        all_out += outs
        for x in ins:
            p = x.split(' ')
            inmap[(p[1], p[2])] = {'args': args[1:], 'in': x[:3000]}
        if ci < 2:
            r.sample({'args': args[1:], 'pools': pools, 'ntasks': len(tasks), 'nrecords': len(recs), 'out': (outs[0][:400] if outs else '')})
    # ---- bulk placement (Model/BulkPlacement.v): monitors + the extracted acceptor bulk_allowed
    nb, nbops = (14, 24) if ctx.tier == 'quick' else (160, 40)
    for ci in range(nb):
        args = [hb, str(base), str(ci), str(nbops)]
        rc, out = sh(args, timeout=120)
        pools, ops, svs, fs, ins, outs, done, other = parse_bulk(out)
        replay = {'harness': 'c10_bulk', 'args': args[1:]}
        if 'TIEFAIL' in out:
            r.hits.append(Hit('tie', 'C10:harness', 'bulk harness could not set up the pools: %s' % out[-400:], replay))
            continue
        if rc != 0 or done is None or 'completed=1' not in done:
            r.hits.append(Hit('monitor', 'C10:bulk:hang_or_crash',
                              'runtime hung or crashed in bulk case %d: rc=%d %s %s' % (ci, rc, done, ' | '.join(other)[-400:]), replay))
        mh, nplace = bulk_monitors(pools, ops, svs, fs)
        r.evaluations += nplace
        seen = set()
        for sig, detail in mh:
            if sig in seen:
                continue
            seen.add(sig)
            rp = dict(replay)
            rp['pools'] = pools
            r.hits.append(Hit('monitor', sig, 'bulk case %d: %s' % (ci, detail), rp))
        r.count('mode=bulk')
        if len(pools) > 1:
            r.count('bulkpolicy=' + pools[1]['policy'])
            r.count('bulkW=%d' % pools[1]['W'])
        for o in ops.values():
            r.count('bulkpred=' + o['pred'])
            r.count('bulkhint=' + ('none' if o['hint'] == 'x' else 'given'))
        if len(pools) > 1 and not pools[1]['steal'] and any(int(f['k']) != int(svs[f['uid']]['lw']) for f in fs if f['uid'] in svs):
            r.nontrivial('bulk case %d %s' % (base, ci))
        all_in += ins
        all_out += outs
        for x in ins:
            p = x.split(' ')
            inmap[(p[1], p[2])] = {'args': args[1:], 'in': x[:3000]}
        if ci < 1:
            r.sample({'args': args[1:], 'pools': pools, 'nops': len(ops), 'ncalls': len(fs), 'out': (outs[0][:400] if outs else '')})
    rc2, mout = sh([drv], input='\n'.join(all_in) + '\n', timeout=1800)
    mouts = [x for x in mout.split('\n') if x.startswith('OUT ')]
    notes = [x for x in mout.split('\n') if x.startswith('NOTE ')]
    if rc2 != 0:
        r.hits.append(Hit('tie', 'C10:driver', 'model driver failed rc=%d: %s' % (rc2, mout[-500:]), {}))
    diffs, ncmp = diff_lines(ctx, all_out, mouts)
    r.traces += ncmp
    for (k, a, b) in diffs[:20]:
        why = [x for x in notes if x.split(' ')[2] == k[1]][:3]
        if k[0] == 'BULK':
            r.hits.append(Hit('corr', 'C10:bulk:correspondence',
                              'observed (task_function, pool, worker) of a bulk call is not admitted by the model (op %s): impl [%s] model [%s]'
                              % (k[1], a[:300], b[:400]),
                              {'harness': 'c10_bulk', 'case': inmap.get(k), 'impl': a, 'model': b}))
            continue
        r.hits.append(Hit('corr', 'C10:placement:correspondence',
                          'observed placement is not one the model admits (case %s): %s; impl [%s] model [%s]'
                          % (k[1], ' / '.join(why), a[:300], b[:300]),
                          {'harness': 'c10_place', 'case': inmap.get(k), 'impl': a, 'model': b, 'notes': why}))
    r.extra['level_note'] = 'partial: OS-thread identity of workers and std::thread are observed only'
    return r
