# C10 — work runs where it was sent.  PROC/TRACE on the real runtime: harness/c10_place.cpp runs
# pipelines over a default pool and pools created through the resource partitioner; monitors
# evaluate the property on the recorded placements; the extracted model (Model/Placement.v) replays
# every observed trace as an acceptor (ocaml/drv_c10.ml) and the placements are compared.
import random

from vlib import Hit, Result, diff_lines, sh

ASSUMPTIONS = [
    'priority resolution: the step list of create_work/create_thread is regenerated (order, tested and assigned constants); the priority -> queue family map of local_priority_queue_scheduler::create_thread (placement_prio) is transcribed by hand and anchored by the source skeleton; the parent priority is the STORED one (boost parents are stored as normal)',
    'which OS thread a worker is, CPU binding (C15) and std::thread itself are outside the model: std_thread_scheduler is observed only (fresh OS thread, no pika task id)',
    'PU availability (states_[w]) is constant during a run: suspending/resuming processing units is C19; select_active_pu with no PU available is approximated',
    'curr_queue_ wrap at 2^64 and the int16 cast of worker numbers > 32767 are not modelled (hypothesis W <= 32767 in static_ok)',
    'shared-priority scheduler: pool membership only (modelled as a stealing priority scheduler)',
    'bulk: which task_function (queue number k) calls f(i) is observed through hook 1103 and left to the oracle in the model (the index-queue stealing is C11); the bulk set_value is assumed to run in a pika task (asserted by the code), and the exact-worker statements assume the hypotheses of static_hint_pinned',
    'round-robin placement of unhinted submissions: the acceptor aligns the counter with unobserved traffic; exact counter values are not compared',
    'SC interleaving at the granularity of one queue operation / one try_lock; queue discipline abstract',
]

TWO64 = 1 << 64
BODY = set('EYBUZK')


def parse(out):
    pools, tasks, recs = {}, {}, []
    ins, outs, done, other = [], [], None, []
    for ln in out.split('\n'):
        if ln.startswith('REC '):
            p = ln.split(' ')
            recs.append({'seq': int(p[2]), 'kind': p[3], 'uid': int(p[4]), 'pool': int(p[5]), 'lw': int(p[6]),
                         'gw': int(p[7]), 'ptid': p[8], 'ostid': p[9], 'a': int(p[10]), 'b': int(p[11])})
        elif ln.startswith('TASK '):
            p = ln.split(' ')
            tasks[int(p[2])] = {'pool': int(p[3]), 'prio': p[4], 'hint': None if p[5] == 'x' else int(p[5]),
                                'ctxkind': int(p[6]), 'ctxid': int(p[7]), 'job': p[8], 'stage': int(p[9]),
                                'next': int(p[10]), 'prog': p[11]}
        elif ln.startswith('POOL '):
            p = ln.split(' ')
            pools[int(p[2])] = {'name': p[3], 'policy': p[4], 'W': int(p[5]), 'H': int(p[6]), 'prio': int(p[7]),
                                'steal': int(p[8]), 'elastic': int(p[9]), 'offset': int(p[10])}
        elif ln.startswith('IN '):
            ins.append(ln)
        elif ln.startswith('OUT '):
            outs.append(ln)
        elif ln.startswith('DONE '):
            done = ln
        elif ln.strip() and '[pika]' not in ln:
            other.append(ln)
    return pools, tasks, recs, ins, outs, done, other


def expected_worker(task, pool):
    """worker that the hint denotes under a static policy (None: no exact expectation)"""
    if task['hint'] is None:
        return None
    u = task['hint'] % TWO64
    if u == TWO64 - 1:
        return None
    n = u % pool['W']
    if pool['prio'] and task['prio'] == 'l':
        return None
    return n


def monitors(pools, tasks, recs, mode):
    """the property itself on the observations; returns list of (signature, detail)"""
    hits = []
    byuid = {}
    for r in recs:
        byuid.setdefault(r['uid'], []).append(r)
    yt_targets = {}
    for r in recs:
        if r['kind'] == 'K':
            yt_targets.setdefault(r['a'], r['seq'])
    worker_os = {}
    os_worker = {}
    nplace = 0
    for r in recs:
        if r['pool'] >= 0 and r['lw'] >= 0:
            k = (r['pool'], r['lw'])
            if worker_os.setdefault(k, r['ostid']) != r['ostid'] or os_worker.setdefault(r['ostid'], k) != k:
                hits.append(('C10:worker:os_thread_mapping', 'worker %s seen on OS threads %s and %s' % (k, worker_os[k], r['ostid'])))
            p = pools.get(r['pool'])
            if p is None or not (0 <= r['lw'] < p['W']) or r['gw'] != p['offset'] + r['lw']:
                hits.append(('C10:worker:numbering', 'record %s: pool/local/global worker numbers inconsistent with the pool layout' % r))
    for uid, t in tasks.items():
        rs = byuid.get(uid, [])
        if t['job'] in 'bt':
            sub = [r for r in rs if r['kind'] == 'G']
            if t['job'] == 'b':
                pool = pools[t['pool']]
                per_task = {}
                for r in rs:
                    if r['kind'] != 'F':
                        continue
                    nplace += 1
                    if r['ptid'] == '0':
                        hits.append(('C10:bulk:outside_task', 'bulk callable of uid %d index %d ran outside a pika task' % (uid, r['a'])))
                    elif r['pool'] != t['pool']:
                        hits.append(('C10:bulk:wrong_pool', 'bulk callable of uid %d index %d ran on pool %d, scheduler pool %d' % (uid, r['a'], r['pool'], t['pool'])))
                    if sub and r['ostid'] == sub[0]['ostid']:
                        hits.append(('C10:bulk:inline', 'bulk callable of uid %d ran on the submitting OS thread' % uid))
                    per_task.setdefault(r['ptid'], set()).add(r['lw'])
                if not pool['steal'] and not pool['elastic']:
                    for pt, ws in per_task.items():
                        if len(ws) > 1:
                            hits.append(('C10:bulk:static_chunk_moved', 'bulk chunk task %s of uid %d ran on workers %s of a static pool' % (pt, uid, sorted(ws))))
            else:
                for r in rs:
                    if r['kind'] != 'T':
                        continue
                    nplace += 1
                    if r['ptid'] != '0' or r['pool'] != -1:
                        hits.append(('C10:std_thread:on_pika_task', 'std_thread_scheduler work ran on a pika task (pool %d)' % r['pool']))
                    if (sub and r['ostid'] == sub[0]['ostid']) or r['ostid'] in os_worker:
                        hits.append(('C10:std_thread:not_fresh', 'std_thread_scheduler work ran on the submitting thread or on a worker thread'))
            continue
        pool = pools[t['pool']]
        body = [r for r in rs if r['kind'] in BODY]
        srec = [r for r in rs if r['kind'] == 'S']
        # pool membership, task-ness
        for r in body:
            nplace += 1
            if r['ptid'] == '0':
                hits.append(('C10:notask:ran_outside_task', 'uid %d (%s) ran outside a pika task on OS thread %s' % (uid, t['job'], r['ostid'])))
                break
            if r['pool'] != t['pool']:
                sig = 'C10:continues_on:wrong_pool' if (t['job'] == 'c' and t['stage'] > 0) else 'C10:pool:wrong_pool'
                hits.append((sig, 'uid %d (job %s stage %d) sent to pool %d (%s) ran on pool %d worker %d'
                             % (uid, t['job'], t['stage'], t['pool'], pool['name'], r['pool'], r['lw'])))
                break
        # never inside the submitting call / the predecessor's context
        if body and srec:
            e, s = body[0], srec[0]
            inline = (s['ptid'] != '0' and e['ptid'] == s['ptid']) or (s['ptid'] == '0' and e['ostid'] == s['ostid'])
            if inline:
                sig = 'C10:continues_on:same_task_as_predecessor' if (t['job'] == 'c' and t['stage'] > 0) else 'C10:inline:ran_in_submitter'
                hits.append((sig, 'uid %d (job %s stage %d) ran inside the context that submitted it (task %s, OS thread %s)'
                             % (uid, t['job'], t['stage'], s['ptid'], s['ostid'])))
        # static policies: pinned
        if not pool['steal'] and body and not (pool['prio'] and t['prio'] == 'l'):
            exp = expected_worker(t, pool)
            if exp is not None and pool['prio'] and t['prio'] == 'h':
                exp = exp % pool['H']          # initial queue of a high-priority task
            cur = exp if exp is not None else body[0]['lw']
            prev = None
            boosted = False
            for r in body:
                if r['pool'] == t['pool'] and r['lw'] != cur:
                    what = {None: 'initial', 'Y': 'after_yield', 'B': 'after_boost_yield', 'U': 'after_suspend',
                            'E': 'within_phase', 'K': 'after_yield_to'}.get(prev, 'other')
                    if pool['elastic']:
                        sig = 'C10:static_hint:elastic_divert'
                    elif uid in yt_targets and yt_targets[uid] < r['seq']:
                        sig = 'C10:static_hint:yield_to'
                    elif pool['prio'] and pool['H'] < pool['W'] and boosted:
                        sig = 'C10:static_hint:boost_hp_queues'
                    elif exp is None:
                        sig = 'C10:static_unhinted:moved:' + what
                    else:
                        sig = 'C10:static_hint:wrong_worker:' + what
                    hits.append((sig, 'uid %d on static pool %s (W=%d H=%d) hint %s prio %s: expected worker %d, %s ran on worker %d'
                                 % (uid, pool['name'], pool['W'], pool['H'], t['hint'], t['prio'], cur, what, r['lw'])))
                    break
                if r['kind'] == 'B':
                    boosted = True
                prev = r['kind']
    return hits, nplace


def parse_bulk(out):
    pools, ops, svs, fs = {}, {}, {}, []
    ins, outs, done, other = [], [], None, []
    def kv(parts):
        return dict(x.split('=', 1) for x in parts if '=' in x)
    for ln in out.split('\n'):
        p = ln.split(' ')
        if ln.startswith('POOL '):
            pools[int(p[2])] = {'name': p[3], 'policy': p[4], 'W': int(p[5]), 'H': int(p[6]), 'prio': int(p[7]),
                                'steal': int(p[8]), 'elastic': int(p[9]), 'offset': int(p[10])}
        elif ln.startswith('OP '):
            d = kv(p[3:])
            ops[int(p[2])] = d
        elif ln.startswith('SV '):
            svs[int(p[2])] = kv(p[3:])
        elif ln.startswith('F '):
            d = kv(p[3:])
            d['uid'] = int(p[2])
            fs.append(d)
        elif ln.startswith('IN '):
            ins.append(ln)
        elif ln.startswith('OUT '):
            outs.append(ln)
        elif ln.startswith('DONE '):
            done = ln
        elif ln.strip() and '[pika]' not in ln:
            other.append(ln)
    return pools, ops, svs, fs, ins, outs, done, other


def bulk_monitors(pools, ops, svs, fs):
    """C10 for bulk, evaluated on the observations only (no model): returns [(signature, detail)], #placements"""
    hits = []
    byuid = {}
    for f in fs:
        byuid.setdefault(f['uid'], []).append(f)
    for uid, o in ops.items():
        pool = pools[int(o['pool'])]
        W = pool['W']
        n = int(o['n'])
        rs = byuid.get(uid, [])
        sv = svs.get(uid)
        if o['completed'] != '1':
            hits.append(('C10:bulk:not_completed', 'bulk op %d (n=%d pred=%s) completed %s times' % (uid, n, o['pred'], o['completed'])))
        if sorted(int(r['i']) for r in rs) != list(range(n)):
            hits.append(('C10:bulk:index_set', 'bulk op %d: f called for %d indices, shape %d' % (uid, len(rs), n)))
        if sv is None:
            if rs:
                hits.append(('C10:bulk:no_set_value_record', 'bulk op %d: f ran but hook 1101 was not seen' % uid))
            continue
        if sv['pt'] == '0' or int(sv['pool']) != int(o['pool']):
            hits.append(('C10:bulk:set_value_off_pool', 'bulk op %d: set_value ran on pool %s task %s, scheduler pool %s' % (uid, sv['pool'], sv['pt'], o['pool'])))
        static = (not pool['steal']) and (not pool['elastic']) and not (pool['prio'] and o['prio'] == 'l')
        task_k = {}
        for r in rs:
            k, lw = int(r['k']), int(r['lw'])
            what = 'op %d (pool %s W=%d policy %s prio %s hint %s n=%d pred %s) f(%s) by task_function %d' % (
                uid, o['pool'], W, pool['policy'], o['prio'], o['hint'], n, o['pred'], r['i'], k)
            if r['pt'] == '0':
                hits.append(('C10:bulk:outside_task', what + ' ran outside a pika task'))
                continue
            if int(r['pool']) != int(o['pool']):
                hits.append(('C10:bulk:wrong_pool', what + ' ran on pool %s' % r['pool']))
            if (o['subpt'] == '0' and r['os'] == o['subos']) or (o['subpt'] != '0' and r['pt'] == o['subpt']):
                hits.append(('C10:bulk:inline', what + ' ran inside the context that called start'))
            if k < 0:
                hits.append(('C10:bulk:no_chunk_record', what + ': hook 1103 not seen before f'))
                continue
            if task_k.setdefault(r['pt'], k) != k:
                hits.append(('C10:bulk:task_two_queues', what + ': the same task also ran task_function %d' % task_k[r['pt']]))
            local = r['pt'] == sv['pt']
            if local != (k == int(sv['lw'])):
                hits.append(('C10:bulk:local_part_mismatch', what + ': local worker of set_value %s, same task as set_value: %s' % (sv['lw'], local)))
            if not (0 <= k < W):
                hits.append(('C10:bulk:queue_out_of_range', what))
            if static:
                if local:
                    exp = int(sv['lw'])
                elif o['hint'] == 'x':
                    exp = k
                else:
                    u = int(o['hint']) % TWO64
                    exp = None if u == TWO64 - 1 else u % W
                if exp is not None and lw != exp:
                    hits.append(('C10:bulk:static_wrong_worker:' + ('local' if local else 'spawned'),
                                 what + ' ran on worker %d of a static pool, expected worker %d' % (lw, exp)))
    return hits, len(fs)


# ---------------------------------------------------------------- priority resolution (Model/Priority.v, harness/c10_prio.cpp)
def parse_prio(out):
    pool, parents, children, ins, outs, done, other = None, {}, [], [], [], None, []
    for ln in out.split('\n'):
        p = ln.split(' ')
        if ln.startswith('POOL A '):
            d = dict(x.split('=', 1) for x in p[3:])
            pool = {'policy': p[2], 'W': int(d['W']), 'H': int(d['H']), 'prio': int(d['prio']), 'steal': int(d['steal']),
                    'poolnum': int(d['poolnum'])}
        elif ln.startswith('PAR '):
            d = dict(x.split('=', 1) for x in p[2:])
            parents[int(p[1])] = d
        elif ln.startswith('CH '):
            d = dict(x.split('=', 1) for x in p[2:] if '=' in x)
            d['id'] = int(p[1])
            d['phases'] = [tuple(int(y) for y in x.split(':')) for x in d.get('ph', '').split(',') if x]
            children.append(d)
        elif ln.startswith('IN '):
            ins.append(ln)
        elif ln.startswith('OUT '):
            outs.append(ln)
        elif ln.startswith('DONE '):
            done = ln
        elif ln.strip() and '[pika]' not in ln:
            other.append(ln)
    return pool, parents, children, ins, outs, done, other


def prio_monitors(pool, children, PV, PN):
    """the property on the observations of c10_prio (no model): [(signature, detail)], #placements.
    PV: name -> numeric thread_priority, PN: numeric -> name (from the enum in the source)"""
    hits = []
    nplace = 0
    worker_os, os_worker = {}, {}
    W, H = pool['W'], pool['H']
    for c in children:
        if c['done'] != '1':
            continue
        req, eff, hint = int(c['req']), int(c['eff']), int(c['hint'])
        parent = None if c['pkind'] == 'X' else int(c['pobs'])
        who = 'child %d (requested %s, hint %d, route %s) of %s on %s W=%d H=%d' % (
            c['id'], PN.get(req, req), hint, 'create_thread' if c['route'] == '1' else 'create_work',
            'a non-pika OS thread' if parent is None else 'a %s parent (pool %s)' % (PN.get(parent, parent), c['pkind']),
            pool['policy'], W, H)
        inherits = parent is not None and parent == PV['high_recursive']
        # 1. the priority itself
        if req != PV['default_']:
            if eff != req:
                hits.append(('C10:priority:explicit_not_kept', who + ' runs with priority %s' % PN.get(eff, eff)))
        else:
            exp = PV['high_recursive'] if inherits else PV['normal']
            if eff != exp:
                hits.append(('C10:priority:default_resolution', who + ' runs with priority %s, expected %s' % (PN.get(eff, eff), PN[exp])))
        # 2. pool membership, worker identity
        for (pl, lw, os_) in c['phases']:
            nplace += 1
            if pl != pool['poolnum']:
                hits.append(('C10:pool:wrong_pool', who + ' ran on pool %d' % pl))
                break
            k = (pl, lw)
            if worker_os.setdefault(k, os_) != os_ or os_worker.setdefault(os_, k) != k:
                hits.append(('C10:worker:os_thread_mapping', 'worker %s seen on OS threads %s and %s' % (k, worker_os[k], os_)))
        # 3. static policies: every phase on the worker the hint denotes for the REQUESTED class
        if not pool['steal']:
            if req == PV['normal'] or (req == PV['default_'] and not inherits):
                exp, cls = hint, ('explicit_normal_child' if req == PV['normal'] else 'default_child')
            elif req == PV['low']:
                exp, cls = (None if pool['prio'] else hint), 'low_child'
            else:
                # high, or default_ under a high_recursive parent (high_recursive): high-priority queue hint mod H;
                # with H < W that is another worker's queue - the documented behaviour behind the known finding
                # boost_hp_queues, allowed here and not re-reported
                exp, cls = ((hint % H) if pool['prio'] else hint), 'high_child'
            if exp is not None:
                for i, (pl, lw, os_) in enumerate(c['phases']):
                    if lw != exp:
                        hits.append(('C10:static_hint:wrong_worker:' + cls,
                                     who + ': phase %d ran on worker %d, expected worker %d (phases on workers %s)'
                                     % (i, lw, exp, [x[1] for x in c['phases']])))
                        break
    return hits, nplace


def run_prio(ctx, r, drv, rng):
    from genmods import c10 as gen_c10
    order, PV = gen_c10.parse_enum()
    PN = dict((v, k) for k, v in PV.items())
    hp = ctx.build_harness('c10_prio', 'c10_prio.cpp')
    cfgs = [('static-priority', 4, 1), ('static-priority', 4, 2), ('static-priority', 4, 4), ('static-priority', 3, 1),
            ('static-priority', 2, 1), ('static', 3, 1), ('local-priority-fifo', 4, 2), ('abp-priority-fifo', 3, 1)]
    if ctx.tier != 'quick':
        cfgs = cfgs * 6 + [('static-priority', 3, 2), ('static-priority', 3, 3), ('static-priority', 2, 2), ('static', 4, 2),
                           ('local-priority-lifo', 3, 1), ('local-priority-fifo', 2, 1)] * 4
    all_in, all_out, cases = [], [], {}
    pq_expect = {}
    for (pol, W, H) in cfgs:
        sd = rng.randrange(1, 1 << 30)
        args = [hp, str(sd), pol, str(W), str(H)]
        rc, out = sh(args, timeout=180)
        pool, parents, children, ins, outs, done, other = parse_prio(out)
        replay = {'harness': 'c10_prio', 'args': args[1:]}
        if 'TIEFAIL' in out or pool is None:
            r.hits.append(Hit('tie', 'C10:harness', 'c10_prio could not set up the pools: %s' % out[-400:], replay))
            continue
        if rc != 0 or done is None or 'completed=1' not in done:
            r.hits.append(Hit('monitor', 'C10:priority:hang_or_crash',
                              'runtime hung or crashed in c10_prio %s: rc=%d %s %s' % (args[1:], rc, done, ' | '.join(other)[-400:]), replay))
        mh, nplace = prio_monitors(pool, children, PV, PN)
        r.evaluations += nplace
        seen = set()
        for sig, detail in mh:
            if sig in seen:
                continue
            seen.add(sig)
            r.hits.append(Hit('monitor', sig, 'c10_prio %s: %s' % (' '.join(args[1:]), detail), dict(replay, pool=pool)))
        r.count('mode=prio')
        r.count('priopolicy=%s' % pol)
        r.count('prioWH=%d/%d' % (W, H))
        for c in children:
            r.count('prioparent=%s' % ('ext' if c['pkind'] == 'X' else PN.get(int(c['pobs']), c['pobs'])))
            r.count('prioreq=%s' % PN.get(int(c['req']), c['req']))
        if not pool['steal'] and pool['prio'] and H < W and any(
                c['pkind'] != 'X' and int(c['pobs']) == PV['high_recursive'] and int(c['req']) == PV['normal'] and int(c['hint']) >= H
                for c in children if c['done'] == '1'):
            r.nontrivial('prio %s %d %d %d' % (pol, W, H, sd))
        all_in += ins
        all_out += outs
        tag = '%s-%d-%d-%d' % (pol, W, H, sd)
        for c in children:
            cid = '%s.%d' % (tag, c['id'])
            cases[cid] = (args[1:], c, pool)
            # queue prediction of the model for the static policies (first-phase worker = index of the queue)
            if c['done'] == '1' and not pool['steal'] and c['phases']:
                par = 'x' if c['pkind'] == 'X' else c['pobs']
                all_in.append('IN PQ %s W=%d H=%d prio=%d parent=%s req=%s hint=%s' % (cid, W, H, pool['prio'], par, c['req'], c['hint']))
                pq_expect[cid] = c['phases'][0][1]
        if len(r.samples) < 4:
            r.sample({'args': args[1:], 'pool': pool, 'children': len(children), 'first': (outs[0] if outs else '')})
    rc2, mout = sh([drv], input='\n'.join(all_in) + '\n', timeout=600)
    if rc2 != 0:
        r.hits.append(Hit('tie', 'C10:driver', 'model driver failed on the priority cases rc=%d: %s' % (rc2, mout[-500:]), {}))
    mouts = [x for x in mout.split('\n') if x.startswith('OUT PRIO ')]
    # the property's monitor on the MODEL (its regenerated step list), over every (parent, requested, route) that was run
    seenm = set()
    for ln in mouts:
        p = ln.split(' ')
        if p[2] not in cases or not p[3].lstrip('-').isdigit():
            continue
        a, c, pool = cases[p[2]]
        req, meff = int(c['req']), int(p[3])
        parent = None if c['pkind'] == 'X' else int(c['pobs'])
        desc = 'requested %s, parent %s, route %s' % (PN.get(req, req), 'none' if parent is None else PN.get(parent, parent),
                                                     'create_thread' if c['route'] == '1' else 'create_work')
        sig = None
        if req != PV['default_'] and meff != req:
            sig = 'C10:priority:model:explicit_not_kept'
        elif req == PV['default_'] and meff != (PV['high_recursive'] if parent == PV['high_recursive'] else PV['normal']):
            sig = 'C10:priority:model:default_resolution'
        if sig and (sig, desc) not in seenm:
            seenm.add((sig, desc))
            r.hits.append(Hit('model', sig, 'resolve_priority of the regenerated step list gives %s for (%s)' % (PN.get(meff, meff), desc),
                              {'harness': 'c10_prio', 'args': a, 'in': 'IN PRIO %s' % p[2], 'model': ln}))
    diffs, ncmp = diff_lines(ctx, all_out, mouts)
    r.traces += ncmp
    for (k, a, b) in diffs[:10]:
        a0, c, pool = cases.get(k[1], (None, {}, None))
        r.hits.append(Hit('corr', 'C10:priority:correspondence',
                          'stored priority of a new task differs from resolve_priority (case %s: parent %s requested %s route %s): impl [%s] model [%s]'
                          % (k[1], c.get('pobs'), c.get('req'), c.get('route'), a[:200], b[:200]),
                          {'harness': 'c10_prio', 'args': a0, 'impl': a, 'model': b}))
    nq = 0
    for ln in mout.split('\n'):
        if not ln.startswith('OUT PQ '):
            continue
        p = ln.split(' ')
        if p[2] not in pq_expect:
            continue
        q = p[3]
        if q == 'L':
            continue
        nq += 1
        idx = q.split(':')[1]
        if not idx.isdigit() or int(idx) != pq_expect[p[2]]:
            a0, c, pool = cases[p[2]]
            if nq <= 400 and sum(1 for h in r.hits if h.signature == 'C10:priority:queue_correspondence') < 5:
                r.hits.append(Hit('corr', 'C10:priority:queue_correspondence',
                                  'first phase of child %s (parent %s requested %s hint %s) ran on worker %d, model queue %s'
                                  % (p[2], c.get('pobs'), c.get('req'), c.get('hint'), pq_expect[p[2]], q),
                                  {'harness': 'c10_prio', 'args': a0, 'model': ln}))
    r.traces += nq
    r.extra['priority_cases'] = {'processes': len(cfgs), 'children': len(cases), 'queue_predictions_compared': nq}


def run(ctx):
    r = Result()
    r.rule = ('PROC/TRACE: each case starts the real runtime with a default pool and 1-2 resource-partitioner pools (policies and '
              'sizes from VERIF_SEED), two OS threads plus tasks submit execute/schedule/transfer_just/continues_on/bulk/'
              'std_thread jobs whose callables yield, boost-yield, suspend (semaphore, mutex) and spawn children; every callable '
              'records pool, local/global worker, task id, OS thread id in every phase; monitors check inline/pool/static-hint '
              'placement; the extracted model replays the trace as an acceptor; non-trivial = a case with a static pool, hinted '
              'tasks and at least one suspension or yield; plus the scenarios (E6 elastic, yield_to, boost with H<W, shared-priority with an out-of-range hint 30000+i (sphint) / -1 (sphintneg), '
              'firstsusp: several hundred tasks of a static pool whose very first action is a contended pika::mutex, the unlocking tasks being the wakers, with '
              'hook 205 keeping a waiter active after it enqueued itself and hook 1001 holding the retry helper between its read of the last worker and its retry; '
              'firstsuspsp: the same with a shared-priority default pool, where a wake-up carrying hint -1 used to crash the scheduler); '
              'bulk cases (harness/c10_bulk.cpp): bulk on pool A (two thirds static policies, W 1-5) after schedule/then/transfer_just/continues_on/bulk predecessors, '
              'hints and priorities, started from OS threads and tasks; every f(i) records the calling task_function (hook 1103), pool and worker; monitors + the extracted '
              'acceptor bulk_allowed; non-trivial = a static bulk pool with at least one call from a spawned worker task; '
              'priority cases (harness/c10_prio.cpp): pool A (static-priority W 2-4 with H in {1,2,W} high-priority queues, static, two stealing priority policies) behind a default pool; '
              'parents of every priority (low, normal, high, high_recursive, boost) on A, high_recursive/normal parents on the default pool and a non-pika OS thread submit children with requested '
              'priority default_/normal/high/low x every hint x route create_work/create_thread, 3-4 phases each; monitors: explicit priority kept, default_ inherits only high_recursive, '
              'static policy: explicit normal child on its hinted worker in every phase, high-priority class on worker hint mod H; stored priority compared with the extracted resolve_priority '
              '(regenerated step order), first-phase worker compared with the extracted child_queue; non-trivial = static-priority with H < W, high_recursive parent, explicit normal child, hint >= H')
    ctx.build_pika()
    drv = ctx.build_model('C10', 'ExtractC10.v', 'drv_c10.ml')
    h = ctx.build_harness('c10_place', 'c10_place.cpp')
    hb = ctx.build_harness('c10_bulk', 'c10_bulk.cpp')
    rng = random.Random(ctx.seed)
    if ctx.tier == 'quick':
        ncases, njobs = 48, 24
        scen = [('e6', 2500), ('e6', 2500), ('yieldto', 100), ('yieldto', 100), ('yieldto', 100), ('boost', 12), ('sphint', 3), ('sphintneg', 3),
                ('firstsusp', 400)] + [('firstsusp', 400)] * 4 + [('firstsuspsp', 400)] * 3
    else:
        ncases, njobs = 800, 40
        scen = [('e6', 3000), ('yieldto', 100), ('boost', 24)] * 4 + [('sphint', 3), ('sphintneg', 3)] + [('firstsusp', 400)] * 12 + [('firstsuspsp', 400)] * 30
    cases = [('rand', njobs)] * ncases + scen
    base = rng.randrange(1, 1 << 30)
    all_in, all_out = [], []
    inmap = {}
    for ci, (mode, n) in enumerate(cases):
        args = [h, str(base), str(ci), mode, str(n)]
        rc, out = sh(args, timeout=120)
        pools, tasks, recs, ins, outs, done, other = parse(out)
        replay = {'harness': 'c10_place', 'args': args[1:]}
        if 'TIEFAIL' in out:
            r.hits.append(Hit('tie', 'C10:harness', 'harness could not set up the pools: %s' % out[-400:], replay))
            continue
        if rc != 0 or done is None or 'completed=1' not in done:
            # a hang / crash of the real runtime is a failure of the property's run: report it with the replay
            # sphint / sphintneg: the user passes the out-of-range hint (known finding).  firstsuspsp: shared-priority default
            # pool, every hint in range - a crash there means a WAKE-UP carried an invalid hint again (the route closed by
            # recording the worker at the start of every phase): reported, not known
            sig = 'C10:shared_priority:hint_out_of_range' if mode in ('sphint', 'sphintneg') else 'C10:run:hang_or_crash'
            r.hits.append(Hit('monitor', sig,
                              'runtime hung or crashed in case %d (%s): rc=%d %s %s' % (ci, mode, rc, done, ' | '.join(other)[-400:]), replay))
        mh, nplace = monitors(pools, tasks, recs, mode)
        r.evaluations += nplace
        seen = set()
        for sig, detail in mh:
            if sig in seen:
                continue
            seen.add(sig)
            rp = dict(replay)
            rp['pools'] = pools
            r.hits.append(Hit('monitor', sig, 'case %d (%s): %s' % (ci, mode, detail), rp))
        for p in pools.values():
            r.count('policy=' + p['policy'])
            r.count('poolsize=%d' % p['W'])
        r.count('mode=' + mode)
        for t in tasks.values():
            r.count('job=' + t['job'])
        nstatic = [u for u, t in tasks.items() if t['job'] not in 'bt' and not pools[t['pool']]['steal'] and t['hint'] is not None]
        if nstatic and any(x['kind'] in 'YU' for x in recs):
            r.nontrivial('case %d %s %s' % (base, ci, mode))
        all_in += ins
        all_out += outs
        for x in ins:
            p = x.split(' ')
            inmap[(p[1], p[2])] = {'args': args[1:], 'in': x[:3000]}
        if ci < 2:
            r.sample({'args': args[1:], 'pools': pools, 'ntasks': len(tasks), 'nrecords': len(recs), 'out': (outs[0][:400] if outs else '')})
    # ---- bulk placement (Model/BulkPlacement.v): monitors + the extracted acceptor bulk_allowed
    nb, nbops = (14, 24) if ctx.tier == 'quick' else (160, 40)
    for ci in range(nb):
        args = [hb, str(base), str(ci), str(nbops)]
        rc, out = sh(args, timeout=120)
        pools, ops, svs, fs, ins, outs, done, other = parse_bulk(out)
        replay = {'harness': 'c10_bulk', 'args': args[1:]}
        if 'TIEFAIL' in out:
            r.hits.append(Hit('tie', 'C10:harness', 'bulk harness could not set up the pools: %s' % out[-400:], replay))
            continue
        if rc != 0 or done is None or 'completed=1' not in done:
            r.hits.append(Hit('monitor', 'C10:bulk:hang_or_crash',
                              'runtime hung or crashed in bulk case %d: rc=%d %s %s' % (ci, rc, done, ' | '.join(other)[-400:]), replay))
        mh, nplace = bulk_monitors(pools, ops, svs, fs)
        r.evaluations += nplace
        seen = set()
        for sig, detail in mh:
            if sig in seen:
                continue
            seen.add(sig)
            rp = dict(replay)
            rp['pools'] = pools
            r.hits.append(Hit('monitor', sig, 'bulk case %d: %s' % (ci, detail), rp))
        r.count('mode=bulk')
        if len(pools) > 1:
            r.count('bulkpolicy=' + pools[1]['policy'])
            r.count('bulkW=%d' % pools[1]['W'])
        for o in ops.values():
            r.count('bulkpred=' + o['pred'])
            r.count('bulkhint=' + ('none' if o['hint'] == 'x' else 'given'))
        if len(pools) > 1 and not pools[1]['steal'] and any(int(f['k']) != int(svs[f['uid']]['lw']) for f in fs if f['uid'] in svs):
            r.nontrivial('bulk case %d %s' % (base, ci))
        all_in += ins
        all_out += outs
        for x in ins:
            p = x.split(' ')
            inmap[(p[1], p[2])] = {'args': args[1:], 'in': x[:3000]}
        if ci < 1:
            r.sample({'args': args[1:], 'pools': pools, 'nops': len(ops), 'ncalls': len(fs), 'out': (outs[0][:400] if outs else '')})
    run_prio(ctx, r, drv, rng)
    rc2, mout = sh([drv], input='\n'.join(all_in) + '\n', timeout=1800)
    mouts = [x for x in mout.split('\n') if x.startswith('OUT ')]
    notes = [x for x in mout.split('\n') if x.startswith('NOTE ')]
    if rc2 != 0:
        r.hits.append(Hit('tie', 'C10:driver', 'model driver failed rc=%d: %s' % (rc2, mout[-500:]), {}))
    diffs, ncmp = diff_lines(ctx, all_out, mouts)
    r.traces += ncmp
    for (k, a, b) in diffs[:20]:
        why = [x for x in notes if x.split(' ')[2] == k[1]][:3]
        if k[0] == 'BULK':
            r.hits.append(Hit('corr', 'C10:bulk:correspondence',
                              'observed (task_function, pool, worker) of a bulk call is not admitted by the model (op %s): impl [%s] model [%s]'
                              % (k[1], a[:300], b[:400]),
                              {'harness': 'c10_bulk', 'case': inmap.get(k), 'impl': a, 'model': b}))
            continue
        r.hits.append(Hit('corr', 'C10:placement:correspondence',
                          'observed placement is not one the model admits (case %s): %s; impl [%s] model [%s]'
                          % (k[1], ' / '.join(why), a[:300], b[:300]),
                          {'harness': 'c10_place', 'case': inmap.get(k), 'impl': a, 'model': b, 'notes': why}))
    r.extra['level_note'] = 'partial: OS-thread identity of workers and std::thread are observed only'
    return r
