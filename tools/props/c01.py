# C01 — every submitted task runs exactly once, on one worker at a time.
# TRACE tie of the real runtime against coq/Model/Sched.v (see notes/design/C01.md):
#   harness/c01_trace.cpp runs generated task programs under seeded perturbation with logging
#   hooks; per thread-object incarnation the tag-ordered chain of state-word transitions goes
#   through the extracted acceptor (ocaml/drv_c01.ml); monitors independent of the model run in
#   the harness; the extracted model itself is executed on seeded random programs/schedules with
#   its boolean monitors (failing-input search on the model side).
import json
import os
import random

from vlib import Hit, Result, diff_lines, sh

ASSUMPTIONS = [
    'sequentially consistent interleaving at the granularity one step = one atomic access / one critical section',
    'the trace tie and the single-runner / entered-once / recycling theorems are for the fragment without yield_to (next_thrd): this_thread::yield_to has no caller inside pika and the harness does not call it; Model/SchedY.v adds it: conservative on programs without YieldTo (C01_sched_yield_to_fragment), weakened handle invariant + no-drop for all programs, single runner refuted there (yield_to + pending_boost + set_thread_state; not replayed on the real runtime); thread-object recycling IS modelled (reference counts, terminated_items, heaps, rebind with tag reset): C01_sched_recycle_fresh; the harness still splits the chains of a thread object at rebind (hook 105), which the theorem justifies for counted handles; a waker inside set_thread_state holds an uncounted thread_id_type and CAN act on the next incarnation (C01_sched_waker_in_flight_stale_refuted: a spurious wake-up, accepted by the acceptor as a SiteSet transition of the new chain)',
    'counted references held by user code (pika::thread, ids returned by register_thread) are not modelled: they only delay recycling; the do_yield keep-alive reference is attached to the store that ends the phase / the CAS that starts the next (it is never the first or last reference)',
    'state_ex is constantly `signaled` in the modelled fragment (no timed suspension, no abort); the acceptor compares (state, tag) only',
    'queue back-ends (lock-free FIFO/LIFO, ABP deque) are an abstract bag with an oracle-chosen pop: their own correctness is C17 (deque ABA F15 is owned there)',
    'TRACE mode: the hooks sit at the CAS sites inside thread_data.hpp; a transition performed through any other path would be invisible (none exists in the pinned source)',
    'progress needs fairness of the OS and pika schedulers (stuck-state theorems only)',
]

POLICIES = ['local-priority-fifo', 'local-priority-lifo', 'static-priority', 'local', 'static',
            'abp-priority-fifo', 'abp-priority-lifo', 'shared-priority']


def configs(ctx, prop):
    rnd = random.Random(ctx.seed * 7 + (1 if prop == 'C02' else 0))
    if ctx.tier == 'quick':
        pols = ['local-priority-fifo', rnd.choice(POLICIES[1:])]
        return [(p, t) for p in pols for t in (2, 4)]
    return [(p, t) for p in POLICIES for t in (1, 2, 3, 4, 8)]


def run_harness(ctx, binp, seed, policy, threads, ncases, mode, timeout):
    args = [binp, str(seed), policy, str(threads), str(ncases), mode, '2']
    rc, out = sh(args, timeout=timeout, env={'PIKA_LOG_LEVEL': '6'})
    return rc, out.split('\n'), args


def process(ctx, r, prop, drv, rc, lines, args, mode):
    """monitor hits, crash/hang hits, chain correspondence"""
    ins = [x for x in lines if x.startswith('IN CHAIN ')]
    outs = [x for x in lines if x.startswith('OUT CHAIN ')]
    mons = [x for x in lines if x.startswith('MON ')]
    cases = [x for x in lines if x.startswith('CASE ')]
    rep = {'harness': os.path.basename(args[0]), 'args': args[1:]}
    for m in mons:
        p = m.split(' ')
        what = p[2]
        kind = p[3].split('=', 1)[1] if len(p) > 3 and p[3].startswith('kind=') else '?'
        r.hits.append(Hit('monitor', '%s:%s:%s' % (prop, what, kind.split('+')[0]),
                          '%s on the real runtime (%s, %s workers, mode %s): %s' % (what, args[2], args[3], mode, m),
                          dict(rep, line=m)))
    summary = [x for x in lines if x.startswith('SUMMARY ')]
    inconc = [x for x in lines if x.startswith('INCONCLUSIVE ')]
    if rc == 4 and inconc and not mons:
        # the runtime was still busy when the (generous) time limit expired: slow progress and a
        # livelock cannot be told apart by the clock; recorded, never alarmed
        r.count('inconclusive_timeout')
        r.notes.append('%s %s workers mode %s: %s' % (args[2], args[3], mode, inconc[0]))
    elif rc != 0 and not mons:
        tail = ' | '.join([x for x in lines if x and not x.startswith(('IN ', 'OUT '))][-6:])
        what = 'hang' if rc == 124 else 'crash'
        r.hits.append(Hit('monitor', '%s:%s:%s' % (prop, what, mode),
                          'harness %s (rc=%d) under policy %s, %s workers, mode %s: %s' % (what, rc, args[2], args[3], mode, tail[-700:]),
                          dict(rep, rc=rc)))
    elif rc == 0 and not summary:
        r.hits.append(Hit('tie', prop + ':harness_output', 'harness produced no SUMMARY line: ' + ' | '.join(lines[-4:])[:600], rep))
    # acceptor
    if ins:
        rc2, mout = sh([drv], input='\n'.join(ins) + '\n', timeout=1800)
        mouts = [x for x in mout.split('\n') if x.startswith('OUT CHAIN ')]
        diffs, n = diff_lines(ctx, outs, mouts)
        r.traces += n
        inmap = {x.split(' ')[2]: x for x in ins}
        for (k, a, b) in diffs[:10]:
            r.hits.append(Hit('corr', '%s:chain:%s' % (prop, mode),
                              'state-word chain of a task on the real runtime is not a chain of the model (or body entries != pending->active transitions): impl [%s] model [%s] chain [%s]' % (a, b, inmap.get(k[1], '?')[:400]),
                              dict(rep, chain=inmap.get(k[1]), impl=a, model=b)))
    for cl in cases:
        f = dict(x.split('=', 1) for x in cl.split(' ')[2:] if '=' in x)
        r.evaluations += 1
        r.count('kind=' + f.get('kind', '?'))
        r.count('policy=' + args[2])
        r.count('workers=' + args[3])
        if int(f.get('unmodelled', '0')):
            r.count('unmodelled_events', int(f['unmodelled']))
        if int(args[3]) >= 2 and int(f.get('tasks', '0')) >= 2:
            r.nontrivial(args[2] + args[3] + cl)
    if cases:
        r.sample({'config': args[1:], 'case': cases[0], 'chain': ins[0] if ins else None})
    for il in [x for x in lines if x.startswith('INTR ')]:
        # C02 scenario "wake-up after an interrupted wait" (restart reason abort): how many targets were
        # interrupted inside their first wait and resumed from the second one
        f = dict(x.split('=', 1) for x in il.split(' ')[2:] if '=' in x)
        r.count('interrupted_in_wait', int(f.get('interrupted_in_wait', '0')))
        r.count('resumed_after_interrupted_wait', int(f.get('resumed_after_second_wait', '0')))
        if int(f.get('wait_returned_without_exception', '0')):
            r.count('interrupted_wait_returned_without_exception', int(f['wait_returned_without_exception']))
    for w in [x for x in lines if x.startswith('WITNESS ')]:
        r.notes.append('%s %s workers: %s' % (args[2], args[3], w))
        r.count(w.replace(' ', '_'))


def model_search(ctx, r, prop, drv, n):
    """the extracted model on seeded random programs and schedules; its own monitors"""
    ins = ['IN MRUN %d %d %d %d' % (i, ctx.seed * 100003 + i, 2 + (i % 5), 100 + 37 * (i % 9)) for i in range(n)]
    rc, out = sh([drv], input='\n'.join(ins) + '\n', timeout=900)
    got = 0
    for ln in out.split('\n'):
        if not ln.startswith('OUT MRUN '):
            continue
        got += 1
        f = dict(x.split('=', 1) for x in ln.split(' ')[3:])
        r.evaluations += 1
        r.count('model_run_idle=' + f['idle'])
        if int(f.get('ninc', '0')) > int(f['ntasks']):
            r.count('model_run_with_recycled_objects')
        if int(f.get('ninc', f['ntasks'])) >= 2:
            r.nontrivial(ln)
        idx = int(ln.split(' ')[2])
        if f['ok'] != '1':
            r.hits.append(Hit('model', prop + ':model_monitor',
                              'the model violates its own monitor (phases alternate per incarnation / single runner / chain accepted / NoDup queue / recycled objects terminated, count 0, unreferenced) on ' + ins[idx],
                              {'model_run': ins[idx], 'out': ln}))
        if f['lost'] != '0':
            r.hits.append(Hit('model', prop + ':model_lost_wakeup',
                              'the model reaches a quiescent state with a suspended task whose wake-up was issued: ' + ins[idx],
                              {'model_run': ins[idx], 'out': ln}))
    if got != n:
        r.hits.append(Hit('tie', prop + ':model_driver', 'model driver answered %d of %d runs: %s' % (got, n, out[-400:]), {}))
    # the extended model with yield_to (Model/SchedY.v): programs WITH YieldTo; monitors = the weakened
    # handle invariant (every live task has a current handle) and nothing dropped when quiescent
    # (both proved for all programs: C01_sched_yield_to_handles / _no_drop); single runner is NOT
    # monitored there (it is false: C01_sched_single_runner_yield_to_refuted)
    ny = max(30, n // 3)
    insy = ['IN MRUNY %d %d %d %d' % (i, ctx.seed * 100019 + i, 2 + (i % 5), 100 + 41 * (i % 9)) for i in range(ny)]
    rc, out = sh([drv], input='\n'.join(insy) + '\n', timeout=900)
    goty = 0
    for ln in out.split('\n'):
        if not ln.startswith('OUT MRUNY '):
            continue
        goty += 1
        f = dict(x.split('=', 1) for x in ln.split(' ')[3:])
        r.evaluations += 1
        r.count('model_run_yield_to_idle=' + f['idle'])
        if int(f.get('ninc', '0')) >= 2:
            r.nontrivial(ln)
        idx = int(ln.split(' ')[2])
        if f['ok'] != '1':
            r.hits.append(Hit('model', prop + ':model_monitor_yield_to',
                              'the extended model (yield_to) violates its monitor (a live task without a current handle, or a quiescent state with a live task) on ' + insy[idx],
                              {'model_run': insy[idx], 'out': ln}))
    if goty != ny:
        r.hits.append(Hit('tie', prop + ':model_driver', 'model driver answered %d of %d yield_to runs: %s' % (goty, ny, out[-400:]), {}))


def run_modes(ctx, prop, modes, extract_v, driver_ml, hsrc, hname):
    r = Result()
    r.rule = ('TRACE: task programs (fan-out trees, chains, mutex/cv/latch suspension, direct suspend/resume pairs, external '
              'submitters; guard mode injects duplicate handles; c02 mode races wake-ups with suspension) are generated from '
              'VERIF_SEED and run on the real runtime under seeded perturbation for each (policy, workers); one evaluation = '
              'one generated case or one model run; a case is non-trivial with >= 2 workers and >= 2 tasks; distinct = '
              'distinct (policy, workers, case summary); traces = thread-object incarnations whose state-word chain was '
              'accepted by the extracted model and whose body entries matched the pending->active transitions one-to-one')
    ctx.build_pika()
    drv = ctx.build_model(prop, extract_v, driver_ml)
    binp = ctx.build_harness(hname, hsrc)
    if ctx.replay:
        try:
            data = json.load(open(ctx.replay))
            a = data.get('replay', {}).get('args')
        except Exception:
            a = None
        if a and len(a) >= 5:
            rc, lines, args = run_harness(ctx, binp, a[0], a[1], a[2], a[3], a[4], 600)
            process(ctx, r, prop, drv, rc, lines, args, a[4])
            return r
    quick = ctx.tier == 'quick'
    seeds = [ctx.seed] if quick else [ctx.seed, ctx.seed + 1000]
    for sd in seeds:
        for (policy, threads) in configs(ctx, prop):
            for mode in modes:
                if mode == 'guard':
                    n = 12 if quick else 30
                elif mode == 'c02':
                    n = 60 if quick else 150
                else:
                    n = 60 if quick else 150
                rc, lines, args = run_harness(ctx, binp, sd, policy, threads, n, mode, 240 if quick else 900)
                process(ctx, r, prop, drv, rc, lines, args, mode)
    model_search(ctx, r, prop, drv, 300 if quick else 3000)
    return r


def run_yield_to(ctx, r):
    """replay of the model witness C01_sched_single_runner_yield_to_refuted on the real runtime (harness/c01_yieldto.cpp:
    static scheduler, 4 workers, hook 112 parks the worker between store_state(pending_boost) and set_state(pending));
    deterministic by construction: every process either prints `double_run` (hook 110 sees a second worker about to resume
    the coroutine another worker is executing; the process leaves before the resume) or says which step did not happen"""
    hy = ctx.build_harness('c01_yieldto', 'c01_yieldto.cpp')
    trials = 3 if ctx.tier == 'quick' else 20
    seen = 0
    for k in range(trials):
        rc, out = sh([hy, str(ctx.seed * 100 + k)], timeout=60)
        lines = [x for x in out.split('\n') if x.startswith('YT ')]
        r.evaluations += 1
        rep = {'harness': 'c01_yieldto', 'args': [ctx.seed * 100 + k], 'observed': lines[-1] if lines else out[-300:]}
        if lines and ' double_run ' in lines[-1]:
            seen += 1
            r.nontrivial('yield_to witness trial %d' % k)
            r.count('yield_to_replay=double_run')
            if seen == 1:
                r.hits.append(Hit('monitor', 'C01:yield_to:double_run',
                                  'this_thread::yield_to(T) left a duplicate handle of T (its queue entry); T yielded with pending_boost, '
                                  'a set_thread_state(T, pending) fell between store_state(pending_boost) and thread_data::set_state(pending): '
                                  'the holder of the duplicate ran T, set_state(pending) overwrote `active`, T was pushed and a second worker '
                                  'won the pending->active CAS while the first is inside the coroutine [%s]' % lines[-1], rep))
                r.sample(rep)
        elif lines and ' no_double_run ' in lines[-1]:
            r.count('yield_to_replay=no_double_run')
            r.notes.append('yield_to witness not reproduced in trial %d: %s' % (k, lines[-1]))
        else:
            r.hits.append(Hit('tie', 'C01:yield_to_harness', 'c01_yieldto ended with status %d: %s' % (rc, out[-300:]), rep))


def stack_configs(ctx):
    """(seed, policy, workers, waves, guard pages) of the stack-class sequences: every sequence is its own process"""
    rnd = random.Random(ctx.seed * 31 + 5)
    out = []
    if ctx.tier == 'quick':
        pols = ['local-priority-fifo', rnd.choice(POLICIES[1:]), rnd.choice(POLICIES[1:])]
        k = 0
        for p in pols:
            for t in (2, 4):
                for guard in (1, 0):
                    out.append((ctx.seed * 1000 + k, p, t, 13, guard))
                    k += 1
    else:
        k = 0
        for p in POLICIES:
            for t in (1, 2, 3, 4, 8):
                for guard in (1, 0):
                    for rep in range(2):
                        out.append((ctx.seed * 1000 + k, p, t, 13, guard))
                        k += 1
    return out


def run_one_stack_sequence(ctx, r, drv, hs, args):
    """one sequence of waves (harness/c01_stacks.cpp) in its own child process: a stack overrun ends the child"""
    argv = [hs] + [str(a) for a in args] + ['1']
    rc, out = sh(argv, timeout=300, env={'PIKA_LOG_LEVEL': '6'})
    lines = out.split('\n')
    waves = [x for x in lines if x.startswith('WAVE ')]
    mons = [x for x in lines if x.startswith('MON ')]
    summary = [x for x in lines if x.startswith('SUMMARY ')]
    for wl in waves:
        f = dict(x.split('=', 1) for x in wl.split(' ')[2:] if '=' in x)
        r.count('stack_wave=%s_after_%s' % (f.get('class', '?'), f.get('prev', '?')))
        r.count('stack_submit=' + f.get('submit', '?'))
    if rc != 0 and not mons and not any(x.startswith('INCONCLUSIVE ') for x in lines):
        # the child died (SIGSEGV on a guard page / abort / crash after an overrun) or hung: the last wave it
        # announced did not complete
        last = waves[-1] if waves else '(before the first wave)'
        done = len([x for x in lines if x.startswith('CASE ')])
        tail = ' | '.join([x for x in lines if x and not x.startswith(('IN ', 'OUT ', 'WAVE ', 'CASE ', 'TIME '))][-4:])
        r.hits.append(Hit('monitor', 'C01:task_did_not_complete:crash',
                          'tasks of a wave using 50..80 %% of the configured stack of their class did not run to completion: the '
                          'process %s (status %d) in wave [%s] after %d completed waves [%s]; %s' % (
                              'hung' if rc == 124 else 'died', rc, last, done,
                              '; '.join(w.split(' ', 2)[2] for w in waves[:-1])[-600:], tail[-500:]),
                          {'harness': 'c01_stacks', 'args': [str(a) for a in args] + ['1'], 'wave': last, 'rc': rc}))
        # what the child printed before it died still goes through the monitors / acceptor below
        rc = 0
        if not summary:
            lines.append('SUMMARY (child died)')
    process(ctx, r, 'C01', drv, rc, lines, argv, 'stacks')


def run_stacks(ctx, r, drv):
    """tasks of all four stack-size classes that really use their stacks, in waves with recycling in between"""
    hs = ctx.build_harness('c01_stacks', 'c01_stacks.cpp')
    for args in stack_configs(ctx):
        run_one_stack_sequence(ctx, r, drv, hs, args)


STAGED_POLICIES = ['default', 'static-priority', 'local-priority-lifo', 'abp-priority-fifo']


def run_one_staged(ctx, r, drv, hb, args):
    """one process of harness/c01_staged.cpp: every worker busy with yielding tasks, staged work submitted meanwhile"""
    argv = [hb] + [str(a) for a in args]
    rc, out = sh(argv, timeout=400)
    lines = out.split('\n')
    for cl in [x for x in lines if x.startswith('CASE ')]:
        f = dict(x.split('=', 1) for x in cl.split(' ')[2:] if '=' in x)
        r.count('staged_converted_after_yield', int(f.get('conv_after_yield', '0')))
        r.count('staged_converted_elsewhere', int(f.get('conv_other', '0')))
        r.count('staged_tasks_submitted_to_busy_workers', int(f.get('tasks', '0')))
        if int(f.get('conv_after_yield', '0')) == 0:
            r.notes.append('staged scenario %s %s workers: no staged description was converted after a yield (%s)' % (args[1], args[2], cl))
    process(ctx, r, 'C01', drv, rc, lines, argv, 'staged')


def run_staged(ctx, r, drv):
    """starvation of staged work: no worker ever idles (2-3 tasks per worker loop on this_thread::yield()), normal-priority
    work is submitted round robin from an OS thread and from tasks; every submitted task must run within a bound
    (signature C01:dropped:staged_never_converted)"""
    hb = ctx.build_harness('c01_staged', 'c01_staged.cpp')
    quick = ctx.tier == 'quick'
    cfgs = []
    k = 0
    for rep in range(1 if quick else 4):
        for pol in STAGED_POLICIES:
            for t in ((1, 2, 4) if quick else (1, 2, 3, 4, 8)):
                cfgs.append((ctx.seed * 1000 + k, pol, t, 240 if quick else 900, 8))
                k += 1
    from concurrent.futures import ThreadPoolExecutor
    sub = Result()
    subs = []
    with ThreadPoolExecutor(max_workers=3) as ex:
        def one(a):
            rr = Result()
            run_one_staged(ctx, rr, drv, hb, a)
            return rr
        subs = list(ex.map(one, cfgs))
    for rr in subs:
        r.evaluations += rr.evaluations
        r.traces += rr.traces
        r.hits.extend(rr.hits)
        r.notes.extend(rr.notes)
        r.nontrivial_keys |= rr.nontrivial_keys
        for k_, v in rr.dist.items():
            r.count(k_, v)
        for s_ in rr.samples[:1]:
            if len([x for x in r.samples if isinstance(x, dict) and 'staged' in str(x.get('case', ''))]) < 1:
                r.samples.append(s_)

BURST_INI = [
    [],
    ['--pika:ini=pika.thread_queue.max_thread_count=0'],            # add_count = -1: no budget at all
    ['--pika:ini=pika.thread_queue.max_thread_count=40'],           # thread map over the limit: the "desperate" branch
    ['--pika:ini=pika.thread_queue.min_add_new_count=3', '--pika:ini=pika.thread_queue.max_add_new_count=7'],
    ['--pika:ini=pika.thread_queue.min_add_new_count=1', '--pika:ini=pika.thread_queue.max_add_new_count=1',
     '--pika:ini=pika.thread_queue.max_thread_count=12'],
]


def burst_configs(ctx):
    """(seed, policy, workers, rounds, extra runtime options) of the burst processes: all 8 policies on every run"""
    rnd = random.Random(ctx.seed * 131 + 17)
    out = []
    k = 0
    if ctx.tier == 'quick':
        for p in POLICIES:
            out.append((ctx.seed * 1000 + k, p, rnd.choice((1, 2, 3, 4)), 3, []))
            k += 1
        for p in ('shared-priority', 'local-priority-fifo', rnd.choice(POLICIES[1:7])):
            out.append((ctx.seed * 1000 + k, p, 4, 3, []))
            k += 1
        for p in (rnd.choice(POLICIES[:7]), rnd.choice(POLICIES[:7])):
            out.append((ctx.seed * 1000 + k, p, rnd.choice((2, 3)), 3, rnd.choice(BURST_INI[1:])))
            k += 1
    else:
        for rep in range(2):
            for p in POLICIES:
                for t in (1, 2, 3, 4, 8):
                    out.append((ctx.seed * 1000 + k, p, t, 6, []))
                    k += 1
        for p in POLICIES:
            for ini in BURST_INI[1:]:
                out.append((ctx.seed * 1000 + k, p, rnd.choice((1, 2, 3, 4)), 3, ini))
                k += 1
    return out


def run_one_burst(ctx, r, hb, args):
    """one process of harness/c01_burst.cpp: all workers inside non-yielding tasks while bursts larger than the conversion
    batch are submitted (several paths, one queue gets > 64 / > 256 / > 1000 descriptions), then the workers are released"""
    seed, policy, workers, rounds, extra = args
    argv = [hb, str(seed), policy, str(workers), str(rounds)] + list(extra)
    rc, out = sh(argv, timeout=400)
    lines = out.split('\n')
    rep = {'harness': 'c01_burst', 'args': [str(seed), policy, str(workers), str(rounds)] + list(extra)}
    mons = [x for x in lines if x.startswith('MON ')]
    cases = [x for x in lines if x.startswith('CASE ')]
    for m in mons:
        mm = m.split(' ')
        kind = mm[3].split('=', 1)[1] if len(mm) > 3 and mm[3].startswith('kind=') else 'unknown'
        r.hits.append(Hit('monitor', 'C01:burst:' + kind,
                          'burst of staged work larger than the conversion batch (%s, %s workers%s): %s' % (
                              policy, workers, (', ' + ' '.join(extra)) if extra else '', m[:1500]),
                          dict(rep, line=m[:1500])))
    inconc = [x for x in lines if x.startswith('INCONCLUSIVE ')]
    if rc == 4 and inconc and not mons:
        r.count('inconclusive_timeout')
        r.notes.append('burst %s %s workers: %s' % (policy, workers, inconc[0]))
    elif rc != 0 and not mons:
        tail = ' | '.join([x for x in lines if x][-4:])
        what = 'hang' if rc == 124 else 'crash'
        r.hits.append(Hit('monitor', 'C01:burst:' + what,
                          'c01_burst %s (rc=%d; a hang after the last CASE line is pika::finalize/stop not returning) under policy %s, %s workers%s: %s' % (
                              what, rc, policy, workers, (', ' + ' '.join(extra)) if extra else '', tail[-900:]), dict(rep, rc=rc)))
    elif rc == 0 and not [x for x in lines if x.startswith('SUMMARY ')]:
        r.hits.append(Hit('tie', 'C01:burst_harness', 'c01_burst produced no SUMMARY line: ' + ' | '.join(lines[-4:])[:600], rep))
    for cl in cases:
        f = dict(x.split('=', 1) for x in cl.split(' ')[2:] if '=' in x)
        r.evaluations += 1
        r.count('burst policy=' + policy)
        r.count('burst workers=' + str(workers))
        if extra:
            r.count('burst with thread_queue budget options')
        r.count('burst_tasks', int(f.get('tasks', '0')))
        one = max(int(f.get('staged_worker_t', '0')), int(f.get('one_queue_normal', '0')))
        r.count('burst one queue > 64' if one > 64 else 'burst one queue <= 64')
        if one > 256:
            r.count('burst one queue > 256')
        if one > 1000:
            r.count('burst one queue > 1000')
        if int(f.get('converted_before_release', '0')) > 0:
            r.count('burst_converted_before_release', int(f['converted_before_release']))
        if one > 64:
            r.nontrivial('burst ' + policy + str(workers) + cl)
    if cases and not [x for x in r.samples if isinstance(x, dict) and 'burst' in str(x.get('case', ''))]:
        r.sample({'config': rep['args'], 'case': cases[0]})


def _merge(r, rr, tag):
    r.evaluations += rr.evaluations
    r.traces += rr.traces
    r.hits.extend(rr.hits)
    r.notes.extend(rr.notes)
    r.nontrivial_keys |= rr.nontrivial_keys
    for k_, v in rr.dist.items():
        r.count(k_, v)
    for s_ in rr.samples[:1]:
        if len([x for x in r.samples if isinstance(x, dict) and tag in str(x.get('case', ''))]) < 1:
            r.samples.append(s_)


def run_burst(ctx, r):
    """bursts larger than the conversion batch: thread_queue::add_new (budget from add_new_always) and
    thread_queue_mc::add_new (64 / 32) must move every staged description of an over-full queue; signatures C01:burst:<what>"""
    hb = ctx.build_harness('c01_burst', 'c01_burst.cpp')
    r.rule += ('; BURST (c01_burst, every run: all 8 scheduler policies, 1..4 workers, some processes with pika.thread_queue.* budget '
               'options): every worker is kept inside a non-yielding task while the tasks themselves and an OS thread submit 100..400 x '
               'workers tasks (register_work hinted to ONE worker: 65..400 or > 1000 descriptions in one staged queue; high / boost / low / '
               'bound priority hinted to one worker; execute; register_work without hint; schedule(with_hint)|then), then the workers are '
               'released: every body runs exactly once (progress-based watchdog) and the staged / pending counts return to 0; one '
               'evaluation = one round; non-trivial = one queue held more than 64 descriptions')
    from concurrent.futures import ThreadPoolExecutor

    def one(a):
        rr = Result()
        run_one_burst(ctx, rr, hb, a)
        return rr
    with ThreadPoolExecutor(max_workers=3) as ex:
        subs = list(ex.map(one, burst_configs(ctx)))
    for rr in subs:
        _merge(r, rr, 'burst')


def run(ctx):
    if ctx.replay:
        try:
            data = json.load(open(ctx.replay))
            rep = data.get('replay', {})
        except Exception:
            rep = {}
        if rep.get('harness') == 'c01_stacks' and len(rep.get('args', [])) >= 5:
            r = Result()
            ctx.build_pika()
            drv = ctx.build_model('C01', 'ExtractC01.v', 'drv_c01.ml')
            hs = ctx.build_harness('c01_stacks', 'c01_stacks.cpp')
            run_one_stack_sequence(ctx, r, drv, hs, rep['args'][:5])
            return r
        if rep.get('harness') == 'c01_staged' and len(rep.get('args', [])) >= 4:
            r = Result()
            ctx.build_pika()
            drv = ctx.build_model('C01', 'ExtractC01.v', 'drv_c01.ml')
            hb = ctx.build_harness('c01_staged', 'c01_staged.cpp')
            run_one_staged(ctx, r, drv, hb, rep['args'])
            return r
        if rep.get('harness') == 'c01_burst' and len(rep.get('args', [])) >= 4:
            r = Result()
            ctx.build_pika()
            hb = ctx.build_harness('c01_burst', 'c01_burst.cpp')
            a = rep['args']
            run_one_burst(ctx, r, hb, (a[0], a[1], a[2], a[3], a[4:]))
            return r
    r = run_modes(ctx, 'C01', ['c01', 'guard'], 'ExtractC01.v', 'drv_c01.ml', 'c01_trace.cpp', 'c01_trace')
    if not ctx.replay:
        drv = ctx.build_model('C01', 'ExtractC01.v', 'drv_c01.ml')
        run_stacks(ctx, r, drv)
        run_staged(ctx, r, drv)
        run_burst(ctx, r)
        run_yield_to(ctx, r)
    return r
