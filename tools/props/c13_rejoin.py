# C13, re-join after interruption: trace acceptor.  harness/c13_rejoin.cpp runs the scenario of
# `c13_join rejoin` (a joiner interrupted inside t.join() catches thread_interrupted and joins again;
# variants 0 hand-shaken window / 1 second registration before the target exits / 2 free running) with
# event logging and prints the merged per-case hook records; the extracted model's acceptor
# (ocaml/drv_c13.ml, IN REJOIN) must find an execution of  jrun true true  that produces them.
# Monitors (independent of the model) judge the outcome of the second join.  Used by tools/props/c13.py.
from vlib import Hit, diff_lines, sh

N = {'quick': 300, 'thorough': 3000}


def kv(line):
    return dict(x.split('=', 1) for x in line.split(' ')[3:] if '=' in x)


def run_rejoin_trace(ctx, r, drv, seed, n, timeout):
    h = ctx.build_harness('c13_rejoin', 'c13_rejoin.cpp')
    rc, out = sh([h, str(seed), str(n)], timeout=timeout)
    lines = out.split('\n')
    rep = {'harness': 'c13_rejoin', 'args': ['rejoin_trace', seed, n]}
    ended = any(x.startswith('END rejoin') for x in lines)
    mons = [x for x in lines if x.startswith('MON ')]
    ins = [x for x in lines if x.startswith('IN REJOIN ')]
    outs = [x for x in lines if x.startswith('OUT REJOIN ')]
    hang = [x for x in mons if x.endswith('HANG')]
    for x in hang:
        if 'yield returned wait_abort' in out:
            # same rare event and same signature as session h10b's finding in mode rejoin (~1 per 3000 cases on the unchanged
            # tree): the late wake-up of the interrupt ends the NEXT suspension with yield_aborted, which escapes the handler
            r.hits.append(Hit('monitor', 'C13:rejoin:late_abort_wakeup_throws_yield_aborted',
                              'a joiner that had caught thread_interrupted and called join() again was ended by pika::exception yield_aborted '
                              '(late wait_abort wake-up of the same interrupt() reaching the next suspension); the harness waits for it in vain: %s | %s'
                              % (x, [l for l in lines if 'wait_abort' in l][-1][:200]), dict(rep, case=x)))
            continue
        r.hits.append(Hit('monitor', 'C13:rejoin_trace:hang',
                          'the re-join scenario did not finish within the watchdog bound (30 s): %s' % x, dict(rep, case=x)))
    if not ended and not hang:
        r.hits.append(Hit('monitor', 'C13:rejoin_trace:crash',
                          'the runtime crashed or the harness died (rc=%d): %s' % (rc, ' | '.join(lines[-6:])[-500:]), rep))
    judged = {}
    for x in mons:
        if x.endswith('HANG'):
            continue
        p = x.split(' ')
        f = kv(x)
        r.evaluations += 1
        r.count('rejoin_trace:var=%s:adds=%s:refused=%s' % (f.get('var'), f.get('adds'), f.get('refused')))
        judged[p[2]] = f.get('setup') == '111'
        if f.get('setup') != '111':
            r.notes.append('rejoin_trace case not set up as intended (inconclusive, monitors not judged): %s' % x)
            continue
        if f.get('returned') != '1':
            r.hits.append(Hit('monitor', 'C13:rejoin:hang_after_interrupt',
                              'a joiner was interrupted inside t.join(), caught thread_interrupted and called t.join() again; the second join did not '
                              'return within 3 s although the target finished and ran its exit callbacks: %s' % x, dict(rep, case=x)))
        elif f.get('early') != '0':
            r.hits.append(Hit('monitor', 'C13:rejoin:early_return',
                              'the repeated join() returned before the thread function finished: %s' % x, dict(rep, case=x)))
        elif f.get('joinable_after') != '0':
            r.hits.append(Hit('monitor', 'C13:rejoin:still_joinable', 'handle joinable after the repeated join(): %s' % x, dict(rep, case=x)))
    if not ins:
        return
    rc2, mout = sh([drv], input='\n'.join(ins) + '\n', timeout=timeout)
    mlines = mout.split('\n')
    mouts = [x for x in mlines if x.startswith('OUT REJOIN ')]
    gaps = [x for x in mlines if x.startswith('GAP REJOIN ')]
    tag = lambda ls: [x.replace('OUT REJOIN ', 'OUT REJOIN rjt.%d.' % seed, 1) for x in ls]
    diffs, ncases = diff_lines(ctx, tag(outs), tag(mouts))
    r.traces += ncases
    inmap = {}
    for x in ins:
        p = x.split(' ')
        inmap[('REJOIN', 'rjt.%d.%s' % (seed, p[2]))] = x
        ev = p[4][2:].split(',') if len(p) > 4 else []
        nadd = sum(1 for e in ev if e in ('Ja1', 'Ja0'))
        if 'Jx' in ev and nadd >= 2:
            # the interruption left join() and the joiner registered (or was refused) again
            r.nontrivial('rjt:%d:%s' % (seed, x))
            r.count('rejoin_trace:second_add=%s' % ('accepted' if ev.count('Ja1') >= 2 else 'refused'))
        if ev.count('Tk') >= 2:
            r.count('rejoin_trace:stale_callback_invoked')
    ngap = 0
    for g in gaps:
        p = g.split(' ')
        ngap += 1
        r.count('rejoin_trace:gap:' + (p[4] if len(p) > 4 else '?')[:60])
    r.extra['rejoin_trace_cases'] = r.extra.get('rejoin_trace_cases', 0) + ncases
    r.extra['rejoin_trace_cases_with_unknown_events'] = r.extra.get('rejoin_trace_cases_with_unknown_events', 0) + ngap
    if ngap:
        r.notes.append('rejoin_trace: %d of %d traces contained records outside the acceptor\'s vocabulary or exceeded the search budget '
                       '(coverage gap, not judged on those records): %s' % (ngap, ncases, ' | '.join(gaps[:3])))
    for (k, a, b) in diffs[:10]:
        r.hits.append(Hit('corr', 'C13:rejoin:trace_correspondence',
                          'join again after an interruption: the observed hook records (add results with their generation, completion-flag reads, '
                          'wake-ups, interruption delivered, callback taken/flag stored/returned, callbacks marked as run) are not an execution of the '
                          'model (jrun true true) under the order the log proves: %s impl [%s] model [%s]' % (inmap.get(k, k), a, b),
                          dict(rep, case=inmap.get(k), impl=a, model=b)))
    for s in list(zip(ins, outs))[:1]:
        r.sample({'mode': 'rejoin_trace', 'input': s[0], 'observed': s[1]})
