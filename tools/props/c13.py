# C13 — pika::thread / jthread join.  The real runtime (4 workers, joiner and target are pika tasks)
# under seeded perturbation at the C13 hook sites; per-case event sequences are replayed by an
# acceptor built on the extracted model (Model/Join.v); sequential API histories are DIFFed against
# the model; monitors independent of the model evaluate the property on the implementation.
import json
import re
from vlib import Hit, Result, diff_lines, sh
from props.c13_rejoin import run_rejoin_trace, N as N_RJT
from props.c13_huse import run_huse, N as N_HUSE

ASSUMPTIONS = [
    'suspend/resume follow the agent contract of Base/Agent.v (a resume aimed at a running task leaves a token consumed by the next suspension of that phase; any spurious return of a suspension is allowed)',
    'one critical section of the per-thread_data spinlock / of thread::mtx_ is one atomic step; exit_funcs_.front() read outside the lock is an atomic read of the list head; sequentially consistent interleaving',
    'a pika::thread object is operated by one task at a time (handles are owned); concurrent join() on the same object is outside the model',
    'thread_interrupted either ends the thread function or is caught by a handler after which the program continues (ACatch); restart state `abort` and yield_aborted are not modelled',
    'handle lock (Model/JoinLock.v): one critical section of thread::mtx_ is one step; swap/move are modelled as two observer sections of the one handle (the second handle of a swap is a fresh local object); every interruptible wait of the target (semaphore, cv, mutex, poll) is modelled as a wait that only an interruption ends; whether join() releases mtx_ before its wait loop is read from thread.cpp by tools/genmods/c13.py',
    'the completion flag of a join() call is identified by (joiner, target, number of the registration); shared_ptr / thread_id_ref lifetimes are not modelled (read: the callback owns a copy of both)',
]

N = {'quick': dict(seq=1000, race=4000, f13=2000, jthr=600, intr=300, rejoin=300, jmove=1500),
     'thorough': dict(seq=6000, race=30000, f13=12000, jthr=4000, intr=2000, rejoin=3000, jmove=12000)}


LATE_ABORT_KEY = 'C13:rejoin:late_abort_wakeup_throws_yield_aborted'


def kv(line):
    return dict(x.split('=', 1) for x in line.split(' ')[3:] if '=' in x)


def run_mode(ctx, r, h, drv, mode, seed, n, timeout):
    rc, out = sh([h, mode, str(seed), str(n)], timeout=timeout)
    lines = out.split('\n')
    rep = {'harness': 'c13_join', 'args': [mode, seed, n]}
    ended = any(x.startswith('END ' + mode) for x in lines)
    mons = [x for x in lines if x.startswith('MON ')]
    ins = [x for x in lines if x.startswith('IN ')]
    outs = [x for x in lines if x.startswith('OUT ')]
    hang = [x for x in mons if x.endswith('HANG')]
    if mode == 'intry':
        if any('joined' in x for x in mons):
            r.notes.append('intry: this_thread::yield() survived an interruption (finding not reproduced)')
        else:
            r.hits.append(Hit('monitor', 'C13:interrupt:yield_noexcept_terminates',
                              'a thread interrupted while it calls this_thread::yield() (declared noexcept, contains two interruption points) '
                              'takes the whole process down with std::terminate instead of ending only that thread; harness output: %s'
                              % ' | '.join(lines[-4:])[:300], rep))
        r.evaluations += 1
        return
    for x in hang:
        if mode == 'rejoin' and 'yield returned wait_abort' in out:
            # observed ~1 per 3000 rejoin cases on the unchanged tree: the joiner thread was ended by yield_aborted
            r.hits.append(Hit('monitor', LATE_ABORT_KEY,
                              'a joiner that had caught thread_interrupted (delivered at an interruption point) and called join() again was ended by '
                              'pika::exception yield_aborted: the wake-up of that same interrupt() (set_thread_state(pending, wait_abort), issued while the '
                              'joiner was still active and therefore retried later) reached the NEXT suspension, whose interruption point finds the request '
                              'already consumed, so execution_agent::do_yield throws yield_aborted instead of thread_interrupted; it escapes the '
                              'catch (thread_interrupted) handler, the runtime ends the thread function ("aborted thread execution") and the harness waits '
                              'for the joiner in vain (watchdog 30 s): %s | %s' % (x, [l for l in lines if 'wait_abort' in l][-1][:200]),
                              dict(rep, case=x)))
            continue
        r.hits.append(Hit('monitor', 'C13:%s:hang' % mode,
                          'a join / jthread destructor / interrupted thread did not finish within the watchdog bound (30 s): %s' % x,
                          dict(rep, case=x)))
    if not ended and not hang:
        r.hits.append(Hit('monitor', 'C13:%s:crash' % mode,
                          'the runtime crashed or the harness died (rc=%d) in mode %s: %s' % (rc, mode, ' | '.join(lines[-6:])[-500:]), rep))
    # ---- monitors (independent of the model)
    for x in mons:
        if x.endswith('HANG'):
            continue
        p = x.split(' ')
        f = kv(x)
        r.evaluations += 1
        if p[1] == 'RACE':
            r.count('race:kind=%s' % f.get('kind'))
            if f.get('pre') == '1':
                r.count('race:after_notified_timed_wait')
            if f.get('early') == '1':
                r.hits.append(Hit('monitor', 'C13:join:early_return' + (':after_notified_timed_wait' if f.get('pre') == '1' else ''),
                                  'thread::join() returned before the thread function finished (body-finished flag read right after join returned was false): %s' % x,
                                  dict(rep, case=x)))
            elif f.get('early') != '0':
                r.hits.append(Hit('monitor', 'C13:join:no_return', 'joiner did not report: %s' % x, dict(rep, case=x)))
            if f.get('cbran') == '0':
                r.hits.append(Hit('monitor', 'C13:join:callbacks_not_run',
                                  'join returned although neither its exit callback had been invoked nor the callbacks were marked as run: %s' % x, dict(rep, case=x)))
            if f.get('joinable_after') == '1':
                r.hits.append(Hit('monitor', 'C13:join:still_joinable', 'handle joinable after join(): %s' % x, dict(rep, case=x)))
        elif p[1] == 'REJOIN':
            # join again after thread_interrupted left an earlier join() of the same handle
            var = f.get('var')
            r.count('rejoin:var=%s:adds=%s:refused=%s' % (var, f.get('adds'), f.get('refused')))
            if f.get('setup') != '111':
                r.notes.append('rejoin case not set up as intended (inconclusive, not judged): %s' % x)
                continue
            if f.get('caught') != '0' and f.get('adds') == '2':
                r.nontrivial('rejoin:%d:%s' % (seed, p[2]))
            if f.get('returned') != '1':
                r.hits.append(Hit('monitor', 'C13:rejoin:hang_after_interrupt',
                                  'a joiner was interrupted inside t.join() (thread_interrupted left join, t still joinable), caught it and called t.join() again; '
                                  'the second join did not return within 3 s although the target finished and ran its exit callbacks '
                                  '(var=0: the second registration was made while the target stood between invoking a callback and removing it from the list; '
                                  'Coq witness C13_rejoin_unfixed_hangs): %s' % x, dict(rep, case=x)))
            elif f.get('early') != '0':
                r.hits.append(Hit('monitor', 'C13:rejoin:early_return',
                                  'the repeated join() returned before the thread function finished: %s' % x, dict(rep, case=x)))
            elif f.get('joinable_after') != '0':
                r.hits.append(Hit('monitor', 'C13:rejoin:still_joinable', 'handle joinable after the repeated join(): %s' % x, dict(rep, case=x)))
        elif p[1] == 'JTHR':
            r.count('jthr:variant=%s' % f.get('variant'))
            r.nontrivial('jthr:%d:%s' % (seed, p[2]))
            if f.get('finished') != '1':
                r.hits.append(Hit('monitor', 'C13:jthread:dtor_returned_before_body_finished', '~jthread returned while the body was still running: %s' % x, dict(rep, case=x)))
            if f.get('variant') in ('0', '2') and f.get('sawstop') != '1':
                r.hits.append(Hit('monitor', 'C13:jthread:stop_not_observed', 'the body polling its stop_token never saw the stop request of ~jthread: %s' % x, dict(rep, case=x)))
        elif p[1] == 'INTR':
            sc = f.get('scen')
            r.count('intr:scen=%s' % sc)
            r.nontrivial('intr:%d:%s' % (seed, p[2]))
            w = f.get('where')
            if w == '2':
                r.hits.append(Hit('monitor', 'C13:interrupt:delivered_while_disabled', 'thread_interrupted raised inside a disable_interruption region: %s' % x, dict(rep, case=x)))
            elif w == '3':
                r.hits.append(Hit('monitor', 'C13:interrupt:not_at_interruption_point', 'thread_interrupted raised outside an interruption point: %s' % x, dict(rep, case=x)))
            elif w != '1' or f.get('finished') != '1':
                r.hits.append(Hit('monitor', 'C13:interrupt:not_delivered', 'accepted interruption request never ended the target at an enabled interruption point: %s' % x, dict(rep, case=x)))
            if f.get('bystander') == '1':
                r.hits.append(Hit('monitor', 'C13:interrupt:not_local', 'a thread that was never the target of interrupt() was interrupted: %s' % x, dict(rep, case=x)))
            if f.get('other') == '1':
                r.hits.append(Hit('monitor', 'C13:interrupt:other_exception', 'the target was ended by an exception other than thread_interrupted: %s' % x, dict(rep, case=x)))
            if sc == '1' and (f.get('accepted') != '0' or f.get('refused') != '3'):
                r.hits.append(Hit('monitor', 'C13:interrupt:accepted_while_disabled', 'interrupt() while the target had interruption disabled was not refused with thread_not_interruptable (model: EIntrRefused): %s' % x, dict(rep, case=x)))
            if sc in ('0', '2') and f.get('accepted') != '1':
                r.hits.append(Hit('monitor', 'C13:interrupt:refused_while_enabled', 'interrupt() of a thread with interruption enabled was refused: %s' % x, dict(rep, case=x)))
    # ---- sequential specification of the handle state (independent of the Coq model)
    for i_, o_ in zip([x for x in ins if x.startswith('IN SEQ')], [x for x in outs if x.startswith('OUT SEQ')]):
        p = i_.split(' ')
        st = [c == '1' for c in p[4]]
        got = o_.split(' ')[3][5:].split(',')
        for op, g_ in zip(p[5].split(','), got):
            k = int(op[1:])
            if op[0] == 'J':
                exp = 'J%d:%s' % (k, 'ok' if st[k] else 'NJ')
                st[k] = False
            elif op[0] == 'D':
                exp = 'D%d' % k
                st[k] = False
            else:
                exp = 'Q%d:%d' % (k, 1 if st[k] else 0)
            if g_ != exp:
                what = ('join_nonjoinable_not_reported' if exp.endswith('NJ') else
                        'joinable_wrong' if op[0] == 'Q' else 'join_failed')
                r.hits.append(Hit('monitor', 'C13:seq:' + what,
                                  'operation %s of history [%s] gave %s, expected %s (join on a non-joinable handle must be reported as invalid_status; '
                                  'after join/detach the handle is not joinable)' % (op, p[5], g_, exp), dict(rep, case=i_, observed=o_)))
                break
        so = o_.split(' ')[4]
        if p[6] == '1' and so != 'self=J0:SELF,Q0:1,D0,Q0:0':
            r.hits.append(Hit('monitor', 'C13:seq:self_join', 'a thread joining itself: %s (expected thread_resource_error, still joinable, then detach)' % so,
                              dict(rep, case=i_, observed=o_)))
        r.evaluations += 1
    # ---- correspondence with the extracted model
    if ins:
        rc2, mout = sh([drv], input='\n'.join(ins) + '\n', timeout=timeout)
        mouts = [x for x in mout.split('\n') if x.startswith('OUT ')]
        if any('MODEL-MONITOR-FAILED' in x for x in mouts):
            bad = [x for x in mouts if 'MODEL-MONITOR-FAILED' in x][0]
            r.hits.append(Hit('model', 'C13:model:join_ok_b', 'the property monitor fails on the model: %s' % bad, dict(rep, case=bad)))
        # ids are per mode: make them unique across modes
        tag = lambda ls: [re.sub(r'^OUT (\S+) (\S+)', r'OUT \1 %s.%d.\2' % (mode, seed), x) for x in ls]
        diffs, ncases = diff_lines(ctx, tag(outs), tag(mouts))
        r.traces += ncases
        inmap = {}
        for x in ins:
            p = x.split(' ')
            inmap[(p[1], '%s.%d.%s' % (mode, seed, p[2]))] = x
            if p[1] == 'RACE':
                r.count('race:J=' + p[3][2:])
                if p[3].startswith('J=a1'):
                    r.nontrivial('%s:%d:%s' % (mode, seed, x))
                if p[3].count('w') >= 2:
                    r.count('race:spurious_wakeup_absorbed_by_loop')
            else:
                r.count('seq:ops=%d' % (x.split(' ')[5].count(',') + 1))
                r.nontrivial('%s:%d:%s' % (mode, seed, x))
        for (k, a, b) in diffs[:10]:
            kind = 'RACE' if k[0] == 'RACE' else 'SEQ'
            r.hits.append(Hit('corr', 'C13:%s:correspondence' % kind.lower(),
                              ('join race: the observed per-task event sequences are not an execution of the model: %s' if kind == 'RACE' else
                               'sequential history: implementation and model differ: %s') % inmap.get(k, k) + ' impl [%s] model [%s]' % (a, b),
                              dict(rep, case=inmap.get(k), impl=a, model=b)))
        for s in list(zip(ins, outs))[:1]:
            r.sample({'mode': mode, 'input': s[0], 'observed': s[1]})


# sequential specification of the handle state after a move (the clauses c13_jmove evaluates; Model/Join.v has a static
# handle -> target map and cannot express a move, so this part is a monitor and not a DIFF against the model)
def run_jmove(ctx, r, h, workers, seed, n, timeout, only=None):
    args = [str(workers), str(seed), str(n)] + ([str(only)] if only is not None else [])
    rc, out = sh([h] + args, timeout=timeout)
    lines = out.split('\n')
    ins = [x for x in lines if x.startswith('IN JM ')]
    outs = [x for x in lines if x.startswith('OUT JM ')]
    inmap = {x.split(' ')[2]: x for x in ins}
    ended = any(x.startswith('END JM') for x in lines) or any(x.startswith('NOTE JM stopped') for x in lines)
    for o_ in outs:
        cid = o_.split(' ')[2]
        i_ = inmap.get(cid, '')
        fi = kv(i_) if i_ else {}
        f = kv(o_)
        kind = fi.get('kind', 'x')
        rep = {'harness': 'c13_jmove', 'args': [workers, seed, n, int(cid)], 'case': i_, 'observed': o_}
        r.evaluations += 1
        r.count('jmove:workers=%s:kind=%s:when=%s' % (fi.get('workers'), kind, fi.get('when')))
        if kind != 'none':
            r.nontrivial('jmove:%s:%d:%s' % (workers, seed, i_))
        threads = [('', 'the thread')] + ([('2', 'the second thread (owned by the other handle of the swap)')] if 'possible2' in f else [])
        for sfx, who in threads:
            if f.get('possible' + sfx) != '1' or f.get('saw' + sfx) != '1' or f.get('dtor_returned') != '1':
                r.hits.append(Hit('monitor', 'C13:jthread:stop_not_seen_after_move:%s' % kind,
                                  'a jthread whose handle was moved (%s, %s after construction, %s workers) and whose final owner was destroyed: %s function saw '
                                  'stop_possible()=%s on its token at its first statement, stop_requested()=%s when it left its wait, the destructor %s: %s'
                                  % (kind, fi.get('when'), fi.get('workers'), who, f.get('possible' + sfx), f.get('saw' + sfx),
                                     'returned' if f.get('dtor_returned') == '1' else 'did NOT return within 10 s (function released by the give-up flag)', o_), rep))
                break
        if f.get('dtor_returned') == '1' and (f.get('finished_at_return') != '1' or f.get('finished_at_return2', '1') != '1'):
            r.hits.append(Hit('monitor', 'C13:jthread:dtor_returned_before_body_finished:after_move:%s' % kind,
                              '~jthread of the final owner returned while the thread function was still running: %s' % o_, rep))
        api = f.get('api', 'ok')
        if f.get('early') == '1' or f.get('early2', '0') == '1' or f.get('other_stopped_early', '0') == '1' or 'stop_requested_before_destruction' in api:
            r.hits.append(Hit('monitor', 'C13:jthread:stop_before_owner_destroyed:%s' % kind,
                              'stop was requested on a running jthread although the handle that owns it had not been destroyed (destruction of a moved-from '
                              'handle / of the other handle of a swap must not stop it): %s' % o_, rep))
        api_other = [x for x in api.split(',') if x != 'ok' and 'stop_requested_before_destruction' not in x]
        if api_other:
            r.hits.append(Hit('monitor', 'C13:jthread:move_api:%s' % kind,
                              'handle state after the move differs from the sequential spec (moved-from: not joinable, id(), source without state; '
                              'owner: joinable, same id, same token): violated %s: %s' % (','.join(api_other), o_), rep))
    dead = [x for x in ins if x.split(' ')[2] not in set(o.split(' ')[2] for o in outs)]
    if dead or not ended:
        i_ = dead[-1] if dead else (ins[-1] if ins else '')
        r.hits.append(Hit('monitor' if ins else 'tie', 'C13:jmove:crash',
                          'the runtime crashed or the harness died (rc=%d) in a jthread move case [%s]: %s' % (rc, i_, ' | '.join(lines[-5:])[-400:]),
                          {'harness': 'c13_jmove', 'args': [workers, seed, n] + ([int(i_.split(' ')[2])] if i_ else []), 'case': i_}))
    for s_ in list(zip(ins, outs))[:1]:
        r.sample({'mode': 'jmove', 'input': s_[0], 'observed': s_[1]})


def run(ctx):
    r = Result()
    r.rule = ('real runtime, 4 workers; seq: generated operation histories (join/detach/joinable on 1-3 handles incl. '
              'default-constructed, double join, join after detach, self join) DIFFed against the extracted model; '
              'race/f13: generated bodies (immediate/yielding/long/blocking/spawning), joiner on another task, seeded busy-delays at hook sites '
              '1301/1302/1305/1311/1312/1313; the per-task event sequences (add accepted/refused, flag reads, wake-ups, callback call/pop/ran) '
              'must be an execution of the model (acceptor); f13: the joiner just left a notified timed wait; jthr: ~jthread; intr: interruption '
              'scenarios; rejoin: a joiner interrupted inside join() catches thread_interrupted and joins again (variant 0: second registration '
              'forced between the target\'s callback invocation and its removal from the list by hand-shakes in the hooks; 1: before the target exits; '
              '2: free running with seeded delays). jmove (harness/c13_jmove.cpp, 1 and 4 workers): a jthread whose function takes a stop_token and '
              'waits for it (poll+yield / condition_variable_any::wait(lock, token, pred) / stop_callback); the handle is moved (move ctor, move assign '
              'into an empty jthread, vector push_back + reallocation, swap with an empty / with another running jthread, return by value, '
              'ctor->heap->assign chain) immediately after construction or after the function started; the final owner is destroyed; monitors: '
              'token stop_possible at the first statement, stop seen, destructor returns (10 s watchdog) after the function finished, no stop before the '
              'owner dies, handle state after the move = sequential spec. huse (harness/c13_huse.cpp, 4 and 1 workers): a target blocked for ever (semaphore / cv / held pika::mutex / '
              'flag poll), a joiner task suspended (or held at hook 1302, about to suspend) inside t.join(), a third pika task or OS thread calls joinable / get_id / '
              'native_handle / interruption_requested / swap / move / detach in a seeded order and finally interrupt() on the SAME handle: every call returns (15 s), the '
              'results follow the sequential spec of a handle being joined, the interrupt ends the target with thread_interrupted, join returns, handle not joinable; '
              'the same cases run on the extracted layered model (Model/JoinLock.v) whose outcome must agree and which must not end with a thread waiting for a handle lock. non-trivial = callback accepted (join had to wait) or any seq/jthr/intr case; distinct = distinct (mode,seed,case,events)')
    ctx.build_pika()
    drv = ctx.build_model('C13', 'ExtractC13.v', 'drv_c13.ml')
    h = ctx.build_harness('c13_join', 'c13_join.cpp')
    hjm = ctx.build_harness('c13_jmove', 'c13_jmove.cpp')
    if ctx.replay:
        try:
            rp = json.load(open(ctx.replay)).get('replay', {})
            if rp.get('harness') == 'c13_huse':
                a = rp.get('args', [4, ctx.seed, 100])
                run_huse(ctx, r, drv, int(a[0]), int(a[1]), int(a[2]), 300, only=(int(a[3]) if len(a) > 3 else None))
                return r
            if rp.get('harness') == 'c13_jmove':
                a = rp.get('args', [4, ctx.seed, 100])
                run_jmove(ctx, r, hjm, int(a[0]), int(a[1]), int(a[2]), 300, only=(int(a[3]) if len(a) > 3 else None))
                return r
            mode, seed, n = rp.get('args', ['race', ctx.seed, 200])
            if mode == 'rejoin_trace':
                run_rejoin_trace(ctx, r, drv, int(seed), int(n), 600)
                return r
            run_mode(ctx, r, h, drv, mode, int(seed), int(n), 600)
            return r
        except Exception as e:
            r.notes.append('replay file not usable (%r); running the normal tier' % e)
    n = N[ctx.tier]
    to = 400 if ctx.tier == 'quick' else 2400
    seeds = [ctx.seed] if ctx.tier == 'quick' else [ctx.seed, ctx.seed + 1000]
    for sd in seeds:
        for mode in ('seq', 'race', 'f13', 'jthr', 'intr', 'rejoin'):
            run_mode(ctx, r, h, drv, mode, sd, n[mode], to)
        # jthread handle moves (move ctor / move assign into an empty jthread / vector / swap / return / heap), immediately after
        # construction and later, with 1 worker (the creator always wins) and with 4
        for workers in (1, 4):
            run_jmove(ctx, r, hjm, workers, sd, n['jmove'], to)
        run_rejoin_trace(ctx, r, drv, sd, N_RJT[ctx.tier], to)    # acceptor for the re-join traces (props/c13_rejoin.py)
        # the handle used by a third task / OS thread while a join is in progress (props/c13_huse.py); a stuck case costs its
        # watchdog bound and cannot be cleaned up: the second configuration is skipped then
        stuck = False
        for workers in (4, 1):
            if not stuck:
                stuck = run_huse(ctx, r, drv, workers, sd, N_HUSE[ctx.tier], to)
    run_mode(ctx, r, h, drv, 'intry', ctx.seed, 1, 60)
    r.notes.append('E4 (run_thread_exit_callbacks popped the front after invoking it unlocked: a callback pushed meanwhile was dropped and the '
                   'invoked one ran twice) is repaired (callback moved out of the list under the lock); reachable through the public API by a joiner that '
                   'catches thread_interrupted inside join() and joins again: mode rejoin replays the Coq witness (variant 0) on every run')
    return r
