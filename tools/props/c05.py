# C05 — runtime life cycle.  PROC tie: one harness process per generated history of
# start/submit/wait/suspend/resume/finalize/stop calls on the real runtime; the extracted API
# automaton answers the same history (DIFF), the extracted concurrent model runs the same task
# programs (schedule-independent summary per incarnation), ledger/flag monitors evaluate the
# property itself on the implementation.
import json
import os
import random
from concurrent.futures import ThreadPoolExecutor

from vlib import Hit, Result, diff_lines, sh

ASSUMPTIONS = [
    'sequentially consistent interleaving at the granularity of the model steps (counter fetch_add/fetch_sub/load, queue critical sections, per-worker state CAS); memory_order annotations not modelled',
    'std::condition_variable::wait in scheduler_base::suspend does not wake spuriously (the code has no predicate loop around it)',
    'process globals that survive pika::stop (static counters, TLS, atexit handlers) and OS thread creation/join are outside the model; only the whole-process runs exercise them',
    'the thread that drops the last thread_id_ref performs destroy_thread; the model lets the worker that ran the task do it',
]

SCHEDS = ['local', 'local-priority-fifo', 'local-priority-lifo', 'static', 'static-priority', 'abp-priority-fifo',
          'abp-priority-lifo', 'shared-priority']


def gen_prog(rng, depth=0, budget=None):
    """random task program; returns (text, number of tasks it creates besides itself)"""
    if budget is None:
        budget = [rng.choice([2, 4, 8, 14])]
    n = rng.randint(1, 5)
    out = ''
    for _ in range(n):
        r = rng.random()
        if r < 0.35:
            out += 'w'
        elif r < 0.5:
            out += 'y'
        elif r < 0.58:
            out += 'z'
        elif depth < 5 and budget[0] > 0:
            budget[0] -= 1
            out += '(' + gen_prog(rng, depth + 1, budget) + ')'
        else:
            out += 'w'
    return out


def ntasks(p):
    return 1 + p.count('(')


FIXED = [
    ('S2:local-priority-fifo:3:w(w);U;F;R;F;P', 'S:33:3 U F R F P', [(2, 3, 'w(w)', [])]),
    ('S1:static:5:w;F;P;S3:shared-priority:6:(w)(w);T(wy)w;W;f;P', 'S:19:5 F P S:55:6 T:2 W tF P',
     [(1, 5, 'w', []), (3, 6, '(w)(w)', ['(wy)w', 'F'])]),
]

# documented preconditions (init_runtime.hpp) per harness op: which model phases (before the call) satisfy them
DOC_PRE = {'S': 'N', 'P': 'RS', 'B': 'RS', 'F': 'RS', 'f': 'RS', 'W': 'RS', 'w': 'RS', 'U': 'RS', 'R': 'RS',
           'tU': '', 'tR': '', 'tP': ''}


class Hist:
    """one generated history; python only mirrors enough state to avoid calls that would block forever"""

    def __init__(self, rng, hid, nrestart):
        self.id = hid
        self.ops = []       # harness ops
        self.api = []       # tokens for the automaton
        self.sims = []      # (incarnation id, w, res, entry, subs)
        self.kinds = set()
        self.rng = rng
        self.cfgs = []
        ph = 'N'
        for k in range(nrestart):
            if ph == 'N' and rng.random() < 0.35:
                self.bad_call_norun()
            ph = self.incarnation(k)
        if rng.random() < 0.5:
            self.bad_call_norun()

    def add(self, op, tok, kind=None):
        self.ops.append(op)
        self.api.append(tok)
        if kind:
            self.kinds.add(kind)

    def bad_call_norun(self):
        c = self.rng.choice(['W', 'F', 'P', 'U', 'R'])
        self.add(c, c, 'pre:norun:' + c)

    def incarnation(self, k):
        rng = self.rng
        w = rng.choice([1, 1, 2, 2, 3, 4])
        sched = rng.choice(SCHEDS)
        res = rng.randint(-5, 99)
        entry = gen_prog(rng)
        cfg = w * 16 + SCHEDS.index(sched)
        self.cfgs.append((w, sched))
        self.add('S%d:%s:%d:%s' % (w, sched, res, entry), 'S:%d:%d' % (cfg, res))
        subs = []
        sleeping = False
        fin = False
        pend_sleep = 0
        n = rng.randint(3, 9)
        for _ in range(n):
            r = rng.random()
            if sleeping:
                if r < 0.35:
                    p = gen_prog(rng)
                    subs.append(p)
                    pend_sleep += 1
                    self.add('T' + p, 'T:%d' % ntasks(p), 'submit_while_suspended')
                elif r < 0.45:
                    self.add('U', 'U', 'suspend_twice')
                elif r < 0.55:
                    self.add('F', 'F', 'pre:finalize_while_suspended')
                elif r < 0.62 and pend_sleep == 0:
                    self.add('W', 'W', 'wait_while_suspended_idle')
                else:
                    self.add('R', 'R', 'resume')
                    sleeping = False
                    if pend_sleep:
                        self.add('W', 'W', 'wait_after_resume')
                    pend_sleep = 0
                continue
            if r < 0.2:
                p = gen_prog(rng)
                subs.append(p)
                self.add('T' + p, 'T:%d' % ntasks(p))
            elif r < 0.35:
                p = gen_prog(rng)
                m = rng.randint(3, 10)
                subs.extend([p] * m)
                self.add('X%d:%s' % (m, p), 'T:%d' % (m * ntasks(p)), 'external_submitter')
                if rng.random() < 0.7:
                    self.add('W', 'W', 'wait_racing_submitter')
            elif r < 0.5:
                self.add('W', 'W', 'wait')
            elif r < 0.6:
                subs.append('W')
                self.add('w', 'tW', 'wait_from_task')
            elif r < 0.75:
                self.add('U', 'U', 'suspend')
                sleeping = True
            elif r < 0.8:
                self.add('R', 'R', 'resume_while_running')
            elif r < 0.88:
                c = rng.choice(['tU', 'tR', 'tP'])
                subs.append('.')
                self.add(c, c, 'pre:from_task:' + c)
            elif r < 0.93:
                e = gen_prog(rng)
                self.add('S2:local:1:' + e, 'S:%d:1' % (2 * 16), 'pre:start_twice')
            else:
                if rng.random() < 0.5:
                    self.add('F', 'F', 'finalize_early')
                else:
                    subs.append('F')
                    self.add('f', 'tF', 'finalize_from_task')
                fin = True
        if sleeping:
            if pend_sleep == 0 and fin and rng.random() < 0.5:
                self.add('P', 'P', 'stop_while_suspended')
                self.sims.append(('%s.%d' % (self.id, k), w, res, entry, subs))
                return 'N'
            self.add('R', 'R', 'resume')
        # finish the incarnation
        r = rng.random()
        if not fin and r < 0.4:
            self.add('B', 'P', 'stop_blocked_until_finalize')
            if rng.random() < 0.6:
                p = gen_prog(rng)
                m = rng.randint(2, 8)
                subs.extend([p] * m)
                self.add('X%d:%s' % (m, p), 'T:%d' % (m * ntasks(p)), 'submitter_racing_blocked_stop')
            if rng.random() < 0.5:
                p = gen_prog(rng)
                subs.append(p)
                self.add('T' + p, 'T:%d' % ntasks(p))
            self.add('F', 'F')
            self.add('P', 'P')
        else:
            if not fin:
                if r < 0.7:
                    self.add('F', 'F')
                else:
                    subs.append('F')
                    self.add('f', 'tF', 'finalize_from_task')
            elif r < 0.5:
                self.add('F', 'F', 'finalize_twice')
            if rng.random() < 0.4:
                p = gen_prog(rng)
                m = rng.randint(2, 8)
                subs.extend([p] * m)
                self.add('X%d:%s' % (m, p), 'T:%d' % (m * ntasks(p)), 'submit_after_finalize')
            self.add('P', 'P', 'stop')
        self.sims.append(('%s.%d' % (self.id, k), w, res, entry, subs))
        return 'N'

    def hist_str(self):
        return ';'.join(self.ops)

    def in_lines(self, seed):
        lines = ['IN API %s %s' % (self.id, ' '.join(self.api))]
        for (iid, w, res, entry, subs) in self.sims:
            lines.append('IN SIM %s w=%d res=%d seed=%d entry=%s subs=%s' % (iid, w, res, seed, entry, '|'.join(subs) if subs else '-'))
        return lines


def run_one(h_bin, hid, seed, hist):
    rc, out = sh([h_bin, hid, str(seed), hist], timeout=240)
    return hid, rc, out


def susp_configs(ctx):
    """(id, seed, threads, scheduler, rounds) of the suspended-submission processes (harness/c05_susp.cpp)"""
    rnd = random.Random(ctx.seed * 104729 + 11)
    out = []
    if ctx.tier == 'quick':
        scheds = ['default'] + rnd.sample(SCHEDS, 3)
        k = 0
        for s in scheds:
            for t in (1, 2, 4):
                out.append(('s%d' % k, ctx.seed * 1000 + k, t, s, 6))
                k += 1
    else:
        k = 0
        for rep in range(3):
            for s in ['default'] + SCHEDS:
                for t in (1, 2, 3, 4):
                    out.append(('s%d' % k, ctx.seed * 1000 + k, t, s, 10))
                    k += 1
    return out


def run_susp_one(s_bin, cfg):
    args = [s_bin] + [str(x) for x in cfg]
    rc, out = sh(args, timeout=300)
    return cfg, rc, out


def run_suspended(ctx, r, only=None):
    """submissions while the runtime is suspended and concurrently with suspend(), through every submission path
    (execute, schedule|then, pika::thread, register_work, register_thread, high priority, hinted to every worker), from plain
    OS threads; monitors of harness/c05_susp.cpp: nothing rejected, nothing runs before resume(), everything ran after
    resume(); wait().  Signatures C05:suspended:<what>."""
    s_bin = ctx.build_harness('c05_susp', 'c05_susp.cpp')
    cfgs = [tuple(only)] if only else susp_configs(ctx)
    with ThreadPoolExecutor(max_workers=4) as ex:
        results = list(ex.map(lambda c: run_susp_one(s_bin, c), cfgs))
    for cfg, rc, out in results:
        lines = out.split('\n')
        mons = [x for x in lines if x.startswith('MON ')]
        end = [x for x in lines if x.startswith('END ')]
        steps = [x for x in lines if x.startswith('STEP ')]
        rp = {'harness': 'c05_susp', 'args': [str(x) for x in cfg], 'cmd': '%s %s' % (s_bin, ' '.join(str(x) for x in cfg))}
        for m in mons:
            p = m.split(' ', 3)
            kind = p[2] if len(p) > 2 else 'suspended:unknown'
            r.hits.append(Hit('monitor', 'C05:' + kind,
                              'submissions while the runtime is suspended / racing suspend() (%s workers, scheduler %s): %s %s'
                              % (cfg[2], cfg[3], kind, p[3] if len(p) > 3 else ''), dict(rp, observed=m, tail=lines[-8:])))
        if not end and not mons:
            last = steps[-1] if steps else '(before the first step)'
            r.hits.append(Hit('monitor', 'C05:suspended:crash',
                              'the process submitting work to a suspended runtime died (status %d) during [%s] (%s workers, scheduler %s): %s'
                              % (rc, last, cfg[2], cfg[3], ' | '.join([x for x in lines if x and not x.startswith('STEP ')][-5:])[-500:]),
                              dict(rp, rc=rc, step=last, tail=lines[-10:])))
        if end:
            f = dict(x.split('=', 1) for x in end[0].split(' ')[2:] if '=' in x)
            r.evaluations += int(f.get('rounds', '0'))
            r.traces += 0
            r.count('suspended_rounds', int(f.get('rounds', '0')))
            r.count('submitted_while_suspended', int(f.get('quiet_while_suspended', '0')) + int(f.get('racing_after_suspend_returned', '0')))
            r.count('submitted_during_suspend_call', int(f.get('racing_during_suspend', '0')))
            r.count('suspended_scheduler=' + str(cfg[3]))
            if int(cfg[2]) >= 2 and int(f.get('racing_during_suspend', '0')) > 0:
                r.nontrivial('susp ' + end[0])
            r.sample({'suspended_submissions': end[0]}, cap=8)


def run(ctx):
    r = Result()
    r.rule = ('PROC: histories (1-4 restarts each; thread counts 1-4; all eight --pika:scheduler policies; task programs = '
              'fan-out trees with yields/sleeps; external submitter threads racing wait and the blocked stop; suspend with '
              'submissions while suspended; calls violating preconditions) are generated from VERIF_SEED; each runs in its own '
              'process on the real runtime with seeded perturbation at hooks 501-506; a case is one history; non-trivial = at '
              'least one restart and one of wait/suspend/blocked-stop raced by submissions; distinct = distinct history text; '
              'SUSP: per (scheduler, workers) one process of harness/c05_susp.cpp: rounds of suspend / submissions through every '
              'submission path from OS threads while suspended and racing suspend() / resume / wait; one evaluation = one round')
    ctx.build_pika()
    drv = ctx.build_model('C05', 'ExtractC05.v', 'drv_c05.ml')
    h_bin = ctx.build_harness('c05_life', 'c05_life.cpp')
    hists = []
    if ctx.replay:
        try:
            rp = json.load(open(ctx.replay)).get('replay', {})
        except Exception:
            rp = {}
        if rp.get('harness') == 'c05_susp' and len(rp.get('args', [])) >= 5:
            run_suspended(ctx, r, only=rp['args'][:5])
            return r
        if rp.get('hist'):
            class H0:
                pass
            h = H0()
            h.id = rp.get('id', 'replay')
            h.seed = rp.get('seed', 1)
            h.kinds = set()
            h.cfgs = []
            h._hist = rp['hist']
            h._in = rp.get('in_lines', [])
            h.hist_str = lambda h=h: h._hist
            h.in_lines = lambda seed, h=h: h._in
            hists.append(h)
    # fixed histories: the witness of C05_documented_preconditions_refuted and a plain restart
    for k, (hs, api, sims) in enumerate(FIXED):
        class H1:
            pass
        h = H1()
        h.id = 'hfix%d' % k
        h.seed = ctx.seed * 100000 + 90000 + k
        h.kinds = {'fixed'}
        h.cfgs = []
        h.sims = [('%s.%d' % (h.id, j), w, res, e, subs) for j, (w, res, e, subs) in enumerate(sims)]
        h._hist, h._api = hs, api
        h.hist_str = lambda h=h: h._hist
        h.in_lines = lambda seed, h=h: ['IN API %s %s' % (h.id, h._api)] + [
            'IN SIM %s w=%d res=%d seed=%d entry=%s subs=%s' % (i, w, r_, seed, e, '|'.join(sb) if sb else '-')
            for (i, w, r_, e, sb) in h.sims]
        hists.append(h)
    n = 60 if ctx.tier == 'quick' else 1500
    rng = random.Random(ctx.seed * 7919 + 17)
    for i in range(n):
        h = Hist(rng, 'h%d' % i, rng.choice([1, 2, 3, 3, 4]) if ctx.tier == 'quick' else rng.choice([1, 2, 3, 3, 4, 5]))
        h.seed = ctx.seed * 100000 + i
        hists.append(h)
    # ---- model first
    model_in = []
    for h in hists:
        model_in.extend(h.in_lines(h.seed))
    rc, mout = sh([drv], input='\n'.join(model_in) + '\n', timeout=1200)
    mlines = mout.split('\n')
    mouts = [x for x in mlines if x.startswith('OUT ')]
    if rc != 0:
        r.hits.append(Hit('tie', 'C05:model_driver', 'model driver failed rc=%d: %s' % (rc, mout[-500:]), {}))
    mapi = {x.split(' ')[2]: x for x in mouts if x.startswith('OUT API ')}
    mph = {x.split(' ')[1]: x.split(' ')[2].split(',') for x in mlines if x.startswith('PH ') and len(x.split(' ')) > 2}
    for x in mouts:
        if 'model-did-not-finish' in x or 'MODEL-MONITOR-FAILED' in x:
            r.hits.append(Hit('model', 'C05:model_sim', 'the model run of an incarnation failed its own monitor: ' + x, {'line': x}))
    # the generator must not produce calls that the model says never return, except the designated blocked stop
    runnable = []
    for h in hists:
        m = mapi.get(h.id)
        if m is None:
            continue
        resps = m.split('resps=')[1].split(',')
        ops = h.hist_str().split(';')
        ok = True
        for o, a in zip(ops, resps):
            if a == 'B' and o != 'B':
                ok = False
            if o == 'B' and a != 'B':
                ok = False
        if ok:
            runnable.append(h)
        else:
            r.count('dropped_history_blocking_call')
    # ---- implementation
    impl_outs = []
    par = 4
    with ThreadPoolExecutor(max_workers=par) as ex:
        futs = [ex.submit(run_one, h_bin, h.id, h.seed, h.hist_str()) for h in runnable]
        results = [f.result() for f in futs]
    byid = {h.id: h for h in runnable}
    for hid, rc, out in results:
        h = byid[hid]
        lines = out.split('\n')
        outs = [x for x in lines if x.startswith('OUT ')]
        mons = [x for x in lines if x.startswith('MON ')]
        ended = any(x.startswith('END ') for x in lines)
        rp = {'harness': 'c05_life', 'id': hid, 'seed': h.seed, 'hist': h.hist_str(), 'in_lines': h.in_lines(h.seed),
              'cmd': '%s %s %d "%s"' % (h_bin, hid, h.seed, h.hist_str())}
        r.evaluations += 1
        for m in mons:
            p = m.split(' ', 3)
            kind = p[2] if len(p) > 2 else 'unknown'
            r.hits.append(Hit('monitor', 'C05:' + kind, 'runtime life cycle: %s (%s) in history %s' % (kind, p[3] if len(p) > 3 else '', h.hist_str()[:300]),
                              dict(rp, observed=m, tail=lines[-12:])))
        ph = mph.get(hid)
        api_line = [x for x in outs if x.startswith('OUT API ')]
        if ph and api_line:
            obs = api_line[0].split('resps=')[1].split(',')
            before = ['N'] + ph[:-1]
            for o, a, b in zip(h.hist_str().split(';'), obs, before):
                key = o if o in DOC_PRE else o[0]
                if key not in DOC_PRE:
                    continue
                doc_ok = b in DOC_PRE[key]
                if doc_ok and a == 'E':
                    r.hits.append(Hit('monitor', 'C05:doc_pre:%s:%s' % (key, b),
                                      'call %s respects its documented precondition (phase %s) but was rejected with invalid_status in history %s'
                                      % (key, b, h.hist_str()[:300]), dict(rp, op=o, phase=b)))
                if a[:1] == 'X':
                    r.hits.append(Hit('monitor', 'C05:wrong_error:%s:%s' % (key, b),
                                      'call %s (phase %s) was rejected with error code %s instead of invalid_status in history %s'
                                      % (key, b, a[1:], h.hist_str()[:300]), dict(rp, op=o, phase=b)))
                if not doc_ok and a[:1] not in ('E', 'X'):
                    r.hits.append(Hit('monitor', 'C05:pre_not_enforced:%s:%s' % (key, b),
                                      'call %s violates its documented precondition (phase %s) but answered %s in history %s'
                                      % (key, b, a, h.hist_str()[:300]), dict(rp, op=o, phase=b)))
        if not ended and not mons:
            last = [x for x in lines if x.startswith('RESP ')][-1:] or ['(no op completed)']
            r.hits.append(Hit('monitor', 'C05:crash', 'harness process died (rc=%d) after %s in history %s: %s' % (rc, last[0], h.hist_str()[:300], out[-400:]),
                              dict(rp, rc=rc, tail=lines[-15:])))
        if ended:
            r.traces += 1
        impl_outs.extend(outs)
        for kd in h.kinds:
            r.count(kd)
        for (w, s) in h.cfgs:
            r.count('threads=%d' % w)
            r.count('scheduler=' + s)
        if len(h.cfgs) >= 2 and (h.kinds & {'wait_racing_submitter', 'submitter_racing_blocked_stop', 'submit_while_suspended'}):
            r.nontrivial(h.hist_str())
        r.sample({'history': h.hist_str()[:400], 'observed': [x for x in outs][:4]})
    want = set()
    for h in runnable:
        want.add(('API', h.id))
        for s in getattr(h, 'sims', []):
            want.add(('INC', s[0]))
    mouts_run = [x for x in mouts if (x.split(' ')[1], x.split(' ')[2]) in want] if not ctx.replay else mouts
    diffs, ncases = diff_lines(ctx, impl_outs, mouts_run)
    rpmap = {h.id: h for h in runnable}
    for (k, a, b) in diffs[:20]:
        hid = k[1].split('.')[0]
        h = rpmap.get(hid)
        r.hits.append(Hit('corr', 'C05:correspondence',
                          'life cycle: implementation and model differ on %s %s: impl [%s] model [%s]' % (k[0], k[1], a, b),
                          {'harness': 'c05_life', 'id': hid, 'seed': getattr(h, 'seed', None), 'hist': h.hist_str() if h else None,
                           'in_lines': h.in_lines(h.seed) if h else None, 'impl': a, 'model': b}))
    if not ctx.replay:
        run_suspended(ctx, r)
    r.extra = {'histories_run': len(runnable), 'incarnation_summaries_compared': len([x for x in impl_outs if x.startswith('OUT INC')])}
    return r
