# C08 — semaphores.  LOCKSTEP of the real counting/sliding semaphore on OS threads against
# Model/Semaphore.v, plus ledger/timed/sliding/sync_wait monitors on real pika tasks and the bounded
# OS-thread timed-acquire experiment (F14).
import os
import re
from vlib import Hit, Result, diff_lines, sh

ASSUMPTIONS = [
    'sequentially consistent interleaving at the granularity "one critical section of the semaphore spinlock = one step"; value_/lower_limit_/cv queue are only touched under that lock (checked by reading the anchored files)',
    'agent contract of Base/Agent.v for pika tasks (token per phase, resume never blocks); default_agent transcription for OS threads (resume enabled only when the target is blocked in suspend; sleep_until never marks it not running)',
    'step correspondence is checked on OS threads only (kind = OsThr, no timed operations: real time is not controlled); the Task instance of the model is tied by the ledger/timed monitors on the running runtime, not step by step',
    'counting and sliding semaphore share one model (same cv mechanics); programs use one family; signal_all returns lower_limit_ after the lock was given away: the read is modelled as part of the last critical section of the call (exact under lock-step: no parking point in between)',
    'time: a timed wait is a step enabled by an oracle bit "deadline passed"; no quantitative time in the model',
]

SITE_NAMES = {'1': 'op', '2': 'suspend', '3': 'wake', '5': 'sigloop'}


def parse_op(o):
    """(kind, n, lo): lo is only used by M<md>:<lo> = set_max_difference(md, lo)"""
    if o[0] == 'M':
        a, b = o[1:].split(':')
        return ('M', int(a), int(b))
    return (o[0], int(o[1:]), 0)


def res_tokens(s):
    """per-thread result string -> one token per completed operation ('0', '1' or '[value]' for signal_all)"""
    return re.findall(r'\[-?\d+\]|[01]', s)


def parse_in(inl):
    p = inl.split(' ')
    fam, v0, lo0, md, T = p[3], int(p[4]), int(p[5]), int(p[6]), int(p[7])
    progs = [[] if x in ('-', '') else [parse_op(o) for o in x.split(',')] for x in p[8:8 + T]]
    sched = [] if p[8 + T] == '-' else [int(x) for x in p[8 + T].split(',')]
    return fam, v0, lo0, md, T, progs, sched


def ls_monitor(inl, outl, complete=True):
    """the property itself on the implementation's observations of one lock-step case
    (complete: the schedule ran until nobody was parked at a schedulable point)"""
    fam, v0, lo0, md, T, progs, sched = parse_in(inl)
    f = dict(x.split('=', 1) for x in outl.split(' ')[3:])
    res = [res_tokens(x) for x in f['res'].split('|')]
    blocked = [] if f['blocked'] == '-' else [int(x) for x in f['blocked'].split(',')]
    final = int(f['final'])
    if len(res) != T:
        return 'format', 'bad OUT line'
    if fam == 'C':
        rel = acq = 0
        public = all(n == 1 for pr in progs for (k, n, _) in pr if k in 'AW')
        for t in range(T):
            for i, c in enumerate(res[t]):
                k, n, _ = progs[t][i]
                if k == 'R':
                    rel += n
                elif c == '1':
                    acq += n
                if k == 'A' and c != '1':
                    return 'acquire_returned_false', 'thread %d op %d' % (t, i)
        if acq > v0 + rel:
            return 'acquired_exceeds_released', 'acquired %d > initial %d + released %d' % (acq, v0, rel)
        if final != v0 + rel - acq:
            return 'permit_lost_or_invented', 'final count %d != initial %d + released %d - acquired %d' % (final, v0, rel, acq)
        for t in blocked:
            i = len(res[t])
            if i >= len(progs[t]) or progs[t][i][0] != 'A':
                return 'blocked_in_nonblocking_op', 'thread %d blocked in op %d' % (t, i)
            if public and progs[t][i][1] <= final:
                return 'blocked_with_permits', 'thread %d is blocked in acquire() with %d permit(s) available and nobody running' % (t, final)
        for t in range(T):
            if t not in blocked and len(res[t]) != len(progs[t]):
                return 'thread_vanished', 'thread %d neither finished nor blocked' % t
    else:
        # sliding semaphore: the schedule is a total order of critical sections, so lower_limit_ and
        # max_difference_ can be followed from the input alone (no model involved): signal(x) at its
        # first step sets max(x, lower), set_max_difference(md, lo) at its first step overwrites both
        sites = [] if f['sites'] == '-' else [int(x) for x in f['sites'].split(',')]
        if len(sites) != len(sched):
            return 'format', 'sites and schedule differ in length'
        lower, maxd = lo0, md
        nstarted = [0] * T
        last = {}        # (thread, op index) -> (lower, maxd) right after the thread's latest step in that op
        at_start = {}    # (thread, op index) -> (lower, maxd) at the first critical section of that op
        for t, site in zip(sched, sites):
            if t >= T:
                return 'format', 'bad thread in schedule'
            if site == 1:
                if nstarted[t] >= len(progs[t]):
                    return 'thread_vanished', 'thread %d starts more operations than its program has' % t
                k, n, lo = progs[t][nstarted[t]]
                nstarted[t] += 1
                if k == 'G':
                    lower = max(n, lower)
                elif k == 'M':
                    maxd, lower = n, lo
                at_start[(t, nstarted[t] - 1)] = (lower, maxd)
            if nstarted[t] == 0:
                return 'format', 'thread %d steps before its first operation' % t
            last[(t, nstarted[t] - 1)] = (lower, maxd)
        for t in range(T):
            for i, c in enumerate(res[t]):
                if i >= len(progs[t]):
                    return 'format', 'thread %d returned from more operations than its program has' % t
                k, u, _ = progs[t][i]
                if (t, i) not in last:
                    return 'thread_vanished', 'thread %d completed op %d without a step' % (t, i)
                lw, mx = last[(t, i)]
                if k == 'S' and u - mx > lw:
                    return 'sliding_wait_returned_early', 'wait(%d) returned with lower limit %d, max_difference %d' % (u, lw, mx)
                if k == 'T':
                    lw0, mx0 = at_start[(t, i)]
                    if (c == '1') != (u - mx0 <= lw0):
                        return ('sliding_try_wait_true_outside' if c == '1' else 'sliding_try_wait_false_inside',
                                'try_wait(%d) returned %s with lower limit %d, max_difference %d' % (u, c, lw0, mx0))
                if k == 'Z' and c != '[%d]' % lw:
                    return 'sliding_signal_all_result', 'signal_all() returned %s, lower limit at its return is %d' % (c, lw)
                if k != 'Z' and c.startswith('['):
                    return 'format', 'bad result token'
        if final != lower:
            return 'sliding_lower_not_max', ('final lower limit %d (probed with the max_difference last set, %d) != %d = what the '
                                             'completed first critical sections of signal/set_max_difference give from the initial %d'
                                             % (final, maxd, lower, lo0))
        for t in blocked:
            i = len(res[t])
            if i >= len(progs[t]) or progs[t][i][0] != 'S':
                return 'blocked_in_nonblocking_op', 'thread %d blocked in op %d' % (t, i)
            if progs[t][i][1] - maxd <= lower:
                return 'sliding_blocked_within_window', 'thread %d blocked in wait(%d) although lower limit is %d (max_difference %d) and nobody is running' % (t, progs[t][i][1], lower, maxd)
        for t in range(T):
            if complete and t not in blocked and len(res[t]) != len(progs[t]):
                return 'thread_vanished', 'thread %d neither finished nor blocked' % t
    return None


def run_tasks(ctx, r, h, mode, seed, n, timeout, expect_known=False):
    rc, out = sh([h, mode, str(seed), str(n)], timeout=timeout)
    lines = out.split('\n')
    cases = [x for x in lines if x.startswith('CASE ')]
    hits = [x for x in lines if x.startswith('HIT ')]
    done = [x for x in lines if x.startswith('DONE ')]
    m = re.search(r'cases=(\d+)', done[0]) if done else None
    ncase = int(m.group(1)) if m else len(cases)
    r.evaluations += ncase
    r.count('tasks:' + mode, ncase)
    for c in cases:
        if 'inconclusive' in c:
            r.count('tasks:timed:inconclusive')
    if mode != 'syncwait':
        for c in cases[:400]:
            r.nontrivial(c)
    if cases:
        r.sample({'mode': mode, 'case': cases[0][:300]})
    for hl in hits:
        p = hl.split(' ', 2)
        r.hits.append(Hit('monitor', 'C08:' + p[1], 'semaphore on the running runtime (%s): %s' % (mode, p[2] if len(p) > 2 else ''),
                          {'harness': 'c08_tasks', 'args': [mode, seed, n], 'line': hl}))
    if rc != 0 or not done:
        # the harness itself must never hang or crash: its watchdogs turn hangs into HIT lines
        r.hits.append(Hit('monitor' if rc in (124, -6, 134, -11, 139) else 'tie', 'C08:tasks:%s:crash_or_hang' % mode,
                          'c08_tasks %s %s %s ended abnormally (rc=%s) — the real code crashed or hung beyond the watchdogs: %s'
                          % (mode, seed, n, rc, out[-400:]), {'harness': 'c08_tasks', 'args': [mode, seed, n]}))
    return hits


def run(ctx):
    r = Result()
    r.rule = ('LOCKSTEP: c08_lockstep generates (family, initial count / lower / max_difference, 1..5 OS threads, per-thread '
              'programs of acquire(n)/try_acquire/try_wait(n)/release(n) or sliding wait/try_wait/signal and, in half of the sliding '
              'cases, signal_all/set_max_difference) from VERIF_SEED; the '
              'controller picks the interleaving of critical sections, suspends, wake-ups and signal-loop iterations of the real '
              'semaphore; the extracted model replays the schedule and must predict site sequence, every return value, the set '
              'of threads blocked at the end and the final count/lower limit.  non-trivial = >=2 threads and at least one '
              'suspend or signal-loop step; distinct = distinct (input, schedule) lines.  TASKS: c08_tasks runs ledger, timed, '
              'sliding and sync_wait scenarios on real pika tasks with property monitors; MIXED: per case one counting_semaphore '
              '(release(1) or release(n>1)) or binary_semaphore, initial count 0..2, 1..3 pika tasks blocked in try_acquire_for(50..90 ms), '
              '1..2 tasks spinning on try_acquire() up to a quota, a releaser handing out 1..3 batches one at a time (binary: only '
              'while the counter is known to be 0); ledger monitor: successful acquisitions <= initial + released at every '
              'instant, after quiescence successful + leftover (drained) == initial + released, and release(1) then makes exactly '
              'one try_acquire succeed (count never negative); f14 is the bounded OS-thread experiment.')
    ctx.build_pika()
    drv = ctx.build_model('C08', 'ExtractC08.v', 'drv_c08.ml')
    h_ls = ctx.build_harness('c08_lockstep', 'c08_lockstep.cpp')
    h_tk = ctx.build_harness('c08_tasks', 'c08_tasks.cpp')
    quick = ctx.tier == 'quick'
    # ---- lock-step correspondence
    n = 6000 if quick else 60000
    seeds = [ctx.seed] if quick else [ctx.seed + 1000 * k for k in range(4)]
    for sd in seeds:
        rc, out = sh([h_ls, str(sd), str(n)], timeout=600 if quick else 3000)
        lines = out.split('\n')
        ins = [x for x in lines if x.startswith('IN ')]
        outs = [x for x in lines if x.startswith('OUT ')]
        for hl in [x for x in lines if x.startswith('HIT ')]:
            p = hl.split(' ', 2)
            r.hits.append(Hit('monitor', 'C08:' + p[1], 'lock-step run of the real semaphore: ' + p[2],
                              {'harness': 'c08_lockstep', 'args': [sd, n], 'case': ins[-1] if ins else None}))
        if rc != 0 or not any(x.startswith('DONE') or x.startswith('HIT') for x in lines):
            r.hits.append(Hit('monitor' if rc in (124, -6, 134, -11, 139) else 'tie', 'C08:lockstep:crash_or_hang',
                              'c08_lockstep ended abnormally rc=%s after %d cases: %s' % (rc, len(outs), out[-300:]),
                              {'harness': 'c08_lockstep', 'args': [sd, n], 'case': ins[-1] if ins else None}))
        rc2, mout = sh([drv], input='\n'.join(ins) + '\n', timeout=1800)
        mouts = [x for x in mout.split('\n') if x.startswith('OUT ')]
        inmap = {(x.split(' ')[1], x.split(' ')[2]): x for x in ins}
        outs_cmp = outs
        have = {(y.split(' ')[1], y.split(' ')[2]) for y in outs}
        mouts_cmp = [x for x in mouts if (x.split(' ')[1], x.split(' ')[2]) in have]
        diffs, ncases = diff_lines(ctx, outs_cmp, mouts_cmp)
        r.evaluations += ncases
        r.traces += ncases - len(diffs)
        outmap = {(x.split(' ')[1], x.split(' ')[2]): x for x in outs}
        for k, o_ in outmap.items():
            i_ = inmap.get(k)
            if not i_:
                continue
            fam, v0, lo0, md, T, progs, sched = parse_in(i_)
            sites = o_.split(' ')[3]
            r.count('ls:family=%s' % fam)
            r.count('ls:threads=%d' % T)
            if 'blocked=-' not in o_:
                r.count('ls:ends_with_blocked_threads')
            if any(k == 'M' for pr in progs for (k, _, _) in pr):
                r.count('ls:with_set_max_difference')
                if any(k == 'S' for pr in progs for (k, _, _) in pr) and '2' in sites:
                    r.count('ls:set_max_difference_with_suspended_waiters')
            if any(k == 'Z' for pr in progs for (k, _, _) in pr):
                r.count('ls:with_signal_all')
            if ',5' in sites or '=5' in sites:
                r.count('ls:signal_loop_iterations')
            if T >= 2 and ('2' in sites or '5' in sites):
                r.nontrivial(i_)
            m = ls_monitor(i_, o_)
            if m:
                r.hits.append(Hit('monitor', 'C08:ls:' + m[0], 'semaphore under lock-step: %s; case %s' % (m[1], i_),
                                  {'harness': 'c08_lockstep', 'args': [sd, n], 'case': i_, 'observed': o_}))
        for (k, a, b) in diffs[:20]:
            r.hits.append(Hit('corr', 'C08:ls:correspondence',
                              'semaphore: implementation and model differ on case %s: impl [%s] model [%s] input [%s]' % (k, a, b, inmap.get(k)),
                              {'harness': 'c08_lockstep', 'args': [sd, n], 'case': inmap.get(k), 'impl': a, 'model': b}))
        for k in list(outmap)[:2]:
            r.sample({'input_and_schedule': inmap.get(k), 'observed': outmap[k]})
    # ---- monitors on the running runtime
    sd = ctx.seed
    run_tasks(ctx, r, h_tk, 'ledger', sd, 4000 if quick else 20000, 300 if quick else 1500)
    run_tasks(ctx, r, h_tk, 'sliding', sd, 3000 if quick else 15000, 300 if quick else 1500)
    run_tasks(ctx, r, h_tk, 'syncwait', sd, 3000 if quick else 20000, 300 if quick else 1500)
    run_tasks(ctx, r, h_tk, 'timed', sd, 3 if quick else 20, 120 if quick else 600)
    # blocked timed acquirers + try_acquire spinners + single-batch releases (8 concurrent cases per batch, ~0.1 s per batch)
    run_tasks(ctx, r, h_tk, 'mixed', sd, 60 if quick else 400, 300 if quick else 1500)
    # ---- F14: witness of os_timed_acquire_deadlock_refuted replayed on the real code (bounded)
    f14 = run_tasks(ctx, r, h_tk, 'f14', sd, 1, 60)
    if not any('os_timed_acquire:release_deadlock' in x for x in f14):
        r.notes.append('F14 (OS-thread timed acquire + release deadlock) did NOT reproduce in this run: the finding in '
                       'KNOWN_FINDINGS.txt and the theorem C08_os_timed_acquire_deadlock_refuted may be out of date')
    # ---- witness of C08_no_blocked_with_permits_mixed_counts_refuted replayed on the real code (detail API,
    # counts 2 and 1 queued, signal(1)): the model must predict the run; the expected outcome (stuck, threads
    # 0 and 1 blocked, one permit available) is an observation about the detail API, not a violation
    h_rp = ctx.build_harness('c08_replay', 'c08_replay.cpp')

    def replay(args, what):
        rc, out = sh([h_rp] + args, timeout=120)
        lines = out.split('\n')
        ins = [x for x in lines if x.startswith('IN ')]
        outs = [x for x in lines if x.startswith('OUT ')]
        for hl in [x for x in lines if x.startswith('HIT ')]:
            pp = hl.split(' ', 2)
            r.hits.append(Hit('monitor', 'C08:' + pp[1], 'replay of %s on the real semaphore: %s' % (what, pp[2]),
                              {'harness': 'c08_replay', 'args': args}))
        if rc != 0 or not any(x.startswith('DONE') or x.startswith('HIT') for x in lines):
            r.hits.append(Hit('monitor' if rc in (124, -6, 134, -11, 139) else 'tie', 'C08:replay:crash_or_hang',
                              'c08_replay ended abnormally rc=%s: %s' % (rc, out[-300:]), {'harness': 'c08_replay', 'args': args}))
        if ins and outs:
            rc2, mout = sh([drv], input=ins[0] + '\n', timeout=120)
            mouts = [x for x in mout.split('\n') if x.startswith('OUT ')]
            diffs, ncases = diff_lines(ctx, outs[:1], mouts[:1])
            r.evaluations += ncases
            r.traces += ncases - len(diffs)
            for (k, a, b) in diffs:
                r.hits.append(Hit('corr', 'C08:replay:correspondence',
                                  '%s: implementation and model differ: impl [%s] model [%s] input [%s]' % (what, a, b, ins[0]),
                                  {'harness': 'c08_replay', 'case': ins[0], 'impl': a, 'model': b}))
        return ins, outs, 'STUCK 1' in lines

    ins, outs, stuck = replay(['C', '0', '0', '0', 'A2;A1;R1', '0,0,1,1,2,2,0,0'], 'the mixed-count witness')
    if ins and outs:
        r.notes.append('mixed-count witness (C08_no_blocked_with_permits_mixed_counts_refuted) replayed on the real code: %s; stuck=%s '
                       '(expected: blocked=0,1 final=1 — a count-1 waiter blocked with a permit available; detail API only)'
                       % (outs[0], stuck))
        r.extra['mixed_count_witness_reproduced'] = bool(stuck and 'blocked=0,1' in outs[0] and outs[0].endswith('final=1'))
    # ---- the former counterexample of C08_sliding_wait_progress (repaired in the repo: set_max_difference notifies):
    # max_difference 1, lower 0; thread 0: wait(5) blocks (5 - 1 > 0); thread 1: set_max_difference(10, 0).
    # Before the fix the real code ended here with nobody runnable and thread 0 blocked although 5 - 10 <= 0
    # (OUT ... res=|1 blocked=0 final=0, STUCK 1).  The property monitor judges the observation alone.
    for sched_, want in (('0,0,1', 'res=|1 blocked=- final=0'), ('0,0,1,0', 'res=1|1 blocked=- final=0')):
        args = ['S', '0', '0', '1', 'S5;M10:0', sched_]
        ins, outs, stuck = replay(args, 'the set_max_difference witness')
        if ins and outs:
            m = ls_monitor(ins[0], outs[0], complete=stuck)
            if m and m[0] == 'sliding_blocked_within_window':
                r.hits.append(Hit('monitor', 'C08:sliding:set_max_difference:waiter_stranded',
                                  'wait(5) on sliding_semaphore(max_difference 1, lower 0) blocks; set_max_difference(10, 0) from another '
                                  'thread makes its condition true (5 - 10 <= 0) but the waiter is never woken: %s; observed %s'
                                  % (m[1], outs[0]), {'harness': 'c08_replay', 'args': args, 'observed': outs[0]}))
            elif m:
                r.hits.append(Hit('monitor', 'C08:ls:' + m[0], 'set_max_difference witness under lock-step: %s; observed %s' % (m[1], outs[0]),
                                  {'harness': 'c08_replay', 'args': args, 'observed': outs[0]}))
            r.extra['set_max_difference_witness_%d_steps' % len(sched_.split(','))] = outs[0]
            if want not in outs[0]:
                r.notes.append('set_max_difference witness, schedule %s: observed [%s], expected [... %s]' % (sched_, outs[0], want))
    r.extra['lockstep_traces_validated'] = r.traces
    return r
