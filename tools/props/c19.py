# C19 — suspending and resuming pools or workers never loses work.
# Tie: (1) translator tools/genmods/c19.py (runtime_state order, protocol constants, "refusal returns" facts);
# (2) DIFF of generated sequential histories and of two gate-controlled hand-shake schedules between the real runtime
# (harness/c19_sr.cpp, pools created through the resource partitioner) and the extracted model (ocaml/drv_c19.ml);
# (3) monitors on perturbed concurrent histories (ledger, calls return, body on suspended PU, progress without
# resume, enqueue under the PU lock, hand-shake state sequence).
import os
import random
from vlib import Hit, Result, sh, BUILD

ASSUMPTIONS = [
    'sequentially consistent interleaving at the granularity of the model steps (one atomic access / one critical section per step)',
    'std::condition_variable::wait does not wake up spuriously in the monitored runs (the model allows it; the '
    'body-on-suspended-PU monitor assumes it does not happen)',
    'the model has the staged/pending split of every queue and the pool-wide low-priority queue (converted by the last worker only, '
    'popped by any running worker, counted in the last worker\'s get_queue_length); the high-priority queue of a worker is merged with '
    'its normal queue in the base model (exact only for num_high_priority_queues = workers; separate queues: layer Model/SuspendResumeHP.v, '
    'finding C19:high_priority_task_stranded_on_suspended_pu); thread-count limits of add_new (max_thread_count), min_tasks_to_steal_staged and '
    'the idle-loop threshold for stealing staged tasks are oracle refusals simulated by the contention bit (C19_limits_simulated); accepted suspend/resume calls come from OS threads or tasks of other '
    'pools (tasks of the pool itself only for the refused calls)',
    'threads_[i].joinable() is true for every worker (no add/remove_processing_unit in the histories)',
]


def configs(tier):
    c = [(3, 1, 1, 'local_priority_fifo'), (3, 1, 0, 'local_priority_fifo'), (2, 0, 1, 'local_priority_fifo'),
         (4, 1, 1, 'static_priority')]
    if tier != 'quick':
        c += [(2, 1, 0, 'local_priority_fifo'), (5, 1, 1, 'local_priority_fifo'), (3, 0, 0, 'local_priority_fifo'),
              (4, 1, 0, 'static_priority'), (3, 1, 1, 'local'), (4, 1, 1, 'local_priority_lifo')]
    return c


def gen_history(rng, nw, el, st):
    n = rng.randint(3, 12)
    ops = []
    for _ in range(n):
        who = rng.choice('ood')
        x = rng.random()
        w = rng.randrange(nw)
        if x < 0.30:
            ops.append(who + (('T%d' % w) if rng.random() < 0.7 else 'TN'))
        elif x < 0.55:
            ops.append(who + 'SP%d' % w)
        elif x < 0.75:
            ops.append(who + 'RP%d' % w)
        elif x < 0.81:
            ops.append(who + 'SA')
        elif x < 0.88:
            ops.append(who + 'RA')
        elif x < 0.94:
            # a task of the pool itself: refused without stealing / without elasticity (with both the call is accepted
            # and suspends the caller's own pool from inside, which the model does not cover)
            if not el or not st:
                ops.append('sSP%d' % w)
            else:
                ops.append('sSA')
        else:
            ops.append('sSA')
    return ops


def model_run(drv, lines):
    rc, out = sh([drv], input='\n'.join(lines) + '\n', timeout=600)
    return [x for x in out.split('\n') if x.startswith('OUT ')]


def run_hp(ctx, r, drv):
    """round w11c — separate high-priority queues (Model/SuspendResumeHP.v, harness/c19_hp.cpp, own process per case): PU 0 of a
    2-worker elastic stealing pool is suspended, then n tasks are submitted with hint 1.  Monitor (no model): while worker 1 is
    running and stealing is enabled every task must run without a resume.  DIFF: returned / done_before_resume / states against the
    extracted hp_tstep (kind HPQ).  nhp = 1 with priority high is the finding C19:high_priority_task_stranded_on_suspended_pu."""
    h = ctx.build_harness('c19_hp', 'c19_hp.cpp')
    n = 12
    cases = [('h1', 2, 1, 1), ('h2', 2, 2, 1), ('n1', 2, 1, 0)]
    if ctx.tier != 'quick':
        cases += [('h3', 3, 1, 1), ('h4', 3, 2, 1), ('n3', 3, 2, 0)]    # (3, 3) is refused by this build's command line handling ("should not be larger than number of threads"): nhp = nw is covered by h2
    want = {}
    for x in model_run(drv, ['IN HPQ %s nw=%d nhp=%d high=%d n=%d' % (cid, nw, nhp, hi, n) for cid, nw, nhp, hi in cases]):
        p = x.split(' ', 3)
        if p[1] == 'HPQ':
            want[p[2]] = p[3]
    for cid, nw, nhp, hi in cases:
        cmd = [h, cid, str(nw), str(nhp), str(hi), str(n)]
        rc, out = sh(cmd, timeout=120)
        rep = {'harness': 'c19_hp', 'cmd': cmd[1:]}
        lines = [x for x in out.split('\n') if x.startswith('OUT HPQ ')]
        r.evaluations += 1
        r.count('HPQ:nw=%d nhp=%d %s' % (nw, nhp, 'high' if hi else 'normal'))
        if not lines:
            r.hits.append(Hit('monitor', 'C19:hp:crash', 'high-priority queue scenario: the process produced no result (rc=%d): %s'
                              % (rc, ' | '.join(out.split('\n')[-4:])[:400]), rep))
            continue
        o = lines[0]
        kvs = dict(x.split('=', 1) for x in o.split(' ')[3:] if '=' in x)
        got = o.split(' ', 3)[3].split(' all=')[0]
        r.nontrivial('hpq %s' % cid)
        if kvs.get('returned') != '1':
            r.hits.append(Hit('monitor', 'C19:hp:suspend_did_not_return', 'suspend_processing_unit_direct(0) did not return within 20 s (%s)' % o, rep))
        elif kvs.get('done_before_resume') != kvs.get('of'):
            r.hits.append(Hit('monitor', 'C19:high_priority_task_stranded_on_suspended_pu' if hi and nhp < nw else 'C19:stranded_despite_stealing',
                              '%s of %s %s-priority tasks submitted with hint 1 after suspend_processing_unit(0) had returned did not run although worker 1 is '
                              'running and stealing is enabled (nw=%d, %d high-priority queue(s)): states %s, get_queue_length(0)=%s, get_queue_length(1)=%s; '
                              '%s had run 5 s after PU 0 was resumed'
                              % (int(kvs['of']) - int(kvs['done_before_resume']), kvs['of'], 'high' if hi else 'normal', nw, nhp, kvs.get('states'),
                                 kvs.get('queue_length_w0'), kvs.get('queue_length_w1'), kvs.get('done_after_resume')), rep))
        if kvs.get('returned') == '1' and kvs.get('done_after_resume') != kvs.get('of'):
            r.hits.append(Hit('monitor', 'C19:hp:lost_after_resume', 'tasks did not run even after the resume: %s' % o, rep))
        if cid not in want:
            r.hits.append(Hit('tie', 'C19:model_driver', 'no model prediction for the HPQ case %s' % cid, rep))
        else:
            r.traces += 1
            if want[cid] != got:
                r.hits.append(Hit('corr', 'C19:hp:correspondence', 'high-priority queue scenario %s (nw=%d nhp=%d high=%d): implementation [%s] model [%s]'
                                  % (cid, nw, nhp, hi, got, want[cid]), dict(rep, impl=got, model=want[cid])))
        if len(r.samples) < 8:
            r.sample({'hpq': cid, 'nw': nw, 'nhp': nhp, 'high': hi, 'observed': got})


def run_yld(ctx, r, h):
    """session h12b — suspending a processing unit that runs YIELDING tasks while no other worker is idle (case kind YLD of
    harness/c19_sr.cpp, own process per pool configuration).  Monitors only (model side: Model/SuspendResumeYield.v)."""
    work = '%s/c19' % BUILD
    os.makedirs(work, exist_ok=True)
    cfgs = [(3, 1, 1, 'local_priority_fifo'), (2, 1, 1, 'local_priority_fifo'), (4, 1, 1, 'local_priority_fifo'), (3, 1, 0, 'local_priority_fifo'),
            (4, 1, 0, 'static_priority'), (2, 1, 1, 'local')]
    ncase = 6 if ctx.tier == 'quick' else 60
    nhit = 0
    for ci, (nw, el, st, pol) in enumerate(cfgs):
        if nhit >= 3:
            r.notes.append('YLD: three calls did not return; remaining configurations skipped')
            break
        rng = random.Random(ctx.seed * 104729 + ci * 7919 + 5)
        cases = ['YLD y%d %d' % (k, rng.randrange(1, 1 << 30)) for k in range(ncase)]
        cf = '%s/yld_%d.txt' % (work, ci)
        open(cf, 'w').write('\n'.join(cases) + '\n')
        cfgs_ = 'nw=%d el=%d st=%d' % (nw, el, st)
        rc, out = sh([h, cf, str(nw), str(el), str(st), pol, str(ctx.seed)], timeout=900 if ctx.tier == 'quick' else 3000)
        outs = {}
        for ln in out.split('\n'):
            p = ln.split(' ', 3)
            if ln.startswith('OUT YLD ') and len(p) >= 4:
                outs[p[2]] = p[3]
        if rc != 0 and not any(o.startswith('HANG') for o in outs.values()):
            r.hits.append(Hit('monitor' if rc in (3, 124, -6, -11, 134, 139) else 'tie', 'C19:harness_died:YLD',
                              'the runtime harness died (rc=%s) in configuration %s %s during the YLD cases: %s' % (rc, cfgs_, pol, out[-600:]),
                              {'harness': 'c19_sr', 'config': [nw, el, st, pol], 'cases': cases, 'rc': rc}))
        for c in cases:
            cid = c.split(' ')[1]
            o = outs.get(cid)
            rep = {'harness': 'c19_sr', 'config': [nw, el, st, pol], 'seed': ctx.seed, 'case': c}
            if o is None:
                continue
            kvs = dict(x.split('=', 1) for x in o.split(' ') if '=' in x)
            if kvs.get('skipped') == '1':
                continue
            r.evaluations += 1
            if o.startswith('HANG'):
                nhit += 1
                r.hits.append(Hit('monitor', 'C19:hang:YLD', 'a call did not return within the watchdog limit (%s %s, case %s): %s' % (cfgs_, pol, c, o), rep))
                continue
            if kvs.get('setup') != '1':
                # machine too loaded for the busy tasks / pollers to start: INCONCLUSIVE, never an alarm
                r.notes.append('YLD case INCONCLUSIVE (busy tasks or pollers did not start within 8 s; not judged): %s %s %s %s' % (cfgs_, pol, c, o[:160]))
                r.count('YLD inconclusive %s' % cfgs_)
                continue
            var = kvs.get('variant')
            r.count('YLD variant=%s caller=%s %s %s' % (var, kvs.get('caller'), cfgs_, pol))
            r.nontrivial('%s %s %s' % (cfgs_, pol, c))
            w_ = int(kvs.get('w', 0))
            if int(kvs.get('lost', 0)) > 0 or kvs.get('all') != '1':
                r.hits.append(Hit('monitor', 'C19:ledger:lost', 'a submitted task never ran although every processing unit was resumed (%s %s, case %s): %s' % (cfgs_, pol, c, o), rep))
            if int(kvs.get('dup', 0)) > 0:
                r.hits.append(Hit('monitor', 'C19:ledger:dup', 'a task ran more than once (%s %s, case %s): %s' % (cfgs_, pol, c, o), rep))
            if kvs.get('returned') != '1':
                nhit += 1
                what = 'blocked_by_yielding_task' if var == 'y' else 'blocked_by_woken_task'
                r.hits.append(Hit('monitor', 'C19:suspend_pu:' + what,
                                  'suspend_processing_unit_direct(%d) (issued from %s) did not return within 12 s: %s task(s) on worker %d %s, every other worker is occupied by a '
                                  'non-yielding task; the tasks kept running on the unit that is being suspended (%s polls on worker %d after the request, states %s) instead of '
                                  'being moved to an active worker (%s %s, case %s): %s'
                                  % (w_, 'an OS thread' if kvs.get('caller') == 'o' else 'a task of the default pool', kvs.get('K'), w_,
                                     'poll a flag with pika::this_thread::yield()' if var == 'y' else 'were woken (last worker = that unit) after it had entered pre_sleep and then poll with yield()',
                                     kvs.get('polls_on_w_after_request'), w_, kvs.get('states_at_return'), cfgs_, pol, c, o), rep))
                continue
            sts = kvs.get('states_at_return', '').split(',')
            if kvs.get('err') != '0':
                r.hits.append(Hit('monitor', 'C19:supported_call_failed', 'suspend of a processing unit that runs yielding tasks reported an error (%s %s, case %s): %s' % (cfgs_, pol, c, o), rep))
            elif len(sts) > w_ and sts[w_] != '8':
                r.hits.append(Hit('monitor', 'C19:suspend_pu:returned_not_sleeping',
                                  'suspend_processing_unit_direct(%d) returned but the worker is in state %s, not sleeping (%s %s, case %s): %s' % (w_, sts[w_], cfgs_, pol, c, o), rep))
            if kvs.get('progress_all') != '1':
                r.hits.append(Hit('monitor', 'C19:suspend_pu:yielding_task_stalled',
                                  'after suspend_processing_unit_direct(%d) returned and the remaining workers were released the yielding tasks made no progress within 10 s '
                                  '(%s %s, case %s): %s' % (w_, cfgs_, pol, c, o), rep))
            elif kvs.get('fin_before_resume') != '1':
                r.hits.append(Hit('monitor', 'C19:suspend_pu:yielding_task_not_finished_before_resume',
                                  'the yielding tasks did not finish on the remaining workers within 10 s after their flag was set, before any resume (%s %s, case %s): %s' % (cfgs_, pol, c, o), rep))
            if kvs.get('body_on_suspended') != '0':
                r.hits.append(Hit('monitor', 'C19:body_on_suspended_pu', 'a yielding task ran on processing unit %d after its suspend call had returned and before any resume '
                                  'was issued (%s %s, case %s)' % (w_, cfgs_, pol, c), rep))
            if len(r.samples) < 10 and cid in ('y0', 'y1'):
                r.sample({'config': cfgs_ + ' ' + pol, 'yld': c, 'observed': o[:300]})


def run(ctx):
    r = Result()
    r.rule = ('per pool configuration (workers, elasticity, stealing, scheduling policy): SEQ = sequential histories of suspend/resume '
              'of processing units and of the pool (from OS threads, tasks of the default pool, tasks of the pool itself) and task '
              'submissions with/without hints, generated from VERIF_SEED, replayed on the extracted model first (expected error flag, '
              'worker states, completed tasks after every op) and then on the real runtime; GATE = two hand-shake schedules forced '
              'with hook gates (task enqueued between the worker\'s pop and its queue re-check; notifications lost before the wait); '
              'CONC = concurrent perturbed histories with monitors only. BLK (elastic pools) = 1..4 tasks hinted to worker w are blocked on a pika::latch / '
              'condition variable / sync_wait of a default-pool sender (state suspended, owned by w\'s queues: scheduler get_thread_count(suspended, w) is recorded) '
              'when suspend_processing_unit_direct(w) is issued from an OS thread or a task of the default pool; they are released only after the call '
              'returned: monitors = the call returns within 10 s with w sleeping and no error, tasks then submitted to the remaining workers run '
              'without a resume, the released tasks finish (before or after the resume, ledger), none continues on the suspended unit. Non-trivial SEQ case: contains a suspend and a later '
              'submission; distinct = distinct (configuration, history). YLD (elastic pools of 2-4 workers, own process per configuration) = every worker but one is occupied by a non-yielding busy task, '
              'on the remaining worker w 1-3 tasks loop on pika::this_thread::yield() polling a flag (variant y) or are blocked on a latch with last worker w and woken after w entered pre_sleep '
              '(variant k, a busy task keeps w occupied meanwhile); suspend_processing_unit_direct(w) from an OS thread / a default-pool task must return within 12 s (flag set only afterwards), w sleeping, '
              'the pollers make progress on the released remaining workers, never on w, finish before the resume; INCONCLUSIVE (not judged) when the busy tasks did not start within 8 s')
    ctx.build_pika()
    drv = ctx.build_model('C19', 'ExtractC19.v', 'drv_c19.ml')
    h = ctx.build_harness('c19_sr', 'c19_sr.cpp')
    quick = ctx.tier == 'quick'
    nseq = 60 if quick else 1000
    nconc = 24 if quick else 500
    nblk = 10 if quick else 150
    work = '%s/c19' % BUILD
    os.makedirs(work, exist_ok=True)
    replay_case = None
    cfg_list = configs(ctx.tier)
    if ctx.replay:
        import json
        try:
            rp = json.load(open(ctx.replay)).get('replay', {})
            cfg_list = [tuple(rp['config'])]
            replay_case = rp['case']
            r.notes.append('replay of %s in configuration %s' % (replay_case, rp['config']))
        except Exception as e:    # not a C19 replay file: run the normal check
            r.notes.append('replay file not usable (%r): full run' % e)
    for ci, (nw, el, st, pol) in enumerate(cfg_list):
        rng = random.Random(ctx.seed * 7919 + ci * 104729 + 13)
        if pol.startswith('static'):
            st = 0    # the static schedulers remove enable_stealing from whatever mode they are given
        cfgs = 'nw=%d el=%d st=%d' % (nw, el, st)
        # ---- generate SEQ histories, model first
        hist = [gen_history(rng, nw, el, st) for _ in range(nseq)]
        if replay_case is not None:
            f0 = replay_case.split(' ')
            hist = [f0[2].split(',')] if f0[0] == 'SEQ' else [['oT0']]
        hist[0] = hist[0] if replay_case is not None else ['oSP%d' % (nw - 1), 'dSP0', 'sSP0', 'sSA', 'oT%d' % (nw - 1), 'oRP%d' % (nw - 1), 'oRP0']   # always: the refusals
        ins = ['IN SEQ s%d %s ops=%s' % (i, cfgs, ','.join(o)) for i, o in enumerate(hist)]
        mo = model_run(drv, ins)
        # a submission without hint goes to queue curr_queue_++ % n, and curr_queue_ is not observable: keep un-hinted
        # submissions only where the queue does not matter (every worker running), otherwise give them a hint
        for _ in range(6):
            changed = False
            for i, (o, m) in enumerate(zip(hist, mo)):
                res = m.split(' r=', 1)[1].split('|')
                for k, op in enumerate(o):
                    if op[1:] == 'TN':
                        prev = res[k - 1].split(':')[1].split(',') if k > 0 and res[k - 1].startswith('e') else (['5'] if k == 0 else ['x'])
                        if any(x != '5' for x in prev):
                            o[k] = op[0] + 'T%d' % rng.randrange(nw)
                            changed = True
                            break
            if not changed:
                break
            ins = ['IN SEQ s%d %s ops=%s' % (i, cfgs, ','.join(o)) for i, o in enumerate(hist)]
            mo = model_run(drv, ins)
        if len(mo) != len(ins):
            r.hits.append(Hit('tie', 'C19:model_driver', 'model driver produced %d lines for %d cases' % (len(mo), len(ins)), {}))
            continue
        cases = []
        expect = {}
        for i, (o, m) in enumerate(zip(hist, mo)):
            res = m.split(' r=', 1)[1].split('|')
            keep = 0
            for k, x in enumerate(res):
                if not x.startswith('e'):
                    break
                prev = res[k - 1].split(':')[1].split(',') if k > 0 else ['5']
                if o[k][0] == 's' and ('5' not in prev or (not el and any(x2 != '5' for x2 in prev))):
                    break    # the carrier task of a call made from the pool itself could not run (without elasticity it is
                    #          placed round-robin, possibly on a sleeping worker)
                if o[k][1:] == 'TN' and any(x2 != '5' for x2 in prev):
                    break
                keep = k + 1
            if keep == 0:
                continue
            o = o[:keep]
            res = res[:keep]
            exp = [x.split(':')[2] for x in res]
            cid = 's%d' % i
            cases.append('SEQ %s %s %s' % (cid, ','.join(o), ','.join(exp)))
            expect[('SEQ', cid)] = 'r=' + '|'.join(res)
        gates = []
        if el and pol.startswith('local_priority'):
            gates = ['GATE g1 1', 'GATE g2 2', 'GATE g3 3']
            gm = model_run(drv, ['IN GATE g1 %s kind=1' % cfgs, 'IN GATE g2 %s kind=2' % cfgs, 'IN GATE g3 %s kind=3' % cfgs])
            for x in gm:
                p = x.split(' ', 3)
                expect[('GATE', p[2])] = p[3]
        concs = ['CONC c%d %d %d %d %d' % (k, rng.randrange(1, 1 << 30), rng.randint(2, 4), rng.randint(10, 40), k % 3 == 2)
                 for k in range(nconc)] if True else []
        lowp = ['LOWP p1'] if el and pol.startswith('local_priority') else []
        if lowp:
            # the model's prediction for the low-priority scenario (the schedule of Proofs.lowprio_suspend_stuck_refuted)
            for x in model_run(drv, ['IN LOWP p1 %s n=30' % cfgs]):
                p = x.split(' ', 3)
                expect[('LOWP', p[2])] = p[3]
        # tasks hinted to worker w are blocked (latch / condition variable / sync_wait) when suspend_processing_unit_direct(w) is issued
        blks = ['BLK b%d %d' % (k, rng.randrange(1, 1 << 30)) for k in range(nblk)] if el else []
        allcases = gates + cases + concs + lowp + blks
        if replay_case is not None:
            k0 = replay_case.split(' ')[0]
            allcases = {'SEQ': cases[:1], 'GATE': [g_ for g_ in gates if g_.split(' ')[2] == replay_case.split(' ')[2]],
                        'CONC': [replay_case], 'LOWP': lowp, 'BLK': [replay_case]}.get(k0, [])
        # ---- run the real runtime (restart after a hang)
        outs = {}
        inl = {}
        attempts = 0
        pending = list(allcases)
        while pending and attempts < 3:
            attempts += 1
            cf = '%s/cases_%d_%d.txt' % (work, ci, attempts)
            open(cf, 'w').write('\n'.join(pending) + '\n')
            rc, out = sh([h, cf, str(nw), str(el), str(st), pol, str(ctx.seed)], timeout=600 if quick else 3000)
            lastid = None
            hung = False
            for ln in out.split('\n'):
                p = ln.split(' ', 3)
                if ln.startswith('IN ') and len(p) >= 3:
                    inl[(p[1], p[2])] = ln
                    lastid = (p[1], p[2])
                elif ln.startswith('OUT ') and len(p) >= 4:
                    outs[(p[1], p[2])] = p[3]
                    if p[3].startswith('HANG'):
                        hung = True
            ctx.log('config', cfgs, pol, 'attempt', attempts, 'rc', rc, 'cases', len(pending), 'outs', len(outs))
            if rc == 0 and not hung:
                break
            if not hung:
                r.hits.append(Hit('monitor' if rc in (3, 124, -6, -11, 134, 139) else 'tie', 'C19:harness_died:%s' % (lastid[0] if lastid else 'start'),
                                  'the runtime harness died (rc=%s) in configuration %s %s during case %s: %s' % (rc, cfgs, pol, lastid, out[-600:]),
                                  {'config': [nw, el, st, pol], 'case': inl.get(lastid), 'rc': rc}))
                if lastid is None:
                    break
            # continue after the case that hung / died
            ids = [(c.split(' ')[0], c.split(' ')[1]) for c in pending]
            if lastid in ids:
                pending = pending[ids.index(lastid) + 1:]
            else:
                break
        # ---- evaluate
        for c in allcases:
            f = c.split(' ')
            key = (f[0], f[1])
            rep = {'harness': 'c19_sr', 'config': [nw, el, st, pol], 'seed': ctx.seed, 'case': c}
            o = outs.get(key)
            if o is None:
                continue
            r.evaluations += 1
            r.count('%s %s' % (f[0], cfgs))
            if o.startswith('HANG'):
                r.hits.append(Hit('monitor', 'C19:hang:%s' % f[0], 'a call did not return within the watchdog limit (%s %s, case %s): %s'
                                  % (cfgs, pol, c, o), rep))
                continue
            kvs = dict(x.split('=', 1) for x in o.split(' ') if '=' in x)
            if int(kvs.get('lost', 0)) > 0 or kvs.get('all', kvs.get('final', '1')) != '1':
                r.hits.append(Hit('monitor', 'C19:ledger:lost', 'a submitted task never ran although every processing unit was resumed '
                                  '(%s %s, case %s): %s' % (cfgs, pol, c, o), rep))
            if int(kvs.get('dup', 0)) > 0:
                r.hits.append(Hit('monitor', 'C19:ledger:dup', 'a task ran more than once (%s %s, case %s): %s' % (cfgs, pol, c, o), rep))
            if f[0] == 'SEQ':
                ops = f[2].split(',')
                res = kvs['r'].split('|')
                prev = ','.join(['5'] * nw)
                nsubm = 0
                for op, x in zip(ops, res):
                    e, stt, dn = x.split(':')
                    if op[1] == 'T':
                        nsubm += 1
                    sts = stt.split(',')
                    if int(dn) < nsubm and all(y == '5' for y in sts):
                        r.hits.append(Hit('monitor', 'C19:stranded_all_running',
                                          'after %s every worker is running, yet only %s of %d submitted tasks have run (%s %s, history %s)'
                                          % (op, dn, nsubm, cfgs, pol, f[2]), rep))
                    elif int(dn) < nsubm and st and '5' in sts:
                        r.hits.append(Hit('monitor', 'C19:stranded_despite_stealing',
                                          'after %s a worker is running and stealing is enabled, yet only %s of %d submitted tasks have run '
                                          '(states %s) (%s %s, history %s)' % (op, dn, nsubm, stt, cfgs, pol, f[2]), rep))
                    unsupported = (op[1:3] == 'SP' and (not el or (op[0] == 's' and not st))) or op == 'sSA'
                    if e == 'e1' and stt != prev:
                        r.hits.append(Hit('monitor', 'C19:unsupported_refused:state_changed',
                                          '%s reported an error but the worker states changed from %s to %s (%s %s, history %s)'
                                          % (op, prev, stt, cfgs, pol, f[2]), rep))
                    if unsupported and e != 'e1':
                        r.hits.append(Hit('monitor', 'C19:unsupported_refused:no_error',
                                          '%s is not supported by this pool but no error was reported (%s %s, history %s)' % (op, cfgs, pol, f[2]), rep))
                    if not unsupported and e == 'e1':
                        r.hits.append(Hit('monitor', 'C19:supported_call_failed', '%s reported an error (%s %s, history %s)' % (op, cfgs, pol, f[2]), rep))
                    prev = stt
                want = expect[key]
                got = 'r=' + kvs['r']
                r.traces += 1
                if any(x[1:3] in ('SP', 'SA') for x in ops) and any(x[1] == 'T' for x in ops):
                    r.nontrivial('%s %s %s' % (cfgs, pol, f[2]))
                if want != got:
                    r.hits.append(Hit('corr', 'C19:seq:correspondence', 'sequential history %s (%s %s): implementation [%s] model [%s]'
                                      % (f[2], cfgs, pol, got, want), dict(rep, impl=got, model=want)))
                r.sample({'config': cfgs + ' ' + pol, 'history': f[2], 'observed': got})
            elif f[0] == 'BLK':
                # model-independent monitors of "the calls themselves return" / "tasks continue to complete on the remaining workers"
                # for a processing unit that owns BLOCKED tasks
                if kvs.get('skipped') == '1':
                    continue
                if kvs.get('setup') != '1':
                    r.notes.append('BLK case not set up as intended (tasks did not all block; not judged): %s %s %s' % (cfgs, pol, o[:200]))
                    continue
                if int(kvs.get('suspended_owned_by_w', 0)) > 0:
                    r.nontrivial('%s %s %s' % (cfgs, pol, c))
                r.count('BLK owned_by_w=%s %s' % ('yes' if int(kvs.get('suspended_owned_by_w', 0)) > 0 else 'no', cfgs))
                w_ = int(kvs.get('w', 0))
                sts = kvs.get('states_at_return', '').split(',')
                if kvs.get('returned') != '1':
                    r.hits.append(Hit('monitor', 'C19:suspend_pu:waits_for_blocked_tasks',
                                      'suspend_processing_unit_direct(%d) did not return within 10 s while %s tasks (of which %s owned by the queues of worker %d) were '
                                      'blocked on a latch / condition variable / sync_wait that is released only after the call returned: the call waits for '
                                      'blocked tasks (states %s, %s finished) (%s %s, case %s): %s'
                                      % (w_, kvs.get('K'), kvs.get('suspended_owned_by_w'), w_, kvs.get('states_at_return'), kvs.get('finished_at_return'), cfgs, pol, c, o), rep))
                else:
                    if kvs.get('err') != '0':
                        r.hits.append(Hit('monitor', 'C19:supported_call_failed', 'suspend of a processing unit that owns blocked tasks reported an error (%s %s, case %s): %s' % (cfgs, pol, c, o), rep))
                    elif len(sts) > w_ and sts[w_] != '8':
                        r.hits.append(Hit('monitor', 'C19:suspend_pu:returned_not_sleeping',
                                          'suspend_processing_unit_direct(%d) returned but the worker is in state %s, not sleeping (%s %s, case %s): %s' % (w_, sts[w_], cfgs, pol, c, o), rep))
                    if kvs.get('others_done') != '1':
                        r.hits.append(Hit('monitor', 'C19:suspend_pu:remaining_workers_stalled',
                                          'after suspend_processing_unit_direct(%d) returned (the unit owns blocked tasks) tasks submitted to the remaining running workers '
                                          'did not complete within 10 s without a resume (%s %s, case %s): %s' % (w_, cfgs, pol, c, o), rep))
                    if kvs.get('body_on_suspended') != '0':
                        r.hits.append(Hit('monitor', 'C19:body_on_suspended_pu', 'a released task continued on processing unit %s after its suspend call had returned '
                                          'and before any resume was issued (%s %s, case %s)' % (kvs.get('w'), cfgs, pol, c), rep))
            elif f[0] == 'LOWP':
                r.nontrivial('%s %s lowp' % (cfgs, pol))
                want = expect.get(key)
                got = o.split(' all=')[0]
                if want is None:
                    r.hits.append(Hit('tie', 'C19:model_driver', 'no model prediction for the LOWP case', rep))
                elif kvs.get('reached') == '1':
                    # the last worker was parked in its idle branch while the tasks were staged and the suspend CAS happened:
                    # the run follows the model schedule and is compared verbatim (returned, done_then, states, no_progress)
                    r.traces += 1
                    if want != got:
                        r.hits.append(Hit('corr', 'C19:lowp:correspondence', 'low-priority suspend scenario (%s %s): implementation [%s] model [%s]'
                                          % (cfgs, pol, got, want), dict(rep, impl=got, model=want)))
                if kvs.get('returned') != '1':
                    r.hits.append(Hit('monitor', 'C19:suspend_pu_blocked_by_low_priority_tasks',
                                      'suspend_processing_unit_direct(last worker) did not return within 3 s while low-priority tasks were staged: '
                                      'states %s, %s of %s tasks done, no progress=%s (%s %s)' % (kvs.get('states_then'), kvs.get('done_then'),
                                                                                              kvs.get('of'), kvs.get('no_progress'), cfgs, pol), rep))
            elif f[0] == 'GATE':
                want = expect[key]
                got = o.split(' all=')[0]
                r.traces += 1
                r.nontrivial('%s %s gate %s' % (cfgs, pol, f[2]))
                if f[2] == '1' and kvs.get('reached') == '1' and kvs.get('done_at_return') != '1':
                    r.hits.append(Hit('monitor', 'C19:slept_over_queued_task',
                                      'a task was enqueued on the worker before it re-checked its queue, yet the worker went to sleep without '
                                      'running it (suspend returned with the task pending) (%s %s): %s' % (cfgs, pol, o), rep))
                if f[2] == '3' and kvs.get('reached') == '1' and kvs.get('returned_while_parked') == '1':
                    r.hits.append(Hit('monitor', 'C19:suspend_overtook_validated_enqueue',
                                      'suspend_processing_unit_direct completed while a submitter that had selected this worker (running, under '
                                      'select_active_pu) had not yet enqueued its task: the enqueue is not covered by the PU lock (%s %s): %s'
                                      % (cfgs, pol, o), rep))
                if f[2] == '3' and kvs.get('reached') == '1' and kvs.get('done_without_resume') != '1':
                    r.hits.append(Hit('monitor', 'C19:slept_over_queued_task',
                                      'a task enqueued on a running worker under the PU lock before the suspend did not run (on that worker before it slept, or '
                                      'stolen) without a resume (%s %s): %s' % (cfgs, pol, o), rep))
                if f[2] == '2' and (kvs.get('early_return') == '1' or not kvs.get('states_at_return', '5').endswith('5')
                                     or kvs.get('ran_after_resume') != '1'):
                    r.hits.append(Hit('monitor', 'C19:resume_left_worker_sleeping',
                                      'resume_processing_unit_direct returned although the worker had not left `sleeping` (%s %s): %s' % (cfgs, pol, o), rep))
                if want != got:
                    r.hits.append(Hit('corr', 'C19:gate:correspondence', 'gate schedule %s (%s %s): implementation [%s] model [%s]'
                                      % (f[2], cfgs, pol, got, want), dict(rep, impl=got, model=want)))
                r.sample({'config': cfgs + ' ' + pol, 'gate': f[2], 'observed': got})
            else:
                r.nontrivial('%s %s %s' % (cfgs, pol, c))
                if kvs.get('before_resume') != '1':
                    r.hits.append(Hit('monitor', 'C19:stranded_before_resume',
                                      'with worker 0 never suspended and only processing-unit suspends, %s of %s tasks had not run before the final '
                                      'resume (states %s) (%s %s, case %s)' % (int(kvs['tasks']) - int(kvs['done_before']), kvs['tasks'],
                                                                               kvs['states_before'], cfgs, pol, c), rep))
                if kvs.get('body_on_suspended') != '0':
                    r.hits.append(Hit('monitor', 'C19:body_on_suspended_pu', 'a task body ran on processing unit %s after its suspend call had returned '
                                      'and before any resume was issued (%s %s, case %s)' % (kvs.get('w'), cfgs, pol, c), rep))
                if kvs.get('errs') != '0':
                    r.hits.append(Hit('monitor', 'C19:supported_call_failed', 'a supported call reported an error (%s %s, case %s): %s' % (cfgs, pol, c, o), rep))
                if kvs.get('enq_unlocked', '0') != '0':
                    r.hits.append(Hit('monitor', 'C19:enqueue_without_pu_lock', '%s of %s enqueues happened without the PU lock of the selected worker '
                                      '(%s %s, case %s)' % (kvs['enq_unlocked'], kvs['enq'], cfgs, pol, c), rep))
                if kvs.get('sleep_bad', '0') != '0' or kvs.get('wake_bad', '0') != '0':
                    r.hits.append(Hit('monitor', 'C19:handshake', 'hand-shake state sequence violated: %s (%s %s, case %s)' % (o, cfgs, pol, c), rep))
                if pol.startswith('local_priority') and kvs.get('enq') == '0' and int(kvs.get('tasks', 0)) > 0:
                    r.hits.append(Hit('tie', 'C19:hooks_silent', 'hook 1906 never fired although tasks were submitted', rep))
                if len(r.samples) < 6 and f[1] == 'c0':
                    r.sample({'config': cfgs + ' ' + pol, 'conc': c, 'observed': o})
    r.extra['configurations'] = ['nw=%d el=%d st=%d %s' % tuple(c) for c in cfg_list]
    run_hp(ctx, r, drv)
    if not ctx.replay:
        run_yld(ctx, r, h)
    return r
