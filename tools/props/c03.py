# C03 — sender adaptors deliver exactly one, correct completion signal.
#  DIFF    : random pipeline terms -> real pika pipelines (harness/c03_pipe.cpp) vs the extracted
#            evaluator `sigs` / denotation `den` of coq/Model/Sender.v; typed (un-erased) corpus.
#  LOCKSTEP: split / ensure_started / split_tuple hand-off and when_all / when_all_vector join
#            (harness/c03_lock.cpp) vs coq/Model/Handoff.v, schedule replayed step for step.
import random
import re
from vlib import Hit, Result, sh

ASSUMPTIONS = [
    'values travel as one C++ type std::vector<P> (ledgered payload); multi-value adaptors (when_all, split_tuple, '
    'unpack, when_all_vector) are glued by flattening then() stages of the harness',
    'sequentially consistent interleaving at the granularity flag access / critical section / counter decrement; '
    'memory_order annotations not modelled',
    'C++ value categories (copy vs move) are counted by the ledger but not specified; allocator behaviour and the '
    'real schedulers (C10) are outside the model; stdexec build (PIKA_HAVE_STDEXEC) not covered',
]


# ---------------------------------------------------------------------------- s-expressions
def parse(s):
    toks = re.findall(r'\(|\)|[^\s()]+', s)
    pos = [0]

    def one():
        t = toks[pos[0]]
        pos[0] += 1
        if t == '(':
            l = []
            while toks[pos[0]] != ')':
                l.append(one())
            pos[0] += 1
            return l
        return t
    return one()


def show(x):
    return x if isinstance(x, str) else '(' + ' '.join(show(k) for k in x) + ')'


# ---------------------------------------------------------------------------- independent reference (spec level)
# completions: ('V', tuple) | ('E', n) | ('S',)
def apply_fn(f, vs):
    h = f[0]
    if h == 'add':
        return ('V', tuple(v + int(f[1]) for v in vs))
    if h == 'thr':
        return ('E', int(f[1]))
    if h == 'thrif':
        return ('E', int(f[2])) if sum(vs) % int(f[1]) == 0 else ('V', tuple(v + 1 for v in vs))
    if h == 'sum':
        return ('V', (sum(vs),))
    if h == 'rev':
        return ('V', tuple(reversed(vs)))
    raise ValueError(h)


def sched_of(l):
    k = l[0]
    if len(k) > 1 and k[0] == 'a':
        k = k[1:]
    if k == 'o':
        return None, l[1:]
    if k == 'e':
        return ('E', int(l[1])), l[2:]
    return ('S',), l[1:]


def join(combo):
    if all(c[0] == 'V' for c in combo):
        return {('V', tuple(v for c in combo for v in c[1]))}
    return {c for c in combo if c[0] != 'V'}


def product(sets):
    res = [[]]
    for s in sets:
        res = [r + [c] for r in res for c in s]
        if len(res) > 4096:
            raise OverflowError
    return res


def pden(x, args=()):
    """the set of completions the pipeline denotes (the property's own oracle, independent of the Coq model)"""
    h = x[0]
    if h == 'J':
        return {('V', tuple(int(v) for v in x[2:]))}
    if h == 'A':
        return {('V', tuple(args))}
    if h == 'E':
        return {('E', int(x[2]))}
    if h == 'S':
        return {('S',)}
    if h == 'SC':
        c, _ = sched_of(x[1:])
        return {c or ('V', ())}
    if h == 'T':
        return {apply_fn(x[1], c[1]) if c[0] == 'V' else c for c in pden(x[2], args)}
    if h in ('LV', 'LE'):
        out = set()
        want = 'V' if h == 'LV' else 'E'
        for c in pden(x[2], args):
            if c[0] != want:
                out.add(c)
            elif x[1][0] == 'kthr':
                out.add(('E', int(x[1][1])))
            else:
                a = c[1] if h == 'LV' else (c[1],)
                sel = (sum(a) % 2) if h == 'LV' else (c[1] % 2)
                out |= pden(x[1][1 + sel], a)
        return out
    if h in ('WA', 'WV'):
        out = set()
        for combo in product([pden(k, args) for k in x[1:]]):
            out |= join(combo)
        return out
    if h == 'SP':
        out = set()
        for c in pden(x[2], args):
            out |= join([c] * int(x[1]))
        return out
    if h in ('ST', 'ES', 'DO', 'RS', 'UN', 'ER'):
        return pden(x[1], args)
    if h == 'DV':
        return {('V', ()) if c[0] == 'V' else c for c in pden(x[1], args)}
    if h == 'CO':
        sc, rest = sched_of(x[1:])
        return {(sc if (c[0] == 'V' and sc) else c) for c in pden(rest[0], args)}
    if h == 'BK':
        n, bf = int(x[1]), x[2]
        thr = bf[0] == 'at' and 0 <= int(bf[1]) < n
        return {(('E', int(bf[2])) if (c[0] == 'V' and thr) else c) for c in pden(x[3], args)}
    raise ValueError(h)


def cstr(c):
    if c[0] == 'V':
        return 'V:' + ','.join(str(v) for v in c[1])
    if c[0] == 'E':
        return 'E:%d' % c[1]
    return 'S'


def mode_str(mode, c):
    """what sync_wait / start_detached must do with completion c according to the property"""
    if mode == 'run':
        return cstr(c)
    if mode == 'sw':
        return {'V': 'ret:' + cstr(c)[2:], 'E': 'throw:%d' % (c[1] if c[0] == 'E' else 0), 'S': 'stopped'}[c[0]]
    return {'V': 'released', 'E': 'died', 'S': 'released'}[c[0]]


def model_mode_str(mode, c):
    """Model/Sender.v sync_wait / start_detached applied to one member of the Coq den set (printed form)"""
    if mode == 'sw':
        return 'ret:' + c[2:] if c.startswith('V:') else ('throw:' + c[2:] if c.startswith('E:') else 'abort')
    return 'died' if c.startswith('E:') else 'released'


# ---------------------------------------------------------------------------- generator
class Gen:
    def __init__(self, rng):
        self.r = rng
        self.eid = 100

    def timing(self):
        return 'a' if self.r.random() < 0.3 else 'i'

    def leaf(self, inside_k):
        p = self.r.random()
        if inside_k and p < 0.35:
            return ['A', self.timing()]
        if p < 0.6:
            return ['J', self.timing()] + [str(self.r.randrange(0, 9)) for _ in range(self.r.randrange(0, 4))]
        if p < 0.8:
            self.eid += 1
            return ['E', self.timing(), str(100 + self.eid % 50)]
        return ['S', self.timing()]

    def fn(self):
        k = self.r.randrange(6)
        if k == 0:
            return ['add', str(self.r.randrange(1, 5))]
        if k == 1:
            return ['thr', str(200 + self.r.randrange(50))]
        if k == 2:
            return ['thrif', str(self.r.randrange(2, 4)), str(200 + self.r.randrange(50))]
        if k == 3:
            return ['sum']
        if k == 4:
            return ['rev']
        return ['add', '1']

    def sched(self):
        a = 'a' if self.r.random() < 0.3 else ''
        p = self.r.random()
        if p < 0.6:
            return [a + 'o']
        if p < 0.8:
            return [a + 'e', str(300 + self.r.randrange(50))]
        return [a + 's']

    def term(self, d, inside_k=False):
        if d <= 0 or self.r.random() < 0.12:
            return self.leaf(inside_k)
        k = self.r.randrange(100)
        sub = lambda: self.term(d - 1, inside_k)
        if k < 12:
            return ['T', self.fn(), sub()]
        if k < 20:
            kk = ['kthr', str(250 + self.r.randrange(20))] if self.r.random() < 0.2 else \
                ['ksel', self.term(d - 1, True), self.term(d - 1, True)]
            return ['LV', kk, sub()]
        if k < 28:
            kk = ['kthr', str(270 + self.r.randrange(20))] if self.r.random() < 0.2 else \
                ['ksel', self.term(d - 1, True), self.term(d - 1, True)]
            return ['LE', kk, sub()]
        if k < 40:
            return ['WA'] + [sub() for _ in range(self.r.randrange(1, 5))]
        if k < 52:
            return ['WV'] + [sub() for _ in range(self.r.randrange(0, 4))]
        if k < 64:
            return ['SP', str(self.r.randrange(1, 4)), sub()]
        if k < 70:
            return ['ST', sub()]
        if k < 78:
            return ['ES', sub()]
        if k < 81:
            return ['DV', sub()]
        if k < 84:
            return ['DO', sub()]
        if k < 87:
            return ['RS', sub()]
        if k < 90:
            return ['UN', sub()]
        if k < 95:
            return ['CO'] + self.sched() + [sub()]
        if k < 98:
            n = self.r.randrange(0, 5)
            bf = ['none'] if self.r.random() < 0.5 else ['at', str(self.r.randrange(0, 5)), str(200 + self.r.randrange(50))]
            return ['BK', str(n), bf, sub()]
        if k < 99:
            return ['SC'] + self.sched()
        return ['ER', sub()]


ASYNC_RE = re.compile(r'\((?:J|E|S|A) a|\((?:SC|CO) a')


def classify(sx):
    return sorted(set(re.findall(r'\((WA|WV|SP|ST|ES|LV|LE|CO|BK|T|DV|DO|RS|UN|SC|ER)\b', sx)))


# ---------------------------------------------------------------------------- the DIFF part
def run_pipes(ctx, r, drv, hp):
    rng = random.Random(ctx.seed * 7919 + 17)
    g = Gen(rng)
    ncases = 2500 if ctx.tier == 'quick' else 40000
    cases = []          # (id, mode, sx)
    for i in range(ncases):
        t = g.term(rng.randrange(1, 5))
        sx = show(t)
        p = rng.random()
        mode = 'run' if p < 0.74 else ('rd' if p < 0.86 else ('sw' if p < 0.94 else 'sd'))
        cases.append((str(i), 'run', sx))
        if mode != 'run':
            cases.append(('%d%s' % (i, mode), mode, sx))
    if ctx.replay:
        import json
        rp = json.load(open(ctx.replay)).get('replay', {})
        if rp.get('case'):
            c = rp['case'].split(' ', 4)
            cases = [(c[2], c[3], c[4])]
    inp = ''.join('IN PIPE %s %s %s\n' % c for c in cases)
    rc, out = sh([hp], input=inp, timeout=600 if ctx.tier == 'quick' else 3000)
    if rc != 0:
        r.hits.append(Hit('tie', 'C03:pipe_harness', 'pipeline harness failed rc=%d: %s' % (rc, out[-400:]), {'harness': 'c03_pipe'}))
    rc, tout = sh([hp, 'typed'], timeout=300)
    if rc != 0:
        r.hits.append(Hit('tie', 'C03:pipe_harness', 'typed corpus failed rc=%d: %s' % (rc, tout[-400:]), {'harness': 'c03_pipe typed'}))
    tin = [l for l in tout.split('\n') if l.startswith('IN PIPE ')]
    for l in tin:
        p = l.split(' ', 4)
        cases.append((p[2], p[3], p[4]))
    rc2, mout = sh([drv], input=inp + '\n'.join(tin) + '\n', timeout=1200)
    if rc2 != 0:
        r.hits.append(Hit('tie', 'C03:model_driver', 'model driver failed rc=%d: %s' % (rc2, mout[-400:]), {}))

    def index(text, kind):
        d = {}
        for l in text.split('\n'):
            if l.startswith(kind + ' PIPE '):
                p = l.split(' ', 3)
                d[p[2]] = p[3] if len(p) > 3 else ''
        return d
    iout = index(out + '\n' + tout, 'OUT')
    iobs = index(out + '\n' + tout, 'OBS')
    mo = index(mout, 'OUT')
    mden = index(mout, 'DEN')
    mled = index(mout, 'LED')
    skipped = 'SKIPPED PIPE' in out
    if skipped:
        r.notes.append('pipeline harness stopped early after 12 abnormal terminations (all reported)')
    runres = {}
    for (cid, mode, sx) in cases:
        if mode == 'run' and cid in iout:
            runres[cid] = iout[cid][2:]
    nshown = 0
    for (cid, mode, sx) in cases:
        line = 'IN PIPE %s %s %s' % (cid, mode, sx)
        rep = {'harness': 'c03_pipe', 'case': line}
        r.evaluations += 1
        if cid not in iout or cid not in iobs:
            if not skipped:
                r.hits.append(Hit('tie', 'C03:pipe_harness', 'no output for case %s' % line, rep))
            continue
        res = iout[cid][2:]
        obs = dict(kv.split('=') for kv in iobs[cid].split(' '))
        rep['observed'] = res
        rep['obs'] = iobs[cid]
        is_async = bool(ASYNC_RE.search(sx))
        feats = classify(sx)
        for f in feats:
            r.count('adaptor=' + f)
        r.count('mode=' + mode)
        r.count('timing=' + ('async' if is_async else 'inline'))
        if len(feats) >= 2 or is_async:
            r.nontrivial(line)
        # ---- the property itself on the implementation's observation (independent oracle)
        try:
            want = pden(parse(sx))
        except OverflowError:
            want = None
        fclass = '+'.join(f for f in feats if f in ('SP', 'ST', 'WV', 'WA', 'ES')) or 'plain'
        if mode in ('run', 'rd'):
            if res in ('abort', 'segv', 'hang', 'exit'):
                chan = 'stopped' if want is not None and ('S',) in want else 'other'
                r.hits.append(Hit('monitor', 'C03:pipe%s:%s:%s:%s' % ('' if mode == 'run' else ':destroy_in_receiver', res, fclass, chan),
                                  'pipeline %s: process %s instead of one completion signal (denoted: %s)'
                                  % (sx, res, sorted(cstr(c) for c in (want or []))), rep))
            else:
                if obs['n'] != '1':
                    r.hits.append(Hit('monitor', 'C03:pipe:signals:%s' % ('none' if obs['n'] == '0' else 'multi'),
                                      'pipeline %s: receiver got %s completion signals' % (sx, obs['n']), rep))
                elif want is not None and res not in {cstr(c) for c in want}:
                    r.hits.append(Hit('monitor', 'C03:pipe:wrong_completion',
                                      'pipeline %s: receiver got %s, the composition denotes %s'
                                      % (sx, res, sorted(cstr(c) for c in want)), rep))
                if obs['live'] != '0':
                    r.hits.append(Hit('monitor', 'C03:pipe:ledger:leak',
                                      'pipeline %s: %s payload objects never destroyed' % (sx, obs['live']), rep))
                if obs['bad'] != '0':
                    r.hits.append(Hit('monitor', 'C03:pipe:ledger:lifetime',
                                      'pipeline %s: %s uses of a destroyed / double destroyed payload' % (sx, obs['bad']), rep))
                if obs.get('ol', '0') != '0':
                    r.hits.append(Hit('monitor', 'C03:pipe:ledger:opstate_leak',
                                      'pipeline %s: %s leaf / scheduler operation states never destroyed' % (sx, obs['ol']), rep))
                if mode == 'rd' and not is_async and (obs.get('ld', '0') not in ('0', '-1') or obs.get('sd', '0') not in ('0', '-1')):
                    r.hits.append(Hit('monitor', 'C03:pipe:ledger:survives_destroy',
                                      'pipeline %s: %s leaf / %s scheduler operation states still alive after the receiver '
                                      'destroyed the operation state' % (sx, obs.get('ld'), obs.get('sd')), rep))
                if obs['same'] == '0':
                    r.hits.append(Hit('monitor', 'C03:pipe:exception_identity',
                                      'pipeline %s: error %s arrived as a different exception object' % (sx, res), rep))
        else:
            twin = runres.get(re.sub(r'(sw|sd|rd)$', '', cid))
            if want is not None:
                okset = {mode_str(mode, c) for c in want}
                if res not in okset:
                    if mode == 'sw' and res == 'abort' and 'stopped' in okset and (twin == 'S' or (is_async and len(okset) > 1)):
                        sig = 'C03:sync_wait:stopped:abort'
                    else:
                        sig = 'C03:%s:wrong:%s' % (mode, res if res in ('abort', 'hang', 'segv', 'died') else 'result')
                    r.hits.append(Hit('monitor', sig, '%s of pipeline %s: %s, expected one of %s'
                                      % ({'sw': 'sync_wait', 'sd': 'start_detached'}[mode], sx, res, sorted(okset)), rep))
            if res not in ('abort', 'died', 'hang', 'segv') and (obs['live'] != '0' or obs['bad'] != '0'):
                r.hits.append(Hit('monitor', 'C03:%s:ledger' % mode, '%s of %s: live=%s bad=%s after completion'
                                  % (mode, sx, obs['live'], obs['bad']), rep))
        # ---- correspondence with the extracted model
        if cid not in mo:
            r.hits.append(Hit('tie', 'C03:model_driver', 'model produced no line for %s' % line, rep))
            continue
        mres = mo[cid][2:]
        dens = set(mden.get(cid, '').split(';'))
        rep['model'] = mres
        if mode in ('run', 'rd') and want is not None and dens != {cstr(c) for c in want}:
            r.hits.append(Hit('model', 'C03:model:den', 'Coq den of %s is %s, the reference says %s'
                              % (sx, sorted(dens), sorted(cstr(c) for c in want)), rep))
        if is_async and mode in ('run', 'rd'):
            ok = res in dens
        else:
            ok = (res == mres) or (is_async and mode != 'run' and res in {model_mode_str(mode, c) for c in dens})
        # ---- the object ledger predicted by Model/SenderLedger.v (all leaves inline: the model is the sequential evaluator)
        led_ok = True
        if mode in ('run', 'rd') and cid in mled:
            ml = mled[cid]
            rep['model_ledger'] = ml
            if ml == 'none':
                r.hits.append(Hit('model', 'C03:model:ledger_undefined', 'ledger evaluator gives up on %s' % sx, rep))
                led_ok = False
            else:
                mf = dict(kv.split('=') for kv in ml.split(' '))
                if mf.get('nouse') != '1':
                    r.hits.append(Hit('model', 'C03:model:use_after_signal',
                                      'model trace of %s touches an operation state after it signalled its receiver' % sx, rep))
                    led_ok = False
                if not is_async and res not in ('abort', 'segv', 'hang', 'exit') and obs.get('n') == '1' and 'lc' in obs:
                    keys = ['lc', 'sc', 'ls', 'ss'] + (['ld', 'sd'] if mode == 'rd' else [])
                    bad = [k for k in keys if obs.get(k) != mf.get(k)]
                    r.count('ledger_compared')
                    if bad:
                        led_ok = False
                        r.hits.append(Hit('corr', 'C03:pipe:ledger_correspondence',
                                          'pipeline %s (%s): operation-state ledger differs in %s: implementation [%s] model [%s] '
                                          '(lc/sc constructed, ls/ss alive at the completion signal, ld/sd alive after destroy-in-receiver)'
                                          % (sx, mode, ','.join(bad), iobs[cid], ml), rep))
        if ok and led_ok:
            r.traces += 1
        elif not ok:
            r.hits.append(Hit('corr', 'C03:pipe:correspondence',
                              'pipeline %s (%s): implementation %s, model %s (den %s)' % (sx, mode, res, mres, sorted(dens)), rep))
        if nshown < 3 and len(feats) >= 3:
            nshown += 1
            r.sample({'term': sx, 'mode': mode, 'implementation': res, 'model': mres, 'den': sorted(dens)})



# ---------------------------------------------------------------------------- the LOCKSTEP part
def ho_expected(kind, chan, n, i):
    if chan == 'E':
        return 'E:105'
    if chan == 'S':
        return 'S'
    if kind == 'ST':
        return ['V:1', 'V:2', 'V:'][i]
    return 'V:1,2'


def ho_monitor(inl, outl):
    p = inl.split(' ')
    kind, chan, n = p[3], p[4], int(p[5])
    f = dict(x.split('=', 1) for x in outl.split(' ')[3:] if '=' in x)
    if 'STUCK' in outl:
        return 'stuck', 'no thread can run any more (schedule so far %s)' % p[6]
    per = f['sig'].split('|') if f['sig'] != '-' else []
    for i, x in enumerate(per):
        cnt, res, by = x.split(':', 1)[0], x.split(':', 1)[1].rsplit(':', 1)[0], x.rsplit(':', 1)[1]
        if cnt == '0':
            return 'lost', 'consumer %d was never signalled although predecessor and consumer finished' % (i + 1)
        if cnt != '1':
            return 'multi', 'consumer %d was signalled %s times' % (i + 1, cnt)
        if res != ho_expected(kind, chan, n, i):
            return 'wrong', 'consumer %d got %s, the predecessor completed with %s' % (i + 1, res, ho_expected(kind, chan, n, i))
        if by not in ('0', str(i + 1)):
            return 'wrong_thread', 'consumer %d signalled from thread %s' % (i + 1, by)
    if f.get('led') != '0':
        return 'leak', '%s payload objects alive after the shared state and all operation states were destroyed' % f.get('led')
    return None


def jn_monitor(inl, outl):
    p = inl.split(' ')
    kind, n, comps = p[3], int(p[4]), p[5]
    sched = [int(x) for x in p[6].split(',')] if p[6] != '-' else []
    f = dict(x.split('=', 1) for x in outl.split(' ')[3:] if '=' in x)
    if 'STUCK' in outl:
        return 'stuck', 'no thread can run any more'
    sites = [int(x) for x in f['sites'].split(',')] if f['sites'] != '-' else []
    if f['n'] == '0':
        return 'lost', 'all %d children completed, the receiver was never signalled' % n
    if f['n'] != '1':
        return 'multi', 'the receiver was signalled %s times' % f['n']
    # who set the flag first / who decremented last, from the observed step sequence
    first, last = None, None
    for t, st in zip(sched, sites):
        if st == 1 and first is None and comps[t] != 'V':
            first = t
        if st == 2:
            last = t
    if first is None:
        want = 'V:' + ','.join(str(10 * i + 1) for i in range(n))
    elif comps[first] == 'E':
        want = 'E:%d' % (100 + first)
    else:
        want = 'S'
    if f['r'] != want:
        return 'wrong', 'children %s: receiver got %s, expected %s (first failing flag step by child %s)' % (comps, f['r'], want, first)
    if f['by'] != str(last):
        return 'wrong_thread', 'signalled by thread %s, the last decrement was by %s' % (f['by'], last)
    if f.get('led') != '0':
        return 'leak', '%s payload objects alive after the operation state was destroyed' % f.get('led')
    return None


def run_lock(ctx, r, drv, hl):
    n = 3000 if ctx.tier == 'quick' else 40000
    seeds = [ctx.seed] if ctx.tier == 'quick' else [ctx.seed + k for k in range(3)]
    for sd in seeds:
        rc, out = sh([hl, str(sd), str(n)], timeout=400 if ctx.tier == 'quick' else 3000)
        lines = out.split('\n')
        rep0 = {'harness': 'c03_lock', 'args': [sd, n]}
        if rc != 0:
            r.hits.append(Hit('tie', 'C03:lock_harness', 'lock-step harness failed rc=%d: %s' % (rc, out[-400:]), rep0))
        ins = [x for x in lines if x.startswith('IN ')]
        outs = [x for x in lines if x.startswith('OUT ')]
        for d in [x for x in lines if x.startswith('DIED ')]:
            p = d.split(' ')
            r.hits.append(Hit('monitor', 'C03:%s:died:%s' % ('handoff' if p[1] == 'HO' else 'join', p[3]),
                              'lock-step case %s of seed %d: the process running the real %s %s'
                              % (p[2], sd, 'shared-state hand-off' if p[1] == 'HO' else 'when_all join',
                                 {'abort': 'aborted', 'hang': 'hung', 'segv': 'crashed', 'stuck': 'got stuck'}.get(p[3], p[3])),
                              dict(rep0, case_index=p[2])))
        rc2, mout = sh([drv], input='\n'.join(ins) + '\n', timeout=1200)
        mo = {}
        for l in mout.split('\n'):
            if l.startswith('OUT '):
                q = l.split(' ', 3)
                mo[(q[1], q[2])] = l
        io = {}
        for l in outs:
            q = l.split(' ', 3)
            io[(q[1], q[2])] = l
        shown = 0
        for i_ in ins:
            q = i_.split(' ')
            key = (q[1], q[2])
            r.evaluations += 1
            o_ = io.get(key)
            rep = dict(rep0, case=i_, observed=o_)
            if o_ is None:
                continue      # died: reported above
            sched = q[-1]
            nthreads = len(set(sched.split(','))) if sched != '-' else 0
            r.count('lock=%s/%s' % (q[1], q[3]))
            if nthreads >= 2:
                r.nontrivial(i_)
            m = ho_monitor(i_, o_) if q[1] == 'HO' else jn_monitor(i_, o_)
            if m:
                r.hits.append(Hit('monitor', 'C03:%s:%s:%s' % ('handoff' if q[1] == 'HO' else 'join', q[3], m[0]),
                                  '%s %s: %s [%s]' % ({'SP': 'split', 'ES': 'ensure_started', 'ST': 'split_tuple', 'WA': 'when_all',
                                                       'WV': 'when_all_vector'}[q[3]], 'hand-off' if q[1] == 'HO' else 'join', m[1], i_), rep))
            ml = mo.get(key)
            if ml is None:
                r.hits.append(Hit('tie', 'C03:model_driver', 'model produced no line for %s' % i_, rep))
            elif ml.replace(' STUCK', '') == o_.replace(' STUCK', '') and 'STUCK' not in o_:
                r.traces += 1
            else:
                r.hits.append(Hit('corr', 'C03:lock:correspondence',
                                  'lock-step %s: implementation [%s] model [%s]' % (i_, o_, ml), dict(rep, model=ml)))
            if shown < 2 and nthreads >= 3:
                shown += 1
                r.sample({'input_and_schedule': i_, 'observed': o_})


# ---------------------------------------------------------------------------- LIFE: lifetime of the shared state
KIND_NAME = {'SP': 'split', 'ES': 'ensure_started', 'ST': 'split_tuple'}
# replayed on every run: the schedules on which split_tuple's predecessor thread used the freed shared state while its
# receiver held a plain reference (KNOWN_FINDINGS.txt, fixed:) — P2 and P3, P3 only, 3 consumers, error / stopped
# completion, one operation state destroyed later by its owner — and the same schedules for split / ensure_started
LIFE_FIXED = [('ST', 'V', 2, '11', '1,0,0,1,2,2,0,0'), ('ST', 'V', 2, '11', '1,0,0,0,1,2,2,0'),
              ('ST', 'V', 3, '111', '1,0,0,1,2,2,3,3,0,0'), ('ST', 'E', 2, '10', '1,0,0,1,2,2,2,0,0'),
              ('ST', 'S', 2, '11', '1,0,0,1,2,0,2,0'), ('ST', 'V', 2, '00', '1,0,0,1,2,2,1,2,0,0'),
              ('SP', 'V', 2, '11', '1,0,0,1,2,2,0,0'), ('ES', 'V', 1, '1', '0,0,1,1,0,0')]


def hl_fields(o_):
    return dict(x.split('=', 1) for x in o_.split(' ')[3:] if '=' in x)


def hl_monitor(i_, o_):
    """independent of the model: no member of the shared state is touched after it was freed; every consumer signalled
    exactly once; the shared state is freed once every operation state is gone; one allocation"""
    q = i_.split(' ')
    kind, n = q[3], int(q[5])
    f = hl_fields(o_)
    if f.get('bad', '-') != '-':
        acc = ', '.join('thread %s released from site %s' % tuple(b.split('.')) for b in f['bad'].split(','))
        return ('%s:state_used_after_free' % KIND_NAME[kind],
                'the shared state was deallocated by thread %s (last reference released) and accessed afterwards: %s '
                '(site 2 = lock_guard on mtx in set_predecessor_done, 3 = continuations)' % (f.get('freed'), acc))
    if 'STUCK' in o_:
        return ('life:%s:stuck' % kind, 'parked threads but none may run')
    sig = f.get('sig', '').split('|')
    if len(sig) != n or any(not x.startswith('1:') for x in sig):
        return ('life:%s:consumer_signals' % kind, 'not every consumer was signalled exactly once: %s' % f.get('sig'))
    if f.get('freed', '-') == '-':
        return ('life:%s:state_leaked' % kind, 'every operation state was destroyed but the shared state was never deallocated')
    if f.get('allocs') != '1':
        return ('life:%s:allocations' % kind, 'expected one allocation through the adaptor\'s allocator, saw %s' % f.get('allocs'))
    return None


def run_life(ctx, r, drv, hl):
    n = 1500 if ctx.tier == 'quick' else 20000
    ins, outs = [], []
    # fixed witnesses first
    for k, (kind, chan, nc, obits, sched) in enumerate(LIFE_FIXED):
        rc, out = sh([hl, 'replay', 'HL', kind, chan, str(nc), obits, sched], timeout=60)
        li = [x for x in out.split('\n') if x.startswith('IN HL ')]
        lo = [x for x in out.split('\n') if x.startswith('OUT HL ')]
        rep = {'harness': 'c03_lock', 'args': ['replay', 'HL', kind, chan, nc, obits, sched]}
        if len(li) != 1 or len(lo) != 1:
            r.hits.append(Hit('monitor', 'C03:life:%s:died' % kind, 'fixed lifetime case %s %s %d %s %s: the process running the real %s '
                              'ended with status %d: %s' % (kind, chan, nc, obits, sched, KIND_NAME[kind], rc, out[-300:]), rep))
            continue
        ins.append((li[0].replace('IN HL 0 ', 'IN HL f%d ' % k), rep))
        outs.append(lo[0].replace('OUT HL 0 ', 'OUT HL f%d ' % k))
    rc, out = sh([hl, 'life', str(ctx.seed), str(n)], timeout=400 if ctx.tier == 'quick' else 3000)
    lines = out.split('\n')
    rep0 = {'harness': 'c03_lock', 'args': ['life', ctx.seed, n]}
    if rc != 0:
        r.hits.append(Hit('tie', 'C03:lock_harness', 'lock-step harness (life) failed rc=%d: %s' % (rc, out[-400:]), rep0))
    ins += [(x, dict(rep0, case=x)) for x in lines if x.startswith('IN HL ')]
    outs += [x for x in lines if x.startswith('OUT HL ')]
    for d in [x for x in lines if x.startswith('DIED ')]:
        p = d.split(' ')
        r.hits.append(Hit('monitor', 'C03:life:died:%s' % p[3], 'lifetime case %s of seed %d: the process running the real shared state %s'
                          % (p[2], ctx.seed, {'abort': 'aborted', 'hang': 'hung', 'segv': 'crashed', 'stuck': 'got stuck'}.get(p[3], p[3])),
                          dict(rep0, case_index=p[2])))
    rc2, mout = sh([drv], input='\n'.join(i for i, _ in ins) + '\n', timeout=1200)
    mo = {l.split(' ', 3)[2]: l for l in mout.split('\n') if l.startswith('OUT HL ')}
    io = {l.split(' ', 3)[2]: l for l in outs}
    shown = 0
    for i_, rep in ins:
        q = i_.split(' ')
        r.evaluations += 1
        o_ = io.get(q[2])
        if o_ is None:
            continue
        rep = dict(rep, case=i_, observed=o_)
        r.count('life=%s/inside=%s' % (q[3], 'all' if '0' not in q[6] else 'none' if '1' not in q[6] else 'some'))
        if len(set(q[-1].split(','))) >= 2:
            r.nontrivial(i_)
        m = hl_monitor(i_, o_)
        if m:
            r.hits.append(Hit('monitor', 'C03:' + m[0], '%s, %s consumers, operation states destroyed inside the signal: %s — %s [%s]'
                              % (KIND_NAME[q[3]], q[5], q[6], m[1], i_), rep))
        ml = mo.get(q[2])
        if ml is None:
            r.hits.append(Hit('tie', 'C03:model_driver', 'model produced no line for %s' % i_, rep))
        elif ml == o_:
            r.traces += 1
        else:
            r.hits.append(Hit('corr', 'C03:life:correspondence', 'lifetime %s: implementation [%s] model [%s]' % (i_, o_, ml), dict(rep, model=ml)))
        if shown < 2 and q[3] == 'ST' and '1' in q[6]:
            shown += 1
            r.sample({'input_and_schedule': i_, 'observed': o_})


# ---------------------------------------------------------------------------- the real-concurrency STRESS part
ST_NAME = {'SPI': 'split (predecessor completes inline in start)', 'SPA': 'split (predecessor completes from a racing thread)',
           'ES': 'ensure_started (consumer start races the predecessor completion)',
           'STI': 'split_tuple (inline predecessor)', 'STA': 'split_tuple (predecessor completes from a racing thread)'}


def st_classify(f, K):
    """the property on one trial's observation: predecessor started once, callable ran once, every consumer one value"""
    if f.get('starts') != '1':
        return 'predecessor_started_%s' % ('never' if f.get('starts') == '0' else 'twice'), \
            'the shared predecessor was started %s times by %d concurrent consumers' % (f.get('starts'), K)
    if f.get('calls') != '1':
        return 'callable_ran_%s' % ('never' if f.get('calls') == '0' else 'twice'), 'the callable in front of the shared state ran %s times' % f.get('calls')
    want, stride = f.get('want', '0+0i').rstrip('i').split('+')
    for i, x in enumerate(f.get('sig', '').split('|')):
        n, val, other = x.split(':')
        if n == '0':
            return 'consumer_lost', 'consumer %d was never signalled although every start() and the predecessor completion returned' % (i + 1)
        if n != '1':
            return 'consumer_multi', 'consumer %d was signalled %s times' % (i + 1, n)
        if other != '0' or int(val) != int(want) + i * int(stride):
            return 'consumer_wrong', 'consumer %d got %s (error/stopped signals: %s), expected value %d' % (i + 1, val, other, int(want) + i * int(stride))
    return 'inconsistent', 'harness reported a bad trial'


def run_stress(ctx, r, hl):
    quick = ctx.tier == 'quick'
    n, budget = (1100000, 12000) if quick else (11000000, 120000)
    rc, out = sh([hl, 'stress', str(ctx.seed), str(n), str(budget)], timeout=budget / 1000 + 240)
    lines = out.split('\n')
    rep0 = {'harness': 'c03_lock', 'args': ['stress', ctx.seed, n, budget]}
    done = [x for x in lines if x.startswith('DONE ST ')]
    if rc != 0 or not done:
        r.hits.append(Hit('tie', 'C03:stress_harness', 'stress harness failed rc=%d: %s' % (rc, out[-400:]), rep0))
    for l in lines:
        if l.startswith('SUM ST '):
            q = l.split(' ')
            r.count('stress=%s/K=%s' % (q[2], q[3]), int(q[4]))
            r.nontrivial('stress %s K=%s: %s consumers released from a spin barrier' % (q[2], q[3], q[3]))
        elif l.startswith('BAD ST '):
            f = dict(x.split('=', 1) for x in l.split(' ')[3:] if '=' in x)
            K = int(f.get('K', '0'))
            what, text = st_classify(f, K)
            r.hits.append(Hit('monitor', 'C03:stress:%s:%s' % (f.get('mode'), what),
                              '%s, K=%d concurrent start() calls (offsets %s): %s [%s]' % (ST_NAME.get(f.get('mode'), f.get('mode')), K, f.get('delays'), text, l),
                              dict(rep0, trial=l.split(' ')[2], observed=l)))
        elif l.startswith('DIED ST '):
            q = l.split(' ')
            f = dict(x.split('=', 1) for x in q[4:] if '=' in x)
            r.hits.append(Hit('monitor', 'C03:stress:%s:died:%s' % (f.get('mode'), q[3]),
                              '%s, K=%s concurrent start() calls: the process running the real shared state %s in trial %s'
                              % (ST_NAME.get(f.get('mode'), f.get('mode')), f.get('K'),
                                 {'abort': 'aborted', 'hang': 'hung', 'segv': 'crashed'}.get(q[3], q[3]), q[2]),
                              dict(rep0, trial=q[2], observed=l)))
        elif l.startswith('SKIPPED ST'):
            r.notes.append('stress harness stopped early: ' + l)
    if done:
        m = re.search(r'trials=(\d+) ms=(\d+)', done[0])
        if m:
            r.extra['stress_trials'] = int(m.group(1))    # reported separately: not mixed into the case count
            r.extra['stress_ms'] = int(m.group(2))
            if int(m.group(1)) < 200000 and not any(h.signature.startswith('C03:stress') for h in r.hits):
                r.notes.append('stress: only %s trials fitted into the %d ms budget (machine overloaded)' % (m.group(1), budget))
        r.sample({'stress': done[0], 'modes': [x for x in lines if x.startswith('SUM ST ')]})


def run(ctx):
    r = Result()
    r.rule = ('DIFF: pipeline terms (depth<=4 over 19 constructors, leaf channel value/error/stopped, leaf timing inline / '
              'later from another thread) are generated from VERIF_SEED, built as real pika pipelines with every stage '
              'boxed in unique_any_sender, and compared with the extracted evaluator (equal when all leaves are inline, '
              'member of den otherwise); plus a statically typed un-erased corpus. LOCKSTEP: split/ensure_started/'
              'split_tuple hand-off and when_all(_vector) join under controller-chosen interleavings replayed by '
              'Model/Handoff.v. LIFE (c03_lock life): the same hand-off with the shared state allocated on pages of its own through the adaptor\'s allocator argument, made inaccessible by deallocate; consumers destroy their operation states inside the signal or in a later scheduled step (oracle per consumer); every access to the freed state faults and is recorded; compared with l_bad / l_rel of Model/HandoffLife.v; 8 fixed schedules (the former split_tuple use-after-free) are replayed first. STRESS (c03_lock stress): real concurrency, no controller — K in {2,3,4} consumers of ONE split '
              'sender (K in {2,3} element senders of one split_tuple; for ensure_started the single consumer against the '
              'predecessor completion) are released from a spin barrier with offsets swept over 0..255 spin iterations and call '
              'start() at the same instant; predecessor = counting leaf | then(counting callable), completing inline or from one '
              'more racing thread; monitor per trial: leaf started exactly once, callable ran exactly once, every consumer exactly '
              'one set_value with the right value; forked child, crash/hang = hit; 1.1 M trials quick (11 M thorough), time-boxed. '
              'Non-trivial = >=2 adaptor kinds or an asynchronous leaf / >=2 threads interleaving / a stress (mode, K) class.')
    ctx.build_pika()
    drv = ctx.build_model('C03', 'ExtractC03.v', 'drv_c03.ml')
    hp = ctx.build_harness('c03_pipe', 'c03_pipe.cpp')
    hl = ctx.build_harness('c03_lock', 'c03_lock.cpp')
    run_pipes(ctx, r, drv, hp)
    run_lock(ctx, r, drv, hl)
    run_life(ctx, r, drv, hl)
    if not ctx.replay:
        run_stress(ctx, r, hl)
    return r
