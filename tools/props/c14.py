# C14 — stop_token: one winning stop request, each callback exactly once.
#   LOCKSTEP  harness/c14_lockstep.cpp  real stop_source/stop_token/stop_callback on std::threads, every atomic
#             access of stop_state is a controller step; Model/StopState.v (extracted) replays the schedule
#   DIFF      harness/c14_handles.cpp   generated stop_source/stop_token copy/move/assign/swap/destroy histories
#             on the real classes vs Model/StopHandles.v
#   RUNTIME   harness/c14_rt.cpp        pika tasks + OS threads (valid pika thread ids), watchdog
import json
import os
import re

from vlib import Hit, Result, diff_lines, sh
from props.c14_ls import ls_monitor
from props.stress_twin import run_twin, twin_replay

try:
    from props import c14_handles
except Exception:  # pragma: no cover
    c14_handles = None

ASSUMPTIONS = [
    'sequentially consistent interleaving at the granularity of the atomic accesses to stop_state::state_ and '
    'callback_finished_executing_; data touched only under the lock bit is updated in the step that takes the lock',
    'compare_exchange_weak never fails spuriously on x86: the model allows it (oracle bit), the lock-step runs do not exercise it',
    'fewer than 2^31-1 owners / sources per stop state (counts_fit side condition; the model wedges instead of overflowing a counter)',
    'the master token of the lock-step harness keeps the state alive (deletion of the state is covered by the handle-history model only)',
    'distinct pika threads have distinct thread ids; distinct OS threads have distinct std::thread::id',
]


def run_lockstep(ctx, r, drv):
    h = ctx.build_harness('c14_lockstep', 'c14_lockstep.cpp')
    if ctx.tier == 'quick':
        plan = [(ctx.seed, 4000)]
    else:
        plan = [(ctx.seed + k, 40000) for k in range(4)]
    restarts = 0
    for sd, n in plan:
        first = 0
        while first < n:
            rc, out = sh([h, str(sd), str(first), str(n - first)], timeout=1800)
            lines = out.split('\n')
            ins = [x for x in lines if x.startswith('IN LS ')]
            outs = [x for x in lines if x.startswith('OUT LS ')]
            viols = {}
            for x in lines:
                if x.startswith('VIOL LS '):
                    p = x.split(' ')
                    viols[p[2]] = p[3].split(',')
            inmap = {x.split(' ')[2]: x for x in ins}
            rc2, mout = sh([drv], input='\n'.join(ins) + '\n', timeout=1800)
            mouts = [x for x in mout.split('\n') if x.startswith('OUT LS ')]
            if rc2 != 0:
                r.hits.append(Hit('tie', 'C14:lockstep:driver', 'model driver failed rc=%d: %s' % (rc2, mout[-400:]), {}))
            # a stuck implementation run has no comparable OUT line: the monitor reports it
            cmp_outs = [x for x in outs if ' stuck=1' not in x]
            stuck_ids = set(x.split(' ')[2] for x in outs if ' stuck=1' in x)
            diffs, ncases = diff_lines(ctx, cmp_outs, [m for m in mouts if m.split(' ')[2] not in stuck_ids])
            r.evaluations += len(outs)
            r.traces += ncases - len(diffs)
            for o_ in outs:
                cid = o_.split(' ')[2]
                i_ = inmap.get(cid, '')
                if not i_:
                    continue
                for (sig, detail) in ls_monitor(i_, o_, viols.get(cid, ())):
                    r.hits.append(Hit('monitor', 'C14:' + sig, 'stop_state lock-step: ' + detail,
                                      {'harness': 'c14_lockstep', 'args': [sd, int(cid), 1], 'case': i_, 'observed': o_}))
                T = int(re.search(r' T=(\d+)', i_).group(1))
                C = int(re.search(r' C=(\d+)', i_).group(1))
                sites = re.search(r' sites=(\S+)', o_).group(1).split(',')
                r.count('threads=%d' % T)
                r.count('callbacks=%d' % C)
                r.count('steps<=%d' % (((len(sites) // 20) + 1) * 20))
                nq = i_.count('Q')
                if T >= 2 and (nq >= 2 or (C >= 1 and nq >= 1)) and len(sites) >= 8:
                    r.nontrivial(i_)
                for s in ('3', '6', '9', '15'):
                    if s in sites:
                        r.count('spin_site_14%02d_seen' % int(s))
            # model-side monitor: the same property evaluated on the model's own run
            for m_ in mouts[:len(mouts)]:
                cid = m_.split(' ')[2]
                i_ = inmap.get(cid, '')
                if i_ and cid not in stuck_ids and ' stuck=0' in m_:
                    for (sig, detail) in ls_monitor(i_, m_):
                        r.hits.append(Hit('model', 'C14:model:' + sig, 'Model/StopState.v violates the property: ' + detail,
                                          {'case': i_, 'model': m_}))
            for (k, a, b) in diffs[:10]:
                r.hits.append(Hit('corr', 'C14:lockstep:correspondence',
                                  'stop_state: implementation and model differ on case %s: impl [%s] model [%s]' % (k, a[:300], b[:300]),
                                  {'harness': 'c14_lockstep', 'args': [sd, int(k[1]), 1], 'case': inmap.get(k[1]), 'impl': a, 'model': b}))
            for s in list(zip(ins, outs))[:2]:
                r.sample({'input_and_schedule': s[0], 'observed': s[1]})
            if rc == 0:
                break
            # the harness left early: hang (4), stuck case (5) or crash: report and continue after that case
            last = max([int(x.split(' ')[2]) for x in ins] + [first - 1])
            m = re.search(r'HANG LS (\d+)', out)
            if m:
                last = max(last, int(m.group(1)))
                r.hits.append(Hit('monitor', 'C14:lockstep:hang', 'the real code hung outside the controlled points (case %s seed %d)' % (m.group(1), sd),
                                  {'harness': 'c14_lockstep', 'args': [sd, int(m.group(1)), 1], 'case': inmap.get(m.group(1))}))
            elif rc != 5:
                # the case that was running when the process died has printed nothing yet
                last += 1
                r.hits.append(Hit('monitor', 'C14:lockstep:crash', 'lock-step harness died rc=%d in case %d seed %d: %s' % (rc, last, sd, out[-300:]),
                                  {'harness': 'c14_lockstep', 'args': [sd, last, 1]}))
            first = last + 1
            restarts += 1
            # every hang costs a watchdog period: a few are evidence enough
            if restarts >= (6 if rc == 5 else 3) or len([h_ for h_ in r.hits if h_.kind == 'monitor']) > 200:
                r.notes.append('lock-step run cut short after %d restarts of the harness (hang / stuck / crash)' % restarts)
                return


def run_rt(ctx, r):
    h = ctx.build_harness('c14_rt', 'c14_rt.cpp')
    iters = 300 if ctx.tier == 'quick' else 5000
    rc, out = sh([h, str(ctx.seed), str(iters)], timeout=600)
    got = {}
    for ln in out.split('\n'):
        if ln.startswith('OUT RT '):
            p = ln.split(' ')
            got[p[2]] = dict(x.split('=', 1) for x in p[3:] if '=' in x)
    rep = {'harness': 'c14_rt', 'args': [ctx.seed, iters], 'output': out[-1500:]}
    r.evaluations += iters + iters // 4 + 3

    def bad(sig, detail):
        r.hits.append(Hit('monitor', 'C14:' + sig, 'stop_token on the running runtime: ' + detail, rep))
    for case in ('f5', 'f5req', 'race', 'dtorwait'):
        g = got.get(case)
        if g is None or g.get('hang') == '1':
            if case == 'f5':
                bad('callback_dtor_hang:pika_thread:no_source_no_request',
                    '~stop_callback never returned on a pika thread (token with a state, no stop_source left, no request)')
            else:
                bad('rt:%s:hang' % case, 'case %s did not finish (watchdog) rc=%d' % (case, rc))
            return
    if got['f5'].get('ran') != '0':
        bad('rt:f5:ran', 'callback ran although stop was never requested')
    g = got['f5req']
    if g.get('ran') != '1' or g.get('ran_at_ctor') != '1' or g.get('first') != '1':
        bad('rt:ctor_not_immediate', 'stop already requested: callback must run exactly once inside the constructor: %s' % g)
    g = got['race']
    if g.get('bad_winners') != '0':
        bad('rt:request_stop:winners', '%s of %s racing rounds did not have exactly one request_stop returning true' % (g['bad_winners'], g['iters']))
    if g.get('bad_runs') != '0':
        bad('rt:callback:not_exactly_once', '%s registered callbacks did not run exactly once' % g['bad_runs'])
    if g.get('bad_late') != '0':
        bad('rt:ctor_not_immediate', 'callback registered after the request did not run in the constructor (%s times)' % g['bad_late'])
    if g.get('bad_flag') != '0':
        bad('rt:not_sticky', 'stop_requested()/stop_possible() false after request_stop (%s times)' % g['bad_flag'])
    g = got['dtorwait']
    if g.get('dtor_early') != '0':
        bad('rt:dtor:returned_during_run', 'destructor returned while the callback was running on another thread (%s of %s)' % (g['dtor_early'], g['iters']))
    if g.get('self_dereg_bad') != '0':
        bad('rt:self_deregistration', 'callback deregistering itself did not complete exactly once (%s)' % g['self_dereg_bad'])
    if 'done' not in got or rc != 0:
        bad('rt:shutdown', 'runtime harness did not shut down cleanly rc=%d: %s' % (rc, out[-300:]))
    r.count('rt_race_rounds', iters)
    r.sample({'runtime_harness': [ln for ln in out.split('\n') if ln.startswith('OUT RT')]})


def run_ident(ctx, r):
    """identity of the signalling thread when pika tasks share / change worker OS threads (harness/c14_ident.cpp)"""
    h = ctx.build_harness('c14_ident', 'c14_ident.cpp')
    n = 120 if ctx.tier == 'quick' else 1500
    for workers, policy in ((1, 'local'), (4, 'static'), (4, 'local')):
        rc, out = sh([h, str(workers), policy, str(ctx.seed), str(n)], timeout=600)
        lines = out.split('\n')
        ins = {x.split(' ')[2]: x for x in lines if x.startswith('IN ID ')}
        outs = [x for x in lines if x.startswith('OUT ID ')]
        rep = {'harness': 'c14_ident', 'args': [workers, policy, ctx.seed, n]}
        ended = any(x.startswith('END ID') for x in lines)
        r.evaluations += len(outs)
        for o_ in outs:
            p = o_.split(' ')
            f = dict(x.split('=', 1) for x in p[3:] if '=' in x)
            i_ = ins.get(p[2], '')
            rp = dict(rep, case=i_, observed=o_)
            scen = f.get('scen')
            if f.get('hang') == '1':
                r.hits.append(Hit('monitor', 'C14:rt:ident:hang:%s' % scen, 'no progress for 30 s in scenario %s (%d workers, %s): %s' % (scen, workers, policy, i_), rp))
                continue
            if scen == 'dtor':
                where = 'same_os_thread_other_task' if f.get('same_os') == '1' else 'other_os_thread_other_task'
                r.count('ident:dtor:%s:workers=%d:%s' % (where, workers, policy))
                r.nontrivial('ident:%d:%s:%s' % (workers, policy, i_))
                if f.get('returned') != '1':
                    r.hits.append(Hit('monitor', 'C14:rt:ident:dtor_hang:%s' % where,
                                      'task B destroying a stop_callback whose callback is in progress inside task A (request_stop) did not return within 10 s: %s | %s' % (i_, o_), rp))
                elif f.get('early') != '0':
                    r.hits.append(Hit('monitor', 'C14:rt:dtor_returned_during_callback:%s' % where,
                                      'task A called request_stop(); its callback gave up the worker (yield / suspend) for ~2 ms; task B destroyed that stop_callback '
                                      'meanwhile: the destructor returned although the callback had not finished (flag stored by its last statement was false). '
                                      'B entered the destructor on %s as the one on which A entered request_stop (%d workers, scheduler %s): %s | %s'
                                      % ('the SAME worker OS thread' if f.get('same_os') == '1' else 'ANOTHER worker OS thread', workers, policy, i_, o_), rp))
                elif f.get('ran') != '1' or f.get('req') != '1':
                    r.hits.append(Hit('monitor', 'C14:rt:ident:callback_runs', 'callback ran %s times, request_stop returned %s: %s' % (f.get('ran'), f.get('req'), o_), rp))
            elif scen == 'self':
                mig = 'after_migration' if f.get('migrated') == '1' else 'same_worker'
                r.count('ident:self:%s:workers=%d:%s' % (mig, workers, policy))
                r.nontrivial('ident:%d:%s:%s' % (workers, policy, i_))
                if f.get('returned') != '1':
                    r.hits.append(Hit('monitor', 'C14:rt:self_deregistration:deadlock:%s' % mig,
                                      'a callback that gave up its worker%s and then destroyed its own stop_callback from inside never returned (request_stop did not '
                                      'return within 10 s): the destructor waits for the callback running on its own thread (= the same pika task) (%d workers, scheduler %s): %s | %s'
                                      % (' and continued on another worker OS thread' if f.get('migrated') == '1' else '', workers, policy, i_, o_), rp))
                elif f.get('ran') != '1' or f.get('req') != '1' or f.get('cb_done') != '1':
                    r.hits.append(Hit('monitor', 'C14:rt:self_deregistration:outcome', 'self-deregistering callback: %s' % o_, rp))
        if not ended and not any(' returned=0' in x or ' hang=1' in x for x in outs):
            r.hits.append(Hit('monitor' if outs else 'tie', 'C14:rt:ident:crash',
                              'c14_ident %d %s died rc=%d: %s' % (workers, policy, rc, ' | '.join(lines[-5:])[-400:]), rep))
        r.sample({'ident_harness': [workers, policy] + outs[:2]})


def run(ctx):
    r = Result()
    r.rule = ('LOCKSTEP: (thread count 2..4, per-thread programs of request_stop / construct callback / destroy callback / '
              'copy+drop token and source, callback bodies that deregister themselves or others, register others, request stop) '
              'generated from VERIF_SEED; the controller picks the interleaving of the atomic steps of the real stop_state, the '
              'extracted model replays it; non-trivial = >=2 threads, >=2 request_stop or a callback plus a request, >=8 steps. '
              'DIFF: generated handle histories (<=12 ops quick) on real stop_source/stop_token vs Model/StopHandles.v, '
              'stop_possible()/stop_requested() of every live handle compared after every step. RUNTIME: pika tasks + OS '
              'threads, monitors only. IDENT (harness/c14_ident.cpp; 1 worker, 4 workers static scheduler with hints, 4 workers stealing scheduler): '
              'task A calls request_stop(), its callback gives up the worker for ~2 ms (yield loop / suspension released by an OS thread / both), a different '
              'task B hinted to the same or to another worker destroys that stop_callback meanwhile -- the destructor returns only after the callback\'s last '
              'statement (hit classified by the observed OS thread ids: same_os_thread_other_task / other_os_thread_other_task); dual: a callback that gave up its '
              'worker (and migrated to another worker OS thread where tasks are stolen) destroys its own stop_callback from inside and must not deadlock (10 s watchdog). '
              'STRESS (free-running stress twin, harness/c14_stress.cpp): real concurrency on plain OS threads, no controller, no '
              'hook installed — per trial a fresh stop_source (one copy per requester), one token, M in 0..5 stop_callbacks '
              'registered up front (kinds: plain / destroys itself from inside the callback / destroyed by a racing thread), then '
              'K in 2..4 threads call request_stop() at the same instant (spin barrier, offsets swept over 0..255 spin iterations), '
              'optionally one thread destroying callbacks, one thread constructing 1..2 more callbacks during the race (and '
              'possibly destroying them at once), token/source copy+drop churn on the same atomic word; callback bodies spin a swept '
              'time. Monitors per trial, independent of the model: exactly one request_stop() returned true (two_winners / '
              'no_winner), stop_requested() true on the calling thread right after every request_stop() and on token / source / fresh '
              'token afterwards, every callback at most once, every callback that nobody destroyed ran exactly once when all '
              'request_stop() calls have returned (callback:lost), no callback starting or still running after its destructor '
              'returned (after_dtor / dtor:returned_during_run), constructor runs the callback when the request was already visible, '
              'self-deregistration completes, all destructors return (watchdog: crash/hang = hit); forked child; 10 s time box quick '
              '(~2 M trials on an idle machine), 90 s thorough. It exists because lock-step cannot schedule inside an atomic step '
              'that a code change split in two (e.g. the request CAS replaced by load + store).')
    ctx.build_pika()
    drv = ctx.build_model('C14', 'ExtractC14.v', 'drv_c14.ml')
    if ctx.replay:
        try:
            rp = json.load(open(ctx.replay)).get('replay', {})
        except Exception:
            rp = {}
        if rp.get('harness') == 'c14_lockstep' and rp.get('case'):
            h = ctx.build_harness('c14_lockstep', 'c14_lockstep.cpp')
            rc, out = sh([h, '1', '0', '1', rp['case']], timeout=120)
            ins = [x for x in out.split('\n') if x.startswith('IN LS ')]
            outs = [x for x in out.split('\n') if x.startswith('OUT LS ')]
            ctx.say('replay: ' + (outs[0] if outs else out[-300:]))
            if ins and outs:
                for (sig, detail) in ls_monitor(ins[0], outs[0]):
                    r.hits.append(Hit('monitor', 'C14:' + sig, 'stop_state lock-step (replay): ' + detail, rp))
            r.evaluations += 1
    run_lockstep(ctx, r, drv)
    if c14_handles is not None:
        c14_handles.run_handles(ctx, r, drv)
    else:
        r.hits.append(Hit('tie', 'C14:handles:missing', 'tools/props/c14_handles.py not importable', {}))
    run_rt(ctx, r)
    run_ident(ctx, r)
    if not ctx.replay or twin_replay(ctx, 'c14_stress'):
        hs = ctx.build_harness('c14_stress', 'c14_stress.cpp')
        run_twin(ctx, r, 'C14', hs, 'c14_stress', 'STS', [], 100000000, 10000 if ctx.tier == 'quick' else 90000,
                 'stop_source/stop_callback on OS threads', min_trials=100000)
    return r
