# C13, the handle used by a third party while a join is in progress (harness/c13_huse.cpp).  A target blocks for ever
# (semaphore / cv / held pika::mutex / flag poll), a joiner task is suspended (or about to suspend) inside t.join(), a third
# pika task or OS thread calls joinable / get_id / native_handle / interruption_requested / swap / move / detach and finally
# interrupt() on the SAME pika::thread object: every call returns, the observers see the handle of a thread that is being
# joined, the interrupt ends the target, join returns, the handle is not joinable afterwards.  The layered model
# (Model/JoinLock.v: Join.v plus the handle's spinlock, unlock-before-wait read from the source by tools/genmods/c13.py) runs
# the same cases (IN HUSE) and must predict the same outcome; with the model's own monitor (nobody is left waiting for the
# handle lock in a stuck state) evaluated on every case.  Used by tools/props/c13.py.
from vlib import Hit, diff_lines, sh

N = {'quick': 150, 'thorough': 1500}
SIG = 'C13:handle_use_during_join:%s:%s'


def kv(line):
    return dict(x.split('=', 1) for x in line.split(' ')[3:] if '=' in x)


def canon(f):
    """what the model predicts as well: all calls returned, target interrupted, join returned, not joinable"""
    a, _, b = f.get('returned', '?/?').partition('/')
    return 'calls_returned=%d target_interrupted=%d join_returned=%d joinable_after=%s' % (
        1 if a == b and a != '?' else 0, 1 if f.get('target') == '1' else 0, 1 if f.get('join') == '1' else 0,
        f.get('joinable_after') if f.get('join') == '1' else '-')


def run_huse(ctx, r, drv, workers, seed, n, timeout, only=None):
    """returns True when a case got stuck (the run stops there: each stuck case costs the watchdog bound)"""
    h = ctx.build_harness('c13_huse', 'c13_huse.cpp')
    args = [str(workers), str(seed), str(n)] + ([str(only)] if only is not None else [])
    rc, out = sh([h] + args, timeout=timeout)
    lines = out.split('\n')
    ins = [x for x in lines if x.startswith('IN HUSE ')]
    outs = [x for x in lines if x.startswith('OUT HUSE ')]
    stats = {x.split(' ')[2]: kv(x) for x in lines if x.startswith('STAT HUSE ')}
    inmap = {x.split(' ')[2]: x for x in ins}
    ended = any(x.startswith('END HUSE') for x in lines) or any(x.startswith('NOTE HUSE stopped') for x in lines)
    stuck = False
    impl = []
    for o_ in outs:
        cid = o_.split(' ')[2]
        i_ = inmap.get(cid, '')
        fi, f = (kv(i_) if i_ else {}), kv(o_)
        rep = {'harness': 'c13_huse', 'args': [workers, seed, n, int(cid)], 'case': i_, 'observed': o_}
        ctxt = 'target blocked in %s, joiner %s inside t.join(), third party = %s, %s worker(s), calls %s' % (
            fi.get('tb'), fi.get('when'), fi.get('who'), fi.get('workers'), fi.get('ops'))
        r.evaluations += 1
        r.count('huse:workers=%s:tb=%s:who=%s:when=%s' % (fi.get('workers'), fi.get('tb'), fi.get('who'), fi.get('when')))
        for m in set((fi.get('ops') or '').split(',')):
            r.count('huse:member=%s' % m)
        st = stats.get(cid, {})
        if st.get('at1302') == '1' and (fi.get('when') != 'suspended' or st.get('jsusp') == '1'):
            r.nontrivial('huse:%s:%d:%s' % (workers, seed, i_))
        else:
            r.count('huse:joiner_not_seen_inside_join')
        if 'hang=1' in o_:
            stuck = True
            r.hits.append(Hit('monitor', SIG % ('any', 'hang'), 'no progress for 90 s in case [%s]' % i_, rep))
            continue
        impl.append('OUT HUSE h%s.%d.%s %s' % (workers, seed, cid, canon(f)))
        if f.get('stuck', '-') != '-':
            stuck = True
            r.hits.append(Hit('monitor', SIG % (f['stuck'], 'call_does_not_return'),
                              '%s() called on a pika::thread object while another task is inside join() on the same object did not return within 15 s '
                              '(%s): %s%s' % (f['stuck'], ctxt, o_, ' [the monitoring task itself got no worker: the caller spins without yielding]'
                                              if 'monitor_task_starved' in o_ else ''), rep))
            continue
        if f.get('wrong', '-') != '-':
            r.hits.append(Hit('monitor', SIG % (f['wrong'], 'wrong_result'),
                              '%s() called during a join gave a result that differs from the sequential spec of a handle that is being joined '
                              '(joinable, same id / native handle as before the join, no interruption requested; after detach: empty) (%s): %s'
                              % (f['wrong'], ctxt, o_), rep))
        if f.get('target') != '1':
            stuck = stuck or f.get('target') == '0'
            r.hits.append(Hit('monitor', SIG % ('interrupt', 'target_not_ended' if f.get('target') == '0' else 'target_ended_otherwise'),
                              'interrupt() issued through the handle by a third party during a join returned, but the blocked target %s (%s): %s'
                              % ('did not run again within 20 s (never woken)' if f.get('target') == '0' else
                                 'was ended by something other than thread_interrupted (how=%s)' % f.get('target'), ctxt, o_), rep))
            continue
        if f.get('join') != '1':
            stuck = True
            r.hits.append(Hit('monitor', SIG % ('join', 'not_returned'),
                              'the target was ended by the third party\'s interrupt() but the join in progress did not return within 20 s (%s): %s'
                              % (ctxt, o_), rep))
            continue
        if f.get('joinable_after') != '0':
            r.hits.append(Hit('monitor', SIG % ('joinable', 'still_joinable_after_join'),
                              'handle joinable after the join returned (%s): %s' % (ctxt, o_), rep))
    dead = [x for x in ins if x.split(' ')[2] not in set(o.split(' ')[2] for o in outs)]
    if dead or not ended:
        i_ = dead[-1] if dead else (ins[-1] if ins else '')
        r.hits.append(Hit('monitor' if ins else 'tie', 'C13:handle_use_during_join:crash',
                          'the runtime crashed or the harness died (rc=%d) in case [%s]: %s' % (rc, i_, ' | '.join(lines[-5:])[-400:]),
                          {'harness': 'c13_huse', 'args': [workers, seed, n] + ([int(i_.split(' ')[2])] if i_ else []), 'case': i_}))
    # ---- the layered model on the same cases
    if ins:
        rc2, mout = sh([drv], input='\n'.join(ins) + '\n', timeout=timeout)
        mlines = mout.split('\n')
        mouts = [x for x in mlines if x.startswith('OUT HUSE ')]
        done = set(x.split(' ')[2] for x in impl)
        model = [x.replace('OUT HUSE ', 'OUT HUSE h%s.%d.' % (workers, seed), 1) for x in mouts]
        for x in mouts:
            if 'MODEL-MONITOR-FAILED' in x:
                cid = x.split(' ')[2]
                r.hits.append(Hit('model', 'C13:model:handle_lock_waiter_in_stuck_state',
                                  'the model (Model/JoinLock.v with the unlock-before-wait flag read from thread.cpp by the translator) run on case [%s] '
                                  'ends in a stuck state in which a task waits for the handle lock held by a suspended joiner: %s'
                                  % (inmap.get(cid, cid), x), {'harness': 'c13_huse', 'args': [workers, seed, n, int(cid)], 'case': inmap.get(cid), 'model': x}))
                break
        model = [' '.join(x.split(' ')[:7]) for x in model if x.split(' ')[2] in done]
        diffs, ncases = diff_lines(ctx, impl, model)
        r.traces += ncases
        for (k, a, b) in diffs[:5]:
            cid = k[1].split('.')[-1]
            r.hits.append(Hit('corr', 'C13:handle_use_during_join:correspondence',
                              'third-party handle use during a join: outcome of the implementation and of the model differ on [%s]: impl [%s] model [%s]'
                              % (inmap.get(cid, k), a, b), {'harness': 'c13_huse', 'args': [workers, seed, n, int(cid)], 'impl': a, 'model': b}))
    mx = max([int(s.get('maxcall_us', 0)) for s in stats.values()] or [0])
    r.extra['huse_max_member_call_us'] = max(r.extra.get('huse_max_member_call_us', 0), mx)
    for s_ in list(zip(ins, outs))[:1]:
        r.sample({'mode': 'huse', 'input': s_[0], 'observed': s_[1]})
    return stuck
