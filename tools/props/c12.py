# C12 — a task's context survives suspension, migration and recycling.
#  (a) regeneration: tools/genmods/c12.py rewrites coq/Gen/GenSwapctx.v (asm routine, frame constants,
#      constructor / rebind assignment lists, size->heap chains) and the theorems are re-checked;
#  (b) SWAP: the real routine (libpika.so) and the real x86_linux_context_impl driven directly
#      (harness/c12_swap.cpp), differential against the extracted machine model on the same register
#      files / memory, monitors for the round trip, first entry, canaries, stacks;
#  (c) PROC: the real runtime (harness/c12_rt.cpp), monitors per task, model-derived expectations for
#      stack size per class and for what a recycled task sees.
import os
import re

from vlib import BUILD, Hit, REPO, Result, TieError, V, diff_lines, sh

ASSUMPTIONS = [
    'machine model: 8-byte aligned accesses only (misaligned = Fault), RFLAGS and vector registers not modelled, one hardware thread executes the routine (no concurrent writer to the two stacks during a switch)',
    'the object code of swapcontext_stack in libpika.so is the assembler\'s translation of the asm text (cross-checked against objdump on every run)',
    'mmap returns page-aligned regions disjoint from all other mappings; guard pages, madvise and the FP hardware state are OS/hardware behaviour (observed by the harness, not modelled)',
    'build without the optional thread_data members (description, parent reference, deadlock detection, backtrace, APEX, phase information, TLS) — verified against defines.hpp on every run',
]

CALLEE = {'rbx': 1, 'rbp': 6, 'r12': 12, 'r13': 13, 'r14': 14, 'r15': 15}
RSP = 7
REGNAMES = ['rax', 'rbx', 'rcx', 'rdx', 'rsi', 'rdi', 'rbp', 'rsp', 'r8', 'r9', 'r10', 'r11', 'r12', 'r13', 'r14', 'r15']


def fields(line, start=3):
    d = {}
    for x in line.split(' ')[start:]:
        if '=' in x:
            k, v = x.split('=', 1)
            d[k] = v
    return d


# ------------------------------------------------------------------ objdump tie
def objdump_tie(ctx, r):
    lib = '%s/pika/lib/libpika.so' % BUILD
    gen = open(V + '/coq/Gen/GenSwapctx.v').read()
    m = re.search(r'Definition swapcontext : list instr :=\s*\[(.*?)\]\.', gen, re.S)
    want = [' '.join(x.split()) for x in m.group(1).split(';')]
    regs = {'rax': 'RAX', 'rbx': 'RBX', 'rcx': 'RCX', 'rdx': 'RDX', 'rsi': 'RSI', 'rdi': 'RDI', 'rbp': 'RBP', 'rsp': 'RSP',
            'r8': 'R8', 'r9': 'R9', 'r10': 'R10', 'r11': 'R11', 'r12': 'R12', 'r13': 'R13', 'r14': 'R14', 'r15': 'R15'}
    for sym in ('swapcontext_stack', 'swapcontext_stack2'):
        rc, out = sh(['objdump', '-d', '--no-show-raw-insn', '--disassemble=' + sym, lib], timeout=120)
        got = []
        for ln in out.split('\n'):
            mm = re.match(r'\s*[0-9a-f]+:\s+(\S+)\s*(.*)$', ln)
            if not mm:
                continue
            mn, ops = mm.group(1), mm.group(2).split('#')[0].strip()
            o = [x.strip() for x in ops.split(',')] if ops else []

            def Z(n):
                return '(%d)' % n if n < 0 else '%d' % n

            def R(x):
                return regs.get(x.lstrip('%*'), '?')

            def M(x):
                q = re.fullmatch(r'(-?0x[0-9a-f]+|-?\d+)?\(%(\w+)\)', x)
                return (int(q.group(1), 0) if q.group(1) else 0, regs.get(q.group(2), '?')) if q else None
            ins = None
            if mn == 'mov' and len(o) == 2:
                if M(o[0]):
                    ins = 'MovLoad %s %s %s' % (Z(M(o[0])[0]), M(o[0])[1], R(o[1]))
                elif M(o[1]):
                    ins = 'MovStore %s %s %s' % (R(o[0]), Z(M(o[1])[0]), M(o[1])[1])
                else:
                    ins = 'MovRR %s %s' % (R(o[0]), R(o[1]))
            elif mn == 'push':
                ins = 'Push ' + R(o[0])
            elif mn == 'pop':
                ins = 'Pop ' + R(o[0])
            elif mn in ('add', 'sub') and o[0].startswith('$'):
                k = int(o[0][1:], 0)
                ins = 'AddImm %s %s' % (Z(k if mn == 'add' else -k), R(o[1]))
            elif mn == 'lea':
                ins = 'Lea %s %s %s' % (Z(M(o[0])[0]), M(o[0])[1], R(o[1]))
            elif mn == 'jmp' and o and o[0].startswith('*'):
                ins = 'JmpReg ' + R(o[0])
            elif mn in ('ret', 'retq'):
                ins = 'Ret'
            elif mn == 'ud2':
                ins = 'Ud2'
            elif mn in ('stmxcsr', 'ldmxcsr', 'fnstcw', 'fldcw') and M(o[0]):
                ins = '%s %s %s' % (mn.capitalize(), Z(M(o[0])[0]), M(o[0])[1])
            elif mn in ('nop', 'nopw', 'nopl', 'xchg', 'data16', 'cs'):
                ins = 'Nop'
            else:
                ins = 'UNKNOWN(%s %s)' % (mn, ops)
            got.append(ins)
        # padding after the routine's last instruction is not part of it
        while got and got[-1] == 'Nop' and (not want or want[-1] != 'Nop'):
            got.pop()
        norm = want
        if got != norm:
            r.hits.append(Hit('tie', 'C12:objdump', 'the object code of %s in libpika.so is not the instruction list the '
                              'translator produced from the asm text: object %s vs translated %s' % (sym, got, norm),
                              {'what': 'objdump', 'symbol': sym, 'object': got, 'translated': norm}))
    r.extra['objdump_checked'] = ['swapcontext_stack', 'swapcontext_stack2']


def defines_tie(ctx, r):
    p = '%s/pika/libs/pika/config/include/pika/config/defines.hpp' % BUILD
    if not os.path.exists(p):
        raise TieError('defines.hpp of the build not found')
    txt = open(p).read()
    import importlib
    g = importlib.import_module('genmods.c12')
    bad = [m for m in g.OPTIONAL_FEATURES if re.search(r'#define\s+%s\b' % m, txt)]
    if bad:
        r.hits.append(Hit('tie', 'C12:defines', 'the build defines %s, which the translator assumes undefined' % bad,
                          {'what': 'defines', 'macros': bad}))
    for m in ('PIKA_HAVE_THREAD_STACK_MMAP', 'PIKA_COROUTINE_NO_SEPARATE_CALL_SITES'):
        if not re.search(r'#define\s+%s\b' % m, txt):
            r.hits.append(Hit('tie', 'C12:defines', 'the build does not define %s, which the translator assumes' % m,
                              {'what': 'defines', 'macros': [m]}))
    if re.search(r'#define\s+PIKA_HAVE_(GENERIC_CONTEXT_COROUTINES|BOOST_CONTEXT)\b', txt):
        r.hits.append(Hit('tie', 'C12:defines', 'the build uses Boost.Context, not the x86 assembly routine', {'what': 'defines'}))


# ------------------------------------------------------------------ SWAP: monitors
def sw_monitor(inl, outl):
    """round trip property on the real routine: A's callee-saved registers, stack pointer, stack words and
    return address after A -> B -> A; returns list of (signature, text)"""
    p = inl.split(' ')
    retA = int(p[3], 16)
    ra = [int(x, 16) for x in p[4].split(',')]
    mem = dict((int(a, 16), int(v, 16)) for a, v in (kv.split(':') for kv in p[5].split(';')))
    mxA, cwA = int(p[6], 16), int(p[7], 16)
    probes = [int(x, 16) for x in p[13].split(',')]
    f = fields(outl)
    res = []
    if f.get('t1') in (None, '0'):
        return [('swap:no_entry', 'the routine did not reach the start address stored in the target frame')]
    if int(f['t2'], 16) != retA:
        return [('swap:no_return', 'context A was not resumed at the instruction after its call (t2=%s)' % f['t2'])]
    a = [int(x, 16) for x in f['a'].split(',')]
    b = [int(x, 16) for x in f['b'].split(',')]
    for name, i in CALLEE.items():
        if a[i] != ra[i]:
            res.append(('swap:callee_saved:' + name, 'callee-saved %s of context A is %x after the round trip, was %x' % (name, a[i], ra[i])))
    if a[RSP] != ra[RSP]:
        res.append(('swap:rsp', 'stack pointer of A is %x after the round trip, was %x' % (a[RSP], ra[RSP])))
    pv = [int(x, 16) for x in f['probes'].split(',')]
    rsp = ra[RSP]
    for addr, v in zip(probes, pv):
        if rsp <= addr < rsp + 160 and addr in mem and mem[addr] != v:
            res.append(('swap:stack_word', 'stack word of A at rsp+%d changed from %x to %x' % (addr - rsp, mem[addr], v)))
            break
    # first entry into B's frame: the argument register and the frame's register slots
    bsp = ra[4]
    if b[5] != mem.get(bsp + 80):
        res.append(('swap:entry_arg', 'rdi at the entry of the target is %x, frame slot 10 holds %x' % (b[5], mem.get(bsp + 80, 0))))
    if int(f['mx'], 16) != mxA or int(f['cw'], 16) != cwA:
        res.append(('swap:fp_control_not_saved', 'MXCSR / x87 control word of A after the round trip %s/%s, before %x/%x '
                    '(the other context had loaded its own)' % (f['mx'], f['cw'], mxA, cwA)))
    return res


def cx_monitor(f):
    res = []
    for k, sig, txt in (('entered', 'ctx:first_entry', 'the trampoline was not entered with this = the context object'),
                        ('aligned', 'ctx:entry_alignment', 'stack not 16-byte aligned at the entry of the coroutine function'),
                        ('in_stack', 'ctx:entry_stack', 'first frame is not at the top of the context\'s own stack'),
                        ('done', 'ctx:not_finished', 'the coroutine did not run to completion'),
                        ('canary_ok', 'ctx:canary', 'a canary array in a suspended frame changed'),
                        ('locals_ok', 'ctx:locals', 'live local variables changed across a switch'),
                        ('disjoint', 'ctx:stacks_overlap', 'stacks of two live contexts overlap'),
                        ('guard_ok', 'ctx:guard_page', 'no PROT_NONE guard page below the stack although enabled'),
                        ('used_ok', 'ctx:usable_size', 'the stack could not be used down to one page above its end'),
                        ('page_aligned', 'ctx:stack_alignment', 'stack is not page aligned')):
        if f.get(k) != '1':
            res.append((sig, txt))
    if f.get('regmask') != '0':
        m = int(f.get('regmask', '0'), 16)
        names = [n for i, n in enumerate(['rbx', 'rbp', 'r12', 'r13', 'r14', 'r15', 'rsp']) if m >> i & 1]
        res.append(('ctx:callee_saved', 'callee-saved registers %s changed across a yield' % names))
    if f.get('mapped') != 'rw-p':
        res.append(('ctx:mapping', 'stack memory is mapped %s' % f.get('mapped')))
    return res


# ------------------------------------------------------------------ RT monitors
def rt_monitor(f, cfg):
    res = []
    cls = int(f['cls'])
    size = cfg['sizes'][cls]
    if f['finished'] != '1':
        res.append(('rt:not_finished', 'task did not finish'))
    if f.get('other_exception', '0') != '0':
        res.append(('rt:exception', 'yield / suspension threw an exception'))
    if f['interrupted'] != '0':
        res.append(('rt:inherited_interruption', 'task was interrupted although nobody interrupted it'))
    if f['start_intr_req'] != '0':
        res.append(('rt:inherited_interruption', 'a new task starts with an interruption request pending'))
    if f['start_intr_enabled'] != '1':
        res.append(('rt:inherited_interruption_disabled', 'a new task starts with interruption disabled'))
    if f['start_data'] != '0':
        res.append(('rt:inherited_thread_data', 'a new task starts with thread data %s' % f['start_data']))
    if f['exit_cb_accepted'] != '1':
        res.append(('rt:inherited_exit_state', 'a new task cannot register an exit callback (ran_exit_funcs_ inherited)'))
    if int(f['stack_size'], 16) != size:
        res.append(('rt:stack_size', 'task of class %d runs on a stack of %s bytes, configured %x' % (cls, f['stack_size'], size)))
    if int(f['avail_at_start']) < size - 16384 or int(f['avail_at_start']) > size:
        res.append(('rt:stack_available', 'available stack at task start %s, configured size %x' % (f['avail_at_start'], size)))
    if f['consumed'] == '1' and int(f['min_avail']) > 8192 + 2048:
        res.append(('rt:usable_size', 'stack could only be used down to %s bytes above its end' % f['min_avail']))
    if f['consume'] == '1' and f['consumed'] == '1' and cfg['guard'] and f['guard_perm'] != '---p':
        res.append(('rt:guard_page', 'page below the stack is mapped %s although guard pages are enabled' % f['guard_perm']))
    for k, sig, txt in (('overlap', 'rt:stacks_overlap', 'the stack overlaps the stack of another live task'),):
        if f[k] != '0':
            res.append((sig, txt))
    for k, sig, txt in (('canary_ok', 'rt:canary', 'canary array in a suspended frame changed across yield/suspension'),
                        ('locals_ok', 'rt:locals', 'live locals changed across yield/suspension'),
                        ('data_ok', 'rt:thread_data', 'task-local data word changed across yield/suspension'),
                        ('id_ok', 'rt:identity', 'thread id changed across yield/suspension')):
        if f[k] != '1':
            res.append((sig, txt))
    if f['regmask'] != '0':
        m = int(f['regmask'], 16)
        names = [n for i, n in enumerate(['rbx', 'rbp', 'r12', 'r13', 'r14', 'r15', 'rsp']) if m >> i & 1]
        res.append(('rt:callee_saved', 'callee-saved registers %s changed across yield/suspension' % names))
    if int(f['cb_runs']) > 1:
        res.append(('rt:exit_callback_twice', 'exit callback ran %s times' % f['cb_runs']))
    if f['fp_changed'] != '0' or f['fp_foreign'] != '0':
        res.append(('rt:fp_rounding_mode_not_preserved', 'rounding mode differs after a yield (set FE_UPWARD: changed=%s; '
                    'expected FE_TONEAREST: foreign=%s)' % (f['fp_changed'], f['fp_foreign'])))
    return res


RT_CONFIGS_QUICK = [
    # (the built-in ini of this pika version has use_guard_pages = ${PIKA_USE_GUARD_PAGES:0}: off by default)
    {'name': 'default', 'opts': ['--pika:threads=4'], 'guard': False},
    {'name': 'guard', 'opts': ['--pika:threads=4', '--pika:ini=pika.stacks.use_guard_pages=1'], 'guard': True},
    {'name': 'sizes', 'opts': ['--pika:threads=3', '--pika:ini=pika.stacks.small_size=0x8000',
                               '--pika:ini=pika.stacks.medium_size=0x8000', '--pika:ini=pika.stacks.large_size=0x40000',
                               '--pika:ini=pika.stacks.huge_size=0x100000', '--pika:ini=pika.stacks.use_guard_pages=1'], 'guard': True,
     'sizes': [0x8000, 0x8000, 0x40000, 0x100000]},
]
# thread_queue_mc / queue_holder_thread (shared-priority scheduler): its own copy of creation and recycling.  No schedule hints
# are used by the harness (out-of-range hints crash this scheduler: C10), all tasks go through hint mode `none`.
RT_CONFIG_MC = {'name': 'shared', 'opts': ['--pika:ini=pika.stacks.use_guard_pages=1', '--pika:threads=4', '--pika:scheduler=shared-priority'],
                'guard': True, 'mc': True}
RT_CONFIGS_QUICK.append(RT_CONFIG_MC)
RT_CONFIGS_THOROUGH = RT_CONFIGS_QUICK + [
    {'name': 'local', 'opts': ['--pika:ini=pika.stacks.use_guard_pages=1', '--pika:threads=4', '--pika:scheduler=local'], 'guard': True},
    {'name': 'static-priority', 'opts': ['--pika:ini=pika.stacks.use_guard_pages=1', '--pika:threads=4', '--pika:scheduler=static-priority'], 'guard': True},
    {'name': 'abp', 'opts': ['--pika:ini=pika.stacks.use_guard_pages=1', '--pika:threads=4', '--pika:scheduler=abp-priority-fifo'], 'guard': True},
    {'name': 'lifo', 'opts': ['--pika:ini=pika.stacks.use_guard_pages=1', '--pika:threads=4', '--pika:scheduler=local-priority-lifo'], 'guard': True},
    {'name': 'shared-sizes', 'opts': ['--pika:threads=3', '--pika:scheduler=shared-priority', '--pika:ini=pika.stacks.small_size=0x8000',
                                      '--pika:ini=pika.stacks.medium_size=0x8000', '--pika:ini=pika.stacks.large_size=0x40000',
                                      '--pika:ini=pika.stacks.huge_size=0x100000', '--pika:ini=pika.stacks.use_guard_pages=1'], 'guard': True,
     'sizes': [0x8000, 0x8000, 0x40000, 0x100000], 'mc': True},
    {'name': 'static2', 'opts': ['--pika:threads=2', '--pika:scheduler=static'], 'guard': False,
     'extra': ['--pika:ini=pika.stacks.use_guard_pages=0']},
    {'name': 'eight', 'opts': ['--pika:ini=pika.stacks.use_guard_pages=1', '--pika:threads=8'], 'guard': True},
]
DEFAULT_SIZES = [0x10000, 0x20000, 0x200000, 0x2000000]


def run_swap(ctx, r, drv, h, seed, n_sw, n_cx, budget):
    rc, out = sh([h, str(seed), str(n_sw), str(n_cx)], timeout=budget)
    lines = out.split('\n')
    args = {'harness': 'c12_swap', 'args': [seed, n_sw, n_cx]}
    if rc != 0 or 'DONE' not in lines[-3:]:
        r.hits.append(Hit('tie' if rc == 3 else 'monitor', 'C12:swap:harness_failed',
                          'c12_swap did not finish (rc=%d): %s' % (rc, out[-400:]), dict(args)))
    ins = [x for x in lines if x.startswith('IN ')]
    outs = [x for x in lines if x.startswith('OUT SW ') or x.startswith('OUT FE ')]
    cxs = [x for x in lines if x.startswith('OUT CX ')]
    outkeys = set((x.split(' ')[1], x.split(' ')[2]) for x in outs)
    # a crash of the real code: the case that was running has an IN line and no OUT line
    crashed = [x for x in ins if (x.split(' ')[1], x.split(' ')[2]) not in outkeys]
    for x in lines:
        if x.startswith('OUT CRASH'):
            r.hits.append(Hit('monitor', 'C12:swap:crash', 'the real context switch crashed / hung: %s; case in progress: %s'
                              % (x, (crashed[0][:300] if crashed else '(between cases)')),
                              dict(args, crash=x, case=crashed[0] if crashed else None)))
    ins_ok = [x for x in ins if (x.split(' ')[1], x.split(' ')[2]) in outkeys]
    rc2, mout = sh([drv], input='\n'.join(ins_ok) + '\n', timeout=budget)
    mouts = [x for x in mout.split('\n') if x.startswith('OUT ')]
    if rc2 != 0:
        r.hits.append(Hit('tie', 'C12:model_driver', 'model driver failed rc=%d %s' % (rc2, mout[-300:]), dict(args)))
    diffs, ncases = diff_lines(ctx, outs, mouts)
    r.evaluations += ncases + len(cxs)
    r.traces += ncases
    inmap = {(x.split(' ')[1], x.split(' ')[2]): x for x in ins}
    for (k, a, b) in diffs[:10]:
        r.hits.append(Hit('corr', 'C12:swap:correspondence',
                          'machine model and real routine differ on case %s: impl [%s] model [%s]' % (k, a[:500], b[:500]),
                          dict(args, case=inmap.get(k), impl=a, model=b)))
    omap = {(x.split(' ')[1], x.split(' ')[2]): x for x in outs}
    for x in ins_ok:
        k = (x.split(' ')[1], x.split(' ')[2])
        if k[0] == 'SW':
            r.count('SW')
            p = x.split(' ')
            small = all(len(v) <= 1 for v in p[4].split(',')[:4])
            r.count('SW:small_values' if small else 'SW:random64')
            r.nontrivial(x[:200])
            if k[1] == '1':
                fo = fields(omap[k])
                r.notes.append('replay of the Coq witness of C12_fp_control_preserved_refuted on the real routine: A had '
                               'MXCSR=%s CW=%s, after A->B->A it observes MXCSR=%s CW=%s'
                               % (p[6], p[7], fo.get('mx'), fo.get('cw')))
            for sig, txt in sw_monitor(x, omap[k]):
                r.hits.append(Hit('monitor', 'C12:' + sig, 'swapcontext (real routine, direct call): ' + txt,
                                  dict(args, case=x, observed=omap[k])))
        else:
            r.count('FE')
            f = fields(omap[k])
            if f.get('target_is_funp') != '1' or f.get('rdi_is_this') != '1' or f.get('entry_aligned') != '1':
                r.hits.append(Hit('monitor', 'C12:ctx:first_entry',
                                  'first entry into a frame built by init()/rebind_stack() is wrong: ' + omap[k],
                                  dict(args, case=x, observed=omap[k])))
    for x in cxs:
        f = fields(x)
        r.count('CX:size=%s' % f['size'])
        r.count('CX:guard=%s' % f['guard'])
        r.count('CX:round=%s' % ('0' if f['round'] == '0' else 'recycled'))
        if int(f['yields']) > 0:
            r.nontrivial(x[:80])
        for sig, txt in cx_monitor(f):
            r.hits.append(Hit('monitor', 'C12:' + sig, 'x86_linux_context_impl (real header, direct): ' + txt + ' — ' + x[:300],
                              dict(args, observed=x)))
    for s in list(zip(ins_ok, [omap[(x.split(' ')[1], x.split(' ')[2])] for x in ins_ok]))[:1]:
        r.sample({'input': s[0][:400], 'observed': s[1][:400]})
    if cxs:
        r.sample({'observed': cxs[0]})


def run_rt(ctx, r, drv, h, seed, waves, per, cfg, budget):
    cfg = dict(cfg)
    cfg.setdefault('sizes', DEFAULT_SIZES)
    cmd = [h, str(seed), str(waves), str(per)] + cfg['opts'] + cfg.get('extra', [])
    rc, out = sh(cmd, timeout=budget)
    lines = out.split('\n')
    args = {'harness': 'c12_rt', 'cmd': cmd[1:], 'config': cfg['name']}
    rts = [x for x in lines if x.startswith('OUT RT ')]
    cbs = [x for x in lines if x.startswith('OUT CB ')]
    if rc != 0 or not any(x.startswith('DONE rc=0') for x in lines[-4:]):
        r.hits.append(Hit('monitor', 'C12:rt:crash', 'the runtime crashed / hung / failed while running the task programs '
                          '(config %s, rc=%d): %s' % (cfg['name'], rc, ' | '.join(l for l in lines[-6:] if l)[:500]),
                          dict(args, tail=lines[-10:])))
    seen = {}
    recycled = after_dirty = migrated = 0
    model_in, impl_out = [], []
    for x in rts:
        f = fields(x)
        tid_ = x.split(' ')[2]
        key = cfg['name'] + ':' + tid_
        r.evaluations += 1
        r.count('RT:cls=%s' % f['cls'])
        r.count('RT:config=%s' % cfg['name'])
        if int(f['migrations']) > 0:
            migrated += 1
            r.nontrivial('%s:%s:%s' % (cfg['name'], seed, tid_))
        for sig, txt in rt_monitor(f, cfg):
            r.hits.append(Hit('monitor', 'C12:' + sig, 'runtime task %s (config %s): %s — %s' % (tid_, cfg['name'], txt, x[:400]),
                              dict(args, observed=x)))
        # model-derived expectations
        sz = cfg['sizes']
        model_in.append('IN SZ %s %x %x %x %x %s' % (key, sz[0], sz[1], sz[2], sz[3], f['cls']))
        impl_out.append('OUT SZ %s stack_size=%s' % (key, f['stack_size']))
        t = f['tid']
        if t in seen:
            recycled += 1
            prev = seen[t]
            if prev['dirty'] == '1':
                after_dirty += 1
                model_in.append('IN RB %s' % key)
                impl_out.append('OUT RB %s start_intr_req=%s start_intr_enabled=%s start_data=%s exit_cb_accepted=%s'
                                % (key, f['start_intr_req'], f['start_intr_enabled'], f['start_data'], f['exit_cb_accepted']))
            # the heap model of the queue implementation in use: an object is only reused by classes sharing its heap
            model_in.append('IN HP %s %s %x %x %x %x %s %s' % (key, 'mc' if cfg.get('mc') else 'q', sz[0], sz[1], sz[2], sz[3], prev['cls'], f['cls']))
            impl_out.append('OUT HP %s reuse=1 size=%s' % (key, f['stack_size']))
            if prev['cls'] != f['cls']:
                r.count('RT:recycled_by_other_class')
            if prev['stack_size'] != f['stack_size']:
                r.hits.append(Hit('monitor', 'C12:rt:recycled_other_size',
                                  'thread object %s had a stack of %s and is reused with %s' % (t, prev['stack_size'], f['stack_size']),
                                  dict(args, observed=x)))
        seen[t] = f
    for x in cbs:
        f = fields(x)
        if f['runs'] != '1':
            r.hits.append(Hit('monitor', 'C12:rt:exit_callback_count', 'exit callback of task %s ran %s times (config %s)'
                              % (x.split(' ')[2], f['runs'], cfg['name']), dict(args, observed=x)))
    rc2, mout = sh([drv], input='\n'.join(model_in) + '\n', timeout=600)
    mouts = [x for x in mout.split('\n') if x.startswith('OUT ')]
    diffs, n = diff_lines(ctx, impl_out, mouts)
    r.traces += n
    for (k, a, b) in diffs[:5]:
        r.hits.append(Hit('corr', 'C12:rt:correspondence', 'runtime and model differ (%s): impl [%s] model [%s]' % (k, a, b),
                          dict(args, impl=a, model=b)))
    r.count('RT:recycled', recycled)
    r.count('RT:recycled:config=%s' % cfg['name'], recycled)
    r.count('RT:recycled_after_dirty', after_dirty)
    r.count('RT:migrated', migrated)
    if rts:
        r.sample({'config': cfg['name'], 'observed': rts[0][:500]})
    return len(rts), recycled, after_dirty, migrated


INH_CONFIGS_QUICK = [
    {'name': 'inh-guard', 'opts': ['--pika:threads=4', '--pika:ini=pika.stacks.use_guard_pages=1'], 'sizes': DEFAULT_SIZES},
    {'name': 'inh-sizes', 'opts': ['--pika:threads=3', '--pika:ini=pika.stacks.small_size=0x8000',
                                   '--pika:ini=pika.stacks.medium_size=0x10000', '--pika:ini=pika.stacks.large_size=0x40000',
                                   '--pika:ini=pika.stacks.huge_size=0x100000', '--pika:ini=pika.stacks.use_guard_pages=1'],
     'sizes': [0x8000, 0x10000, 0x40000, 0x100000]},
]
INH_CONFIG_MC = {'name': 'inh-shared', 'opts': ['--pika:threads=4', '--pika:scheduler=shared-priority', '--pika:ini=pika.stacks.use_guard_pages=1'],
                 'sizes': DEFAULT_SIZES, 'mc': True}
INH_CONFIGS_QUICK.append(INH_CONFIG_MC)
INH_CONFIGS_THOROUGH = INH_CONFIGS_QUICK + [
    {'name': 'inh-noguard', 'opts': ['--pika:threads=4', '--pika:ini=pika.stacks.use_guard_pages=0'], 'sizes': DEFAULT_SIZES},
    {'name': 'inh-static-priority', 'opts': ['--pika:threads=4', '--pika:scheduler=static-priority', '--pika:ini=pika.stacks.use_guard_pages=1'], 'sizes': DEFAULT_SIZES},
    {'name': 'inh-local', 'opts': ['--pika:threads=2', '--pika:scheduler=local', '--pika:ini=pika.stacks.use_guard_pages=1'], 'sizes': DEFAULT_SIZES},
    {'name': 'inh-abp', 'opts': ['--pika:threads=4', '--pika:scheduler=abp-priority-fifo', '--pika:ini=pika.stacks.use_guard_pages=1'], 'sizes': DEFAULT_SIZES},
    {'name': 'inh-lifo', 'opts': ['--pika:threads=1', '--pika:scheduler=local-priority-lifo', '--pika:ini=pika.stacks.use_guard_pages=1'], 'sizes': DEFAULT_SIZES},
    {'name': 'inh-shared-sizes', 'opts': ['--pika:threads=3', '--pika:scheduler=shared-priority', '--pika:ini=pika.stacks.small_size=0x8000',
                                          '--pika:ini=pika.stacks.medium_size=0x10000', '--pika:ini=pika.stacks.large_size=0x40000',
                                          '--pika:ini=pika.stacks.huge_size=0x100000', '--pika:ini=pika.stacks.use_guard_pages=1'],
     'sizes': [0x8000, 0x10000, 0x40000, 0x100000], 'mc': True},
]
CLSN = ['small', 'medium', 'large', 'huge']


def run_inherit(ctx, r, drv, h, seed, reps, cfg, budget):
    """stack-size INHERITANCE (harness/c12_inherit.cpp, its own process): parents of every explicit class create children and
    grandchildren with thread_stacksize::current through the staged and the immediate creation paths; monitor (independent
    of the model): the child reports the parent's class and runs on a stack of the size configured for it, and can use 75 %
    of that size (verified pattern; an overrun ends the process); DIFF against the extracted created_class / created_enum"""
    cmd = [h, str(seed), str(reps)] + cfg['opts']
    rc, out = sh(cmd, timeout=budget)
    lines = out.split('\n')
    args = {'harness': 'c12_inherit', 'cmd': cmd[1:], 'config': cfg['name']}
    sizes = cfg['sizes']
    info = [x for x in lines if x.startswith('INFO sizes=')]
    if info:
        got = [int(v, 16) for v in info[0].split(' ')[1].split('=')[1].split(',')]
        if got != sizes:
            r.hits.append(Hit('tie', 'C12:inherit:config', 'runtime reports stack sizes %s, configuration %s asked for %s' % (got, cfg['name'], sizes), dict(args)))
            sizes = got
    waves = [x for x in lines if x.startswith('WAVE ')]
    recs = [x for x in lines if x.startswith('OUT INH ')]
    done = any(x.startswith('DONE rc=0') for x in lines[-4:])
    if rc != 0 or not done:
        last = waves[-1] if waves else 'WAVE 0 parent=? path=unknown'
        wf = fields(last, 2)
        hang = [x for x in lines if x.startswith('HANG ')]
        if hang:
            r.hits.append(Hit('monitor', 'C12:rt:inherited_not_finished:' + wf.get('path', 'unknown'),
                              'tasks created with thread_stacksize::current did not finish (config %s): %s' % (cfg['name'], hang[0]),
                              dict(args, wave=last, tail=lines[-8:])))
        else:
            r.hits.append(Hit('monitor', 'C12:rt:inherited_stack_class_wrong:' + wf.get('path', 'unknown'),
                              'the process died (status %d, config %s) in [%s] while children / grandchildren created with thread_stacksize::current '
                              'were using 75 %% of the stack size configured for the class of their %s parent (stack overrun: the stack is smaller '
                              'than the size the task reports, or not the task\'s own): %s'
                              % (rc, cfg['name'], last, wf.get('parent', '?'), ' | '.join(l for l in lines[-5:] if l and not l.startswith('OUT INH'))[:400]),
                              dict(args, wave=last, rc=rc, tail=lines[-8:])))
    for x in [y for y in lines if y.startswith('OUT PARENT ')]:
        r.hits.append(Hit('monitor', 'C12:rt:stack_size', 'a parent created with an explicit class does not run on a stack of that class (config %s): %s'
                          % (cfg['name'], x), dict(args, observed=x)))
    model_in, impl_out = [], []
    n = 0
    for x in recs:
        f = fields(x)
        key = cfg['name'] + ':' + x.split(' ')[2]
        n += 1
        r.evaluations += 1
        pc = int(f['parent_cls'])
        path = f['path']
        r.count('INH:path=%s' % path)
        r.count('INH:parent=%s' % (CLSN[pc] if pc >= 0 else 'none(os thread)'))
        r.count('INH:gen=%s' % f['gen'])
        if f['burn'] == '1':
            r.count('INH:used_75pct_of_parent_class_size')
        if pc >= 1:
            r.nontrivial('%s:%s:%s' % (cfg['name'], seed, x.split(' ')[2]))
        if pc >= 0:
            if int(f['cls_enum']) != pc or int(f['stack_size'], 16) != sizes[pc]:
                got_cls = CLSN[int(f['cls_enum'])] if 0 <= int(f['cls_enum']) < 4 else ('current(unresolved)' if f['cls_enum'] == '6' else f['cls_enum'])
                r.hits.append(Hit('monitor', 'C12:rt:inherited_stack_class_wrong:' + path,
                                  '%s of a %s task, created with thread_stacksize::current through path %s (%s), reports class %s and runs on a stack of '
                                  '%s bytes; the parent\'s class is configured with %#x bytes (config %s)'
                                  % ('child' if f['gen'] == '1' else 'grandchild', CLSN[pc], path,
                                     'thread object created at once' if f['run_now'] == '1' else 'staged description converted by a worker',
                                     got_cls, f['stack_size'], sizes[pc], cfg['name']), dict(args, observed=x)))
            elif f['burn'] == '1' and f['canary_ok'] != '1':
                r.hits.append(Hit('monitor', 'C12:rt:inherited_stack_canary:' + path,
                                  'pattern written into 75 %% of the stack of a task created with thread_stacksize::current changed while the task was alive '
                                  '(config %s): %s' % (cfg['name'], x[:300]), dict(args, observed=x)))
        # model: created_class / created_enum (creator context = a task of the parent's class, or none; staged descriptions are
        # converted by a worker outside any task)
        model_in.append('IN %s %s %s %s - c' % ('CURMC' if cfg.get('mc') else 'CUR', key, 'R' if f['run_now'] == '1' else 'S', str(pc) if pc >= 0 else '-'))
        impl_out.append('OUT CUR %s size=%x enum=%s' % (key, int(f['stack_size'], 16), f['cls_enum'] if f['cls_enum'] != '6' else 'current'))
    if model_in:
        rc2, mout = sh([drv], input='\n'.join(model_in) + '\n', timeout=600)
        mouts = []
        for y in mout.split('\n'):
            if y.startswith('OUT CUR '):
                q = y.split(' ')
                fm = fields(y)
                mouts.append('OUT CUR %s size=%x enum=%s' % (q[2], sizes[int(fm['cls'])] if int(fm['cls']) < 4 else 0, fm['enum']))
        diffs, nn = diff_lines(ctx, impl_out, mouts)
        r.traces += nn
        for (k, a, b) in diffs[:5]:
            r.hits.append(Hit('corr', 'C12:rt:inherit_correspondence', 'class of a task created with thread_stacksize::current: runtime and model '
                              '(created_class / created_enum) differ (%s): impl [%s] model [%s]' % (k, a, b), dict(args, impl=a, model=b)))
    if recs:
        r.sample({'config': cfg['name'], 'stack_size_inheritance': recs[len(recs) // 2][:400]})
    return n


def run(ctx):
    r = Result()
    r.rule = ('SW: random register files (25% small values) and frames from VERIF_SEED, the real swapcontext_stack[2] is called '
              'by an assembly probe A->B->A and the extracted machine model runs the regenerated routine on the same inputs; '
              'FE/CX: the real x86_linux_context_impl (init, rebind_stack, reset_stack, swap_context) with 2-5 interleaved '
              'contexts of 5 stack sizes, guard pages on/off, canaries at depth 0-11, c12_regcheck around every yield; RT: waves '
              'of runtime tasks of the four classes (3+ configurations) with canaries, register checks, dirt left for the next '
              'user of the object; INH: parents of the four explicit classes create children and grandchildren with thread_stacksize::current '
              'through 6 creation paths (staged / created at once), each uses 75 % of the parent class\'s size; non-trivial = SW case, CX context that yielded, RT task that migrated; distinct by input line')
    ctx.build_pika()
    defines_tie(ctx, r)
    objdump_tie(ctx, r)
    drv = ctx.build_model('C12', 'ExtractC12.v', 'drv_c12.ml')
    h_sw = ctx.build_harness('c12_swap', 'c12_swap.cpp', extra=['-no-pie'])
    h_rt = ctx.build_harness('c12_rt', 'c12_rt.cpp')
    h_inh = ctx.build_harness('c12_inherit', 'c12_inherit.cpp')
    quick = ctx.tier == 'quick'
    if ctx.replay:
        import json
        rep = json.load(open(ctx.replay)).get('replay', {})
        if rep.get('harness') == 'c12_swap':
            a = rep['args']
            run_swap(ctx, r, drv, h_sw, a[0], a[1], a[2], 600)
            return r
        if rep.get('harness') == 'c12_rt':
            c = rep['cmd']
            cfgs = [x for x in RT_CONFIGS_THOROUGH if x['name'] == rep.get('config')] or [RT_CONFIGS_QUICK[0]]
            run_rt(ctx, r, drv, h_rt, int(c[0]), int(c[1]), int(c[2]), cfgs[0], 600)
            return r
        if rep.get('harness') == 'c12_inherit':
            c = rep['cmd']
            cfgs = [x for x in INH_CONFIGS_THOROUGH if x['name'] == rep.get('config')] or [INH_CONFIGS_QUICK[0]]
            run_inherit(ctx, r, drv, h_inh, int(c[0]), int(c[1]), cfgs[0], 600)
            return r
    run_swap(ctx, r, drv, h_sw, ctx.seed, 3000 if quick else 150000, 60 if quick else 4000, 300 if quick else 3000)
    tot = rec = dirty = mig = 0
    cfgs = RT_CONFIGS_QUICK if quick else RT_CONFIGS_THOROUGH
    seeds = [ctx.seed] if quick else [ctx.seed + 1000 * k for k in range(5)]
    for sd in seeds:
        for cfg in cfgs:
            n, a, b, c = run_rt(ctx, r, drv, h_rt, sd, 5 if quick else 15, 100, cfg, 120 if quick else 400)
            tot, rec, dirty, mig = tot + n, rec + a, dirty + b, mig + c
    ninh = 0
    for sd in seeds:
        for cfg in (INH_CONFIGS_QUICK if quick else INH_CONFIGS_THOROUGH):
            ninh += run_inherit(ctx, r, drv, h_inh, sd, 1 if quick else 3, cfg, 200 if quick else 600)
    r.notes.append('stack-size inheritance: %d children / grandchildren created with thread_stacksize::current' % ninh)
    r.notes.append('runtime: %d tasks, %d on recycled objects (%d after a dirty predecessor), %d migrated' % (tot, rec, dirty, mig))
    if tot and (rec == 0 or dirty == 0 or mig == 0):
        r.notes.append('WARNING: coverage hole (no recycling / no migration observed)')
    r.extra['level'] = 'partial'
    return r
