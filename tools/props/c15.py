# C15 — workers are pinned to distinct PUs inside the process mask.
# PROC/DIFF: one process of the REAL runtime per case (harness/c15_bind.cpp) under a generated hwloc
# topology (HWLOC_XMLFILE: sockets x cores x SMT, regular and irregular; OS numbering identity, "Intel",
# random permutation or sparse; regular ones also through HWLOC_SYNTHETIC "(indexes=...)"; the real machine), process mask, binding mode, thread count and pool
# partition; the extracted Coq model (Model/Affinity.v) runs on the same inputs; the OUT lines are
# compared exactly.  Monitors evaluate the property on the implementation's output alone.
import os
import random
import tempfile
from concurrent.futures import ThreadPoolExecutor

from vlib import BUILD, Hit, Result, diff_lines, sh

ASSUMPTIONS = [
    'hwloc reports the machine as packages > cores > PUs with logical numbering in that order (hwloc 2.9); '
    'hwloc_set_cpubind really binds the calling thread (observable only on the real machine: checked there through '
    'pthread_getaffinity_np / sched_getaffinity of every worker)',
    'std::round(double(a)/double(b)) in decode_numabalanced_distribution is modelled as (2a+b)/(2b), exact for operands < 2^26',
    'the dead branch "affinity mask for thread N has already been set" and used_cores != 0 are not modelled '
    '(affinity_data::init is only called with used_cores = 0)',
    'OS numbering of the PUs: the theorems cover every injective numbering; the generator draws identity, "Intel", random '
    'permutations and sparse numberings with OS indices < 64 (for an OS index >= the size of the user mask rounded up to 64 '
    'the real conversion loop reads past the end of the mask: valgrind invalid read, see notes/design/C15.md); hwloc orders '
    'siblings by lowest OS index, so only numberings consistent with that order can be shown to pika (every generated '
    'machine is compared with hwloc\'s own view: c15_bind TOPO)',
    '--pika:cores (max_cores) keeps its default (= number of threads); explicit --pika:cores smaller than the thread '
    'count together with --pika:ignore-process-mask is outside the property quantifier (one fixed witness case of it is '
    'run: finding C15:compact:cores_lt_threads_truncated = Example C15_worker_count_compact_unguarded_refuted)',
]

MODES = ['compact', 'scatter', 'balanced', 'numa-balanced']


def topo_xml(sockets, osidx):
    npu = sum(sum(s) for s in sockets)
    full = 0
    for i in range(npu):
        full |= 1 << osidx[i]
    gp = [1]

    def g():
        gp[0] += 1
        return gp[0]

    def cs(bits):
        # hwloc bitmap syntax: 32-bit words, most significant first, comma separated
        parts = []
        while True:
            parts.append('0x%08x' % (bits & 0xffffffff))
            bits >>= 32
            if not bits:
                break
        return ','.join(reversed(parts))
    ns = 'nodeset="0x00000001" complete_nodeset="0x00000001"'
    out = ['<?xml version="1.0" encoding="UTF-8"?>', '<!DOCTYPE topology SYSTEM "hwloc2.dtd">',
           '<topology version="2.0">',
           '<object type="Machine" os_index="0" cpuset="%s" complete_cpuset="%s" allowed_cpuset="%s" %s '
           'allowed_nodeset="0x00000001" gp_index="1">' % (cs(full), cs(full), cs(full), ns),
           '<object type="NUMANode" os_index="0" cpuset="%s" complete_cpuset="%s" %s gp_index="%d" '
           'local_memory="1073741824"><page_type size="4096" count="262144"/></object>' % (cs(full), cs(full), ns, g())]
    pu = 0
    core = 0
    for si, s in enumerate(sockets):
        sb = 0
        inner = []
        for c in s:
            cb = 0
            pus = []
            for _ in range(c):
                b = 1 << osidx[pu]
                pus.append('<object type="PU" os_index="%d" cpuset="%s" complete_cpuset="%s" %s gp_index="%d"/>'
                           % (osidx[pu], cs(b), cs(b), ns, g()))
                cb |= b
                pu += 1
            inner.append('<object type="Core" os_index="%d" cpuset="%s" complete_cpuset="%s" %s gp_index="%d">'
                         % (core, cs(cb), cs(cb), ns, g()))
            inner += pus
            inner.append('</object>')
            sb |= cb
            core += 1
        out.append('<object type="Package" os_index="%d" cpuset="%s" complete_cpuset="%s" %s gp_index="%d">'
                   % (si, cs(sb), cs(sb), ns, g()))
        out += inner
        out.append('</object>')
    out.append('</object>')
    out += ['<support name="discovery.pu"/>', '<support name="discovery.numa"/>',
            '<support name="discovery.numa_memory"/>', '<support name="custom.exported_support"/>', '</topology>']
    return '\n'.join(out) + '\n'


def hwloc_order(shape, assign):
    """shape: sockets -> cores -> number of PUs; assign: one OS index per PU in that order (ANY injective
    numbering).  hwloc orders siblings by their lowest OS index at every level; returns the machine as hwloc
    numbers it logically: (sockets, osidx) with osidx[i] = OS index of logical PU i.  (Checked against hwloc
    itself on every generated topology: c15_bind TOPO.)"""
    it = iter(assign)
    socks = [[sorted(next(it) for _ in range(c)) for c in s] for s in shape]
    for sk in socks:
        sk.sort(key=min)
    socks.sort(key=lambda sk: min(min(c) for c in sk))
    return [[len(c) for c in sk] for sk in socks], [o for sk in socks for c in sk for o in c]


class Case:
    """one start of the runtime"""

    def __init__(self, cid, sockets, osidx, use, mask, bind, n, pools, env_kind='xml', probe=0, cores=None, synth=None):
        self.id = cid
        self.sockets = sockets          # list of list of PU counts
        self.osidx = osidx              # OS index of logical PU i
        self.use = use                  # process mask in use (no --pika:ignore-process-mask)
        self.mask = mask                # None (no --pika:process-mask) or list of OS indices
        self.bind = bind                # compact|scatter|balanced|numa-balanced|none|offset:o:s
        self.n = n                      # int or 'cores' / 'all'
        self.pools = pools              # list of list of positions
        self.env_kind = env_kind        # xml | synthetic | real
        self.probe = probe
        self.cores = cores              # explicit --pika:cores (max_cores); None = default (= thread count)
        self.real_mask = None           # logical PUs allowed by the OS (real machine only)
        self.synth = synth              # explicit HWLOC_SYNTHETIC string (env_kind == 'synthetic')
        self.numbering = 'identity'     # identity | intel | perm (dense, any order) | sparse

    def total(self):
        return sum(sum(s) for s in self.sockets)

    def in_line(self):
        if self.mask is None:
            m = 'full' if self.real_mask is None else ','.join(str(self.osidx[i]) for i in self.real_mask)
        else:
            m = ','.join(str(b) for b in self.mask) if self.mask else ''
        return 'IN BIND %s topo=%s osidx=%s use=%d mask=%s bind=%s n=%s pools=%s%s' % (
            self.id, '|'.join(','.join(str(c) for c in s) for s in self.sockets),
            ','.join(str(x) for x in self.osidx), 1 if self.use else 0, m, self.bind, self.n,
            ';'.join('.'.join(str(p) for p in pl) for pl in self.pools) if self.pools else '-',
            '' if self.cores is None else ' cores=%d' % self.cores)

    def argv(self):
        a = [self.id, ';'.join('.'.join(str(p) for p in pl) for pl in self.pools) if self.pools else '-',
             str(self.probe), '--pika:threads=%s' % self.n]
        if self.bind.startswith('offset:'):
            _, o, s = self.bind.split(':')
            a += ['--pika:pu-offset=%s' % o, '--pika:pu-step=%s' % s]
        else:
            a.append('--pika:bind=%s' % self.bind)
        if not self.use:
            a.append('--pika:ignore-process-mask')
        if self.cores is not None:
            a.append('--pika:cores=%d' % self.cores)
        if self.mask is not None:
            v = 0
            for b in self.mask:
                v |= 1 << b
            a.append('--pika:process-mask=0x%x' % v)
        return a

    # ---- what the property needs, computed here independently of the Coq model
    def eff_logical(self):
        """logical PUs a worker may be bound to"""
        tot = self.total()
        if not self.use:
            return set(range(tot))
        if self.mask is None:
            return set(range(tot)) if self.real_mask is None else set(self.real_mask)
        return set(i for i in range(tot) if self.osidx[i] in self.mask)

    def expected_pm(self):
        """the logical process mask pika must work with (independently of use), as an int; None = unknown"""
        tot = self.total()
        if self.mask is None:
            lg = range(tot) if self.real_mask is None else self.real_mask
        else:
            lg = [i for i in range(tot) if self.osidx[i] in self.mask]
        v = 0
        for i in lg:
            v |= 1 << i
        return v

    def expected_n(self):
        eff = self.eff_logical()
        if self.n == 'all':
            return len(eff)
        if self.n == 'cores':
            if not self.use:
                return sum(len(s) for s in self.sockets)
            k = 0
            pu = 0
            for s in self.sockets:
                for c in s:
                    if any((pu + j) in eff for j in range(c)):
                        k += 1
                    pu += c
            return k
        return int(self.n)


def parse_out(line):
    p = line.split(' ')
    d = {'status': p[3] if len(p) > 3 else ''}
    for x in p[3:]:
        if '=' in x:
            k, v = x.split('=', 1)
            d[k] = v
    return d


def canon(line):
    """the part of an implementation line the model also produces"""
    p = line.split(' ')
    keep = p[:3]
    for x in p[3:]:
        k = x.split('=', 1)[0]
        if k in ('msg', 'os', 'in', 'probe_timeout'):
            continue
        keep.append(x)
    return ' '.join(keep)


def monitor(c, line):
    """the property on the implementation's observation of one case; returns list of (signature, text)"""
    d = parse_out(line)
    hits = []
    mode = c.bind.split(':')[0]
    eff = c.eff_logical()
    tot = c.total()
    want = c.expected_n()
    # the user's mask (OS indices): rejected exactly when a bit lies at or past the NUMBER of PUs ("past the
    # hardware concurrency") or no bit is set; the stored logical mask = the PUs whose OS index is set
    if c.mask is not None:
        past = [b for b in c.mask if b >= tot]
        e = d.get('err')
        if e == 'mask_past_hw':
            if not past:
                hits.append(('C15:process_mask:rejected_inside_hw', 'mask %s has no bit at or past %d PUs but was rejected '
                             'as past the hardware' % (c.mask, tot)))
            elif c.mask and all(b in c.osidx for b in c.mask):
                # defect observation (sparse OS numbering): every bit names an existing PU
                hits.append(('note', 'mask_of_existing_pus_rejected_as_past_hw'))
        elif e == 'mask_empty':
            if c.mask:
                hits.append(('C15:process_mask:nonempty_rejected_as_empty', 'mask %s rejected as empty' % c.mask))
        elif e not in ('crash', 'hang'):
            if past:
                hits.append(('C15:process_mask:past_hw_accepted', 'mask %s has bits at or past the %d PUs of the machine '
                             'and was accepted' % (c.mask, tot)))
            elif not c.mask:
                hits.append(('C15:process_mask:empty_accepted', 'empty process mask accepted'))
    if 'pm' in d:
        try:
            got = int(d['pm'], 16)
        except ValueError:
            got = -1
        if got != c.expected_pm():
            hits.append(('C15:process_mask:conversion', 'OS mask %s on OS numbering %s: pika works with the logical mask '
                         '0x%x, the PUs whose OS index is set are 0x%x' % (c.mask, c.osidx, got, c.expected_pm())))
        elif c.mask is not None and got == 0:
            hits.append(('note', 'accepted_mask_names_no_pu'))
    if mode == 'offset':
        return hits     # --pika:pu-offset/--pika:pu-step: outside the property (correspondence only)
    if 'err' in d:
        e = d['err']
        if e == 'hang':
            hits.append(('C15:%s:startup_hang' % mode, 'start-up never returned (watchdog)'))
        elif e in ('mask_past_hw', 'mask_empty'):
            pass
        elif e in ('pu_taken', 'default_pool_empty', 'empty_pool') and c.pools:
            pass        # the harness's own pool request was unsatisfiable
        elif mode == 'none':
            hits.append(('C15:none:rejected', 'bind=none rejected: %s' % e))
        elif want > len(eff):
            if not e.startswith('oversub'):
                hits.append(('C15:%s:oversub_wrong_error' % mode, 'oversubscribed request failed with %s' % e))
        else:
            if mode == 'numa-balanced' and e == 'count_mismatch':
                return hits + [('note', 'numa_rejects_satisfiable')]
            if e in ('pu_taken', 'default_pool_empty', 'empty_pool') and c.pools:
                return hits     # the harness's own pool request was unsatisfiable
            hits.append(('C15:%s:satisfiable_rejected' % mode,
                         'request for %d threads on %d allowed PUs rejected: %s' % (want, len(eff), e)))
        return hits
    ws = [w.split(':') for w in d.get('w', '').split('|') if w]
    nw = int(d.get('n', '-1'))
    if mode == 'none':
        if want > tot and nw != want:
            hits.append(('C15:none:threads_gt_pus_truncated',
                         '%d threads requested with bind=none on %d PUs: started %d workers, no error' % (want, tot, nw)))
        elif nw != want:
            hits.append(('C15:none:worker_count', 'requested %d, started %d' % (want, nw)))
        for i, w in enumerate(ws):
            if w[0] != '0':
                hits.append(('C15:none:bound', 'worker %d has mask %s under bind=none' % (i, w[0])))
    else:
        if want > len(eff):
            hits.append(('C15:%s:oversubscription_accepted' % mode,
                         '%d threads on %d allowed PUs accepted' % (want, len(eff))))
        if (mode == 'compact' and not c.use and c.cores is not None and c.cores < want and nw < want
                and len(ws) == nw):
            # witness of C15_worker_count_compact_unguarded_refuted (outside the property's quantifier)
            hits.append(('C15:compact:cores_lt_threads_truncated',
                         '--pika:ignore-process-mask --pika:cores=%d --pika:threads=%d --pika:bind=compact: started %d '
                         'workers, no error' % (c.cores, want, nw)))
        elif nw != want or len(ws) != nw:
            hits.append(('C15:%s:worker_count' % mode, 'requested %d workers, runtime started %d' % (want, nw)))
        seen = {}
        for i, w in enumerate(ws):
            m = int(w[0], 16)
            bits = [b for b in range(m.bit_length()) if (m >> b) & 1]
            if len(bits) != 1:
                hits.append(('C15:%s:not_singleton' % mode, 'worker %d mask %s is not one PU' % (i, w[0])))
                continue
            b = bits[0]
            if b not in eff:
                hits.append(('C15:%s:outside_mask' % mode, 'worker %d bound to PU %d outside the allowed set %s' % (i, b, sorted(eff))))
            if b in seen:
                hits.append(('C15:%s:shared_pu' % mode, 'workers %d and %d share PU %d' % (seen[b], i, b)))
            seen[b] = i
            if int(w[1]) != b:
                hits.append(('C15:%s:reported_pu' % mode, 'worker %d reports PU %s but is bound to PU %d' % (i, w[1], b)))
    # pools: every worker in exactly one pool; the pool ranges tile [0, n)
    for i, w in enumerate(ws):
        if w[2] == 'none' or '+' in w[2]:
            hits.append(('C15:%s:pool_membership' % mode, 'worker %d belongs to pools "%s"' % (i, w[2])))
    off = 0
    for pl in d.get('pools', '').split('|'):
        name, o, cnt = pl.rsplit(':', 2)
        if int(o) != off or int(cnt) == 0:
            hits.append(('C15:%s:pool_ranges' % mode, 'pool %s covers [%s,+%s), expected offset %d' % (name, o, cnt, off)))
        off += int(cnt)
    if off != nw:
        hits.append(('C15:%s:pool_ranges' % mode, 'pools cover %d workers of %d' % (off, nw)))
    # OS view (real machine): the OS thread's affinity is the reported PU
    if 'os' in d and c.env_kind == 'real':
        for i, (w, o) in enumerate(zip(ws, d['os'].split('|'))):
            if o == 'fail':
                continue
            om = int(o, 16)
            if mode == 'none':
                if bin(om).count('1') < 2 and tot > 1:
                    hits.append(('C15:none:os_bound', 'OS thread of worker %d is bound to %s under bind=none' % (i, o)))
            else:
                exp = 1 << c.osidx[int(w[1])]
                if om != exp:
                    hits.append(('C15:%s:os_affinity' % mode, 'worker %d reports PU %s, OS affinity is %s' % (i, w[1], o)))
    if 'in' in d and 'probe_timeout' not in d:
        names = [pl.rsplit(':', 2)[0] for pl in d.get('pools', '').split('|')]
        for i, (w, s) in enumerate(zip(ws, d['in'].split('|'))):
            if s == '-' or '+' in s:
                hits.append(('C15:%s:inside_view' % mode, 'worker %d ran %s probe tasks' % (i, 'no' if s == '-' else 'several')))
                continue
            pname, _, cpus = s.split('/')
            if w[2].isdigit() and int(w[2]) < len(names) and names[int(w[2])] != pname:
                hits.append(('C15:%s:inside_pool' % mode, 'worker %d runs in pool %s, partitioner says %s' % (i, pname, names[int(w[2])])))
            if c.env_kind == 'real' and mode != 'none' and int(cpus, 16) != (1 << c.osidx[int(w[1])]):
                hits.append(('C15:%s:os_affinity' % mode, 'worker %d (inside) affinity %s, reported PU %s' % (i, cpus, w[1])))
    return hits


def gen_cases(rng, ncases, real):
    cases = []
    k = [0]

    def cid():
        k[0] += 1
        return 'c%d' % k[0]

    regular = [[[p] * c for _ in range(s)] for s in (1, 2, 3) for c in (1, 2, 3, 4) for p in (1, 2) if s * c * p <= 12]
    fixed = [([[1, 1], [2, 2]], None), ([[2, 2], [1, 1]], None), ([[2, 1], [1, 2]], None), ([[1] * 8], None),
             ([[1], [1], [1], [1], [1], [1], [1], [1]], None)]

    def rand_topo():
        r = rng.random()
        if r < 0.55:
            socks = [list(s) for s in rng.choice(regular)]
        elif r < 0.65:
            socks = [list(s) for s in rng.choice(fixed)[0]]
        else:
            ns = rng.randint(1, 3)
            socks = [[rng.randint(1, 3) for _ in range(rng.randint(1, 3))] for _ in range(ns)]
            while sum(sum(s) for s in socks) > 12:
                socks[-1].pop() if len(socks[-1]) > 1 else socks.pop()
        tot = sum(sum(s) for s in socks)
        osidx = list(range(tot))
        r = rng.random()
        if r < 0.3:
            # ARBITRARY injective OS numbering: a random permutation of 0..tot-1 (dense, non-monotone) or tot
            # different indices below 64 (sparse; < 64 so that the conversion's test(mask, os_index) stays inside the
            # first storage word of the user's mask — beyond it the real code reads past the heap block).
            # hwloc renumbers the PUs logically by lowest OS index (hwloc_order); regular shapes go through
            # HWLOC_SYNTHETIC "(indexes=...)" half of the time (hwloc then does the ordering itself), the rest
            # through generated XML.
            if rng.random() < 0.5:
                assign, kind = rng.sample(range(tot), tot), 'perm'
            else:
                top = rng.choice([tot + 1, tot + 3, 2 * tot + 1, 24, 40, 64])
                assign, kind = rng.sample(range(max(top, tot + 1)), tot), 'sparse'
            synth = None
            if len(set(tuple(sk) for sk in socks)) == 1 and len(set(socks[0])) == 1 and rng.random() < 0.5:
                synth = 'package:%d core:%d pu:%d(indexes=%s)' % (len(socks), len(socks[0]), socks[0][0],
                                                                 ','.join(str(x) for x in assign))
            socks, osidx = hwloc_order(socks, assign)
            return socks, osidx, kind, synth
        if r < 0.55:
            # "Intel" numbering: first hardware thread of every core, then the second, ...  (hwloc orders
            # siblings by their lowest OS index, so this keeps the logical order of the generator)
            cs = [c for s in socks for c in s]
            start = [sum(cs[:i]) for i in range(len(cs))]
            nxt = 0
            for j in range(max(cs)):
                for ci, c in enumerate(cs):
                    if j < c:
                        osidx[start[ci] + j] = nxt
                        nxt += 1
            return socks, osidx, 'intel', None
        return socks, osidx, 'identity', None

    def rand_mask(tot, socks):
        r = rng.random()
        if r < 0.3:
            return list(range(tot))
        if r < 0.4:     # one socket only (OS indices of the first socket's PUs are resolved by the caller)
            return 'socket0'
        m = [b for b in range(tot) if rng.random() < 0.6]
        return m if m else [rng.randrange(tot)]

    def rand_os_mask(tot, osidx):
        """masks for arbitrary numberings: in terms of the OS indices of the PUs, or of raw bits below #PUs"""
        r = rng.random()
        if r < 0.12:
            return sorted(osidx)                                    # exactly the machine (rejected when sparse)
        if r < 0.35:
            m = [o for o in osidx if rng.random() < 0.6]            # some PUs, by OS index
            return sorted(m) if m else [rng.choice(osidx)]
        if r < 0.6:
            m = [b for b in range(tot) if rng.random() < 0.6]       # raw bits below #PUs (may name no PU)
            return m if m else [rng.randrange(tot)]
        if r < 0.63:
            return []                                               # empty: must be rejected
        m = [o for o in osidx if o < tot and rng.random() < 0.7]    # PUs that an accepted mask can name
        if not m:
            m = [o for o in osidx if o < tot][:1] or [rng.randrange(tot)]
        if rng.random() < 0.3:
            m = m + [m[0]] if rng.random() < 0.5 else list(reversed(m))   # the bit list is a set: order/duplicates irrelevant
        return m

    # fixed regression cases (the two topologies on which the unfixed code hangs / loses workers; E3)
    for socks in ([[1, 1], [2, 2]], [[2, 2], [1, 1]]):
        tot = sum(sum(s) for s in socks)
        for mode in MODES:
            for n in range(1, tot + 2):
                cases.append(Case(cid(), socks, list(range(tot)), True, list(range(tot)), mode, n, []))
    for n in (1, 2, 3, 8, 9):
        cases.append(Case(cid(), [[1]] * 8, list(range(8)), True, list(range(8)), 'numa-balanced', n, []))
    # witness of C15_worker_count_compact_unguarded_refuted: explicit --pika:cores below the thread count while the
    # process mask is ignored (compact sweeps the same core again); and the same request with the mask in use (fine)
    cases.append(Case(cid(), [[1, 1]], [0, 1], False, None, 'compact', 2, [], cores=1))
    cases.append(Case(cid(), [[1, 1]], [0, 1], True, None, 'compact', 2, [], cores=1))
    cases.append(Case(cid(), [[2, 2], [2, 2]], list(range(8)), True, list(range(8)), 'balanced', 6, [[1, 3], [2]], probe=2))
    cases.append(Case(cid(), [[2, 2], [2, 2]], list(range(8)), True, None, 'balanced', 3, [], env_kind='synthetic'))
    cases.append(Case(cid(), [[2, 2], [2, 2]], list(range(8)), True, [1, 2, 4, 5, 6, 7], 'numa-balanced', 3, [], env_kind='synthetic'))
    # arbitrary OS numberings, fixed witnesses (Examples C15_process_mask_nonmonotone / _empty_result_accepted):
    # non-monotone dense numbering: OS mask 0x3 -> logical 0x5; sparse numbering: the machine's own PUs rejected,
    # bits that name no PU accepted with an empty logical mask
    nm = 'package:1 core:2 pu:2(indexes=0,2,1,3)'
    sp = 'package:1 core:2 pu:2(indexes=0,4,2,6)'
    for (syn, osx, kind, mask, bind, n) in (
            (nm, [0, 2, 1, 3], 'perm', [0, 1], 'compact', 2), (nm, [0, 2, 1, 3], 'perm', [0, 1], 'scatter', 3),
            (nm, [0, 2, 1, 3], 'perm', [2, 3], 'balanced', 2), (nm, [0, 2, 1, 3], 'perm', [0, 4], 'compact', 1),
            (sp, [0, 4, 2, 6], 'sparse', [0, 2, 4, 6], 'compact', 2), (sp, [0, 4, 2, 6], 'sparse', [0, 2], 'scatter', 2),
            (sp, [0, 4, 2, 6], 'sparse', [1, 3], 'compact', 1), (sp, [0, 4, 2, 6], 'sparse', [], 'compact', 1)):
        c = Case(cid(), [[2, 2]], osx, True, mask, bind, n, [], env_kind='synthetic', synth=syn)
        c.numbering = kind
        cases.append(c)
    while len(cases) < ncases:
        socks, osidx, numbering, synth = rand_topo()
        tot = sum(sum(s) for s in socks)
        use = rng.random() < 0.8
        mask = rand_os_mask(tot, osidx) if numbering in ('perm', 'sparse') else rand_mask(tot, socks)
        if mask == 'socket0':
            mask = sorted(osidx[i] for i in range(sum(socks[0])))
        if rng.random() < 0.03:
            mask = mask + [tot + rng.randint(0, 2)]     # bit past the machine: must be rejected
        r = rng.random()
        bind = rng.choice(MODES) if r < 0.9 else 'none'
        eff = len([i for i in range(tot) if osidx[i] in mask]) if use else tot
        r = rng.random()
        if r < 0.06:
            n = 'cores'
        elif r < 0.12:
            n = 'all'
        elif r < 0.30:
            n = eff + 1
        elif r < 0.45:
            n = max(eff, 1)
        else:
            n = rng.randint(1, max(eff, 1))
        if eff == 0 and n in ('cores', 'all'):
            n = 1       # (keyword with an empty logical mask = "--pika:threads must be greater than 0": not modelled)
        pools = []
        probe = 0
        if rng.random() < 0.15 and isinstance(n, int) and n >= 2:
            npools = rng.randint(1, 2)
            pos = list(range(n))
            rng.shuffle(pos)
            take = rng.randint(1, max(1, n - 1))
            chosen = pos[:take]
            if rng.random() < 0.1:
                chosen = chosen + [chosen[0]]       # same PU twice: add_resource must refuse
            if len(chosen) < 2:
                npools = 1
            cut = rng.randint(1, len(chosen) - 1) if npools == 2 else len(chosen)
            pools = [chosen[:cut]] + ([chosen[cut:]] if npools == 2 else [])
        c = Case(cid(), socks, osidx, use, mask if (use or rng.random() < 0.5) else None, bind, n, pools, probe=probe,
                 env_kind='synthetic' if synth else 'xml', synth=synth)
        c.numbering = numbering
        if c.mask is None and use:
            c.mask = list(range(tot))
        cases.append(c)
    # the real machine: sched_getaffinity of every worker against the reported PU
    if real is not None:
        socks, osidx, allowed = real
        tot = sum(sum(s) for s in socks)
        nreal = max(12, ncases // 25)
        for j in range(nreal):
            bind = (MODES + ['none'])[j % 5]
            r = rng.random()
            mask = None
            if r < 0.5:
                m = [osidx[i] for i in allowed if rng.random() < 0.6]
                mask = m if m else [osidx[allowed[0]]]
            eff = len(mask) if mask is not None else len(allowed)
            n = rng.choice([1, eff, eff + 1, rng.randint(1, eff), rng.randint(1, eff), 'all', 'cores'])
            pools = []
            if isinstance(n, int) and 2 <= n <= eff and rng.random() < 0.4:
                pools = [[rng.randrange(n)]]
            c = Case(cid(), socks, osidx, True, mask, bind, n, pools, env_kind='real', probe=2 if j % 2 == 0 else 1)
            c.real_mask = allowed
            cases.append(c)
    return cases


def gen_restart(rng, nproc, real):
    """RESTART scenario: sequences of 3..5 starts of the runtime in ONE process on the real machine, every start with its
    own explicit --pika:process-mask (a drawn subset of the PUs the OS allows, different from the previous start's), bind
    mode, thread count within the mask (only the LAST start of a sequence may be oversubscribed: a refused start ends the
    sequence) and now and then a second pool.  Each start is an ordinary Case (env real, probe 2)."""
    socks, osidx, allowed = real
    seqs = []
    for p in range(nproc):
        k = rng.randint(3, 5)
        seq = []
        prev = None
        for j in range(k):
            for _ in range(20):
                if rng.random() < 0.3 and prev is not None:
                    # disjoint from (or complement of) the previous mask: nothing of the earlier start may be reused
                    m = [osidx[i] for i in allowed if osidx[i] not in prev and rng.random() < 0.8]
                else:
                    q = rng.choice([0.25, 0.5, 0.75])
                    m = [osidx[i] for i in allowed if rng.random() < q]
                if m and m != prev:
                    break
            if not m or m == prev:
                m = [osidx[allowed[(p + j) % len(allowed)]]]
            prev = m
            eff = len(m)
            n = rng.choice([eff, eff, rng.randint(1, eff), rng.randint(1, eff), max(1, eff - 1)])
            if j == k - 1 and rng.random() < 0.15:
                n = eff + 1
            pools = []
            if 2 <= n <= eff and rng.random() < 0.25:
                pools = [[rng.randrange(n)]]
            c = Case('r%ds%d' % (p, j), socks, osidx, True, m, MODES[rng.randrange(len(MODES))], n, pools, env_kind='real', probe=2)
            c.real_mask = allowed
            seq.append(c)
        seqs.append(seq)
    return seqs


def run_restart(ctx, r, h, drv, seqs, notes):
    """one process per sequence (c15_bind RESTART ...); EVERY start is compared with the model's prediction for that
    start's configuration alone and judged by the single-start monitors (one PU, inside THAT start's mask, distinct PUs,
    reported PU = OS affinity seen by the worker itself).  Signatures C15:restart:<monitor>."""
    env = {'PIKA_VERIF_C15': '1'}

    def one(seq):
        argv = ['RESTART']
        for j, c in enumerate(seq):
            argv += (['@@'] if j else []) + c.argv()
        rc, out = sh([h] + argv, timeout=40 * len(seq) + 60, env=env)
        got = {}
        for ln in out.split('\n'):
            if ln.startswith('OUT BIND '):
                got[ln.split(' ')[2]] = ln
        return argv, rc, out, got
    with ThreadPoolExecutor(max_workers=2) as ex:
        results = list(ex.map(one, seqs))
    flat, lines = [], {}
    for seq, (argv, rc, out, got) in zip(seqs, results):
        r.count('restart_starts_per_process=%d' % len(seq))
        stopped = False
        for j, c in enumerate(seq):
            if c.id in got:
                lines[c.id] = got[c.id]
                flat.append((c, seq, argv, j))
                if 'err=' in got[c.id].split(' msg=')[0]:
                    stopped = True      # a refused start ends the sequence (by construction only the last one may be)
                continue
            if not stopped:
                # the process ended without reporting this start
                r.hits.append(Hit('monitor', 'C15:restart:crash',
                                  'start %d of %d in one process (%s) never reported: the process ended with rc=%d [%s]'
                                  % (j + 1, len(seq), c.in_line(), rc, out[-300:].replace('\n', ' ')),
                                  {'harness': 'c15_bind', 'env': env, 'argv': argv, 'case': [x.in_line() for x in seq]}))
            else:
                notes['restart_start_not_run_after_refused_start'] = notes.get('restart_start_not_run_after_refused_start', 0) + 1
            break
    if not flat:
        return
    ins = [c.in_line() for c, _, _, _ in flat]
    rc2, mout = sh([drv], input='\n'.join(ins) + '\n', timeout=600)
    mouts = [x for x in mout.split('\n') if x.startswith('OUT ')]
    if rc2 != 0:
        r.hits.append(Hit('tie', 'C15:model_driver', 'model driver failed on the restart cases rc=%d: %s' % (rc2, mout[-400:]), {}))
    impl = [canon(lines[c.id]) for c, _, _, _ in flat]
    diffs, ncmp = diff_lines(ctx, impl, mouts)
    r.evaluations += len(flat)
    r.traces += ncmp - len(diffs)
    byid = {c.id: (c, seq, argv, j) for c, seq, argv, j in flat}
    for c, seq, argv, j in flat:
        line = lines[c.id]
        d = parse_out(line)
        r.count('restart_start_index=%d' % j)
        r.count('restart_mode=%s' % c.bind)
        r.count('restart_result=%s' % ('ok' if 'err' not in d else d['err']))
        if j >= 1 and 'err' not in d and int(d.get('n', '0')) >= 2:
            r.nontrivial('restart ' + ' / '.join(x.in_line().split(' ', 3)[3].split(' use=', 1)[1] for x in seq[:j + 1]))
        rep = {'harness': 'c15_bind', 'env': env, 'argv': argv, 'start_index': j, 'case': [x.in_line() for x in seq], 'observed': line}
        for sig, text in monitor(c, line):
            if sig == 'note':
                notes['restart_' + text] = notes.get('restart_' + text, 0) + 1
                continue
            r.hits.append(Hit('monitor', 'C15:restart:' + sig.split(':')[-1],
                              'start %d of %d in ONE process (earlier starts: %s): %s [%s] observed: %s'
                              % (j + 1, len(seq), '; '.join('mask=%s bind=%s n=%s' % (x.mask, x.bind, x.n) for x in seq[:j]) or 'none',
                                 text, c.in_line(), line[:400]), rep))
        if 'probe_timeout' in d:
            notes['restart_probe_timeout'] = notes.get('restart_probe_timeout', 0) + 1
    for (k, a, b) in diffs[:20]:
        c, seq, argv, j = byid.get(k[1], (None, [], None, -1))
        r.hits.append(Hit('corr', 'C15:restart:correspondence',
                          'start %d of a process that starts the runtime %d times: implementation and model differ on %s: impl [%s] model [%s]'
                          % (j + 1, len(seq), c.in_line() if c else k, a, b),
                          {'harness': 'c15_bind', 'argv': argv, 'case': [x.in_line() for x in seq], 'impl': a, 'model': b}))
    c, seq, argv, j = flat[min(1, len(flat) - 1)]
    r.sample({'restart_process': [x.in_line() for x in seq], 'observed': [lines.get(x.id, '-')[:300] for x in seq]})
    r.extra['restart_processes'] = len(seqs)
    r.extra['restart_starts_compared'] = len(flat)


def run(ctx):
    r = Result()
    r.rule = ('PROC/DIFF: (topology [sockets x cores x SMT, regular and irregular; OS numbering identity / "Intel" / random '
              'permutation / sparse (indices < 64), the last two through XML and HWLOC_SYNTHETIC indexes=], '
              'process mask, binding mode, thread count 1..|mask|+1 or cores/all, pool partition) drawn from VERIF_SEED; '
              'one process of the real runtime per case under HWLOC_XMLFILE / HWLOC_SYNTHETIC / the real machine; the '
              'extracted model runs on the same inputs and the full output line (workers: mask, reported PU, pool; pools; '
              'error class; the converted logical process mask pm=) is compared; non-trivial = accepted with >= 2 workers and (>= 2 sockets or a partial mask or >= 2 pools)'
              '. RESTART: 10 processes (thorough 150) on the real machine each start the runtime 3..5 times (start / report / finalize / '
              'stop), every start with its own drawn --pika:process-mask (subset of the allowed PUs, different from the previous '
              'start\'s, 30 % disjoint from it), bind mode, thread count within the mask (the last start may be oversubscribed) and '
              'sometimes a second pool; EVERY start is compared with the model\'s prediction for that start\'s configuration alone '
              'and judged by the single-start monitors (sched_getaffinity inside every worker); non-trivial = a second or later '
              'start accepted with >= 2 workers')
    ctx.build_pika()
    drv = ctx.build_model('C15', 'ExtractC15.v', 'drv_c15.ml')
    h = ctx.build_harness('c15_bind', 'c15_bind.cpp')
    rng = random.Random(ctx.seed * 7919 + 15)
    ncases = 900 if ctx.tier == 'quick' else 12000
    # the real machine as pika sees it
    real = None
    rc, out = sh([h, 'TOPO'], timeout=60)
    for ln in out.split('\n'):
        if ln.startswith('OUT TOPO '):
            d = dict(x.split('=', 1) for x in ln.split(' ')[2:])
            try:
                socks = [[int(x) for x in s.split(',')] for s in d['topo'].split('|')]
                osidx = [int(x) for x in d['osidx'].split(',')]
                allowed_os = os.sched_getaffinity(0)
                allowed = [i for i in range(len(osidx)) if osidx[i] in allowed_os]
                if sum(sum(s) for s in socks) == len(osidx) and len(osidx) <= 60 and allowed:
                    real = (socks, osidx, allowed)
            except Exception:
                real = None
    if real is None:
        r.notes.append('real machine topology not usable (TOPO: %s); real-machine cases skipped' % out[-200:])
    cases = gen_cases(rng, ncases, real)
    tmp = tempfile.mkdtemp(prefix='c15_', dir=BUILD)
    xml_of = {}

    def env_for(c):
        e = {'PIKA_VERIF_C15': '1'}
        if c.env_kind == 'xml':
            key = (tuple(tuple(s) for s in c.sockets), tuple(c.osidx))
            if key not in xml_of:
                p = '%s/t%d.xml' % (tmp, len(xml_of))
                with open(p, 'w') as f:
                    f.write(topo_xml(c.sockets, c.osidx))
                xml_of[key] = p
            e['HWLOC_XMLFILE'] = xml_of[key]
        elif c.env_kind == 'synthetic':
            s = c.sockets
            e['HWLOC_SYNTHETIC'] = c.synth or 'package:%d core:%d pu:%d' % (len(s), len(s[0]), s[0][0])
        return e
    envs = [env_for(c) for c in cases]      # (files written before the parallel phase)

    # the generator's idea of every generated machine (logical order, OS index of every PU) against hwloc's own
    # view of the XML file / synthetic string (c15_bind TOPO uses the hwloc API only, not pika's topology code)
    topo_envs = {}
    for c, e in zip(cases, envs):
        if c.env_kind in ('xml', 'synthetic'):
            key = e.get('HWLOC_XMLFILE') or e.get('HWLOC_SYNTHETIC')
            topo_envs.setdefault(key, (c, e))

    def topo_check(ce):
        c, e = ce
        want = 'topo=%s osidx=%s ' % ('|'.join(','.join(str(x) for x in sk) for sk in c.sockets),
                                      ','.join(str(x) for x in c.osidx))
        rc, out = sh([h, 'TOPO'], timeout=60, env=e)
        return None if ('OUT TOPO ' + want) in out else (c, e, want, out[-300:])
    with ThreadPoolExecutor(max_workers=12) as ex:
        for bad in ex.map(topo_check, list(topo_envs.values())):
            if bad is not None:
                c, e, want, out = bad
                r.hits.append(Hit('tie', 'C15:generator_topology', 'hwloc does not see the generated machine as the generator '
                                  'does: expected [%s], hwloc [%s]' % (want, out), {'env': e, 'case': c.in_line()}))
    r.extra['topologies_validated'] = len(topo_envs)

    def one(ic):
        c, e = ic
        rc, out = sh([h] + c.argv(), timeout=60, env=e)
        line = None
        for ln in out.split('\n'):
            if ln.startswith('OUT BIND '):
                line = ln
        if line is None:
            line = 'OUT BIND %s err=crash msg=rc%d_%s' % (c.id, rc, out[-200:].replace(' ', '_').replace('\n', '_'))
        return line
    with ThreadPoolExecutor(max_workers=12) as ex:
        light = [(c, e) for c, e in zip(cases, envs) if c.probe < 2]
        outs = dict(zip([c.id for c, _ in light], ex.map(one, light)))
    with ThreadPoolExecutor(max_workers=2) as ex:
        heavy = [(c, e) for c, e in zip(cases, envs) if c.probe >= 2]
        outs.update(dict(zip([c.id for c, _ in heavy], ex.map(one, heavy))))
    ins = [c.in_line() for c in cases]
    rc2, mout = sh([drv], input='\n'.join(ins) + '\n', timeout=1200)
    mouts = [x for x in mout.split('\n') if x.startswith('OUT ')]
    if rc2 != 0:
        r.hits.append(Hit('tie', 'C15:model_driver', 'model driver failed rc=%d: %s' % (rc2, mout[-400:]), {}))
    impl = [canon(outs[c.id]) for c in cases]
    diffs, ncmp = diff_lines(ctx, impl, mouts)
    r.evaluations = len(cases)
    r.traces = ncmp - len(diffs)
    bycid = {c.id: c for c in cases}
    notes = {}
    for c in cases:
        line = outs[c.id]
        d = parse_out(line)
        mode = c.bind.split(':')[0]
        r.count('mode=%s' % mode)
        r.count('env=%s' % c.env_kind)
        r.count('numbering=%s' % c.numbering)
        r.count('sockets=%d' % len(c.sockets))
        r.count('result=%s' % ('ok' if 'err' not in d else d['err']))
        if 'err' not in d and int(d.get('n', '0')) >= 2 and (len(c.sockets) >= 2 or len(c.eff_logical()) < c.total() or c.pools):
            r.nontrivial(c.in_line().split(' ', 3)[3])
        for sig, text in monitor(c, line):
            if sig == 'note':
                notes[text] = notes.get(text, 0) + 1
                continue
            r.hits.append(Hit('monitor', sig, '%s [%s] observed: %s' % (text, c.in_line(), line[:400]),
                              {'harness': 'c15_bind', 'env': envs[cases.index(c)], 'argv': c.argv(), 'case': c.in_line(),
                               'topology_xml': topo_xml(c.sockets, c.osidx) if c.env_kind == 'xml' else None,
                               'observed': line}))
        if 'probe_timeout' in d:
            notes['probe_timeout'] = notes.get('probe_timeout', 0) + 1
    for (k, a, b) in diffs[:20]:
        c = bycid.get(k[1])
        r.hits.append(Hit('corr', 'C15:correspondence',
                          'implementation and model differ on %s: impl [%s] model [%s]' % (c.in_line() if c else k, a, b),
                          {'harness': 'c15_bind', 'case': c.in_line() if c else None, 'argv': c.argv() if c else None,
                           'impl': a, 'model': b}))
    # ---------------- RESTART: several starts of the runtime in one process, each with its own process mask
    if real is not None:
        rr = random.Random(ctx.seed * 104729 + 1515)
        run_restart(ctx, r, h, drv, gen_restart(rr, 10 if ctx.tier == 'quick' else 150, real), notes)
    for c in cases[:1] + cases[60:62] + cases[-2:]:
        r.sample({'input': c.in_line(), 'observed': outs[c.id][:300]})
    for k, v in sorted(notes.items()):
        r.notes.append('%s: %d cases' % (k, v))
    r.extra['observations'] = notes
    return r
