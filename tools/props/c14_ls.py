# C14 helper: the property itself evaluated on one lock-step case (IN line + OUT line), independent of the model
def fields(line):
    d = {}
    for f in line.split(' ')[3:]:
        if '=' in f:
            k, v = f.split('=', 1)
            d[k] = v
    return d


def ints(s):
    return [int(x) for x in s.split(',') if x != '']


def ls_monitor(in_line, out_line, extra_viol=()):
    """returns list of (signature_suffix, detail)"""
    hits = []
    o = fields(out_line)
    i = fields(in_line)
    nthreads = int(i['T'])
    osthreads = 'os'  # lock-step cases run on plain OS threads
    if o.get('stuck') == '1':
        hits.append(('lockstep:stuck', 'no thread can make progress / step bound exceeded (hang or livelock)'))
        return hits
    req = [ints(x) for x in o['req'].split('|')]
    ntrue = sum(x.count(1) for x in req)
    nret = sum(len(x) for x in req)
    if ntrue > 1:
        hits.append(('lockstep:request_stop:two_winners', '%d concurrent request_stop calls returned true (req=%s)' % (ntrue, o['req'])))
    if nret > 0 and ntrue == 0:
        hits.append(('lockstep:request_stop:no_winner', 'request_stop calls returned but none returned true (req=%s)' % o['req']))
    if nret > 0 and o['freq'] != '1':
        hits.append(('lockstep:request_stop:not_sticky', 'request_stop returned but the token does not report stop_requested'))
    if o['freq'] == '1' and o['fposs'] != '1':
        hits.append(('lockstep:stop_possible:requested', 'stop requested but stop_possible() is false'))
    if o['freq'] == '1' and ntrue == 0:
        hits.append(('lockstep:request_stop:flag_without_winner', 'stop_requested() is true but no request_stop returned true'))
    runs, ctor, dtor = ints(o['runs']), ints(o['ctor']), ints(o['dtor'])
    for c, r in enumerate(runs):
        if r > 1:
            hits.append(('lockstep:callback:twice', 'callback %d ran %d times' % (c, r)))
        if o['freq'] == '1' and ctor[c] == 2 and dtor[c] == 0 and r == 0:
            hits.append(('lockstep:callback:lost', 'stop was requested, callback %d is registered and alive but never ran' % c))
        if o['freq'] == '0' and r > 0:
            hits.append(('lockstep:callback:spurious', 'callback %d ran although stop was never requested' % c))
    if o['bad'][0] == '1':
        hits.append(('lockstep:callback:after_dtor', 'a callback was invoked after its destructor had returned'))
    if o['bad'][1] == '1':
        hits.append(('lockstep:dtor:returned_during_run:%s_threads' % osthreads,
                     'a stop_callback destructor returned while its callback was running on another thread'))
    for v in extra_viol:
        if v == 'ctor_not_immediate':
            hits.append(('lockstep:callback:ctor_not_immediate', 'stop already requested, but the constructor returned without having run the callback'))
    return hits
