# C18 — type-erased senders and functions.  DIFF of the real wrappers against Model/Erased.v.
import json
import os
import re
from vlib import Hit, Result, diff_lines, sh

ASSUMPTIONS = [
    'transparency theorems: wrapped senders / callables do not throw from their copy or move constructors; throwing '
    'constructors are covered by C18_exception_safety_senders (all sender operations, random histories) and '
    'C18_exception_safety_functions_partial (constructing operations); assignment of functions with a throwing '
    'constructor is refuted (findings F9b / FUNA) and replayed as witness cases; after such a step the harness only '
    'observes, copy-assigns and destroys the wrapper (any other use is undefined behaviour of the real code)',
    'wrapped callables are not address-sensitive: function_base relocates inline objects with memcpy / '
    'std::swap of the raw buffer by design; the ledger identity travels inside the object',
    'single-threaded use of a wrapper object (the wrappers are not thread-safe by contract)',
    'the SBO variant of any_sender is exercised with any_sender.cpp compiled with the same macro (the layout of '
    'the exported any_operation_state_holder depends on it; mixing the macro between libpika and user code is an '
    'ODR violation and not covered)',
]

MON_FIELDS = ['alive_at_end', 'double_destroy', 'garbage', 'dead_use', 'blocks_leaked', 'double_free',
              'bool_mismatch', 'completion_count_bad', 'misaligned', 'bad_free']


def parse_in(line):
    p = line.split(' ')
    kind, cid = p[1], p[2]
    f = dict(x.split('=', 1) for x in p[3:] if '=' in x)
    ops = [o.split(',') for o in f.get('ops', '').split(';') if o]
    return kind, cid, f, ops


# ---------------------------------------------------------------- model-independent monitors
def call_val(v, arg):
    """the ledgered callable of the harness: (outcome, new value)"""
    c = v['calls'] + 1
    v2 = dict(v, calls=c)
    if v['beh'] == 1 and arg % 2 == 1:
        return 'T%d' % (v['k'] * 10 + c), v2
    return 'V%d' % (v['k'] * 100 + c * 7 + arg), v2


def completion(v):
    return {0: 'V%d' % v['k'], 1: 'E%d' % v['k'], 2: 'S', 4: 'TB'}.get(v['beh'], 'T%d' % v['k'])


def spec_monitor(kind, f, ops, steps):
    """the property itself on the implementation's observations: wrappers behave like optional values of
    the wrapped type.  Returns (signature-suffix, text) or None."""
    n = (int(f['nu']) + int(f['na'])) if kind == 'SND' else int(f['n'])
    sbo = f.get('sbo') == '1'
    sl = [None] * n
    for t, (op, st) in enumerate(zip(ops, steps)):
        name = op[0]
        a = [int(x) for x in op[1:]]
        exp = '-'
        res0, _, emp0 = st.split('|')
        if name in ('sx', 'kx', 'cx', 'nx', 'mx', 'ax', 'rx') and res0 == 'T0':
            # exception safety, the property itself: after an operation that threw because a constructor of the
            # wrapped object threw, the target wrapper is unchanged or empty, every other wrapper is unchanged
            j = a[0]
            old = ''.join('1' if x is None else '0' for x in sl)
            if emp0[j] == '1':
                sl[j] = None
            want = ''.join('1' if x is None else '0' for x in sl)
            if emp0 != want:
                return 'throw_changed_other:' + name, 'step %d (%s): the operation threw, emptiness %s -> %s' % (t, ','.join(op), old, emp0)
            continue
        if name in ('sx', 'kx', 'cx', 'nx', 'mx', 'ax', 'rx'):
            # no constructor ran (nothing to copy / pointer move): the operation behaves as its plain form
            name = {'sx': 'st', 'kx': 'cc', 'cx': 'cp' if kind == 'SND' else 'ca', 'nx': 'ns', 'mx': 'mv', 'ax': 'ma', 'rx': 'cr'}[name]
        if name == 'st':
            sl[a[0]] = {'beh': a[3], 'k': a[4], 'calls': 0, 'ty': (a[1], a[2] if kind != 'SND' or a[0] < int(f.get('nu', 0)) else 1, a[7] if len(a) > 7 else 0)}
        elif name == 'ns':
            j, i = a[0], a[1]
            sl[j] = dict(sl[i], nested=1) if sl[i] is not None else {'beh': 4, 'k': 0, 'calls': 0, 'nested': 1, 'ty': None}
        elif name == 'nf':
            sl[a[0]] = None if a[5] else {'beh': a[3], 'k': a[4], 'calls': 0, 'nested': 1, 'ty': (a[1], 1, a[9])}
        elif name == 'tg':
            v = sl[a[0]]
            q = a[1]
            if v is None:
                exp = '-'
            elif q == 0:
                exp = 'V1' if v.get('nested') else '-'
            else:
                qt = (((q - 1) >> 2) & 1, ((q - 1) >> 1) & 1, (q - 1) & 1)
                exp = 'V%d' % (v['k'] * 100 + v['calls']) if (not v.get('nested') and v.get('ty') == qt) else '-'
        elif name in ('mv', 'ma', 'mc') or (kind == 'FUN' and name == 'ma'):
            j, i = a[0], a[1]
            if j != i:
                sl[j] = sl[i]
                sl[i] = None
        elif name in ('cp', 'cc', 'ca'):
            j, i = a[0], a[1]
            if j != i:
                sl[j] = dict(sl[i]) if sl[i] is not None else None
        elif name == 'sw':
            j, i = a[0], a[1]
            sl[j], sl[i] = sl[i], sl[j]
        elif name == 'rs':
            sl[a[0]] = None
        elif name == 'cr':
            v = sl[a[0]]
            exp = 'TB' if v is None else completion(v)
            sl[a[0]] = None
        elif name == 'cl':
            v = sl[a[0]]
            exp = 'TB' if v is None else completion(v)
        elif name == 'iv':
            v = sl[a[0]]
            if v is None:
                exp = 'TB'
            else:
                exp, sl[a[0]] = call_val(v, a[1])
        res, _, emp = st.split('|')
        expemp = ''.join('1' if x is None else '0' for x in sl)
        if res != exp:
            if exp == 'TB':
                return 'empty_use:' + name, 'step %d (%s): use of an empty wrapper gave %s instead of the bad_function_call error' % (t, ','.join(op), res)
            return 'result:' + name, 'step %d (%s): wrapped object would give %s, wrapper gave %s' % (t, ','.join(op), exp, res)
        if emp != expemp:
            return 'emptiness:' + name, 'step %d (%s): emptiness of the wrappers is %s, expected %s (moved-from / reset / default wrappers are empty, others are not)' % (t, ','.join(op), emp, expemp)
    return None


EV = re.compile(r'^([CKMDG])(\d+)?(?:<(\d+))?$')


def ledger_monitor(steps):
    """every object is constructed once (fresh consecutive identities), destroyed at most once, copies/moves
    come from live objects, and at the end everything constructed has been destroyed exactly once"""
    state = {}
    nxt = 0
    for t, st in enumerate(steps):
        evs = st.split('|')[1]
        if evs == '-':
            continue
        for e in evs.split('.'):
            m = EV.match(e)
            if not m:
                return 'bad_event', 'step %d: unparsable event %s' % (t, e)
            k, i, s = m.group(1), m.group(2), m.group(3)
            if k == 'G':
                return 'destroy_garbage', 'step %d: a destructor ran on memory that holds no object' % t
            i = int(i)
            if k in 'CKM':
                if i != nxt or i in state:
                    return 'identity', 'step %d: construction of object %d out of sequence' % (t, i)
                nxt += 1
                state[i] = 'live'
                if s is not None and state.get(int(s)) != 'live':
                    return 'use_after_destroy', 'step %d: object %d constructed from %s which is not alive' % (t, i, s)
            else:
                if state.get(i) != 'live':
                    return 'double_destroy', 'step %d: object %d destroyed while not alive' % (t, i)
                state[i] = 'dead'
    leaked = sorted(i for i, s in state.items() if s != 'dead')
    if leaked:
        return 'leak', 'objects %s were constructed but never destroyed (all wrappers are gone)' % leaked
    return None


def classify(kind, f, ops):
    names = [o[0] for o in ops]
    has_store = 'st' in names
    has_xfer = any(x in names for x in ('mv', 'ma', 'cp', 'cc', 'mc', 'ca', 'sw', 'ns', 'nf', 'mx', 'ax', 'cx', 'kx', 'nx'))
    has_use = any(x in names for x in ('cr', 'cl', 'iv'))
    return has_store and has_xfer and has_use


def run_build(ctx, r, harness, drv, tag, seed, ncases, kinds):
    """run one harness binary over ncases cases (resuming after crashes); returns nothing, fills r"""
    first = 0
    crashes = 0
    while first < ncases and crashes < 6:
        rc, out = sh([harness, str(seed), str(ncases), str(first), kinds], timeout=900)
        lines = out.split('\n')
        ins = [x for x in lines if x.startswith('IN ')]
        outs = [x for x in lines if x.startswith('OUT ')]
        mons = [x for x in lines if x.startswith('MON ')]
        outids = set(x.split(' ', 3)[2] for x in outs)
        done = len(ins)
        if rc != 0:
            crashes += 1
            bad = [x for x in ins if x.split(' ', 3)[2] not in outids]
            if bad:
                kind = bad[-1].split(' ')[1]
                r.hits.append(Hit('monitor', 'C18:%s%s:crash' % (kind, tag),
                                  'the real wrappers crashed / hung (rc=%d) while executing history: %s' % (rc, bad[-1][:400]),
                                  {'harness': os.path.basename(harness), 'case': bad[-1], 'rc': rc}))
                ins = [x for x in ins if x.split(' ', 3)[2] in outids]
            else:
                r.hits.append(Hit('tie', 'C18:harness', 'harness %s failed rc=%d: %s' % (harness, rc, out[-400:]),
                                  {'harness': os.path.basename(harness), 'args': [seed, ncases, first, kinds]}))
                if not ins:
                    break
        first += max(done, 1)
        evaluate(ctx, r, harness, drv, tag, ins, outs, mons)
        if rc == 0:
            break


def evaluate(ctx, r, harness, drv, tag, ins, outs, mons):
    hname = os.path.basename(harness)
    rc2, mout = sh([drv], input='\n'.join(ins) + '\n', timeout=1800)
    mouts = [x for x in mout.split('\n') if x.startswith('OUT ')]
    mblk = {}
    for x in mout.split('\n'):
        if x.startswith('BLK '):
            q = x.split(' ')
            mblk[(q[1], q[2])] = (q[3], q[4])
    if rc2 != 0:
        r.hits.append(Hit('tie', 'C18:driver', 'model driver failed rc=%d: %s' % (rc2, mout[-400:]), {}))
    diffs, ncases = diff_lines(ctx, outs, mouts)
    r.evaluations += ncases
    r.traces += ncases - len(diffs)
    inmap = {(x.split(' ')[1], x.split(' ')[2]): x for x in ins}
    outmap = {(x.split(' ')[1], x.split(' ')[2]): x for x in outs}
    for m in mons:
        p = m.split(' ')
        key = (p[1], p[2])
        f = dict(x.split('=') for x in p[3:])
        # block ledger of the model (Model/ErasedBlocks.v: live heap blocks after every step, blocks left when all
        # wrappers are gone) against the allocation monitor of the harness
        if key in mblk and 'live' in f:
            il = f['live'].split('.')
            if len(il) > 1 and il[-1] == f.get('blocks_leaked'):
                il = il[:-1]            # the harness's last step is the scope exit: what is live then is blocks_leaked
            if ('.'.join(il), f.get('blocks_leaked')) != mblk[key]:
                r.hits.append(Hit('corr', 'C18:%s%s:blocks' % (p[1], tag),
                                  'allocation monitor and the block ledger of the model differ (%s): live blocks per step impl %s model %s, '
                                  'left at scope exit impl %s model %s; history %s'
                                  % (hname, f['live'], mblk[key][0], f.get('blocks_leaked'), mblk[key][1], inmap.get(key, '?')[:400]),
                                  {'harness': hname, 'case': inmap.get(key), 'monitor': m, 'model_blocks': mblk[key]}))
            else:
                r.count('blocks_agree%s' % tag)
                if mblk[key][1] != '0':
                    r.count('blocks_leak_predicted%s:%s' % (tag, p[1]))
        elif p[1] != 'TYPES':
            r.hits.append(Hit('tie', 'C18:blocks', 'no block ledger line for case %s %s' % key, {}))
        for k in MON_FIELDS:
            if f.get(k, '0') != '0':
                r.hits.append(Hit('monitor', 'C18:%s%s:%s' % (p[1], tag, k),
                                  '%s harness monitor %s=%s on history %s' % (hname, k, f[k], inmap.get(key, '?')[:400]),
                                  {'harness': hname, 'case': inmap.get(key), 'observed': outmap.get(key), 'monitor': m}))
    for i_ in ins:
        kind, cid, f, ops = parse_in(i_)
        o_ = outmap.get((kind, cid))
        if o_ is None:
            continue
        if kind == 'TYPES':
            r.count('TYPES%s' % tag)
            r.extra['types%s' % tag] = {'items': f.get('items'), 'decisions': o_.split(' ', 3)[3]}
            continue
        steps = o_.split(' ', 3)[3].split(';')
        r.count('%s%s' % (kind, tag))
        r.count('%s%s:len<=%d' % (kind, tag, 8 if len(ops) <= 8 else 26))
        for o in ops:
            r.count('op:%s:%s' % (kind, o[0]))
        if classify(kind, f, ops):
            r.nontrivial(i_)
        m = ledger_monitor(steps)
        if m:
            r.hits.append(Hit('monitor', 'C18:%s%s:ledger:%s' % (kind, tag, m[0]),
                              'contained objects not destroyed exactly once (%s): %s; history %s' % (hname, m[1], i_[:400]),
                              {'harness': hname, 'case': i_, 'observed': o_}))
        m = spec_monitor(kind, f, ops, steps[:-1])
        if m:
            r.hits.append(Hit('monitor', 'C18:%s%s:spec:%s' % (kind, tag, m[0]),
                              'wrapper does not behave like the wrapped object (%s): %s; history %s' % (hname, m[1], i_[:400]),
                              {'harness': hname, 'case': i_, 'observed': o_}))
        if len(steps) != len(ops) + 1:
            r.hits.append(Hit('tie', 'C18:steps', 'harness printed %d steps for %d ops: %s' % (len(steps), len(ops), i_[:200]), {}))
    for (k, a, b) in diffs[:20]:
        where = ''
        sa, sb = a.split(' ', 3)[-1].split(';'), b.split(' ', 3)[-1].split(';')
        for t, (x, y) in enumerate(zip(sa, sb)):
            if x != y:
                where = ' first difference at step %d: impl %s model %s' % (t, x, y)
                break
        r.hits.append(Hit('corr', 'C18:%s%s:correspondence' % (k[0], tag),
                          'implementation (%s) and model differ on case %s:%s; history %s' % (hname, k, where, inmap.get(k, '?')[:400]),
                          {'harness': hname, 'case': inmap.get(k), 'impl': a, 'model': b}))
    for s in list(zip(ins, outs))[:1]:
        r.sample({'build': hname, 'history': s[0][:600], 'observed': s[1][:600]})


def run(ctx):
    r = Result()
    r.rule = ('DIFF (+ throwing copy/move constructors in every constructing operation, nested wrappers ns/nf, target<T>(), '
              'over-aligned test types, TYPES case = storage decision of every test type against the generated definitions): '
              'the harness generates histories (2-6 wrappers, 1-26 operations: store of a small/big, copyable/move-only, '
              'value/error/stopped/connect-throwing sender or plain/throwing stateful callable by l- or r-value through '
              'ctor/operator=/reset/assign; move and copy construction and assignment incl. self-assignment; unique from any; '
              'swap; reset; r- and l-value connect+start; invoke) from VERIF_SEED, runs them on the real wrappers and on the '
              'extracted model and compares per step outcome, ctor/dtor events with identities and emptiness; two builds '
              '(default, SBO macro). Non-trivial = history with a store, a copy/move/swap and a connect/invoke; distinct = '
              'distinct history text')
    ctx.build_pika()
    drv = ctx.build_model('C18', 'ExtractC18.v', 'drv_c18.ml')
    h0 = ctx.build_harness('c18_erased', 'c18_erased.cpp')
    h1 = ctx.build_harness('c18_erased_sbo', 'c18_erased.cpp', extra=['-DPIKA_DETAIL_ENABLE_ANY_SENDER_SBO'])
    if ctx.replay:
        try:
            rp = json.load(open(ctx.replay)).get('replay', {})
            case = rp.get('case')
            hb = h1 if 'sbo' in (rp.get('harness') or '') else h0
            if case:
                rc, out = sh([hb, 'replay', case], timeout=120)
                lines = out.split('\n')
                ins = [x for x in lines if x.startswith('IN ')]
                if rc != 0:
                    r.hits.append(Hit('monitor', 'C18:%s:crash' % case.split(' ')[1], 'replayed history crashes the real wrappers (rc=%d)' % rc,
                                      {'harness': os.path.basename(hb), 'case': case}))
                evaluate(ctx, r, hb, drv, ':sbo' if hb == h1 else '', ins,
                         [x for x in lines if x.startswith('OUT ')], [x for x in lines if x.startswith('MON ')])
                return r
        except Exception as e:  # fall through to the normal run
            r.notes.append('replay file not usable: %r' % e)
    if ctx.tier == 'quick':
        plan = [(h0, '', ctx.seed, 12000, 'sf'), (h1, ':sbo', ctx.seed, 8000, 's'), (h0, '', ctx.seed, 60, 'x'),
                (h0, '', ctx.seed, 1, 't'), (h1, ':sbo', ctx.seed, 1, 't')]
    else:
        plan = []
        for k in range(5):
            plan.append((h0, '', ctx.seed + 100 * k, 60000, 'sf'))
            plan.append((h1, ':sbo', ctx.seed + 100 * k, 40000, 's'))
        plan.append((h0, '', ctx.seed, 600, 'x'))
        plan.append((h0, '', ctx.seed, 1, 't'))
        plan.append((h1, ':sbo', ctx.seed, 1, 't'))
    for (h, tag, sd, n, kinds) in plan:
        run_build(ctx, r, h, drv, tag, sd, n, kinds)
    r.extra['builds'] = ['default', '-DPIKA_DETAIL_ENABLE_ANY_SENDER_SBO (any_sender.cpp compiled into the harness with the macro)']
    return r
