# C09 — latch, barrier, event, call_once.
#  * LOCKSTEP of the real pika::barrier (tree + phase/expected/completion) against
#    Model/BarrierTree.v: controller-chosen interleavings of the ticket CAS steps, the model
#    replays the schedule and predicts every step's (site, round, node), the completing thread and
#    the final expected count.
#  * LOCKSTEP of the real latch (count_down / wait / try_wait on OS threads, default agent) against
#    Model/Latch.v; sequential DIFF of latch (incl. arrive_and_wait) and call_once.
#  * runs on the real runtime (tasks > workers) with monitors that evaluate the property itself.
import os
import re

from vlib import Hit, Result, diff_lines, sh
from props.stress_twin import run_twin, twin_replay

ASSUMPTIONS = [
    'sequentially consistent interleaving at the granularity of one atomic access / one spinlock critical section with at most one unprotected access (memory_order annotations not modelled; compare_exchange_strong never fails spuriously)',
    'agent contract: a suspension may return spuriously at any time (oracle step); the scheduler below it (set_thread_state, retry helper) is not part of C09',
    'barrier preconditions of [thread.barrier] as a ghost flag: at most `expected` arrivals per phase, none during the completion step',
    'event is tied to the code by runtime monitors only, call_once by sequential differential runs, runtime monitors and the translator (status constants); latch::arrive_and_wait is not lock-stepped (its last-arriver branch holds the spinlock across two steps)',
]

MON = re.compile(r'^MONITOR (\S+) (.*)$')


def collect_monitors(r, lines, replay):
    for ln in lines:
        m = MON.match(ln)
        if m:
            r.hits.append(Hit('monitor', 'C09:' + m.group(1), m.group(1) + ': ' + m.group(2), dict(replay, observed=ln)))


def run_tree(ctx, r, drv, h, sd, n):
    rc, out = sh([h, str(sd), str(n)], timeout=600)
    lines = out.split('\n')
    rep = {'harness': 'c09_tree', 'args': [sd, n]}
    if rc != 0:
        r.hits.append(Hit('monitor' if rc < 0 or rc >= 128 else 'tie', 'C09:tree_harness:rc',
                          'barrier lock-step harness ended with rc=%d: %s' % (rc, out[-400:]), rep))
    collect_monitors(r, lines, rep)
    ins = [x for x in lines if x.startswith('IN BAR ')]
    outs = [x for x in lines if x.startswith('OUT BAR ')]
    rc2, mout = sh([drv], input='\n'.join(ins) + '\n', timeout=1800)
    mouts = [x for x in mout.split('\n') if x.startswith('OUT BAR ')]
    if rc2 != 0:
        r.hits.append(Hit('tie', 'C09:model_driver', 'model driver failed rc=%d %s' % (rc2, mout[-300:]), rep))
    diffs, ncases = diff_lines(ctx, outs, mouts)
    r.evaluations += ncases
    r.traces += ncases
    inmap = {(x.split(' ')[1], x.split(' ')[2]): x for x in ins}
    for i_ in ins:
        p = i_.split(' ')
        E, P = int(p[3]), int(p[4])
        nthreads = len(p[5].split(','))
        r.count('barrier_lockstep:E=%d' % E)
        r.count('barrier_lockstep:phases=%s' % ('>128' if P > 128 else str(P)))
        if 'd' in [x.split(':')[1] for x in p[5].split(',')]:
            r.count('barrier_lockstep:with_drop')
        if E >= 2 and nthreads >= 2:
            r.nontrivial(i_)
    for (k, a, b) in diffs[:10]:
        r.hits.append(Hit('corr', 'C09:barrier:correspondence',
                          'barrier: implementation and model differ on case %s: impl [%s] model [%s]' % (k, a[:300], b[:300]),
                          dict(rep, case=inmap.get(k), impl=a, model=b)))
    for s in list(zip(ins, outs))[:2]:
        r.sample({'input_and_schedule': s[0][:600], 'observed': s[1][:600]})
    return len(ins)


def run_latch(ctx, r, drv, h, sd, n):
    rc, out = sh([h, str(sd), str(n)], timeout=600)
    lines = out.split('\n')
    rep = {'harness': 'c09_latch', 'args': [sd, n]}
    if rc != 0:
        r.hits.append(Hit('monitor' if rc < 0 or rc >= 128 else 'tie', 'C09:latch_harness:rc',
                          'latch lock-step harness ended with rc=%d: %s' % (rc, out[-400:]), rep))
    collect_monitors(r, lines, rep)
    ins = [x for x in lines if x.startswith('IN LLOCK ')]
    outs = [x for x in lines if x.startswith('OUT LLOCK ')]
    rc2, mout = sh([drv], input='\n'.join(ins) + '\n', timeout=900)
    mouts = [x for x in mout.split('\n') if x.startswith('OUT LLOCK ')]
    diffs, ncases = diff_lines(ctx, outs, mouts)
    r.evaluations += ncases
    r.traces += ncases
    inmap = {(x.split(' ')[1], x.split(' ')[2]): x for x in ins}
    for i_, o_ in zip(ins, outs):
        p = i_.split(' ')
        r.count('latch_lockstep:threads=%s' % p[4])
        if '9001' in o_:
            r.count('latch_lockstep:with_suspension')
            r.nontrivial(i_)
    for (k, a, b) in diffs[:10]:
        r.hits.append(Hit('corr', 'C09:latch:correspondence',
                          'latch: implementation and model differ on case %s: impl [%s] model [%s]' % (k, a[:300], b[:300]),
                          dict(rep, case=inmap.get(k), impl=a, model=b)))
    for s in list(zip(ins, outs))[:1]:
        r.sample({'input_and_schedule': s[0], 'observed': s[1]})


def run_rt(ctx, r, drv, h, sd, scale, trials):
    rc, out = sh([h, str(sd), str(scale), str(trials)], timeout=900 if ctx.tier == 'quick' else 3000)
    lines = out.split('\n')
    rep = {'harness': 'c09_rt', 'args': [sd, scale, trials]}
    collect_monitors(r, lines, rep)
    done = [x for x in lines if x.startswith('DONE ')]
    mons = [x for x in lines if x.startswith('MONITOR ')]
    if not done and not mons:
        # crash or kill of the real code: a hit with the run as the replay
        r.hits.append(Hit('monitor', 'C09:runtime:crash',
                          'the run of the real primitives ended abnormally (rc=%d): %s' % (rc, out[-500:]), rep))
    ins = [x for x in lines if x.startswith('IN LSEQ ') or x.startswith('IN OSEQ ')]
    outs = [x for x in lines if x.startswith('OUT LSEQ ') or x.startswith('OUT OSEQ ')]
    rc2, mout = sh([drv], input='\n'.join(ins) + '\n', timeout=600)
    mouts = [x for x in mout.split('\n') if x.startswith('OUT LSEQ ') or x.startswith('OUT OSEQ ')]
    r.count('sequential_diff:latch', len([x for x in ins if ' LSEQ ' in x]))
    r.count('sequential_diff:call_once', len([x for x in ins if ' OSEQ ' in x]))
    diffs, ncases = diff_lines(ctx, outs, mouts)
    r.evaluations += ncases
    r.traces += ncases
    inmap = {(x.split(' ')[1], x.split(' ')[2]): x for x in ins}
    for (k, a, b) in diffs[:10]:
        r.hits.append(Hit('corr', 'C09:%s:correspondence' % ('latch_seq' if k[0] == 'LSEQ' else 'once_seq'),
                          'latch / call_once (sequential): implementation and model differ on case %s: impl [%s] model [%s]' % (k, a, b),
                          dict(rep, case=inmap.get(k), impl=a, model=b)))
    for ln in lines:
        if ln.startswith('STAT '):
            p = ln.split(' ')
            kind = p[1]
            kv = dict(x.split('=', 1) for x in p[2:] if '=' in x)
            if kind == 'latch_f12':
                r.evaluations += int(kv.get('trials', 0))
                r.count('latch_f12:trials', int(kv.get('trials', 0)))
                r.count('latch_f12:timed_waits_notified', int(kv.get('notified', 0)))
                r.extra['latch_f12'] = kv
            else:
                r.evaluations += 1
                r.count('runtime:' + kind)
                if kind == 'barrier':
                    r.count('runtime:barrier:participants>workers' if int(kv.get('N', 0)) > 4 else 'runtime:barrier:participants<=workers')
                    if int(kv.get('K', 0)) > 128:
                        r.count('runtime:barrier:>128_phases')
                    if int(kv.get('drops', 0)) > 0:
                        r.count('runtime:barrier:with_drop')
                    r.nontrivial(ln)
                if kind == 'once' and int(kv.get('throws', 0)) > 0:
                    r.count('runtime:once:with_throw')
    if ins:
        r.sample({'latch_sequential': ins[0], 'observed': outs[0] if outs else ''})


def run(ctx):
    r = Result()
    r.rule = ('LOCKSTEP (barrier): per case expected count 1..9, 1..5 phases (1 in 60 cases: 131 phases, the byte wraps), per '
              'phase fresh threads whose arrive(n)/arrive_and_drop add up to the expected count; the controller picks the '
              'interleaving of the ticket CAS steps and every arrival\'s start node from VERIF_SEED; the extracted model replays '
              'it; non-trivial = expected >= 2 and >= 2 threads in the first phase; distinct = distinct (input, schedule). '
              'LOCKSTEP (latch): count 0..4, 1..5 threads with count_down(n)/wait/try_wait whose decrements add up to the count; non-trivial = a waiter suspended. DIFF (latch and call_once, sequential programs). RUNTIME: barrier 2..12 participants on 4 workers, 3..145 phases, drops; latch '
              'with 1..8 waiters; call_once with 0..2 throwing runs; event with late waiters; stale wake-up scenario (F12): 4500 trials (latch::wait, latch::arrive_and_wait, event::wait after a notified timed wait). '
              'STRESS (free-running stress twin, harness/c09_stress.cpp): pika::barrier and pika::latch on plain std::threads, real '
              'concurrency, no controller, no hook installed, threads released from one spin barrier with offsets swept over 0..255 '
              'spin iterations. Barrier trials: 2..6 participants, 1..8 phases (1 in 150: 129..136 phases, the 8-bit phase wraps), '
              'counting completion function, per phase and participant arrive_and_wait / arrive + spin + wait(token) / one '
              'arrive_and_drop; ledger arrived[k] (incremented before arriving), left[k] (after the wait returned), done[k] (set by '
              'the completion function); monitors: nobody leaves phase k before all its participants arrived (left_early), '
              'completion not before all arrived (completion_early), exactly once per phase (completion_count), nobody leaves '
              'before the completion function returned (released_before_completion / completion_after_release). Latch trials: '
              'count 1..12 split over 1..5 count_down(n) threads and arrive_and_wait(n) participants, waiters in wait() or polling '
              'try_wait(); ledger pending decreased before each count_down; monitors: wait / arrive_and_wait / try_wait()==true only '
              'when pending == 0, released at the end. A trial without progress for 20 s is reported as hang with the position of '
              'every participant (lost arrival / lost decrement); forked child, crash = hit; 10 s time box quick, 60 s thorough. '
              'It exists because lock-step cannot schedule inside an atomic step that a code change split in two (ticket CAS -> '
              'load; store makes two arrivals both take the first half of a ticket: found by the twin within a few trials).')
    ctx.build_pika()
    drv = ctx.build_model('C09', 'ExtractC09.v', 'drv_c09.ml')
    h_tree = ctx.build_harness('c09_tree', 'c09_tree.cpp')
    h_rt = ctx.build_harness('c09_rt', 'c09_rt.cpp')
    h_latch = ctx.build_harness('c09_latch', 'c09_latch.cpp')
    run_latch(ctx, r, drv, h_latch, ctx.seed, 600 if ctx.tier == 'quick' else 6000)
    if ctx.tier == 'quick':
        run_tree(ctx, r, drv, h_tree, ctx.seed, 400)
        run_rt(ctx, r, drv, h_rt, ctx.seed, 1, 4500)
    else:
        for k in range(4):
            run_tree(ctx, r, drv, h_tree, ctx.seed + 1000 * k, 1500)
        for k in range(3):
            run_rt(ctx, r, drv, h_rt, ctx.seed + 1000 * k, 3, 9000)
    hs = ctx.build_harness('c09_stress', 'c09_stress.cpp')
    if not ctx.replay or twin_replay(ctx, 'c09_stress'):
        run_twin(ctx, r, 'C09', hs, 'c09_stress', 'BLS', [], 100000000, 10000 if ctx.tier == 'quick' else 60000,
                 'barrier / latch on OS threads', min_trials=5000, sig_prefix='C09:stress')
    r.notes.append('F19 (call_once after a throw: late event set leaves waiters spinning without yielding) is repaired; the once_retry scenario (hook 930 delays the thrower between its two hand-back steps) reports it again when the order is reverted')
    r.notes.append('F12 (latch::wait / arrive_and_wait returning early after a notified timed wait) is repaired in the tree; the '
                   'latch_f12 monitor reports it again when the repair is reverted (about 4% of the trials on the original code)')
    return r
