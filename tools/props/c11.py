# C11 — bulk calls f once per index, then completes once.
#   (a) DIFF     harness/c11_arith.cpp : real get_chunk_size / get_num_chunks / init_queue / do_work_chunk vs Model/Bulk.v
#   (b2) TRACE harness/c11_trace.cpp    : the real bulk_receiver::set_value (spawn loop, register_work, local part, countdown) on a real pool;
#       the logged order of the atomic accesses is replayed by the extracted lock_trace as an acceptor
#   (b) LOCKSTEP harness/c11_lock.cpp  : real task_function / finish / store_exception on real index queues, schedule
#                                        chosen by the controller and replayed by the model (lock_trace)
#   (c) PROC     harness/c11_e2e.cpp   : ex::bulk on the real pool (several worker counts) and the generic fallback
# Every part has a monitor that evaluates the property itself on the implementation's observations.
import json
import os

from vlib import Hit, Result, TieError, diff_lines, sh

ASSUMPTIONS = [
    'sequentially consistent interleaving, one model step = one atomic access (queue LOAD / CAS, exception_thrown.exchange, '
    'the non-atomic store of the exception, --tasks_remaining); compare_exchange_weak never fails spuriously on x86 '
    '(the model allows it, the lock-step runs do not exercise it)',
    'the worker count is between 1 and 2^29-1 and the predecessor completes on a worker of the same pool '
    '(get_local_worker_thread_num() < num_worker_threads); negative shapes are outside the domain',
    'f does not modify the values it receives by reference and does not suspend in a way that moves the task mid-call '
    '(harness callables do neither)',
    'end-to-end runs stop at shapes the machine can execute (2^32+5 trivial calls in the quick tier); larger shapes are '
    'covered by the arithmetic tie and by runs in which every call throws',
]


def shape_class(n):
    if n == 0:
        return 'n=0'
    if n > 2 ** 32:
        return 'n>2^32'
    if n > 2 ** 31:
        return 'n>2^31'
    return 'n<=2^31'


def fields(line, skip=3):
    d = {}
    for x in line.split(' ')[skip:]:
        if '=' in x:
            k, v = x.split('=', 1)
            d[k] = v
    return d


def run_restart(binary, args_before, ncases, args_after, timeout, max_restarts=40):
    """run a harness that exits with code 7 after a case that did not return; restart after that case.
    returns (lines, hung_ids, crashed) — crashed = (rc, last RUN/IN line) or None"""
    lines = []
    hung = []
    start = 0
    crashed = None
    for _ in range(max_restarts + 1):
        rc, out = sh([binary] + [str(a) for a in args_before] + [str(ncases), str(start)] + [str(a) for a in args_after],
                     timeout=timeout)
        ls = out.split('\n')
        lines += ls
        if rc == 0:
            break
        last = None
        for x in ls:
            p = x.split(' ')
            if len(p) > 2 and p[0] in ('RUN', 'IN', 'OUT', 'OBS') and p[2].isdigit():
                last = int(p[2])
        if rc == 7 and last is not None:
            hung.append(last)
            start = last + 1
            if start >= ncases:
                break
            continue
        crashed = (rc, last, '\n'.join(ls[-6:])[-800:])
        if last is None:
            break
        start = last + 1
        if start >= ncases:
            break
    return lines, hung, crashed


# ------------------------------------------------------------------ monitors (independent of the model)
def arith_monitor(inl, outl):
    p = inl.split(' ')
    bits, W, n = int(p[4]), int(p[5]), int(p[6], 16)
    cls = '%s:%s' % (p[3], shape_class(n))
    if outl.split(' ')[3:4] == ['hang']:
        return 'chunk_size_diverges:' + cls, 'get_chunk_size(%d, %#x) [%s] did not return' % (W, n, p[3])
    f = fields(outl)
    c, k = int(f['c'], 16), int(f['k'])
    if c <= 0 or c & (c - 1):
        return 'chunk_size_not_pow2:' + cls, 'chunk size %#x is not a power of two (W=%d n=%#x)' % (c, W, n)
    if k != -(-n // c):
        return 'num_chunks:' + cls, 'num_chunks=%d but ceil(n/chunk_size)=%d (W=%d n=%#x chunk=%#x %s)' % (k, -(-n // c), W, n, c, p[3])
    if k > 8 * W:
        return 'too_many_chunks:' + cls, 'num_chunks=%d > 8*W (W=%d n=%#x chunk=%#x)' % (k, W, n, c)
    parts = [tuple(int(y) for y in x.split('-')) for x in f['parts'].split(',')]
    if len(parts) != W or parts[0][0] != 0 or parts[-1][1] != k or any(a > b for a, b in parts) or \
            any(parts[i][1] != parts[i + 1][0] for i in range(W - 1)):
        return 'queue_ranges:' + cls, 'queue ranges %s do not partition [0,%d) (W=%d n=%#x)' % (parts[:8], k, W, n)
    for ch in f['chunks'].split(','):
        if ch == '?':
            return 'chunk_range:' + cls, 'do_work_chunk did not report a range (W=%d n=%#x)' % (W, n)
        i, b, e = ch.split(':')
        i, b, e = int(i), int(b, 16), int(e, 16)
        if i < k and (b != i * c or e != min((i + 1) * c, n)):
            return 'chunk_range:' + cls, 'chunk %d of %d is [%#x,%#x), expected [%#x,%#x) (W=%d n=%#x chunk=%#x %s)' % (
                i, k, b, e, i * c, min((i + 1) * c, n), W, n, c, p[3])
    return None


def throws_fn(spec):
    if spec == 'none':
        return lambda i: False
    if spec == 'all':
        return lambda i: True
    if spec.startswith('set:'):
        s = set(int(x, 16) for x in spec[4:].split('.') if x)
        return lambda i: i in s
    _, m, r = spec.split(':')
    m, r = int(m), int(r)
    return lambda i: i % m == r


def any_throw_below(spec, n):
    if spec == 'none' or n == 0:
        return False
    if spec == 'all':
        return True
    if spec.startswith('set:'):
        return any(int(x, 16) < n for x in spec[4:].split('.') if x)
    _, m, r = spec.split(':')
    return int(r) < n


def lock_monitor(inl, outl):
    p = inl.split(' ')
    W, n, spec = int(p[3]), int(p[4]), p[7]
    f = fields(outl)
    lst = lambda s: [] if s == '-' else [int(x) for x in s.split(',')]
    calls, exits, thrown = lst(f['calls']), lst(f['exits']), lst(f['thrown'])
    sigs = [] if f['sigs'] == '-' else f['sigs'].split('|')
    thr = throws_fn(spec)
    if len(set(calls)) != len(calls):
        return 'index_twice', 'f entered twice for an index: calls=%s' % calls
    if any(i >= n for i in calls):
        return 'index_out_of_range', 'f entered for an index >= n=%d: %s' % (n, calls)
    if len(sigs) != 1:
        return 'signals', 'receiver signalled %d times (%s) after all tasks ended' % (len(sigs), sigs)
    kind, sc, se = sigs[0].split(':')
    if int(sc) != len(calls) or int(se) != len(exits) or len(exits) != len(calls):
        return 'signal_before_last_call', 'signalled with %s calls entered / %s left; finally %d / %d' % (sc, se, len(calls), len(exits))
    if thrown:
        if not kind.startswith('E') or kind in ('Eother', 'Enone') or int(kind[1:]) not in thrown:
            return 'error_lost', 'calls %s threw but the receiver got %s' % (thrown, kind)
    else:
        if kind != 'V':
            return 'spurious_error', 'nothing threw but the receiver got %s' % kind
        if sorted(calls) != list(range(n)):
            return 'index_missed', 'value completion but f was entered for %d of %d indices' % (len(calls), n)
    if any(not thr(i) for i in thrown):
        return 'harness', 'harness inconsistency'
    return None


def e2e_monitor(o):
    """o: dict of the OBS line"""
    n = int(o['n'], 16)
    W = int(o['W'])
    spec = o['throw']
    pred = int(o['pred'])
    cls = '%s:%s' % ('generic' if pred == 3 else 'pool', shape_class(n))
    calls = int(o['calls'])
    what = 'bulk(%s n=%#x, W=%d, pred=%d, throw=%s)' % (o['type'], n, W, pred, spec)
    nsig = int(o['nsig'])
    if nsig != 1:
        return 'signals:' + cls, '%s: receiver signalled %d times' % (what, nsig)
    if int(o['dup']):
        return 'index_twice:' + cls, '%s: %s indices were passed to f more than once' % (what, o['dup'])
    if int(o['oob']):
        return 'index_out_of_range:' + cls, '%s: f was called %s times with an index outside [0,n)' % (what, o['oob'])
    if int(o['argbad']):
        return 'values_changed:' + cls, '%s: %s calls did not see the predecessor\'s values' % (what, o['argbad'])
    if int(o['late']) or int(o['snap_in']) != calls or int(o['snap_out']) != calls or int(o['exited']) != calls:
        return 'signal_before_last_call:' + cls, '%s: signalled with %s calls entered / %s left, finally %d entered / %s left, %s after the signal' % (
            what, o['snap_in'], o['snap_out'], calls, o['exited'], o['late'])
    expect_err = any_throw_below(spec, n)
    if expect_err:
        if o['sig'] != 'E':
            return 'error_lost:' + cls, '%s: a call must have thrown (or an index was skipped) but the receiver got %s after %d calls' % (what, o['sig'], calls)
        if o['err'] in ('other', 'null', 'none'):
            return 'error_payload:' + cls, '%s: error payload is %s' % (what, o['err'])
        e = int(o['err'], 16)
        if e >= n or not throws_fn(spec)(e):
            return 'error_payload:' + cls, '%s: error carries index %#x which is not a throwing index below n' % (what, e)
        nthr = int(o['throws'])
        if nthr < 1 or (pred != 3 and nthr > W) or (pred == 3 and nthr != 1):
            return 'throw_count:' + cls, '%s: %d calls threw (at most one per worker task is possible)' % (what, nthr)
    else:
        if o['sig'] != 'V':
            return 'spurious_error:' + cls, '%s: nothing can throw but the receiver got %s (%s)' % (what, o['sig'], o['err'])
        if int(o['val']) != 1:
            return 'values_changed:' + cls, '%s: the receiver did not get the predecessor\'s values' % what
        if calls != n or int(o['miss']) or int(o['sum'], 16) != (n * (n - 1) // 2) % 2 ** 64:
            return 'index_missed:' + cls, '%s: value completion after %d calls (n=%d), %s of the first %s indices never passed' % (
                what, calls, n, o['miss'], o['counted'])
    return None


# ------------------------------------------------------------------ the check
def run(ctx):
    r = Result()
    r.rule = ('DIFF: (shape type, W, n) from a fixed table of shapes around 2^31, 2^32, 2^63, 2^64 and a VERIF_SEED-driven grid '
              '(8*W*2^k +-2, 2^j +-1, max(T)-d, small, random; W in 1..64 and a few larger); LOCKSTEP: W in 1..5, n <= 40, '
              'throwing sets and completing worker random, interleaving of queue LOAD/CAS, f entry/exit, exchange/store, '
              'decrement chosen by the controller; TRACE: the real set_value (spawn loop, register_work, local part, countdown) on real pools of 1,2,3,4,6 workers, n <= 200, '
              'atomic accesses serialised by a token passed at the hooks, logged order replayed by lock_trace; PROC: ex::bulk on the real pool for several worker counts, 8 shape types, '
              '4 predecessor kinds, throwing sets, plus the generic fallback; POOL: ex::bulk on thread_pool_scheduler{&pool} for a default pool of 1-2 PUs and a second '
              'pool of 2-3 PUs (resource partitioner), predecessor completing on each worker of the target pool (continues_on with / without hint, hinted schedule, '
              'transfer_just), calls of 20-150 us, same monitors (signatures C11:pool:*); the TRACE tie also runs on such second pools. A case is non-trivial when it has n > 0 '
              '(DIFF), >= 2 workers interleave (LOCKSTEP), or n > W (PROC); distinct = distinct input lines')
    quick = ctx.tier == 'quick'
    ctx.build_pika()
    drv = ctx.build_model('C11', 'ExtractC11.v', 'drv_c11.ml')

    def model(ins):
        rc, mout = sh([drv], input='\n'.join(ins) + '\n', timeout=3000)
        if rc != 0:
            r.hits.append(Hit('tie', 'C11:model_driver', 'model driver failed rc=%d: %s' % (rc, mout[-400:]), {}))
        return [x for x in mout.split('\n') if x.startswith('OUT ')]

    only = None
    if ctx.replay:
        try:
            only = json.load(open(ctx.replay)).get('replay', {}).get('harness')
        except Exception:
            only = None

    # ---------------------------------------------------------------- (a) DIFF of the arithmetic
    if only in (None, 'c11_arith'):
        try:
            h = ctx.build_harness('c11_arith', 'c11_arith.cpp')
        except TieError as e:
            h = None
            r.hits.append(Hit('tie', 'C11:arith_harness', 'arithmetic harness does not compile against the source '
                              '(get_chunk_size/get_num_chunks/init_queue/do_work_chunk not callable as expected): %s' % str(e)[-700:],
                              {'harness': 'c11_arith'}))
        if h:
            n = 20000 if quick else 200000
            lines, hung, crashed = run_restart(h, [ctx.seed], n, [], 600 if quick else 3000)
            ins = [x for x in lines if x.startswith('IN AR ')]
            outs = [x for x in lines if x.startswith('OUT AR ')]
            if crashed:
                r.hits.append(Hit('monitor', 'C11:arith:crash', 'arithmetic harness crashed rc=%s after case %s: %s' % crashed,
                                  {'harness': 'c11_arith', 'args': [ctx.seed, n], 'after_case': crashed[1]}))
            mouts = model(ins)
            diffs, ncases = diff_lines(ctx, outs, mouts)
            r.evaluations += ncases
            r.traces += ncases
            imap = {x.split(' ')[2]: x for x in ins}
            for o_ in outs:
                i_ = imap.get(o_.split(' ')[2])
                if not i_:
                    continue
                p = i_.split(' ')
                r.count('arith:type=%s' % p[3])
                r.count('arith:W=%s' % ('1..4' if int(p[5]) <= 4 else '5..16' if int(p[5]) <= 16 else '17..64' if int(p[5]) <= 64 else '>64'))
                r.count('arith:%s' % shape_class(int(p[6], 16)))
                r.nontrivial(i_)
                m = arith_monitor(i_, o_)
                if m:
                    r.hits.append(Hit('monitor', 'C11:arith:' + m[0], 'bulk chunk arithmetic: ' + m[1],
                                      {'harness': 'c11_arith', 'args': [ctx.seed, n], 'case': i_, 'observed': o_}))
            for (k_, a, b) in diffs[:20]:
                r.hits.append(Hit('corr', 'C11:arith:correspondence',
                                  'chunk arithmetic: implementation and model differ on %s: impl [%s] model [%s]' % (imap.get(k_[1]), a[:300], b[:300]),
                                  {'harness': 'c11_arith', 'args': [ctx.seed, n], 'case': imap.get(k_[1]), 'impl': a, 'model': b}))
            for i_ in ins[:1]:
                r.sample({'arith_input': i_, 'observed': [o for o in outs if o.split(' ')[2] == i_.split(' ')[2]][:1]})

    # ---------------------------------------------------------------- (b) LOCKSTEP of the worker tasks
    if only in (None, 'c11_lock'):
        try:
            h = ctx.build_harness('c11_lock', 'c11_lock.cpp')
        except TieError as e:
            h = None
            r.hits.append(Hit('tie', 'C11:lock_harness', 'lock-step harness does not compile against the source: %s' % str(e)[-700:],
                              {'harness': 'c11_lock'}))
        if h:
            n = 1500 if quick else 20000
            lines, hung, crashed = run_restart(h, [ctx.seed], n, [], 600 if quick else 3000)
            ins = [x for x in lines if x.startswith('IN LK ')]
            outs = [x for x in lines if x.startswith('OUT LK ')]
            if crashed:
                r.hits.append(Hit('monitor', 'C11:lock:crash_or_stuck',
                                  'lock-step run of the real task_function crashed or got stuck (rc=%s) after case %s: %s' % crashed,
                                  {'harness': 'c11_lock', 'args': [ctx.seed, n], 'after_case': crashed[1]}))
            mouts = model(ins)
            diffs, ncases = diff_lines(ctx, outs, mouts)
            r.evaluations += ncases
            r.traces += ncases
            imap = {x.split(' ')[2]: x for x in ins}
            for o_ in outs:
                i_ = imap.get(o_.split(' ')[2])
                if not i_:
                    continue
                p = i_.split(' ')
                r.count('lock:W=%s' % p[3])
                r.count('lock:throw=%s' % p[7].split(':')[0])
                if int(p[3]) >= 2:
                    r.nontrivial(i_)
                m = lock_monitor(i_, o_)
                if m:
                    r.hits.append(Hit('monitor', 'C11:lock:' + m[0], 'bulk worker tasks under a controlled schedule: ' + m[1],
                                      {'harness': 'c11_lock', 'args': [ctx.seed, n], 'case': i_, 'observed': o_}))
            for (k_, a, b) in diffs[:20]:
                r.hits.append(Hit('corr', 'C11:lock:correspondence',
                                  'worker tasks: implementation and model differ on case %s: impl [%s] model [%s]' % (imap.get(k_[1], '?')[:200], a[:400], b[:400]),
                                  {'harness': 'c11_lock', 'args': [ctx.seed, n], 'case': imap.get(k_[1]), 'impl': a, 'model': b}))
            for i_ in ins[:1]:
                r.sample({'lockstep_input_and_schedule': i_, 'observed': [o for o in outs if o.split(' ')[2] == i_.split(' ')[2]][:1]})

    # ---------------------------------------------------------------- (b2) TRACE of the real set_value on a real pool
    if only in (None, 'c11_trace'):
        try:
            h = ctx.build_harness('c11_trace', 'c11_trace.cpp')
        except TieError as e:
            h = None
            r.hits.append(Hit('tie', 'C11:trace_harness', 'trace harness does not compile against the source: %s' % str(e)[-700:],
                              {'harness': 'c11_trace'}))
        if h:
            # (W, D): D = 0 the default pool with W workers; D > 0 a second pool with W PUs behind a default pool with D PUs
            # (global worker numbers D .. D+W-1, pool-local 0 .. W-1): signatures C11:pool:<monitor>
            for (W, D) in ((1, 0), (2, 0), (3, 0), (4, 0), (6, 0), (2, 1), (3, 2), (3, 1)):
                ncs = (50 if quick else 700) if D == 0 else (20 if quick else 250)
                pre = 'trace' if D == 0 else 'pool'
                start, lines = 0, []
                for _ in range(6):
                    rc, out = sh([h, str(ctx.seed), str(ncs), str(W), str(start), str(D)], timeout=600 if quick else 3000)
                    ls = out.split('\n')
                    lines += ls
                    if rc == 0:
                        break
                    last = None
                    for x in ls:
                        if x.startswith('CASE '):
                            last = x
                    r.hits.append(Hit('monitor', 'C11:%s:crash_or_stuck' % pre,
                                      'the real bulk operation on a %d-worker pool%s crashed or never completed (rc=%s) in [%s]: %s'
                                      % (W, ' (second pool behind a default pool of %d)' % D if D else '', rc, last, ' | '.join(ls[-4:])[-400:]),
                                      {'harness': 'c11_trace', 'args': [ctx.seed, ncs, W, 0, D], 'case': last}))
                    if last is None:
                        break
                    start = int(last.split(' ')[1]) + 1
                    if start >= ncs:
                        break
                for x in lines:
                    if x.startswith('TIEFAIL'):
                        r.hits.append(Hit('tie', 'C11:trace:attribution', x[:300], {'harness': 'c11_trace', 'args': [ctx.seed, ncs, W, 0, D]}))
                ins = [x for x in lines if x.startswith('IN TR ')]
                outs = [x for x in lines if x.startswith('OUT TR ')]
                mouts = model(ins)
                diffs, ncases = diff_lines(ctx, outs, mouts)
                r.evaluations += ncases
                r.traces += ncases
                imap = {x.split(' ')[2]: x for x in ins}
                for o_ in outs:
                    i_ = imap.get(o_.split(' ')[2])
                    if not i_:
                        continue
                    p = i_.split(' ')
                    r.count('trace:W=%s' % p[3] if D == 0 else 'trace:second_pool=%d_behind_%d' % (W, D))
                    r.count('trace:throw=%s' % p[7].split(':')[0])
                    if int(p[3]) >= 2 and len(set(p[8].split(','))) >= 2:
                        r.nontrivial(i_[:300])
                    m = lock_monitor(i_, o_)
                    if not m:
                        f_ = fields(o_)
                        fin = [] if f_['fin'] == '-' else f_['fin'].split(',')
                        if sorted(int(x) for x in fin) != list(range(int(p[3]))) or f_['rem'] != '0':
                            m = ('countdown', 'tasks_remaining was decremented on behalf of workers %s, pool has %s workers' % (fin, p[3]))
                    if m:
                        r.hits.append(Hit('monitor', 'C11:%s:%s' % (pre, m[0]), 'real set_value on a real pool%s (W=%s n=%s throw=%s): %s' % (
                                              ' created through the resource partitioner behind a default pool of %d PUs' % D if D else '', p[3], p[4], p[7], m[1]),
                                          {'harness': 'c11_trace', 'args': [ctx.seed, ncs, W, 0, D], 'case': i_[:2000], 'observed': o_[:2000]}))
                for (k_, a, b) in diffs[:10]:
                    # first position where the site sequences differ = the first logged event that is not enabled in the model
                    fa, fb = fields(a) if a.startswith('OUT') else {}, fields(b) if b.startswith('OUT') else {}
                    sa, sb = fa.get('sites', '').split(','), fb.get('sites', '').split(',')
                    pos = next((i for i, (x, y) in enumerate(zip(sa, sb)) if x != y), None)
                    why = ('event #%d (site %s) is not enabled in the model, which has that thread at site %s' % (pos, sa[pos], sb[pos])) if pos is not None else \
                        '; '.join('%s: impl %s model %s' % (q, fa.get(q, '?')[:120], fb.get(q, '?')[:120]) for q in ('calls', 'exits', 'thrown', 'sigs', 'fin', 'rem') if fa.get(q) != fb.get(q))
                    r.hits.append(Hit('corr', 'C11:%s:correspondence' % pre,
                                      'logged order of the real set_value/task_functions is not a run of the model (case %s): %s' % (imap.get(k_[1], '?')[:120], why[:600]),
                                      {'harness': 'c11_trace', 'args': [ctx.seed, ncs, W, 0, D], 'case': imap.get(k_[1], '')[:3000], 'impl': a[:3000], 'model': b[:3000]}))
                for i_ in ins[:1]:
                    if W == 3 and D in (0, 2):
                        r.sample({'trace_input_and_logged_schedule': i_[:600], 'observed': [o[:600] for o in outs if o.split(' ')[2] == i_.split(' ')[2]][:1]})

    # ---------------------------------------------------------------- (c) end to end on the real pool
    if only in (None, 'c11_e2e'):
        try:
            h = ctx.build_harness('c11_e2e', 'c11_e2e.cpp')
        except TieError as e:
            r.hits.append(Hit('tie', 'C11:e2e_harness', 'end-to-end harness does not compile against the source for all 8 shape types: %s' % str(e)[-700:],
                              {'harness': 'c11_e2e'}))
            try:    # the search for a failing input goes on with the 32/64-bit shape types only
                h = ctx.build_harness('c11_e2e_wide', 'c11_e2e.cpp', extra=['-DC11_WIDE_ONLY'])
            except TieError as e2:
                h = None
                r.hits.append(Hit('tie', 'C11:e2e_harness_wide', 'end-to-end harness (32/64-bit shapes only) does not compile: %s' % str(e2)[-500:],
                                  {'harness': 'c11_e2e'}))
        if h:
            ncpu = os.cpu_count() or 4
            tcounts = [t for t in (1, 2, 3, 4, 7, 16) if t <= ncpu]
            big = max(tcounts)
            per = 130 if quick else 1200
            tier = 0 if quick else 1
            for T in tcounts:
                huge = 1 if T == big else 0
                # after a few cases that hang or crash, the run for this worker count is abandoned (each costs a watchdog wait)
                lines, hung, crashed = run_restart(h, [ctx.seed], per, [T, tier, huge], 1500 if quick else 6000,
                                                   max_restarts=6 if huge else 3)
                runs = {x.split(' ')[2]: x for x in lines if x.startswith('RUN E2E ')}
                ins = [x for x in lines if x.startswith('IN E2E ') or x.startswith('IN GEN ')]
                outs = [x for x in lines if x.startswith('OUT E2E ') or x.startswith('OUT GEN ')]
                obs = [x for x in lines if x.startswith('OBS E2E ')]
                args = [ctx.seed, per, 0, T, tier, huge]
                if crashed:
                    rl = runs.get(str(crashed[1]), '?')
                    r.hits.append(Hit('monitor', 'C11:e2e:crash', 'bulk on the real pool crashed (rc=%s) in/after [%s]: %s' % (crashed[0], rl, crashed[2]),
                                      {'harness': 'c11_e2e', 'args': args, 'case': rl}))
                for x in obs:
                    o = fields(x)
                    if o.get('hang') == '1':
                        nn = int(o['n'], 16)
                        r.hits.append(Hit('monitor', 'C11:e2e:no_completion:pool:%s' % shape_class(nn),
                                          'bulk(%s n=%#x, W=%s, throw=%s) on the pool did not complete within the watchdog time (%s calls made; chunk size hook seen: %s)' % (
                                              o['type'], nn, o['W'], o['throw'], o['calls'], o['h1101']),
                                          {'harness': 'c11_e2e', 'args': args, 'case': runs.get(x.split(' ')[2])}))
                        r.evaluations += 1
                        continue
                    r.evaluations += 1
                    r.count('e2e:W=%d' % T)
                    r.count('e2e:type=%s' % o['type'])
                    r.count('e2e:pred=%s' % o['pred'])
                    r.count('e2e:throw=%s' % o['throw'].split(':')[0])
                    r.count('e2e:%s' % shape_class(int(o['n'], 16)))
                    if int(o['n'], 16) > T:
                        r.nontrivial('%d/%s' % (T, runs.get(x.split(' ')[2], x)))
                    m = e2e_monitor(o)
                    if m:
                        r.hits.append(Hit('monitor', 'C11:e2e:' + m[0], m[1],
                                          {'harness': 'c11_e2e', 'args': args, 'case': runs.get(x.split(' ')[2]), 'observed': x}))
                mouts = model(ins)
                diffs, ncases = diff_lines(ctx, outs, mouts)
                r.traces += ncases
                imap = {(x.split(' ')[1], x.split(' ')[2]): x for x in ins}
                for (k_, a, b) in diffs[:10]:
                    r.hits.append(Hit('corr', 'C11:e2e:correspondence',
                                      'bulk on the pool (W=%d): implementation and model differ on [%s]: impl [%s] model [%s]' % (
                                          T, runs.get(k_[1], imap.get(k_, '?'))[:200], a[:400], b[:400]),
                                      {'harness': 'c11_e2e', 'args': args, 'case': runs.get(k_[1]), 'impl': a, 'model': b}))
                if T == big:
                    for x in obs[:2] + obs[6:8]:
                        r.sample({'end_to_end': x[:400]})
            r.extra['worker_counts'] = tcounts

    # ---------------------------------------------------------------- (c2) end to end on pools of the resource partitioner
    if only in (None, 'c11_pool'):
        try:
            h = ctx.build_harness('c11_pool', 'c11_pool.cpp')
        except TieError as e:
            h = None
            r.hits.append(Hit('tie', 'C11:pool_harness', 'pool harness does not compile against the source: %s' % str(e)[-700:],
                              {'harness': 'c11_pool'}))
        if h:
            import random
            rnd = random.Random(ctx.seed * 9176 + 3)
            pols = ['local-priority-fifo', 'local-priority-lifo', 'static-priority', 'local', 'static', 'abp-priority-fifo', 'abp-priority-lifo']
            if quick:
                cfgs = [(D, S, rnd.choice(pols), 45) for (D, S) in ((1, 2), (1, 3), (2, 2), (2, 3))]
            else:
                cfgs = [(D, S, pol, 150) for (D, S) in ((1, 2), (1, 3), (2, 2), (2, 3)) for pol in pols]
            for (D, S, pol, per) in cfgs:
                lines, hung, crashed = run_restart(h, [ctx.seed], per, [D, S, pol], 600 if quick else 3000, max_restarts=3)
                runs = {x.split(' ')[2]: x for x in lines if x.startswith('RUN POOL ')}
                obs = [x for x in lines if x.startswith('OBS POOL ')]
                args = [ctx.seed, per, 0, D, S, pol]
                for x in lines:
                    if x.startswith('TIEFAIL'):
                        r.hits.append(Hit('tie', 'C11:pool:setup', x[:300], {'harness': 'c11_pool', 'args': args}))
                if crashed:
                    rl = runs.get(str(crashed[1]), '?')
                    r.hits.append(Hit('monitor', 'C11:pool:crash',
                                      'bulk on a pool of the resource partitioner (default %d PUs, second pool %d PUs, %s) crashed (rc=%s) in/after [%s]: %s'
                                      % (D, S, pol, crashed[0], rl, crashed[2]), {'harness': 'c11_pool', 'args': args, 'case': rl}))
                for x in obs:
                    o = fields(x)
                    r.evaluations += 1
                    if o.get('hang') == '1':
                        r.hits.append(Hit('monitor', 'C11:pool:no_completion',
                                          'bulk(%s n=%#x, W=%s, pred=%s, throw=%s) on pool %s (default %d PUs + second pool %d PUs, %s) did not complete within '
                                          'the watchdog time (%s calls made)' % (o['type'], int(o['n'], 16), o['W'], o['pred'], o['throw'], o['pool'], D, S, pol, o['calls']),
                                          {'harness': 'c11_pool', 'args': args, 'case': runs.get(x.split(' ')[2])}))
                        continue
                    r.count('pool:layout=%d+%d' % (D, S))
                    r.count('pool:policy=' + pol)
                    r.count('pool:pred=%s' % o['pred'])
                    r.count('pool:throw=%s' % o['throw'].split(':')[0])
                    r.count('pool:set_value_on=%s.%s' % (o['pool'], o['sv_local']))
                    if o['sv_global'] != o['sv_local']:
                        r.count('pool:set_value_on_worker_with_global_ne_local')
                    if int(o.get('offpool', '0')):
                        r.count('pool:calls_on_a_worker_of_another_pool', int(o['offpool']))
                    if int(o['n'], 16) > int(o['W']) and o['sv_global'] != o['sv_local']:
                        r.nontrivial('pool %d+%d %s/%s' % (D, S, pol, runs.get(x.split(' ')[2], x)))
                    m = e2e_monitor(o)
                    if m:
                        r.hits.append(Hit('monitor', 'C11:pool:' + m[0].split(':')[0],
                                          'pool %s of layout default %d PUs + second pool %d PUs (%s), set_value on local worker %s (global %s): %s'
                                          % (o['pool'], D, S, pol, o['sv_local'], o['sv_global'], m[1]),
                                          {'harness': 'c11_pool', 'args': args, 'case': runs.get(x.split(' ')[2]), 'observed': x}))
                for x in obs[:1]:
                    r.sample({'bulk_on_partitioner_pool': x[:420]}, cap=10)
    r.notes.append('shapes beyond 2^31: arithmetic for all of them; executed end to end: 2^31+1 and 2^32+5 with a cheap f '
                   '(quick tier, largest worker count) and all of them with an f that always throws')
    return r
