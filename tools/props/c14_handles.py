# C14 — handle histories (stop_source / stop_token objects, sequential).
# DIFF of the real classes (harness/c14_handles.cpp) against Model/StopHandles.v (h_trace), plus an
# independent reference-semantics monitor of the property on the implementation's observations.
from vlib import Hit, diff_lines, sh

KINDS = {
    'sn': 'src_new', 'sz': 'src_nostate', 'sc': 'src_copy', 'sm': 'src_move', 'sa': 'src_copy_assign',
    'sv': 'src_move_assign', 'sx': 'src_swap', 'sd': 'src_destroy', 'sr': 'src_request',
    'tz': 'tok_default', 'tg': 'tok_get', 'tc': 'tok_copy', 'tm': 'tok_move', 'ta': 'tok_copy_assign',
    'tv': 'tok_move_assign', 'tx': 'tok_swap', 'td': 'tok_destroy',
}

DEAD = 'dead'   # slot holds no object


class _State:
    """an abstract stop state"""
    __slots__ = ('requested',)

    def __init__(self):
        self.requested = False


def _fmt_side(d):
    items = ['%d:%d%d' % (i, p, r) for i, (p, r) in sorted(d.items())]
    return ','.join(items) if items else '-'


def _parse_side(s):
    d = {}
    if s == '-':
        return d
    for e in s.split(','):
        i, pr = e.split(':')
        if len(pr) != 2 or pr[0] not in '01' or pr[1] not in '01' or int(i) in d:
            raise ValueError(e)
        d[int(i)] = (int(pr[0]), int(pr[1]))
    return d


def handles_monitor(in_line, out_line):
    """The property evaluated on one case of the implementation, with reference (value) semantics:
    every handle refers to an abstract state or to nothing.  Returns None or (signature_suffix, detail)."""
    ip = in_line.split()
    ops = ip[3:]
    try:
        op_ = out_line.split()
        body = op_[3] if len(op_) == 5 else ''
        reqf = op_[-1]
        if not reqf.startswith('req=') or len(op_) not in (4, 5):
            raise ValueError('fields')
        obs = body.split(';') if body else []
        reqs = '' if reqf[4:] == '-' else reqf[4:]
        if len(obs) != len(ops):
            raise ValueError('%d observations for %d ops' % (len(obs), len(ops)))
    except Exception as ex:  # noqa
        return 'handles:malformed:output', 'unparsable OUT line (%s): %s / %s' % (ex, in_line, out_line)
    src = {}   # slot -> _State | None     (absent = dead)
    tok = {}
    exp_req = []
    for k, (o, ob) in enumerate(zip(ops, obs)):
        code = o[:2]
        kind = KINDS.get(code)
        if kind is None:
            return 'handles:malformed:input', 'unknown op %s in %s' % (o, in_line)
        a = [int(x) for x in o[2:].split(',')]
        i = a[0]
        j = a[1] if len(a) > 1 else None
        tab = src if code[0] == 's' else tok
        c = code[1]
        if code == 'sn':
            src[i] = _State()
        elif c == 'z':
            tab[i] = None
        elif code == 'tg':
            tok[i] = src[j]
        elif c == 'c':
            tab[i] = tab[j]
        elif c == 'm':
            v = tab[j]
            tab[j] = None
            tab[i] = v
        elif c == 'a':
            tab[i] = tab[j]
        elif c == 'v':
            v = tab[j]
            tab[j] = None
            tab[i] = v          # i == j: the object keeps its state
        elif c == 'x':
            tab[i], tab[j] = tab[j], tab[i]
        elif c == 'd':
            del tab[i]
        elif code == 'sr':
            s = src[i]
            res = s is not None and not s.requested
            if s is not None:
                s.requested = True
            exp_req.append('1' if res else '0')
        # expected observation
        live_src_states = set(id(s) for s in src.values() if s is not None)
        es = {n: (1 if s is not None else 0, 1 if (s is not None and s.requested) else 0) for n, s in src.items()}
        et = {n: (1 if (s is not None and (s.requested or id(s) in live_src_states)) else 0,
                  1 if (s is not None and s.requested) else 0) for n, s in tok.items()}
        try:
            so, to = ob.split('|')
            gs, gt = _parse_side(so), _parse_side(to)
        except Exception:
            return 'handles:malformed:output', 'unparsable observation %r at step %d of %s' % (ob, k + 1, in_line)
        where = 'step %d (%s = %s) of [%s]: expected %s|%s observed %s' % (
            k + 1, o, kind, ' '.join(ops), _fmt_side(es), _fmt_side(et), ob)
        if set(gs) != set(es) or set(gt) != set(et):
            return 'handles:alive_set:' + kind, 'set of alive objects differs at ' + where
        for (g, e, nm) in ((gs, es, 'source'), (gt, et, 'token')):
            for n in sorted(e):
                if g[n][0] != e[n][0]:
                    return 'handles:stop_possible:' + kind, '%s %d stop_possible() = %d, expected %d at %s' % (
                        nm, n, g[n][0], e[n][0], where)
        for (g, e, nm) in ((gs, es, 'source'), (gt, et, 'token')):
            for n in sorted(e):
                if g[n][1] != e[n][1]:
                    return 'handles:stop_requested:' + kind, '%s %d stop_requested() = %d, expected %d at %s' % (
                        nm, n, g[n][1], e[n][1], where)
        if code == 'sr' and reqs[:len(exp_req)] != ''.join(exp_req):
            return 'handles:request_result:src_request', 'request_stop results %s, expected %s at %s' % (
                reqs[:len(exp_req)], ''.join(exp_req), where)
    if reqs != ''.join(exp_req):
        return 'handles:request_result:src_request', 'request_stop results %s, expected %s in [%s]' % (
            reqs, ''.join(exp_req), ' '.join(ops))
    return None


def _plan(ctx):
    if ctx.tier == 'quick':
        return [(ctx.seed, 20000, 12)], 120
    return [(ctx.seed + k, 100000, 20 if k % 2 else 12) for k in range(5)], 900


def run_handles(ctx, r, drv):
    """handle histories: harness on the real objects vs. extracted model + reference monitor"""
    h = ctx.build_harness('c14_handles', 'c14_handles.cpp')
    plan, tmo = _plan(ctx)
    seen_sigs = set()
    nmon = ncorr = 0
    for (sd, n, maxlen) in plan:
        args = [sd, n, maxlen]
        rc, out = sh([h, str(sd), str(n), str(maxlen)], timeout=tmo)
        lines = out.split('\n')
        ins = [x for x in lines if x.startswith('IN H ')]
        outs = [x for x in lines if x.startswith('OUT H ')]
        outmap = {x.split(' ', 3)[2]: x for x in outs}
        if rc != 0 or len(ins) != n:
            last = ins[-1] if ins else None
            r.hits.append(Hit('monitor', 'C14:handles:crash',
                              'handle harness on the real stop_source/stop_token failed rc=%s after %d/%d cases; '
                              'last history: %s; output tail: %s' % (rc, len(outs), n, last, out[-300:].replace('\n', ' / ')),
                              {'harness': 'c14_handles', 'args': args, 'case': last}))
        # cases without OUT (the crashing one) are not sent through the monitor but are reported
        missing = [x for x in ins if x.split(' ', 3)[2] not in outmap]
        if missing and rc == 0:
            r.hits.append(Hit('monitor', 'C14:handles:crash', 'no OUT line for history %s' % missing[0],
                              {'harness': 'c14_handles', 'args': args, 'case': missing[0]}))
        rc2, mout = sh([drv], input='\n'.join(ins) + '\n', timeout=tmo)
        mouts = [x for x in mout.split('\n') if x.startswith('OUT H ')]
        if rc2 != 0:
            r.hits.append(Hit('tie', 'C14:handles:driver', 'model driver failed rc=%s: %s' % (rc2, mout[-400:]),
                              {'harness': 'c14_handles', 'args': args}))
        diffs, ncases = diff_lines(ctx, outs, mouts)
        r.evaluations += ncases
        r.traces += ncases
        inmap = {x.split(' ', 3)[2]: x for x in ins}
        for (k, a, b) in diffs:
            if ncorr >= 20:
                break
            if a.startswith('<implementation produced no line>') and rc != 0:
                continue   # already reported as crash
            ncorr += 1
            r.hits.append(Hit('corr', 'C14:handles:correspondence',
                              'handle history %s: implementation and model differ: impl [%s] model [%s] input [%s]'
                              % (k[1], a, b, inmap.get(k[1])),
                              {'harness': 'c14_handles', 'args': args, 'case': inmap.get(k[1]), 'impl': a, 'model': b}))
        nsamp = 0
        for i_ in ins:
            cid = i_.split(' ', 3)[2]
            o_ = outmap.get(cid)
            if o_ is None:
                continue
            ops = i_.split(' ')[3:]
            codes = set()
            for o in ops:
                r.count('handles_op=' + KINDS.get(o[:2], '?'))
                codes.add(o[:2])
            r.count('handles_len=%d' % len(ops))
            if ('sa' in codes or 'sv' in codes) and 'tg' in codes:
                r.nontrivial(i_)
            m = handles_monitor(i_, o_)
            if m:
                if m[0] in seen_sigs and nmon >= 20:
                    continue
                if m[0] not in seen_sigs or nmon < 20:
                    seen_sigs.add(m[0])
                    nmon += 1
                    r.hits.append(Hit('monitor', 'C14:' + m[0], 'stop_source/stop_token handles: ' + m[1],
                                      {'harness': 'c14_handles', 'args': args, 'case': i_, 'observed': o_}))
            if nsamp < 2:
                nsamp += 1
                r.sample({'history': i_, 'observed': o_})
    return r
